#!/bin/bash
# builds bin/sqlcheck from checker/ when the sources are newer (offline; module cache only)
set -e
cd "$(dirname "$0")"
export GOFLAGS=-mod=mod GOPROXY=off GOSUMDB=off GOTOOLCHAIN=local CGO_ENABLED=0
unset GOWORK
mkdir -p bin out evidence
if [ ! -x bin/sqlcheck ] || [ -n "$(find checker -newer bin/sqlcheck -type f | head -1)" ]; then
  (cd checker && go build -o ../bin/sqlcheck ./cmd/sqlcheck)
fi
