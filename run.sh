#!/bin/bash
# usage: run.sh <property-id> <quick|thorough>
# Decides one property by static analysis of /repo's current working tree.
set -u
cd "$(dirname "$0")"
export GOFLAGS=-mod=mod GOPROXY=off GOSUMDB=off GOTOOLCHAIN=local CGO_ENABLED=0
unset GOWORK
PROP="$1"; TIER="${2:-quick}"
REPO="${VERIF_REPO:-/repo}"
./build.sh >/dev/null 2>build.err || { cat build.err; echo "VIOLATION property=$PROP replay=/verif/build.err"; exit 1; }
if [ "$TIER" = thorough ]; then
  exec ./thorough.sh "$PROP" "$REPO"
fi
exec ./bin/sqlcheck -repo "$REPO" -prop "$PROP" -tier quick
