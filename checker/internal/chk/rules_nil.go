package chk

import (
	"go/token"
	"go/types"
	"strings"

	"golang.org/x/tools/go/ssa"
)

func nilRules() []*Rule {
	return []*Rule{
		{ID: "NIL", Props: []string{"C05", "C10"}, Min: 6,
			Doc: "results of module functions that can return a nil pointer (without an accompanying error) are dereferenced only where a non-nil test of that very result dominates, or where a loop over the same collection validated every element (and returned an error otherwise)",
			Run: runNil},
	}
}

// mayReturnNil: module functions with a pointer result that some return sets to nil while any error result is nil too.
func mayReturnNil(p *Program) map[*ssa.Function]int {
	out := map[*ssa.Function]int{}
	for _, fn := range p.ModFuncs() {
		res := fn.Signature.Results()
		for i := 0; i < res.Len(); i++ {
			if _, ok := res.At(i).Type().Underlying().(*types.Pointer); !ok {
				continue
			}
			for _, r := range returnsOf(fn) {
				if !isNilConst(r.Results[i]) {
					continue
				}
				errNil := true
				if n := res.Len(); n > 1 && isErrorType(res.At(n-1).Type()) {
					errNil = isNilConst(r.Results[n-1])
				}
				if errNil {
					out[fn] = i
				}
			}
		}
	}
	return out
}

func derefs(v ssa.Value) []ssa.Instruction {
	var out []ssa.Instruction
	for _, r := range *v.Referrers() {
		switch x := r.(type) {
		case *ssa.FieldAddr:
			if x.X == v {
				out = append(out, x)
			}
		case *ssa.UnOp:
			if x.Op == token.MUL && x.X == v {
				out = append(out, x)
			}
		case *ssa.IndexAddr:
			if x.X == v {
				out = append(out, x)
			}
		}
	}
	return out
}

func runNil(c *Ctx) {
	p := c.P
	mrn := mayReturnNil(p)
	t := &Termer{P: p}
	for _, fn := range p.ModFuncs() {
		if !p.Reachable(fn) {
			continue
		}
		count := map[string]int{}
		for _, cs := range callsIn(fn) {
			call, ok := cs.(*ssa.Call)
			if !ok {
				continue
			}
			callee := call.Call.StaticCallee()
			idx, may := mrn[callee]
			if callee == nil || !may {
				continue
			}
			var v ssa.Value = call
			if call.Call.Signature().Results().Len() > 1 {
				v = nil
				for _, r := range *call.Referrers() {
					if e, ok := r.(*ssa.Extract); ok && e.Index == idx {
						v = e
					}
				}
				if v == nil {
					continue
				}
			}
			name := p.FnKey(callee)
			count[name]++
			key := p.FnKey(fn) + "→" + name
			if count[name] > 1 {
				key += "#" + itoa(count[name])
			}
			ds := derefs(v)
			// values flowing through phis / stores are not followed: any other use than a nil test or a deref is reported
			if len(ds) == 0 {
				c.Trivial(key, call.Pos(), "result not dereferenced here")
				continue
			}
			bad := ""
			for _, d := range ds {
				paths, ok := EnumLits(fn.Blocks[0], 0, TabOpts{Termer: t, Limit: 300000, StopGoesOn: inCycle(d.Block()),
					Stop: func(in ssa.Instruction, ps *pathState) bool { return in == d }})
				if !ok {
					bad = "too many paths"
					break
				}
				for _, lp := range paths {
					if lp.Stop == nil {
						continue
					}
					term := t.Term(v, lp.PS)
					if lp.Holds(term, token.NEQ, "nil") {
						continue
					}
					if validatedByLoop(p, t, fn, call, callee, lp) {
						continue
					}
					bad = "dereferenced at " + p.Pos(d.Pos()) + " on path [" + pathDesc(lp) + "] without a non-nil test"
					break
				}
				if bad != "" {
					break
				}
			}
			if bad == "" {
				c.Pass(key, call.Pos(), "every dereference of the result is guarded")
			} else {
				c.Fail(key, call.Pos(), "%s can return nil (e.g. an unknown column name from the stored SQL) and its result is %s: nil-pointer panic on a crafted definition", name, bad)
			}
		}
	}
}

// validatedByLoop: the call looks up an element field of a collection X, and the path has completed a loop over X
// whose body performs the same lookup on its element and returns a non-nil error when the result is nil.
func validatedByLoop(p *Program, t *Termer, fn *ssa.Function, call *ssa.Call, callee *ssa.Function, lp *LPath) bool {
	if len(call.Call.Args) < 2 {
		return false
	}
	argTerm := reGen.ReplaceAllString(t.Term(call.Call.Args[1], lp.PS), "")
	// collection prefix: everything before the last '[' of the argument term
	k := strings.LastIndex(argTerm, "[")
	if k < 0 {
		return false
	}
	coll := argTerm[:k]
	suffix := argTerm[strings.Index(argTerm[k:], "]")+k+1:]
	for _, h := range loopHeaders(fn) {
		// the loop must have been left before the dereference: its header is on the path and dominates the call's block
		onPath := false
		for _, pb := range lp.PS.Path {
			if pb == h {
				onPath = true
			}
		}
		if !onPath || loopBody(h)[call.Block()] {
			continue
		}
		bpaths, ok := EnumLits(h, 0, TabOpts{Termer: t, EventOf: callEvents(p),
			Stop: func(in ssa.Instruction, ps *pathState) bool { return in == h.Instrs[0] && len(ps.Path) > 1 }})
		if !ok {
			continue
		}
		validates, sawLookup := true, false
		for _, bp := range bpaths {
			for _, e := range bp.Events {
				if e.Kind != "call" || e.Name != p.FnKey(callee) || len(e.Args) < 2 {
					continue
				}
				a := gen(e.Args[1])
				if !strings.HasPrefix(a, coll+"[i]") || !strings.HasSuffix(a, suffix) {
					continue
				}
				sawLookup = true
				// on the nil outcome the body must leave with an error; continuing requires non-nil
				resTerm := "call:" + e.Name
				for _, l := range bp.Lits {
					if reOrd.ReplaceAllString(l.Subject, "") == resTerm && l.C == "nil" {
						isNil := (l.Op == token.EQL) == l.Val
						if isNil && (bp.Stop != nil || bp.Exit == nil || !retErrDefinitelyNonNil(bp, t)) {
							validates = false
						}
					}
				}
			}
			// a continuing iteration must have performed the lookup
			if bp.Stop != nil && !sawLookup {
				validates = false
			}
		}
		if validates && sawLookup {
			return true
		}
	}
	return false
}
