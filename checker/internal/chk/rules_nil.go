package chk

import (
	"fmt"
	"go/token"
	"go/types"
	"strings"

	"golang.org/x/tools/go/ssa"
)

func nilRules() []*Rule {
	return []*Rule{
		{ID: "NIL", Props: []string{"C05", "C10"}, Min: 6,
			Doc: "results of module functions that can return a nil pointer (without an accompanying error) are dereferenced only where a non-nil test of that very result dominates, or where a loop over the same collection validated every element (and returned an error otherwise)",
			Run: runNil},
		{ID: "NIL-ERR", Props: []string{"C05", "C12"}, Min: 12,
			Doc: "a pointer or interface obtained together with an error is used (field access, method call, dereference) only where the error was tested nil or the value itself tested non-nil: no use-before-check",
			Run: runNilErr},
		{ID: "ASSERT-OK", Props: []string{"C05", "C12", "C01", "C02"}, Min: 40,
			Doc: "the value half of every comma-ok type assertion is used only where the assertion is known to have succeeded: the zero value of a failed assertion never goes on as data",
			Run: runAssertOK},
	}
}

// runNilErr: `t, err := f(); t.x` without looking at err. The module's functions return a nil pointer with their
// errors, so the use is a nil dereference exactly when the call failed.
func runNilErr(c *Ctx) {
	p := c.P
	for _, fn := range p.ModFuncs() {
		if !errFn(p, fn) || !p.Reachable(fn) {
			continue
		}
		count := map[string]int{}
		for _, cs := range callsIn(fn) {
			call, ok := cs.(*ssa.Call)
			if !ok {
				continue
			}
			res := call.Call.Signature().Results()
			if res.Len() < 2 || !isErrorType(res.At(res.Len()-1).Type()) {
				continue
			}
			var errV *ssa.Extract
			vals := map[int]*ssa.Extract{}
			for _, r := range *call.Referrers() {
				if e, ok := r.(*ssa.Extract); ok {
					if e.Index == res.Len()-1 {
						errV = e
					} else {
						vals[e.Index] = e
					}
				}
			}
			for i := 0; i < res.Len()-1; i++ {
				v := vals[i]
				if v == nil {
					continue
				}
				switch v.Type().Underlying().(type) {
				case *types.Pointer, *types.Interface:
				default:
					continue
				}
				ds := derefs(v)
				if len(ds) == 0 {
					continue
				}
				name := calleeName(p, cs)
				count[name]++
				key := fmt.Sprintf("%s→%s result %d", p.FnKey(fn), name, i)
				if count[name] > 1 {
					key += "#" + itoa(count[name])
				}
				bad := ""
				for _, d := range ds {
					if !establishedAt(fn, d.Block(), errV, v) {
						bad = p.Pos(d.Pos())
						break
					}
				}
				c.Check(bad == "", key, call.Pos(), "every use of the result lies behind `err == nil` (or a non-nil test of the result) %s", map[bool]string{true: "", false: "— not the use at " + bad + ": when " + name + " fails the result is nil and this is a nil-pointer panic"}[bad == ""])
			}
		}
	}
}

// establishedAt: block `at` is dominated by the nil edge of a test of errV or by the non-nil edge of a test of v.
func establishedAt(fn *ssa.Function, at *ssa.BasicBlock, errV, v ssa.Value) bool {
	for _, b := range fn.Blocks {
		t := nilTestOf(b.Instrs[len(b.Instrs)-1])
		if t == nil {
			continue
		}
		var edge *ssa.BasicBlock
		switch {
		case errV != nil && t.V == errV:
			edge = t.Nil
		case t.V == v:
			edge = t.NonNil
		default:
			continue
		}
		if len(edge.Preds) == 1 && (edge == at || edge.Dominates(at)) {
			return true
		}
	}
	return false
}

func runAssertOK(c *Ctx) {
	p := c.P
	for _, fn := range p.ModFuncs() {
		if !errFn(p, fn) || !p.Reachable(fn) {
			continue
		}
		n := 0
		for _, in := range instrs(fn) {
			ta, ok := in.(*ssa.TypeAssert)
			if !ok || !ta.CommaOk {
				continue
			}
			var val *ssa.Extract
			for _, r := range *ta.Referrers() {
				if e, ok := r.(*ssa.Extract); ok && e.Index == 0 {
					val = e
				}
			}
			n++
			key := fmt.Sprintf("%s assertion#%d to %s", p.FnKey(fn), n, types.TypeString(ta.AssertedType, func(pk *types.Package) string { return pk.Name() }))
			if val == nil {
				c.Trivial(key, ta.Pos(), "only the verdict is used")
				continue
			}
			bad := ""
			for _, u := range *val.Referrers() {
				if _, isDbg := u.(*ssa.DebugRef); isDbg || u.Block() == nil {
					continue
				}
				at := u.Block()
				if ph, isPhi := u.(*ssa.Phi); isPhi {
					// a phi uses the value on the edge it arrives by
					fine := true
					for i, e := range ph.Edges {
						if e == ssa.Value(val) && failedAssertion(val, at.Preds[i]) {
							fine = false
						}
					}
					if fine {
						continue
					}
				}
				if st, isSt := u.(*ssa.Store); isSt && st.Val == ssa.Value(val) {
					// spilled into a variable (its address is taken later): the variable's uses count
					if al, isAl := st.Addr.(*ssa.Alloc); isAl {
						fine := true
						for _, r := range *al.Referrers() {
							if r != ssa.Instruction(st) && r.Block() != nil && failedAssertion(val, r.Block()) {
								if _, isDbg := r.(*ssa.DebugRef); !isDbg {
									fine = false
									u = r
								}
							}
						}
						if fine {
							continue
						}
						at = u.Block()
					}
				}
				if failedAssertion(val, at) {
					bad = p.Pos(u.Pos())
					if bad == "-" {
						bad = p.Pos(ta.Pos()) + " (" + u.String() + ")"
					}
					break
				}
			}
			c.Check(bad == "", key, ta.Pos(), "the asserted value is used only where the assertion succeeded %s", map[bool]string{true: "", false: "— not at " + bad + ": a value of another type goes on as the zero value (0, \"\", nil, an empty statement) instead of an error"}[bad == ""])
		}
	}
}

// mayReturnNil: module functions with a pointer result that some return sets to nil while any error result is nil too.
func mayReturnNil(p *Program) map[*ssa.Function]int {
	out := map[*ssa.Function]int{}
	for _, fn := range p.ModFuncs() {
		res := fn.Signature.Results()
		for i := 0; i < res.Len(); i++ {
			switch res.At(i).Type().Underlying().(type) {
			case *types.Pointer:
			case *types.Interface:
				if isErrorType(res.At(i).Type()) {
					continue
				}
			default:
				continue
			}
			for _, r := range returnsOf(fn) {
				if !isNilConst(r.Results[i]) && !failedAssertion(r.Results[i], r.Block()) {
					continue
				}
				errNil := true
				if n := res.Len(); n > 1 && isErrorType(res.At(n-1).Type()) {
					errNil = isNilConst(r.Results[n-1])
				}
				if errNil {
					out[fn] = i
				}
			}
		}
	}
	return out
}

// failedAssertion: v is the value half of a comma-ok type assertion and nothing on the way to `at` has established
// that the assertion succeeded — the zero value (a nil interface or pointer) of the failed case gets through.
func failedAssertion(v ssa.Value, at *ssa.BasicBlock) bool {
	e, ok := v.(*ssa.Extract)
	if !ok || e.Index != 0 {
		return false
	}
	ta, ok := e.Tuple.(*ssa.TypeAssert)
	if !ok || !ta.CommaOk {
		return false
	}
	for _, r := range *ta.Referrers() {
		okv, isE := r.(*ssa.Extract)
		if !isE || okv.Index != 1 {
			continue
		}
		for _, u := range *okv.Referrers() {
			i, isIf := u.(*ssa.If)
			if !isIf {
				continue
			}
			yes := i.Block().Succs[0]
			if len(yes.Preds) == 1 && (yes == at || yes.Dominates(at)) {
				return false
			}
		}
		for _, u := range *okv.Referrers() {
			// `if !ok { return }`
			if n, isNot := u.(*ssa.UnOp); isNot && n.Op == token.NOT {
				for _, uu := range *n.Referrers() {
					if i, isIf := uu.(*ssa.If); isIf {
						no := i.Block().Succs[1]
						if len(no.Preds) == 1 && (no == at || no.Dominates(at)) {
							return false
						}
					}
				}
			}
		}
	}
	return true
}

func derefs(v ssa.Value) []ssa.Instruction {
	var out []ssa.Instruction
	for _, r := range *v.Referrers() {
		switch x := r.(type) {
		case ssa.CallInstruction:
			if x.Common().IsInvoke() && x.Common().Value == v {
				out = append(out, x)
			}
		case *ssa.TypeAssert:
			if x.X == v && !x.CommaOk {
				out = append(out, x)
			}
		case *ssa.FieldAddr:
			if x.X == v {
				out = append(out, x)
			}
		case *ssa.UnOp:
			if x.Op == token.MUL && x.X == v {
				out = append(out, x)
			}
		case *ssa.IndexAddr:
			if x.X == v {
				out = append(out, x)
			}
		}
	}
	return out
}

func runNil(c *Ctx) {
	p := c.P
	mrn := mayReturnNil(p)
	t := &Termer{P: p}
	for _, fn := range p.ModFuncs() {
		if !p.Reachable(fn) {
			continue
		}
		count := map[string]int{}
		for _, cs := range callsIn(fn) {
			call, ok := cs.(*ssa.Call)
			if !ok {
				continue
			}
			callee := call.Call.StaticCallee()
			idx, may := mrn[callee]
			if callee == nil || !may {
				continue
			}
			var v ssa.Value = call
			if call.Call.Signature().Results().Len() > 1 {
				v = nil
				for _, r := range *call.Referrers() {
					if e, ok := r.(*ssa.Extract); ok && e.Index == idx {
						v = e
					}
				}
				if v == nil {
					continue
				}
			}
			name := p.FnKey(callee)
			count[name]++
			key := p.FnKey(fn) + "→" + name
			if count[name] > 1 {
				key += "#" + itoa(count[name])
			}
			ds := derefs(v)
			// values flowing through phis / stores are not followed: any other use than a nil test or a deref is reported
			if len(ds) == 0 {
				c.Trivial(key, call.Pos(), "result not dereferenced here")
				continue
			}
			bad := ""
			for _, d := range ds {
				paths, ok := EnumLits(fn.Blocks[0], 0, TabOpts{Termer: t, Limit: 300000, StopGoesOn: inCycle(d.Block()),
					Stop: func(in ssa.Instruction, ps *pathState) bool { return in == d }})
				if !ok {
					bad = "too many paths"
					break
				}
				for _, lp := range paths {
					if lp.Stop == nil {
						continue
					}
					term := t.Term(v, lp.PS)
					if lp.Holds(term, token.NEQ, "nil") {
						continue
					}
					if validatedByLoop(p, t, fn, call, callee, lp) {
						continue
					}
					bad = "dereferenced at " + p.Pos(d.Pos()) + " on path [" + pathDesc(lp) + "] without a non-nil test"
					break
				}
				if bad != "" {
					break
				}
			}
			if bad == "" {
				c.Pass(key, call.Pos(), "every dereference of the result is guarded")
			} else {
				c.Fail(key, call.Pos(), "%s can return nil together with a nil error (e.g. an unknown column name in the stored SQL, a page of the other kind) and its result is %s: nil-pointer panic on a crafted file", name, bad)
			}
		}
	}
}

// validatedByLoop: the call looks up an element field of a collection X, and the path has completed a loop over X
// whose body performs the same lookup on its element and returns a non-nil error when the result is nil.
func validatedByLoop(p *Program, t *Termer, fn *ssa.Function, call *ssa.Call, callee *ssa.Function, lp *LPath) bool {
	if len(call.Call.Args) < 2 {
		return false
	}
	argTerm := reGen.ReplaceAllString(t.Term(call.Call.Args[1], lp.PS), "")
	// collection prefix: everything before the last '[' of the argument term
	k := strings.LastIndex(argTerm, "[")
	if k < 0 {
		return false
	}
	coll := argTerm[:k]
	suffix := argTerm[strings.Index(argTerm[k:], "]")+k+1:]
	for _, h := range loopHeaders(fn) {
		// the loop must have been left before the dereference: its header is on the path and dominates the call's block
		onPath := false
		for _, pb := range lp.PS.Path {
			if pb == h {
				onPath = true
			}
		}
		if !onPath || loopBody(h)[call.Block()] {
			continue
		}
		bpaths, ok := EnumLits(h, 0, TabOpts{Termer: t, EventOf: callEvents(p),
			Stop: func(in ssa.Instruction, ps *pathState) bool { return in == h.Instrs[0] && len(ps.Path) > 1 }})
		if !ok {
			continue
		}
		validates, sawLookup := true, false
		for _, bp := range bpaths {
			for _, e := range bp.Events {
				if e.Kind != "call" || e.Name != p.FnKey(callee) || len(e.Args) < 2 {
					continue
				}
				a := gen(e.Args[1])
				if !strings.HasPrefix(a, coll+"[i]") || !strings.HasSuffix(a, suffix) {
					continue
				}
				sawLookup = true
				// on the nil outcome the body must leave with an error; continuing requires non-nil — established by a
				// test of the result (a lookup whose result nobody looks at validates nothing)
				resTerm := "call:" + e.Name
				tested := false
				for _, l := range bp.Lits {
					if reOrd.ReplaceAllString(l.Subject, "") == resTerm && l.C == "nil" {
						tested = true
						isNil := (l.Op == token.EQL) == l.Val
						if isNil && (bp.Stop != nil || bp.Exit == nil || !retErrDefinitelyNonNil(bp, t)) {
							validates = false
						}
					}
				}
				if !tested && bp.Stop != nil {
					validates = false
				}
			}
			// a continuing iteration must have performed the lookup
			if bp.Stop != nil && !sawLookup {
				validates = false
			}
		}
		if validates && sawLookup {
			return true
		}
	}
	return false
}
