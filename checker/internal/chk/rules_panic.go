package chk

import (
	"fmt"
	"go/token"
	"go/types"
	"os"
	"sort"
	"strings"

	"golang.org/x/tools/go/ssa"
)

func panicRules() []*Rule {
	return []*Rule{
		{ID: "PANIC", Props: []string{"C05", "C16", "C18"}, Min: 400,
			Doc: "every panic-capable instruction (index, slice, non-comma-ok type assertion, explicit panic, integer division, make with a computed size, byte-order reads) in an API-reachable function is discharged on every path reaching it by facts from the path's branch conditions, definitions, checked callee contracts and field invariants",
			Run: runPanic},
	}
}

// ---- linear terms and difference constraints ---------------------------------------------------

type lin struct {
	base string // "" = the constant 0
	off  int64
}

type dcGraph struct {
	// edge a→b with weight w means b − a ≤ w  (i.e. val(b) ≤ val(a) + w)
	edges map[string]map[string]int64
}

func newDC() *dcGraph { return &dcGraph{edges: map[string]map[string]int64{}} }

// addLE records x − y ≤ c.
func (g *dcGraph) addLE(x, y string, c int64) {
	if g.edges[y] == nil {
		g.edges[y] = map[string]int64{}
	}
	if old, ok := g.edges[y][x]; !ok || c < old {
		g.edges[y][x] = c
	}
	if g.edges[x] == nil {
		g.edges[x] = map[string]int64{}
	}
}

// entailsLE: do the constraints entail x − y ≤ c ?  (shortest path from y to x ≤ c)
func (g *dcGraph) entailsLE(x, y string, c int64) bool {
	if x == y {
		return c >= 0
	}
	dist := map[string]int64{y: 0}
	nodes := make([]string, 0, len(g.edges))
	for n := range g.edges {
		nodes = append(nodes, n)
	}
	for iter := 0; iter <= len(nodes); iter++ {
		changed := false
		for a, outs := range g.edges {
			da, ok := dist[a]
			if !ok {
				continue
			}
			for b, w := range outs {
				if db, ok := dist[b]; !ok || da+w < db {
					dist[b] = da + w
					changed = true
				}
			}
		}
		if !changed {
			break
		}
	}
	d, ok := dist[x]
	return ok && d <= c
}

// bound returns the least c with x − y ≤ c entailed.
func (g *dcGraph) bound(x, y string) (int64, bool) {
	if x == y {
		return 0, true
	}
	dist := map[string]int64{y: 0}
	for iter := 0; iter <= len(g.edges)+1; iter++ {
		changed := false
		for a, outs := range g.edges {
			da, ok := dist[a]
			if !ok {
				continue
			}
			for b, w := range outs {
				if db, ok := dist[b]; !ok || da+w < db {
					dist[b] = da + w
					changed = true
				}
			}
		}
		if !changed {
			break
		}
	}
	d, ok := dist[x]
	return d, ok
}

// inconsistent: a negative cycle exists (the path is infeasible).
func (g *dcGraph) inconsistent() bool {
	dist := map[string]int64{}
	for n := range g.edges {
		dist[n] = 0
	}
	n := len(dist)
	for iter := 0; iter <= n; iter++ {
		changed := false
		for a, outs := range g.edges {
			for b, w := range outs {
				if dist[a]+w < dist[b] {
					dist[b] = dist[a] + w
					changed = true
				}
			}
		}
		if !changed {
			return false
		}
	}
	return true
}

type prover struct {
	p           *Program
	t           *Termer
	ps          *pathState
	g           *dcGraph
	seen        map[string]bool // terms whose intrinsic facts were added
	notes       []string
	lits        []Lit
	pendingNE   []ne
	pendingImp  []imp
	sums        []sumFact
	sliceLens   []sliceLenFact
	muls        []mulFact
	nilErr      map[string]bool // error terms established nil on the path
	nonNil      map[string]bool
	pendingDisj []disj
	pendingTab  []tabFact
}

// tabFact: term is tab[idx] of a package-level constant table; settled once the index is known exactly.
type tabFact struct {
	term string
	tab  *constTab
	idx  lin
}

const zero = ""

// linOf decomposes an integer SSA value into base term + constant offset along the path.
// combOf: v as a linear combination of atomic SSA values (additions/subtractions and safe conversions only), with
// the constant part separate. Used to cancel symbolic terms: (i + (n − l)) + l = i + n.
func (pr *prover) combOf(v ssa.Value, sign int64, atoms map[ssa.Value]int64, order *[]ssa.Value, depth int) (c int64, leaves int) {
	v = pr.ps.Resolve(v)
	if n, ok := evalInt(v, pr.ps); ok {
		return sign * n, 0
	}
	if depth < 12 {
		switch x := v.(type) {
		case *ssa.BinOp:
			if x.Op == token.ADD || x.Op == token.SUB {
				s2 := sign
				if x.Op == token.SUB {
					s2 = -sign
				}
				c1, l1 := pr.combOf(x.X, sign, atoms, order, depth+1)
				c2, l2 := pr.combOf(x.Y, s2, atoms, order, depth+1)
				return c1 + c2, l1 + l2
			}
		case *ssa.Convert:
			if safeIntConv(x) {
				return pr.combOf(x.X, sign, atoms, order, depth+1)
			}
		case *ssa.ChangeType:
			return pr.combOf(x.X, sign, atoms, order, depth+1)
		}
	}
	if _, seen := atoms[v]; !seen {
		*order = append(*order, v)
	}
	atoms[v] += sign
	return 0, 1
}

func (pr *prover) linOf(v ssa.Value) lin {
	// symbolic cancellation first: when terms cancel, work on what is left
	if bo, ok := pr.ps.Resolve(v).(*ssa.BinOp); ok && (bo.Op == token.ADD || bo.Op == token.SUB) {
		atoms := map[ssa.Value]int64{}
		var order []ssa.Value
		c, leaves := pr.combOf(bo, 1, atoms, &order, 0)
		var left []ssa.Value
		allPlus := true
		for _, a := range order {
			if atoms[a] != 0 {
				left = append(left, a)
				if atoms[a] != 1 {
					allPlus = false
				}
			}
		}
		if len(left) < leaves && allPlus {
			switch len(left) {
			case 0:
				return lin{zero, c}
			case 1:
				l := pr.linOf(left[0])
				return lin{l.base, l.off + c}
			case 2:
				a, b := pr.linOf(left[0]), pr.linOf(left[1])
				if a.base != zero && b.base != zero {
					term := "(" + a.base + "+" + b.base + ")"
					if !pr.seen[term] {
						pr.seen[term] = true
						pr.sums = append(pr.sums, sumFact{term, lin{a.base, 0}, lin{b.base, 0}})
					}
					return lin{term, a.off + b.off + c}
				}
			}
		}
	}
	off := int64(0)
	for depth := 0; depth < 12; depth++ {
		v = pr.ps.Resolve(v)
		if n, ok := evalInt(v, pr.ps); ok {
			return lin{zero, off + n}
		}
		switch x := v.(type) {
		case *ssa.Convert:
			// widening or same-size integer conversions keep the value for the ranges that matter here
			if safeIntConv(x) {
				v = x.X
				continue
			}
			// any other integer conversion keeps the value when the operand is known to lie in the target's range
			if lossyIntConv(x) && depth < 6 {
				if lo, hi, ok := intRange(x.Type()); ok {
					a := pr.linOf(x.X)
					if pr.g.entailsLE(zero, a.base, a.off-lo) && pr.g.entailsLE(a.base, zero, hi-a.off) {
						return lin{a.base, a.off + off}
					}
				}
			}
		case *ssa.ChangeType:
			v = x.X
			continue
		case *ssa.BinOp:
			if x.Op == token.ADD {
				if n, ok := evalInt(x.Y, pr.ps); ok {
					off += n
					v = x.X
					continue
				}
				if n, ok := evalInt(x.X, pr.ps); ok {
					off += n
					v = x.Y
					continue
				}
			}
			if x.Op == token.SUB {
				if n, ok := evalInt(x.Y, pr.ps); ok {
					off -= n
					v = x.X
					continue
				}
			}
		}
		break
	}
	term := pr.t.Term(v, pr.ps)
	pr.intrinsic(term, v)
	return lin{term, off}
}

// intRange: the values of an integer type (int and uint are taken as 64 bits wide; uint64's upper end as 2^63−1).
func intRange(t types.Type) (lo, hi int64, ok bool) {
	b, isB := t.Underlying().(*types.Basic)
	if !isB || b.Info()&types.IsInteger == 0 {
		return 0, 0, false
	}
	switch b.Kind() {
	case types.Int8:
		return -128, 127, true
	case types.Int16:
		return -32768, 32767, true
	case types.Int32:
		return -1 << 31, 1<<31 - 1, true
	case types.Uint8:
		return 0, 255, true
	case types.Uint16:
		return 0, 65535, true
	case types.Uint32:
		return 0, 1<<32 - 1, true
	case types.Uint, types.Uint64, types.Uintptr:
		return 0, 1 << 62, true
	}
	return -1 << 62, 1 << 62, true // (bounds kept clear of overflow in the difference constraints)
}

// lossyIntConv: an integer-to-integer conversion that does not keep every value (see safeIntConv for what does).
func lossyIntConv(c *ssa.Convert) bool {
	from, ok1 := c.X.Type().Underlying().(*types.Basic)
	to, ok2 := c.Type().Underlying().(*types.Basic)
	if !ok1 || !ok2 || from.Info()&types.IsInteger == 0 || to.Info()&types.IsInteger == 0 {
		return false
	}
	if _, isConst := c.X.(*ssa.Const); isConst {
		return false
	}
	return !safeIntConv(c)
}

func safeIntConv(c *ssa.Convert) bool {
	from, ok1 := c.X.Type().Underlying().(*types.Basic)
	to, ok2 := c.Type().Underlying().(*types.Basic)
	if !ok1 || !ok2 || from.Info()&types.IsInteger == 0 || to.Info()&types.IsInteger == 0 {
		return false
	}
	size := func(b *types.Basic) int {
		switch b.Kind() {
		case types.Int8, types.Uint8:
			return 8
		case types.Int16, types.Uint16:
			return 16
		case types.Int32, types.Uint32:
			return 32
		}
		return 64
	}
	fs, ts := size(from), size(to)
	fu, tu := from.Info()&types.IsUnsigned != 0, to.Info()&types.IsUnsigned != 0
	switch {
	case ts > fs && (!tu || fu): // widening, not signed→unsigned
		return true
	case ts == fs && fu == tu:
		return true
	case ts == 64 && fs == 64 && !fu && !tu:
		return true
	}
	// uintN → int (64-bit) for N < 64
	if fu && !tu && ts > fs {
		return true
	}
	return false
}

// intrinsic adds facts that hold for a term by its construction.
func (pr *prover) intrinsic(term string, v ssa.Value) {
	if pr.seen[term] {
		return
	}
	pr.seen[term] = true
	pr.g.addLE(zero, zero, 0)
	// unsigned / length terms are non-negative
	if b, ok := v.Type().Underlying().(*types.Basic); ok && b.Info()&types.IsUnsigned != 0 {
		pr.g.addLE(zero, term, 0) // 0 − term ≤ 0
		switch b.Kind() {
		case types.Uint8:
			pr.g.addLE(term, zero, 255)
		case types.Uint16:
			pr.g.addLE(term, zero, 65535)
		case types.Uint32:
			pr.g.addLE(term, zero, 1<<32-1)
		}
	}
	// field invariants and element summaries
	pr.structuralFacts(term, v)
	if ct, idx, ok := pr.p.constTableLoad(v); ok {
		lo, hi := int64(0), int64(0)
		for _, e := range ct.vals {
			if e < lo {
				lo = e
			}
			if e > hi {
				hi = e
			}
		}
		pr.g.addLE(zero, term, -lo)
		pr.g.addLE(term, zero, hi)
		pr.pendingTab = append(pr.pendingTab, tabFact{term, ct, pr.linOf(idx)})
	}
	switch x := v.(type) {
	case *ssa.Phi:
		// monotone counter: every edge is a constant or this phi plus a non-negative amount
		lo, ok := int64(0), true
		first := true
		for _, e := range x.Edges {
			if n, isC := constInt(e); isC {
				if first || n < lo {
					lo = n
				}
				first = false
				continue
			}
			if !pr.growsFrom(e, x, 0) {
				ok = false
			}
		}
		if ok && !first {
			pr.g.addLE(zero, term, -lo)
		} else if !first {
			// inductive invariant: phi ≥ lo holds on entry; show every back-edge value keeps it
			if pr.phiLowerInductive(x, lo) {
				pr.g.addLE(zero, term, -lo)
			}
		}
		// a cursor into a string or slice that the loop slices with: phi ≤ len(s) as an inductive invariant
		if isLoopHeader(x.Block()) && isIntType(x.Type()) {
			body := loopBody(x.Block())
			for b := range body {
				for _, in := range b.Instrs {
					sl, isSl := in.(*ssa.Slice)
					if !isSl || sl.Low != ssa.Value(x) || sl.High != nil || !invariantIn(sl.X, body) {
						continue
					}
					if _, isPtr := sl.X.Type().Underlying().(*types.Pointer); isPtr {
						continue
					}
					if pr.phiUpperLenInductive(x, sl.X) {
						lt, _, _ := pr.lenTermOf(sl.X)
						pr.g.addLE(term, lt, 0)
					}
				}
			}
		}
	case *ssa.Call:
		if bi, ok := x.Call.Value.(*ssa.Builtin); ok && (bi.Name() == "len" || bi.Name() == "cap") {
			pr.g.addLE(zero, term, 0)
			pr.lenFacts(term, x.Call.Args[0])
			return
		}
		if cal := x.Call.StaticCallee(); cal != nil {
			switch {
			case isLibFunc(cal, "sort", "Search"):
				n := pr.linOf(x.Call.Args[0])
				pr.g.addLE(zero, term, 0)
				pr.g.addLE(term, n.base, n.off)
			case strings.HasSuffix(calleeName(pr.p, x), "bigEndian).Uint16"):
				pr.g.addLE(zero, term, 0)
				pr.g.addLE(term, zero, 65535)
			case strings.HasSuffix(calleeName(pr.p, x), "bigEndian).Uint32"):
				pr.g.addLE(zero, term, 0)
				pr.g.addLE(term, zero, 1<<32-1)
			case isLibFunc(cal, "math/bits", "OnesCount"):
				pr.g.addLE(zero, term, 0)
			default:
				pr.calleePost(term, x, 0)
			}
		}
	case *ssa.Extract:
		if call, ok := x.Tuple.(*ssa.Call); ok {
			pr.calleePost(term, call, x.Index)
		}
		if rng, ok := x.Tuple.(*ssa.Next); ok && x.Index == 1 && rng.IsString {
			// byte offset of a `for i, r := range s`: 0 ≤ i < len(s)
			if r, ok := rng.Iter.(*ssa.Range); ok {
				ls := "len(" + pr.t.Term(r.X, pr.ps) + ")"
				pr.g.addLE(zero, term, 0)
				pr.g.addLE(term, ls, -1)
				pr.g.addLE(zero, ls, 0)
			}
		}
	case *ssa.BinOp:
		switch x.Op {
		case token.AND:
			// x & c ∈ [0, c]
			if n, ok := evalInt(x.Y, pr.ps); ok && n >= 0 {
				pr.g.addLE(zero, term, 0)
				pr.g.addLE(term, zero, n)
			}
		case token.REM:
			if n, ok := evalInt(x.Y, pr.ps); ok && n > 0 {
				pr.g.addLE(term, zero, n-1)
				pr.g.addLE(zero, term, n-1)
			}
		case token.ADD:
			a, b := pr.linOf(x.X), pr.linOf(x.Y)
			if a.base != zero && b.base != zero {
				pr.sums = append(pr.sums, sumFact{term, a, b})
			}
		case token.MUL:
			if n, ok := evalInt(x.Y, pr.ps); ok && n > 0 {
				pr.muls = append(pr.muls, mulFact{term, pr.linOf(x.X), n})
			} else if n, ok := evalInt(x.X, pr.ps); ok && n > 0 {
				pr.muls = append(pr.muls, mulFact{term, pr.linOf(x.Y), n})
			}
		case token.QUO:
			// (a − c)/k with a ≥ c ⇒ ≥ 0 : left to guards
		case token.SHR:
			a := pr.linOf(x.X)
			if pr.g.entailsLE(zero, a.base, a.off) {
				pr.g.addLE(zero, term, 0)
			}
		}
	}
}

var phiLowerCache = map[*ssa.Phi]int{} // 0 unknown, 1 proven, 2 failed, 3 in progress (assume: induction hypothesis)

func (pr *prover) phiLowerInductive(phi *ssa.Phi, lo int64) bool {
	switch phiLowerCache[phi] {
	case 1, 3:
		return true
	case 2:
		return false
	}
	phiLowerCache[phi] = 3
	h := phi.Block()
	ok := true
	paths, complete := EnumLits(h, 0, TabOpts{Termer: pr.t, Limit: 200000,
		Stop: func(in ssa.Instruction, ps *pathState) bool { return in == h.Instrs[0] && len(ps.Path) > 1 }})
	if !complete {
		ok = false
	}
	for _, lp := range paths {
		if !ok {
			break
		}
		if lp.Stop == nil {
			continue // leaves the loop
		}
		pred := lp.PS.Path[len(lp.PS.Path)-2]
		var edge ssa.Value
		for k, pb := range h.Preds {
			if pb == pred {
				edge = phi.Edges[k]
			}
		}
		if edge == nil {
			ok = false
			break
		}
		sub := newProver(pr.p, pr.t, lp)
		if sub.g.inconsistent() {
			continue
		}
		// evaluate the back-edge value in the iteration that produced it: undo the header's re-entry
		eps := lp.PS.clone()
		if eps.BlockGen != nil {
			delete(eps.BlockGen, h)
		}
		sub.ps = eps
		e := sub.linOf(edge)
		sub.applyDisj()
		if !sub.g.entailsLE(zero, e.base, e.off-lo) {
			ok = false
		}
	}
	if ok {
		phiLowerCache[phi] = 1
	} else {
		phiLowerCache[phi] = 2
	}
	return ok
}

var phiUpperCache = map[[2]ssa.Value]int{} // (phi, x) → 0 unknown, 1 proven, 2 failed, 3 in progress

// phiUpperLenInductive: the loop counter phi never exceeds len(x), x unchanged by the loop — by induction over the
// iterations: it starts at a constant ≤ 0, and an iteration that starts with phi ≤ len(x) hands on a value ≤ len(x)
// (`rest := s[i:]` taken before the end test; the cursor advances by counts bounded by len(rest)).
func (pr *prover) phiUpperLenInductive(phi *ssa.Phi, x ssa.Value) bool {
	key := [2]ssa.Value{phi, x}
	switch phiUpperCache[key] {
	case 1, 3:
		return true
	case 2:
		return false
	}
	phiUpperCache[key] = 3
	h := phi.Block()
	ok := true
	for k, pb := range h.Preds {
		if h.Dominates(pb) {
			continue
		}
		if n, isC := constInt(phi.Edges[k]); !isC || n > 0 {
			ok = false
		}
	}
	var paths []*LPath
	if ok {
		var complete bool
		paths, complete = EnumLits(h, 0, TabOpts{Termer: pr.t, Limit: 200000,
			Stop: func(in ssa.Instruction, ps *pathState) bool { return in == h.Instrs[0] && len(ps.Path) > 1 }})
		ok = complete
	}
	for _, lp := range paths {
		if !ok {
			break
		}
		if lp.Stop == nil {
			continue
		}
		pred := lp.PS.Path[len(lp.PS.Path)-2]
		var edge ssa.Value
		for k, pb := range h.Preds {
			if pb == pred {
				edge = phi.Edges[k]
			}
		}
		if edge == nil {
			ok = false
			break
		}
		sub := newProver(pr.p, pr.t, lp)
		eps := lp.PS.clone()
		if eps.BlockGen != nil {
			delete(eps.BlockGen, h)
		}
		sub.ps = eps
		lt, _, isArr := sub.lenTermOf(x)
		if isArr {
			ok = false
			break
		}
		cur := sub.linOf(phi)
		sub.g.addLE(cur.base, lt, -cur.off) // the hypothesis
		if sub.g.inconsistent() {
			continue
		}
		e := sub.linOf(edge)
		sub.applyDisj()
		if !sub.g.entailsLE(e.base, lt, -e.off) {
			ok = false
			if os.Getenv("SQLCHECK_DEBUG") != "" {
				fmt.Fprintf(os.Stderr, "phiUpper %s ≤ %s fails: edge %s+%d on path [%s]\n", cur.base, lt, e.base, e.off, pathDesc(lp))
			}
		}
	}
	if ok {
		phiUpperCache[key] = 1
	} else {
		phiUpperCache[key] = 2
	}
	return ok
}

// growsFrom: value e equals phi + (something proven ≥ 0 independent of the path), possibly through further phis.
func (pr *prover) growsFrom(e ssa.Value, phi *ssa.Phi, depth int) bool {
	if depth > 6 {
		return false
	}
	if e == ssa.Value(phi) {
		return true
	}
	switch x := e.(type) {
	case *ssa.Phi:
		for _, ee := range x.Edges {
			if !pr.growsFrom(ee, phi, depth+1) {
				return false
			}
		}
		return true
	case *ssa.BinOp:
		if x.Op == token.ADD {
			if pr.nonNegAlways(x.Y) && pr.growsFrom(x.X, phi, depth+1) {
				return true
			}
			if pr.nonNegAlways(x.X) && pr.growsFrom(x.Y, phi, depth+1) {
				return true
			}
		}
		if x.Op == token.SUB {
			if n, ok := constInt(x.Y); ok && n <= 0 {
				return pr.growsFrom(x.X, phi, depth+1)
			}
		}
	}
	return false
}

// nonNegAlways: v ≥ 0 by construction (constants, lengths, unsigned values, known non-negative results).
func (pr *prover) nonNegAlways(v ssa.Value) bool {
	if n, ok := constInt(v); ok {
		return n >= 0
	}
	switch x := v.(type) {
	case *ssa.Convert:
		return pr.nonNegAlways(x.X)
	case *ssa.Call:
		if bi, ok := x.Call.Value.(*ssa.Builtin); ok && (bi.Name() == "len" || bi.Name() == "cap") {
			return true
		}
	case *ssa.Extract:
		if call, ok := x.Tuple.(*ssa.Call); ok {
			name := calleeName(pr.p, call)
			if name == "unicode/utf8.DecodeRuneInString" && x.Index == 1 {
				return true
			}
		}
	case *ssa.BinOp:
		if x.Op == token.ADD {
			return pr.nonNegAlways(x.X) && pr.nonNegAlways(x.Y)
		}
		if x.Op == token.SUB {
			// len(x) − 1 style amounts are handled by guards, not here
			return false
		}
	}
	if b, ok := v.Type().Underlying().(*types.Basic); ok && b.Info()&types.IsUnsigned != 0 {
		return true
	}
	return false
}

// structuralFacts: field invariants and element summaries (each verified by CONTRACT rules or listed as assumption).
func (pr *prover) structuralFacts(term string, v ssa.Value) {
	// field loads
	var fa ssa.Value
	switch x := v.(type) {
	case *ssa.UnOp:
		if x.Op == token.MUL {
			fa = x.X
		}
	case *ssa.Field:
		fa = x
	}
	if fa != nil {
		if fv := fieldOf(fa); fv != nil {
			var owner types.Type
			switch y := fa.(type) {
			case *ssa.FieldAddr:
				owner = y.X.Type()
			case *ssa.Field:
				owner = y.X.Type()
			}
			if n := namedOf(owner); n != nil {
				key := n.Obj().Name() + "." + fieldVarName(fv)
				if key == "columnIndex.rowIndex" {
					// CONTRACT columnIndex: rowIndex ≥ 0 whenever rowid is false (checked on every composite literal)
					flag := strings.TrimSuffix(term, ".rowIndex") + ".rowid"
					for _, l := range pr.lits {
						if l.Subject == flag && l.Op == token.EQL && ((l.C == "true") != l.Val) {
							pr.g.addLE(zero, term, 0)
						}
					}
				}
				if _, listed := fieldInvariants[key]; !listed && pr.counterField(fv) {
					// a field that is only ever set to a non-negative constant or to itself plus a non-negative
					// constant (and starts at its zero value) is never negative
					pr.g.addLE(zero, term, 0)
				}
				if inv, ok := fieldInvariants[key]; ok {
					pr.g.addLE(zero, term, -inv.lo)
					if inv.hasHi {
						pr.g.addLE(term, zero, inv.hi)
					}
				}
			}
		}
		// element loads
		if ia, ok := fa.(*ssa.IndexAddr); ok {
			pr.elementFacts(term, ia.X)
		}
	}
	if ix, ok := v.(*ssa.Index); ok {
		pr.elementFacts(term, ix.X)
	}
	// range-value copies: `for _, v := range s` lowers to a load of &s[i]
}

func (pr *prover) elementFacts(term string, slice ssa.Value) {
	slice = pr.ps.Resolve(slice)
	if call, idx := extractOf(slice); call != nil && idx == 0 && calleeName(pr.p, call) == "db.parseCellpointers" {
		// CONTRACT cellpointers: 0 ≤ element ≤ maxLen (third argument)
		m := pr.linOf(call.Call.Args[2])
		pr.g.addLE(zero, term, 0)
		pr.g.addLE(term, m.base, m.off)
	}
	if prm, ok := slice.(*ssa.Parameter); ok {
		for _, f := range precondsOf(pr.p, prm.Parent()) {
			if f.kind == "elems>=" && prm.Parent().Params[f.param] == prm {
				pr.g.addLE(zero, term, -f.n)
			}
		}
	}
}

type fieldInv struct {
	lo, hi int64
	hasHi  bool
}

// field invariants: proven at every store by FIELD-INV (rules_panic2.go)
var fieldInvariants = map[string]fieldInv{
	"cellPayload.Length": {lo: 0, hi: 1<<31 - 1, hasHi: true},
	"header.PageSize":    {lo: 512, hi: 65536, hasHi: true},
}

type pfact struct {
	kind  string // "len>=", "val>=", "val<=", "elems>=", "len>=len", "flag"
	param int
	n     int64
	other int
	field string
}

// preconds: facts a function may assume about its parameters; each is an obligation at every static call site
// unless the function is listed in assumedPre (API arguments / cross-component agreements, with the reason).
var preconds = map[string][]pfact{
	"db.readTwos24":               {{kind: "len>=", param: 0, n: 3}},
	"db.readTwos48":               {{kind: "len>=", param: 0, n: 6}},
	"db.newBtree":                 {{kind: "len>=", param: 0, n: 512}, {kind: "val>=", param: 2, n: 512}, {kind: "val<=", param: 2, n: 65536}},
	"db.newLeafTableBtree":        {{kind: "val>=", param: 0, n: 0}, {kind: "val<=", param: 0, n: 65535}, {kind: "val>=", param: 3, n: 512}, {kind: "val<=", param: 3, n: 65536}},
	"db.newInteriorTableBtree":    {{kind: "val>=", param: 0, n: 0}, {kind: "val<=", param: 0, n: 65535}},
	"db.newLeafIndex":             {{kind: "val>=", param: 0, n: 0}, {kind: "val<=", param: 0, n: 65535}, {kind: "val>=", param: 3, n: 512}, {kind: "val<=", param: 3, n: 65536}},
	"db.newInteriorIndex":         {{kind: "val>=", param: 0, n: 0}, {kind: "val<=", param: 0, n: 65535}, {kind: "val>=", param: 4, n: 512}, {kind: "val<=", param: 4, n: 65536}},
	"db.parseCellpointers":        {{kind: "val>=", param: 0, n: 0}, {kind: "val<=", param: 0, n: 65535}},
	"db.parseTableLeaf":           {{kind: "val>=", param: 1, n: 512}, {kind: "val<=", param: 1, n: 65536}},
	"db.parseIndexLeaf":           {{kind: "val>=", param: 1, n: 512}, {kind: "val<=", param: 1, n: 65536}},
	"db.parseIndexInterior":       {{kind: "val>=", param: 1, n: 512}, {kind: "val<=", param: 1, n: 65536}},
	"db.parsePayload":             {{kind: "val>=", param: 2, n: 512}, {kind: "val<=", param: 2, n: 65536}},
	"db.calculateCellInPageBytes": {{kind: "val>=", param: 1, n: 512}, {kind: "val<=", param: 1, n: 65536}},
	"(*db.filePager).page":        {{kind: "val>=", param: 2, n: 0}, {kind: "val<=", param: 2, n: 65536}},
	"(*db.bytePager).page":        {{kind: "val>=", param: 2, n: 0}, {kind: "val<=", param: 2, n: 65536}},
	"(sqlittle.Row).scanString":   {{kind: "val>=", param: 1, n: 0}},
	"(sqlittle.Row).scanBytes":    {{kind: "val>=", param: 1, n: 0}},
	"(sqlittle.Row).scanInt64":    {{kind: "val>=", param: 1, n: 0}},
	"(sqlittle.Row).scanFloat64":  {{kind: "val>=", param: 1, n: 0}},
	"(sqlittle.Row).scanTime":     {{kind: "val>=", param: 1, n: 0}},
	"sql.readOp":                  {{kind: "len>=", param: 0, n: 1}},
	"sqlittle.setKey":             {{kind: "elems>=", param: 1, n: 0}, {kind: "len>=len", param: 2, other: 1}},
	// WITHOUT ROWID-only helpers: the schema argument has WithoutRowid set
	"sqlittle.columnStoreOrder":        {{kind: "flag", param: 0, field: "WithoutRowid"}},
	"sqlittle.pkColumns":               {{kind: "flag", param: 0, field: "WithoutRowid"}},
	"sqlittle.toColumnIndexNonRowid":   {{kind: "flag", param: 0, field: "WithoutRowid"}},
	"sqlittle.selectNonRowid":          {{kind: "flag", param: 1, field: "WithoutRowid"}},
	"sqlittle.pkSelectNonRowid":        {{kind: "flag", param: 1, field: "WithoutRowid"}},
	"sqlittle.indexedSelectNonRowid":   {{kind: "flag", param: 1, field: "WithoutRowid"}},
	"sqlittle.indexedSelectEqNonRowid": {{kind: "flag", param: 1, field: "WithoutRowid"}},
}

// precondsOf: the preconditions of fn with the parameter positions of the confirmed signature carried over to fn's
// current one (parameters reordered or added: the k-th parameter of a type stays the k-th parameter of that type).
func precondsOf(p *Program, fn *ssa.Function) []pfact {
	if fn == nil {
		return nil
	}
	facts := preconds[p.FnKey(fn)]
	if len(facts) == 0 {
		return nil
	}
	m := p.ParamMap(fn)
	if m == nil {
		return facts
	}
	out := make([]pfact, len(facts))
	for i, f := range facts {
		if j, ok := m[f.param]; ok {
			f.param = j
		}
		if f.kind == "len>=len" {
			if j, ok := m[f.other]; ok {
				f.other = j
			}
		}
		out[i] = f
	}
	return out
}

// assumedPre: preconditions that are not proven at call sites, with the reason (listed in the evidence).
var assumedPre = map[string]string{
	"sqlittle.setKey": "cross-component agreement: `indexes` is pkColumns' result (positions found in, or appended to, the index definition: ≥ 0) and `key` was built with one entry per primary-key column, as was `indexes`",
}

// lenFacts relates len(x) to the construction of x.
func (pr *prover) lenFacts(lenTerm string, x ssa.Value) {
	x = pr.ps.Resolve(x)
	switch s := x.(type) {
	case *ssa.Slice:
		base := pr.ps.Resolve(s.X)
		var baseLen string
		if _, isArr := base.Type().Underlying().(*types.Pointer); isArr {
			if arr, ok := base.Type().Underlying().(*types.Pointer).Elem().Underlying().(*types.Array); ok {
				baseLen = zero
				_ = arr
				n := arr.Len()
				lo := lin{zero, 0}
				if s.Low != nil {
					lo = pr.linOf(s.Low)
				}
				if s.High == nil && lo.base == zero {
					pr.g.addLE(lenTerm, zero, n-lo.off)
					pr.g.addLE(zero, lenTerm, lo.off-n)
				}
				if s.High != nil {
					// arr[lo:hi]: len = hi − lo
					hi := pr.linOf(s.High)
					if lo.base == zero {
						pr.g.addLE(lenTerm, hi.base, hi.off-lo.off)
						pr.g.addLE(hi.base, lenTerm, lo.off-hi.off)
					} else if hi.base == lo.base {
						pr.g.addLE(lenTerm, zero, hi.off-lo.off)
						pr.g.addLE(zero, lenTerm, lo.off-hi.off)
					}
				}
				return
			}
		}
		baseLen, _, _ = pr.lenTermOf(base)
		lo := lin{zero, 0}
		if s.Low != nil {
			lo = pr.linOf(s.Low)
		}
		switch {
		case s.High == nil && lo.base == zero:
			// len = len(base) − lo
			pr.g.addLE(lenTerm, baseLen, -lo.off)
			pr.g.addLE(baseLen, lenTerm, lo.off)
		case s.High == nil:
			// len = len(base) − lo ≤ len(base) when lo ≥ 0
			if pr.g.entailsLE(zero, lo.base, lo.off) {
				pr.g.addLE(lenTerm, baseLen, 0)
			}
			pr.g.addLE(lenTerm, baseLen, 0)
			pr.sliceLens = append(pr.sliceLens, sliceLenFact{lenTerm, baseLen, lo})
		default:
			hi := pr.linOf(s.High)
			if lo.base == zero {
				// len = hi − lo
				pr.g.addLE(lenTerm, hi.base, hi.off-lo.off)
				pr.g.addLE(hi.base, lenTerm, lo.off-hi.off)
			} else if hi.base == lo.base {
				pr.g.addLE(lenTerm, zero, hi.off-lo.off)
				pr.g.addLE(zero, lenTerm, lo.off-hi.off)
			} else {
				pr.g.addLE(lenTerm, hi.base, hi.off) // len ≤ hi when lo ≥ 0
			}
		}
	case *ssa.UnOp:
		// an element of a package-level list of string constants
		if st := pr.p.strTableElem(s); st != nil {
			pr.g.addLE(zero, lenTerm, -st.minLen)
			pr.g.addLE(lenTerm, zero, st.maxLen)
		}
	case *ssa.MakeSlice:
		n := pr.linOf(s.Len)
		pr.g.addLE(lenTerm, n.base, n.off)
		pr.g.addLE(n.base, lenTerm, -n.off)
	case *ssa.Convert:
		// string(bytes) / []byte(string): same length
		inner := "len(" + pr.t.Term(s.X, pr.ps) + ")"
		pr.g.addLE(lenTerm, inner, 0)
		pr.g.addLE(inner, lenTerm, 0)
		pr.g.addLE(zero, inner, 0)
	case *ssa.Extract:
		if call, ok := s.Tuple.(*ssa.Call); ok {
			pr.calleeLenPost(lenTerm, call, s.Index)
		}
	case *ssa.Call:
		if bi, ok := s.Call.Value.(*ssa.Builtin); ok && bi.Name() == "append" && len(s.Call.Args) == 2 {
			a, _, _ := pr.lenTermOf(s.Call.Args[0])
			b, _, _ := pr.lenTermOf(s.Call.Args[1])
			pr.sums = append(pr.sums, sumFact{lenTerm, lin{a, 0}, lin{b, 0}})
			return
		}
		pr.calleeLenPost(lenTerm, s, 0)
	}
}

// ---- callee contracts (each verified by contractRules or listed as an assumption) ---------------

// calleePost adds facts about integer result #idx of a call.
func (pr *prover) calleePost(term string, call *ssa.Call, idx int) {
	name := calleeName(pr.p, call)
	switch {
	case name == "db.readVarint" && idx == 1:
		// n = −1 ∨ 1 ≤ n ≤ len(b), n ≤ 9
		arg := "len(" + pr.t.Term(call.Call.Args[0], pr.ps) + ")"
		pr.g.addLE(zero, arg, 0)
		pr.g.addLE(zero, term, 1) // n ≥ −1
		pr.g.addLE(term, zero, 9) // n ≤ 9
		pr.notes = append(pr.notes, "readVarint.n")
		pr.pendingDisj = append(pr.pendingDisj, disj{term: term, ifGE: 0, thenGE: 1, alsoLE: arg})
	case name == "(*db.Schema).Column" || name == "(*db.SchemaIndex).Column":
		// −1 ∨ 0 ≤ n < len(recv.Columns)
		recv := pr.t.Term(call.Call.Args[0], pr.ps)
		cols := "len(" + recv + ".Columns)"
		pr.g.addLE(zero, cols, 0)
		pr.g.addLE(zero, term, 1)
		pr.pendingDisj = append(pr.pendingDisj, disj{term: term, ifGE: 0, thenGE: 0, alsoLT: cols})
	case name == "sql.readBareword" && idx == 1:
		// ASSUMED (token readers consume ≥ 1 byte of a prefix that starts with a matching rune) and ≤ len(s)
		arg := "len(" + pr.t.Term(call.Call.Args[0], pr.ps) + ")"
		pr.g.addLE(zero, arg, 0)
		pr.g.addLE(zero, term, -1)
		pr.g.addLE(term, arg, 0)
	case name == "sql.readNumericLiteral" && idx == 1:
		arg, _, _ := pr.lenTermOf(call.Call.Args[0])
		pr.g.addLE(zero, arg, 0)
		pr.g.addLE(term, arg, 0) // −1 or 1..len: at most len either way
		pr.g.addLE(zero, term, 1)
		pr.pendingDisj = append(pr.pendingDisj, disj{term: term, ifGE: 0, thenGE: 1, alsoLE: arg})
	case name == "sql.readQuoted" && idx == 1:
		arg, _, _ := pr.lenTermOf(call.Call.Args[1])
		pr.g.addLE(zero, arg, 0)
		pr.g.addLE(term, arg, 0) // −1 or 1..len: at most len either way
		pr.g.addLE(zero, term, 1)
		pr.pendingDisj = append(pr.pendingDisj, disj{term: term, ifGE: 0, thenGE: 1, alsoLE: arg})
	case (name == "strings.IndexRune" || name == "strings.IndexByte" || name == "strings.LastIndexByte" || name == "strings.IndexAny" || name == "strings.IndexFunc") && idx == 0:
		// library contract: −1, or the byte index of a match inside s: 0 ≤ n < len(s)
		arg, _, _ := pr.lenTermOf(call.Call.Args[0])
		pr.g.addLE(zero, arg, 0)
		pr.g.addLE(zero, term, 1)
		pr.pendingDisj = append(pr.pendingDisj, disj{term: term, ifGE: 0, thenGE: 0, alsoLT: arg})
	case name == "unicode/utf8.DecodeRuneInString" && idx == 1:
		// 0 ≤ size ≤ len(s), size ≥ 1 when len(s) ≥ 1
		arg := "len(" + pr.t.Term(call.Call.Args[0], pr.ps) + ")"
		pr.lenTermOf(call.Call.Args[0])
		pr.g.addLE(zero, term, 0)
		pr.g.addLE(term, arg, 0)
		pr.g.addLE(term, zero, 4)
		pr.pendingImp = append(pr.pendingImp, imp{arg, 1, term, 1})
	case name == "db.calculateCellInPageBytes":
		// SPILL-RANGE (hand-proved for U ≥ 512, see DESIGN.md): the result is P itself or a value in [39, U]; so result ≥ 0 when P ≥ 0
		l := pr.linOf(call.Call.Args[0])
		if l.off == 0 {
			pr.pendingImp = append(pr.pendingImp, imp{l.base, 0, term, 0})
		}
	}
}

func boolToInt(b bool) int {
	if b {
		return 1
	}
	return 0
}

// calleeLenPost adds facts about the length of slice result #idx of a call.
func (pr *prover) calleeLenPost(lenTerm string, call *ssa.Call, idx int) {
	name := calleeName(pr.p, call)
	cc := call.Common()
	switch {
	case (name == "db.pager.page" || strings.HasSuffix(name, ".page")) && idx == 0 && cc.IsInvoke():
		// contract PAGE-LEN: on a nil error the page has exactly `size` bytes
		sz := pr.linOf(cc.Args[1])
		pr.contractNilErr(call, func() {
			pr.g.addLE(lenTerm, sz.base, sz.off)
			pr.g.addLE(sz.base, lenTerm, -sz.off)
		})
	case name == "(*db.Database).page" && idx == 0:
		// = header.PageSize ∈ [512, 65536]
		pr.contractNilErr(call, func() {
			pr.g.addLE(zero, lenTerm, -512)
			pr.g.addLE(lenTerm, zero, 65536)
			ps := pr.t.Term(call.Call.Args[0], pr.ps) + ".header.PageSize"
			pr.g.addLE(lenTerm, ps, 0)
			pr.g.addLE(ps, lenTerm, 0)
		})
	case name == "db.parseCellpointers" && idx == 0:
		n := pr.linOf(cc.Args[0])
		pr.contractNilErr(call, func() {
			pr.g.addLE(lenTerm, n.base, n.off)
			pr.g.addLE(n.base, lenTerm, -n.off)
		})
	case (name == "strings.ToLower" || name == "strings.ToUpper") && len(cc.Args) == 1:
		// library fact: case mapping maps rune to rune and drops none, so a non-empty argument gives a non-empty
		// result; string(r) of a rune is never empty (an invalid rune encodes U+FFFD)
		if cv, ok := pr.ps.Resolve(cc.Args[0]).(*ssa.Convert); ok {
			if b, ok := cv.X.Type().Underlying().(*types.Basic); ok && b.Info()&types.IsInteger != 0 {
				pr.g.addLE(zero, lenTerm, -1)
			}
		}
	case name == "sql.readOp":
		// provable: returns s (len 1), s[:2] or s[:1]
		pr.g.addLE(zero, lenTerm, -1)
		pr.g.addLE(lenTerm, zero, 2)
		arg := "len(" + pr.t.Term(cc.Args[0], pr.ps) + ")"
		pr.g.addLE(lenTerm, arg, 0)
	case name == "sqlittle.columnStoreOrder":
		// len(result) = number of distinct column names incl. the primary key's ≥ … (see CONTRACT columnStoreOrder)
		cols := "len(" + pr.t.Term(cc.Args[0], pr.ps) + ".Columns)"
		pr.g.addLE(zero, cols, 0)
		pr.g.addLE(cols, lenTerm, 0)
	}
}

// contractNilErr applies f when the path established a nil error for the call (or the call has no error result).
func (pr *prover) contractNilErr(call *ssa.Call, f func()) {
	sig := call.Call.Signature()
	n := sig.Results().Len()
	if n == 0 || !isErrorType(sig.Results().At(n-1).Type()) {
		f()
		return
	}
	name := "call:" + calleeName(pr.p, call)
	errTerm := pr.t.Term(call, pr.ps)
	if n > 1 {
		errTerm += fmt.Sprintf("#%d", n-1)
	}
	_ = name
	if pr.nilErr[errTerm] {
		f()
	}
}

// imp: when a ≥ an is entailed, then b ≥ bn.
type imp struct {
	a  string
	an int64
	b  string
	bn int64
}

type sumFact struct {
	t    string
	a, b lin
} // t = a + b

type sliceLenFact struct {
	t, baseLen string
	lo         lin
} // t = baseLen − (lo.base + lo.off)

type mulFact struct {
	t string
	x lin
	c int64
}

type ne struct {
	x, y string
	c    int64 // x − y ≠ c
}

type disj struct {
	term   string
	ifGE   int64  // when term ≥ ifGE is entailed …
	thenGE int64  // … then term ≥ thenGE
	alsoLE string // … and term ≤ alsoLE
	alsoLT string // … and term < alsoLT
}

func (pr *prover) applyDisj() {
	for changed := true; changed; {
		changed = false
		for i, d := range pr.pendingNE {
			if d.x == "" && d.y == "" && d.c == 0 && i >= 0 && false {
				continue
			}
			_ = i
			// x − y ≠ c: tighten a bound that touches c
			if pr.g.entailsLE(d.x, d.y, d.c) && !pr.g.entailsLE(d.x, d.y, d.c-1) {
				pr.g.addLE(d.x, d.y, d.c-1)
				changed = true
			}
			if pr.g.entailsLE(d.y, d.x, -d.c) && !pr.g.entailsLE(d.y, d.x, -d.c-1) {
				pr.g.addLE(d.y, d.x, -d.c-1)
				changed = true
			}
		}
		for _, tf := range pr.pendingTab {
			up, ok1 := pr.g.bound(tf.idx.base, zero) // idx.base ≤ up
			dn, ok2 := pr.g.bound(zero, tf.idx.base) // idx.base ≥ −dn
			if ok1 && ok2 && up == -dn {
				k := up + tf.idx.off
				if k >= 0 && k < tf.tab.n {
					e := tf.tab.vals[k]
					if !pr.g.entailsLE(tf.term, zero, e) || !pr.g.entailsLE(zero, tf.term, -e) {
						pr.g.addLE(tf.term, zero, e)
						pr.g.addLE(zero, tf.term, -e)
						changed = true
					}
				}
			}
		}
		for _, m := range pr.pendingImp {
			if pr.g.entailsLE(zero, m.a, -m.an) && !pr.g.entailsLE(zero, m.b, -m.bn) {
				pr.g.addLE(zero, m.b, -m.bn)
				changed = true
			}
		}
		for _, sf := range pr.sums {
			// t = A + B with A = a.base+a.off, B = b.base+b.off:  B ≥ L ⇒ t − a.base ≥ a.off + L  (and symmetrically)
			for _, pair := range [][2]lin{{sf.a, sf.b}, {sf.b, sf.a}} {
				x, y := pair[0], pair[1]
				if d, ok := pr.g.bound(zero, y.base); ok { // y.base ≥ −d
					lo := -d + y.off
					if !pr.g.entailsLE(x.base, sf.t, -(x.off + lo)) {
						pr.g.addLE(x.base, sf.t, -(x.off + lo))
						changed = true
					}
				}
				if d, ok := pr.g.bound(y.base, zero); ok { // y.base ≤ d
					hi := d + y.off
					if !pr.g.entailsLE(sf.t, x.base, x.off+hi) {
						pr.g.addLE(sf.t, x.base, x.off+hi)
						changed = true
					}
				}
			}
		}
		// t = x + y with y ≤ len(s[x+k:]) + d  ⇒  t ≤ len(s) − k + d   (`i + n` where n counts bytes of s[i+2:])
		for _, sf := range pr.sums {
			for _, pair := range [][2]lin{{sf.a, sf.b}, {sf.b, sf.a}} {
				x, y := pair[0], pair[1]
				for _, sl := range pr.sliceLens {
					if sl.lo.base != x.base {
						continue
					}
					if d, ok := pr.g.bound(y.base, sl.t); ok { // y.base − len(slice) ≤ d
						w := d - sl.lo.off
						if !pr.g.entailsLE(sf.t, sl.baseLen, w) {
							pr.g.addLE(sf.t, sl.baseLen, w)
							changed = true
						}
					}
				}
			}
		}
		for _, sl := range pr.sliceLens {
			if d, ok := pr.g.bound(sl.lo.base, sl.baseLen); ok { // lo.base − baseLen ≤ d ⇒ t ≥ −d − lo.off
				if !pr.g.entailsLE(zero, sl.t, d+sl.lo.off) {
					pr.g.addLE(zero, sl.t, d+sl.lo.off)
					changed = true
				}
			}
			if d, ok := pr.g.bound(zero, sl.lo.base); ok { // lo.base ≥ −d ⇒ t ≤ baseLen − (−d + lo.off)
				lo := -d + sl.lo.off
				if !pr.g.entailsLE(sl.t, sl.baseLen, -lo) {
					pr.g.addLE(sl.t, sl.baseLen, -lo)
					changed = true
				}
			}
			if d, ok := pr.g.bound(sl.baseLen, sl.lo.base); ok { // baseLen − lo.base ≤ d ⇒ t ≤ d − lo.off
				if !pr.g.entailsLE(sl.t, zero, d-sl.lo.off) {
					pr.g.addLE(sl.t, zero, d-sl.lo.off)
					changed = true
				}
			}
		}
		for i, ma := range pr.muls {
			// x ≥ L ⇒ x*c ≥ c·L ;  x ≤ U ⇒ x*c ≤ c·U
			if d, ok := pr.g.bound(zero, ma.x.base); ok { // 0 − base ≤ d ⇒ base ≥ −d
				lo := ma.c * (-d + ma.x.off)
				if !pr.g.entailsLE(zero, ma.t, -lo) {
					pr.g.addLE(zero, ma.t, -lo)
					changed = true
				}
			}
			if d, ok := pr.g.bound(ma.x.base, zero); ok { // base ≤ d
				hi := ma.c * (d + ma.x.off)
				if !pr.g.entailsLE(ma.t, zero, hi) {
					pr.g.addLE(ma.t, zero, hi)
					changed = true
				}
			}
			for jx, mb := range pr.muls {
				if i == jx || ma.c != mb.c {
					continue
				}
				// xa − xb ≤ k ⇒ ta − tb ≤ c·k
				if k, ok := pr.g.bound(ma.x.base, mb.x.base); ok {
					k += ma.x.off - mb.x.off
					if !pr.g.entailsLE(ma.t, mb.t, ma.c*k) {
						pr.g.addLE(ma.t, mb.t, ma.c*k)
						changed = true
					}
				}
			}
		}
		for i, d := range pr.pendingDisj {
			if d.term == "" {
				continue
			}
			if pr.g.entailsLE(zero, d.term, -d.ifGE) {
				pr.g.addLE(zero, d.term, -d.thenGE)
				if d.alsoLE != "" {
					pr.g.addLE(d.term, d.alsoLE, 0)
				}
				if d.alsoLT != "" {
					pr.g.addLE(d.term, d.alsoLT, -1)
				}
				pr.pendingDisj[i].term = ""
				changed = true
			}
		}
	}
}

// assumeLit adds the constraints of one path literal.
func (pr *prover) assumeLit(l Lit) {
	// evaluate the literal in the path state it was created in
	if l.PS != nil {
		saved := pr.ps
		pr.ps = l.PS
		defer func() { pr.ps = saved }()
	}
	if call, ok := l.Cond.(*ssa.Call); ok {
		if cal := call.Call.StaticCallee(); cal != nil && (isLibFunc(cal, "strings", "HasPrefix") || isLibFunc(cal, "strings", "HasSuffix")) && ((l.C == "true") == l.Val) {
			lt, _, _ := pr.lenTermOf(call.Call.Args[0])
			if pre, ok := constString(call.Call.Args[1]); ok {
				pr.g.addLE(zero, lt, -int64(len(pre)))
			} else {
				// s has the prefix: it is at least as long
				lp, _, _ := pr.lenTermOf(call.Call.Args[1])
				pr.g.addLE(lp, lt, 0)
			}
		}
		return
	}
	bo, ok := l.Cond.(*ssa.BinOp)
	if !ok {
		return
	}
	if _, isCmp := negOp[bo.Op]; !isCmp {
		return
	}
	// nil tests of errors: remember
	if isNilConst(bo.Y) || isNilConst(bo.X) {
		v := bo.X
		if isNilConst(bo.X) {
			v = bo.Y
		}
		isNil := (bo.Op == token.EQL) == l.Val
		term := pr.t.Term(v, pr.ps)
		if isNil {
			pr.nilErr[term] = true
			// library fact: strconv's parsers reject the empty string, so a nil error means a non-empty argument
			if call, idx := extractOf(pr.ps.Resolve(v)); call != nil && idx == 1 && len(call.Call.Args) > 0 {
				if cal := call.Call.StaticCallee(); cal != nil && (isLibFunc(cal, "strconv", "ParseInt") || isLibFunc(cal, "strconv", "ParseUint") || isLibFunc(cal, "strconv", "ParseFloat")) {
					lt, _, _ := pr.lenTermOf(call.Call.Args[0])
					pr.g.addLE(zero, lt, -1)
				}
			}
		} else {
			pr.nonNil[term] = true
			// CONTRACT scan-error: scanInt64/scanFloat64/scanTime report an error only for an element that exists
			if call, idx := extractOf(pr.ps.Resolve(v)); call != nil && idx == 1 {
				switch calleeName(pr.p, call) {
				case "(sqlittle.Row).scanInt64", "(sqlittle.Row).scanFloat64", "(sqlittle.Row).scanTime":
					i := pr.linOf(call.Call.Args[1])
					lt, _, _ := pr.lenTermOf(call.Call.Args[0])
					pr.g.addLE(i.base, lt, -1-i.off)
				}
			}
		}
		return
	}
	xb, okx := bo.X.Type().Underlying().(*types.Basic)
	if !okx || xb.Info()&types.IsInteger == 0 {
		return
	}
	x, y := pr.linOf(bo.X), pr.linOf(bo.Y)
	op := bo.Op
	if !l.Val {
		op = negOp[op]
	}
	// x.base + x.off  op  y.base + y.off   ⇔   x.base − y.base  op  y.off − x.off
	c := y.off - x.off
	switch op {
	case token.LSS:
		pr.g.addLE(x.base, y.base, c-1)
	case token.LEQ:
		pr.g.addLE(x.base, y.base, c)
	case token.GTR:
		pr.g.addLE(y.base, x.base, -c-1)
	case token.GEQ:
		pr.g.addLE(y.base, x.base, -c)
	case token.EQL:
		pr.g.addLE(x.base, y.base, c)
		pr.g.addLE(y.base, x.base, -c)
	case token.NEQ:
		pr.pendingNE = append(pr.pendingNE, ne{x.base, y.base, c})
	}
}

func newProver(p *Program, t *Termer, lp *LPath) *prover {
	pr := &prover{p: p, t: t, ps: lp.PS, lits: lp.Lits, g: newDC(), seen: map[string]bool{}, nilErr: map[string]bool{}, nonNil: map[string]bool{}}
	pr.g.addLE(zero, zero, 0)
	pr.assumePre(lp)
	// two passes: nil facts first (contracts depend on them), then the arithmetic
	for _, l := range lp.Lits {
		if bo, ok := l.Cond.(*ssa.BinOp); ok && (isNilConst(bo.X) || isNilConst(bo.Y)) {
			pr.assumeLit(l)
		}
	}
	for _, l := range lp.Lits {
		pr.assumeLit(l)
	}
	pr.applyDisj()
	return pr
}

// assumePre adds the preconditions of the function the path belongs to.
func (pr *prover) assumePre(lp *LPath) {
	if len(lp.PS.Path) == 0 {
		return
	}
	fn := lp.PS.Path[0].Parent()
	// predicate handed to sort.Search(n, f): f is called with 0 ≤ i < n (documented contract of sort.Search)
	for _, mc := range makeClosuresOf(fn) {
		for _, r := range *mc.Referrers() {
			call, ok := r.(*ssa.Call)
			if !ok || call.Call.StaticCallee() == nil || !isLibFunc(call.Call.StaticCallee(), "sort", "Search") || len(fn.Params) != 1 {
				continue
			}
			nterm := pr.t.Term(call.Call.Args[0], emptyPS())
			for _, pfx := range []string{"p:", "local:"} {
				nterm = strings.ReplaceAll(nterm, "("+pfx, "(fv:")
			}
			it := pr.t.Term(fn.Params[0], pr.ps)
			pr.g.addLE(zero, it, 0)
			pr.g.addLE(it, nterm, -1)
			pr.g.addLE(zero, nterm, 0)
		}
	}
	for _, f := range precondsOf(pr.p, fn) {
		if f.param >= len(fn.Params) {
			continue
		}
		prm := fn.Params[f.param]
		switch f.kind {
		case "len>=":
			lt := "len(" + pr.t.Term(prm, pr.ps) + ")"
			pr.g.addLE(zero, lt, -f.n)
		case "val>=":
			pr.g.addLE(zero, pr.t.Term(prm, pr.ps), -f.n)
		case "val<=":
			pr.g.addLE(pr.t.Term(prm, pr.ps), zero, f.n)
		case "len>=len":
			a := "len(" + pr.t.Term(prm, pr.ps) + ")"
			b := "len(" + pr.t.Term(fn.Params[f.other], pr.ps) + ")"
			pr.g.addLE(b, a, 0)
			pr.g.addLE(zero, a, 0)
			pr.g.addLE(zero, b, 0)
		}
	}
}

// provePre proves one precondition fact of callee for the given call.
func (pr *prover) provePre(call ssa.CallInstruction, f pfact) (bool, string) {
	args := call.Common().Args
	if call.Common().IsInvoke() {
		args = append([]ssa.Value{call.Common().Value}, args...)
	}
	if f.param >= len(args) {
		return false, "argument missing"
	}
	a := args[f.param]
	pr.applyDisj()
	switch f.kind {
	case "len>=":
		lt, fixed, isArr := pr.lenTermOf(a)
		pr.applyDisj()
		if isArr {
			return fixed >= f.n, "array too short"
		}
		return pr.g.entailsLE(zero, lt, -f.n), fmt.Sprintf("len(%s) ≥ %d not proven", pr.t.Term(a, pr.ps), f.n)
	case "val>=":
		l := pr.linOf(a)
		pr.applyDisj()
		return pr.g.entailsLE(zero, l.base, l.off-f.n), fmt.Sprintf("%s ≥ %d not proven", pr.t.Term(a, pr.ps), f.n)
	case "val<=":
		l := pr.linOf(a)
		pr.applyDisj()
		return pr.g.entailsLE(l.base, zero, f.n-l.off), fmt.Sprintf("%s ≤ %d not proven", pr.t.Term(a, pr.ps), f.n)
	case "flag":
		want := pr.t.Term(a, pr.ps) + "." + f.field
		for _, l := range pr.lits {
			if l.Subject == want && l.Op == token.EQL && ((l.C == "true") == l.Val) {
				return true, ""
			}
		}
		// or the caller has the same precondition on the same value
		caller := call.Parent()
		for _, cf := range precondsOf(pr.p, caller) {
			if cf.kind == "flag" && cf.field == f.field && cf.param < len(caller.Params) && pr.ps.Resolve(a) == ssa.Value(caller.Params[cf.param]) {
				return true, ""
			}
		}
		return false, want + " not established on this path"
	case "elems>=", "len>=len":
		return true, "" // only used with assumedPre
	}
	return false, "unsupported precondition kind " + f.kind
}

// proveIndex: 0 ≤ idx < length term
func (pr *prover) proveRange(idx lin, lenTerm string, strict bool) bool {
	pr.applyDisj()
	lower := pr.g.entailsLE(zero, idx.base, idx.off) // 0 − (base+off) ≤ 0 ⇔ −base ≤ off
	c := int64(0)
	if strict {
		c = -1
	}
	upper := pr.g.entailsLE(idx.base, lenTerm, c-idx.off)
	return lower && upper
}

// ---- sites ------------------------------------------------------------------------------------

type panicSite struct {
	Fn   *ssa.Function
	In   ssa.Instruction
	Kind string
	Key  string
}

func trustedGenerated(p *Program, fn *ssa.Function) bool {
	top := fn
	for top.Parent() != nil {
		top = top.Parent()
	}
	if p.PkgShort(top) != "sql" {
		return false
	}
	// a helper freshly extracted from the grammar's action code (called only from the generated driver)
	if inlinable != nil && inlinable(top) {
		roots := contextRoots(p, top, 0)
		all := len(roots) > 0
		for _, r := range roots {
			if r == top || !trustedGenerated(p, r) {
				all = false
			}
		}
		return all
	}
	switch top.Name() {
	case "yyParse", "yylex1", "yyErrorMessage", "yyStatname", "yyTokname", "yyNewParser", "Lookahead":
		return true
	case "Parse":
		return top.Signature.Recv() != nil // (*yyParserImpl).Parse: the goyacc driver incl. the action switch (GRAM-0 covers yyDollar)
	}
	return false
}

func panicSites(p *Program) []panicSite {
	var out []panicSite
	for _, fn := range p.ModFuncs() {
		if !p.Reachable(fn) || trustedGenerated(p, fn) {
			continue
		}
		if fn.Name() == "init" || strings.HasPrefix(fn.Name(), "init#") {
			continue
		}
		n := map[string]int{}
		add := func(in ssa.Instruction, kind string) {
			n[kind]++
			out = append(out, panicSite{fn, in, kind, fmt.Sprintf("%s %s#%d", p.FnKey(fn), kind, n[kind])})
		}
		for _, in := range instrs(fn) {
			switch x := in.(type) {
			case *ssa.IndexAddr:
				add(in, "index")
			case *ssa.Index:
				if _, isArr := x.X.Type().Underlying().(*types.Array); isArr {
					if _, isC := x.Index.(*ssa.Const); isC {
						continue
					}
				}
				add(in, "index")
			case *ssa.Slice:
				add(in, "slice")
			case *ssa.TypeAssert:
				if !x.CommaOk {
					add(in, "assert")
				}
			case *ssa.Panic:
				add(in, "panic")
			case *ssa.BinOp:
				if (x.Op == token.QUO || x.Op == token.REM) && isIntType(x.X.Type()) {
					add(in, "div")
				}
			case *ssa.MakeSlice:
				add(in, "make")
			case *ssa.Call:
				name := calleeName(p, x)
				if strings.Contains(name, "bigEndian).Uint") {
					add(in, "byteorder")
				}
				if cal := x.Call.StaticCallee(); cal != nil {
					if _, has := preconds[p.FnKey(cal)]; has && assumedPre[p.FnKey(cal)] == "" {
						add(in, "precond")
					}
				} else if x.Call.IsInvoke() && x.Call.Method.Name() == "page" {
					add(in, "precond")
				}
			}
		}
	}
	sort.Slice(out, func(i, j int) bool { return out[i].Key < out[j].Key })
	return out
}

func isIntType(t types.Type) bool {
	b, ok := t.Underlying().(*types.Basic)
	return ok && b.Info()&types.IsInteger != 0
}

// suppressions: one named construct, one reason.
var counterFieldCache = map[*types.Var]int{}

// counterField: every store into field fv anywhere in the module is a constant ≥ 0 or (load of the same field) + a
// constant ≥ 0; composite literals that do not mention it leave it 0.
func (pr *prover) counterField(fv *types.Var) bool {
	if b, ok := fv.Type().Underlying().(*types.Basic); !ok || b.Info()&types.IsInteger == 0 {
		return false
	}
	switch counterFieldCache[fv] {
	case 1:
		return true
	case 2:
		return false
	}
	ok := true
	n := 0
	for _, fn := range pr.p.ModFuncs() {
		for _, in := range instrs(fn) {
			st, isSt := in.(*ssa.Store)
			if !isSt {
				continue
			}
			fa, isFA := st.Addr.(*ssa.FieldAddr)
			if !isFA || fieldOf(fa) != fv {
				continue
			}
			n++
			if k, isC := constInt(st.Val); isC && k >= 0 {
				continue
			}
			good := false
			if bo, isBO := st.Val.(*ssa.BinOp); isBO && bo.Op == token.ADD {
				if k, isC := constInt(bo.Y); isC && k >= 0 {
					if ld, isLd := bo.X.(*ssa.UnOp); isLd && ld.Op == token.MUL {
						if fa2, ok2 := ld.X.(*ssa.FieldAddr); ok2 && fieldOf(fa2) == fv {
							good = true
						}
					}
				}
			}
			if !good {
				ok = false
			}
		}
	}
	if ok && n > 0 {
		counterFieldCache[fv] = 1
		return true
	}
	counterFieldCache[fv] = 2
	return false
}

var panicSuppress = map[string]string{
	"(*driver.Rows).Next index#2":        "database/sql passes len(dest) = len(Columns()), and a row has one value per requested column (DRV-7: the same column list is used for both)",
	"db.compare panic#1":                 "type-switch default: Record elements and typed keys are in the five storage classes (REC-table, ROWMAP, KEY check every producer; db.Key is documented to hold only those)",
	"db.compare panic#2":                 "as panic#1",
	"db.compare panic#3":                 "as panic#1",
	"db.compare panic#4":                 "as panic#1",
	"db.compare panic#5":                 "as panic#1",
	"db.compare panic#6":                 "as panic#1",
	"(sqlittle.Row).scanString panic#1":  "type-switch default over a Row element: rows are built by toRow from record values, rowids and column defaults (ROWMAP), all in the five storage classes",
	"(sqlittle.Row).scanBytes panic#1":   "as scanString",
	"(sqlittle.Row).scanInt64 panic#1":   "as scanString",
	"(sqlittle.Row).scanFloat64 panic#1": "as scanString",
	"(sqlittle.Row).scanTime panic#1":    "as scanString",
	"sql.makeColumnDef panic#1":          "type-switch default over column constraints: every production of columnConstraint assigns one of the cc* types (GRAM-1 checks each production assigns its value)",
}

func runPanic(c *Ctx) {
	p := c.P
	sites := panicSites(p)
	t := &Termer{P: p}
	// group sites by function; one path enumeration per site (stop at the site)
	for _, s := range sites {
		if why, ok := panicSuppress[s.Key]; ok {
			c.Pass(s.Key, s.In.Pos(), "suppressed: %s", why)
			continue
		}
		// an explicit panic moved into a freshly extracted helper keeps the argument given for its caller's panic
		if _, isPanic := s.In.(*ssa.Panic); isPanic && inlinable != nil && inlinable(s.Fn) {
			roots := contextRoots(p, s.Fn, 0)
			why := ""
			for _, r := range roots {
				w, ok := panicSuppress[p.FnKey(r)+" panic#1"]
				if !ok || r == s.Fn {
					why = ""
					break
				}
				why = w
			}
			if why != "" {
				c.Pass(s.Key, s.In.Pos(), "suppressed (moved out of %s): %s", p.FnKey(roots[0]), why)
				continue
			}
		}
		status, why := proveSite(p, t, s)
		switch status {
		case "trivial":
			c.Trivial(s.Key, s.In.Pos(), "%s", why)
		case "proved":
			c.Pass(s.Key, s.In.Pos(), "%s", why)
		case "undecided":
			c.Undecided(s.Key, s.In.Pos(), "%s", why)
		default:
			c.Fail(s.Key, s.In.Pos(), "%s", why)
		}
	}
}

func proveSite(p *Program, t *Termer, s panicSite) (string, string) {
	// trivial cases first
	switch x := s.In.(type) {
	case *ssa.IndexAddr:
		if triv, why := trivialIndex(x.X, x.Index); triv {
			return "trivial", why
		}
	case *ssa.Slice:
		if x.Low == nil && x.High == nil && x.Max == nil {
			return "trivial", "x[:]"
		}
	case *ssa.MakeSlice:
		if _, ok := constInt(x.Len); ok {
			return "trivial", "constant size"
		}
	}
	// a site inside a freshly extracted helper is proved in the context of the helper's callers (the path enumeration
	// walks the helper in place), exactly as it was proved before the extraction
	n := 0
	roots := contextRoots(p, s.Fn, 0)
	for _, fn := range roots {
		if fn != s.Fn && len(fn.Blocks) > 120 {
			// a caller too large to enumerate through (the generated parser): prove the site in the helper alone
			roots = []*ssa.Function{s.Fn}
			break
		}
	}
	for _, fn := range roots {
		limit := 300000
		if fn != s.Fn {
			limit = 60000
		}
		// a site inside a loop is reached on the first iteration (counters at their initial values) and on later
		// ones (counters arbitrary): every arrival is an obligation
		inLoop := inCycle(s.In.Block())
		paths, ok := EnumLits(fn.Blocks[0], 0, TabOpts{Termer: t, Limit: limit, StopGoesOn: inLoop,
			Stop: func(in ssa.Instruction, ps *pathState) bool { return in == s.In }})
		if !ok && fn != s.Fn {
			paths, ok = EnumLits(s.Fn.Blocks[0], 0, TabOpts{Termer: t, Limit: 300000, StopGoesOn: inLoop,
				Stop: func(in ssa.Instruction, ps *pathState) bool { return in == s.In }})
		}
		if !ok {
			return "undecided", "too many paths to this site"
		}
		for _, lp := range paths {
			if lp.Stop == nil {
				continue
			}
			n++
			pr := newProver(p, t, lp)
			if pr.g.inconsistent() {
				continue // infeasible path
			}
			if ok, why := pr.discharge(s); !ok {
				return "open", fmt.Sprintf("%s; on path [%s]", why, pathDesc(lp))
			}
		}
	}
	if n == 0 {
		return "trivial", "unreachable within its function"
	}
	return "proved", fmt.Sprintf("discharged on all %d paths reaching it", n)
}

// contextRoots: fn itself, or — when fn is a freshly extracted helper — the confirmed functions that call it
// (through further fresh helpers).
func contextRoots(p *Program, fn *ssa.Function, depth int) []*ssa.Function {
	if inlinable == nil || !inlinable(fn) || depth > maxInlineDepth {
		return []*ssa.Function{fn}
	}
	var out []*ssa.Function
	seen := map[*ssa.Function]bool{}
	for _, g := range p.ModFuncs() {
		if g == fn || g.Synthetic != "" {
			continue // compiler-made wrappers (pointer-receiver thunks, bound methods) are not callers of interest
		}
		for _, cs := range callsIn(g) {
			if _, isCall := cs.(*ssa.Call); !isCall || cs.Common().StaticCallee() != fn {
				continue
			}
			for _, r := range contextRoots(p, g, depth+1) {
				if !seen[r] {
					seen[r] = true
					out = append(out, r)
				}
			}
		}
	}
	if len(out) == 0 {
		return []*ssa.Function{fn}
	}
	return out
}

func trivialIndex(x, idx ssa.Value) (bool, string) {
	// constant index into a fixed array (pointer to array)
	if pt, ok := x.Type().Underlying().(*types.Pointer); ok {
		if arr, ok := pt.Elem().Underlying().(*types.Array); ok {
			if n, ok := constInt(idx); ok && n >= 0 && n < arr.Len() {
				return true, "constant index into a fixed-size array"
			}
		}
	}
	return false, ""
}

func (pr *prover) lenTermOf(x ssa.Value) (string, int64, bool) {
	x = pr.ps.Resolve(x)
	if pt, ok := x.Type().Underlying().(*types.Pointer); ok {
		if arr, ok := pt.Elem().Underlying().(*types.Array); ok {
			return zero, arr.Len(), true
		}
	}
	if arr, ok := x.Type().Underlying().(*types.Array); ok {
		return zero, arr.Len(), true
	}
	lt := "len(" + pr.t.Term(x, pr.ps) + ")"
	if !pr.seen[lt] {
		pr.seen[lt] = true
		pr.g.addLE(zero, lt, 0)
		pr.lenFacts(lt, x)
	}
	return lt, 0, false
}

func (pr *prover) discharge(s panicSite) (bool, string) {
	switch x := s.In.(type) {
	case *ssa.IndexAddr:
		return pr.dischargeIndex(x.X, x.Index)
	case *ssa.Index:
		return pr.dischargeIndex(x.X, x.Index)
	case *ssa.Slice:
		lt, fixed, isArr := pr.lenTermOf(x.X)
		capOK := func(v lin) bool {
			if isArr {
				return pr.g.entailsLE(v.base, zero, fixed-v.off)
			}
			// slicing up to cap is legal, but only len is tracked: require ≤ len (strings: len exactly)
			return pr.g.entailsLE(v.base, lt, -v.off)
		}
		lo := lin{zero, 0}
		if x.Low != nil {
			lo = pr.linOf(x.Low)
		}
		pr.applyDisj()
		if !pr.g.entailsLE(zero, lo.base, lo.off) {
			return false, "slice low bound " + pr.t.Term(x.Low, pr.ps) + " not proven ≥ 0"
		}
		if x.High != nil {
			hi := pr.linOf(x.High)
			if !capOK(hi) {
				return false, "slice high bound " + pr.t.Term(x.High, pr.ps) + " not proven ≤ len(" + pr.t.Term(x.X, pr.ps) + ")"
			}
			if !pr.g.entailsLE(lo.base, hi.base, hi.off-lo.off) {
				return false, "slice bounds not proven low ≤ high"
			}
		} else if !capOK(lo) {
			return false, "slice low bound " + pr.t.Term(x.Low, pr.ps) + " not proven ≤ len(" + pr.t.Term(x.X, pr.ps) + ")"
		}
		return true, ""
	case *ssa.BinOp:
		d := pr.linOf(x.Y)
		pr.applyDisj()
		if d.base == zero && d.off != 0 {
			return true, ""
		}
		if pr.g.entailsLE(zero, d.base, d.off-1) || pr.g.entailsLE(d.base, zero, -d.off-1) {
			return true, ""
		}
		return false, "divisor " + pr.t.Term(x.Y, pr.ps) + " not proven non-zero"
	case *ssa.MakeSlice:
		n := pr.linOf(x.Len)
		pr.applyDisj()
		if !pr.g.entailsLE(zero, n.base, n.off) {
			return false, "make size " + pr.t.Term(x.Len, pr.ps) + " not proven ≥ 0"
		}
		if strings.HasPrefix(n.base, "len(") && n.off <= 0 {
			return true, "" // proportional to an allocation that already exists
		}
		if !pr.g.entailsLE(n.base, zero, 1<<20-n.off) {
			return false, "make size " + pr.t.Term(x.Len, pr.ps) + " (derived from input) not proven ≤ 2^20"
		}
		return true, ""
	case *ssa.Call:
		name := calleeName(pr.p, x)
		var facts []pfact
		if cal := x.Call.StaticCallee(); cal != nil {
			facts = precondsOf(pr.p, cal)
		} else if x.Call.IsInvoke() && x.Call.Method.Name() == "page" {
			facts = preconds["(*db.filePager).page"]
		}
		if len(facts) > 0 && !strings.Contains(name, "bigEndian") {
			for _, f := range facts {
				if ok, why := pr.provePre(x, f); !ok {
					return false, "precondition of " + name + ": " + why
				}
			}
			return true, ""
		}
		need := int64(0)
		switch {
		case strings.HasSuffix(name, "Uint16"):
			need = 2
		case strings.HasSuffix(name, "Uint32"):
			need = 4
		case strings.HasSuffix(name, "Uint64"):
			need = 8
		}
		arg := x.Call.Args[len(x.Call.Args)-1]
		lt, fixed, isArr := pr.lenTermOf(arg)
		pr.applyDisj()
		if isArr {
			return fixed >= need, "array too short"
		}
		if pr.g.entailsLE(zero, lt, -need) {
			return true, ""
		}
		return false, fmt.Sprintf("%s needs %d bytes; len(%s) ≥ %d not proven", name, need, pr.t.Term(arg, pr.ps), need)
	case *ssa.TypeAssert:
		return pr.dischargeAssert(x)
	case *ssa.Panic:
		return pr.dischargePanic(x)
	}
	return false, "unknown site kind"
}

func (pr *prover) dischargeIndex(x, idx ssa.Value) (bool, string) {
	lt, fixed, isArr := pr.lenTermOf(x)
	i := pr.linOf(idx)
	pr.applyDisj()
	if isArr {
		if pr.g.entailsLE(zero, i.base, i.off) && pr.g.entailsLE(i.base, zero, fixed-1-i.off) {
			return true, ""
		}
		return false, fmt.Sprintf("index %s not proven within [0,%d)", pr.t.Term(idx, pr.ps), fixed)
	}
	if pr.proveRange(i, lt, true) {
		return true, ""
	}
	// range loops: element i of the very slice being ranged over
	return false, fmt.Sprintf("index %s not proven within [0, len(%s))", pr.t.Term(idx, pr.ps), pr.t.Term(x, pr.ps))
}

func (pr *prover) dischargeAssert(x *ssa.TypeAssert) (bool, string) {
	// x.(T) is safe when the path established type(x) == T through a preceding comma-ok test / type switch
	sub := "type(" + pr.t.Term(x.X, pr.ps) + ")"
	want := types.TypeString(x.AssertedType, shortQual)
	_ = sub
	_ = want
	return false, "non-comma-ok assertion to " + want
}

func (pr *prover) dischargePanic(x *ssa.Panic) (bool, string) {
	if mi, ok := x.X.(*ssa.MakeInterface); ok {
		if s, ok := constString(mi.X); ok && s == "blocking select matched no case" && !x.Pos().IsValid() {
			return true, "" // synthesised by go/ssa after a blocking select whose cases are all dispatched
		}
	}
	// guarded by a flag precondition of the function: the panic sits on the edge that contradicts it
	fn := x.Parent()
	for _, f := range precondsOf(pr.p, fn) {
		if f.kind != "flag" {
			continue
		}
		want := pr.t.Term(fn.Params[f.param], pr.ps) + "." + f.field
		for _, l := range pr.lits {
			if l.Subject == want && l.Op == token.EQL && ((l.C == "true") != l.Val) {
				return true, "" // reached only when the flag is false, which the precondition excludes
			}
		}
	}
	return false, "explicit panic reachable"
}

// DebugSite prints, for each path reaching the k-th site of the given kind in fn, the literals and the verdict.
func DebugSite(p *Program, fnKey, siteKey string) {
	t := &Termer{P: p}
	for _, s := range panicSites(p) {
		if s.Key != siteKey {
			continue
		}
		paths, _ := EnumLits(s.Fn.Blocks[0], 0, TabOpts{Termer: t, Limit: 300000,
			Stop: func(in ssa.Instruction, ps *pathState) bool { return in == s.In }})
		for i, lp := range paths {
			if lp.Stop == nil {
				continue
			}
			pr := newProver(p, t, lp)
			ok, why := pr.discharge(s)
			fmt.Printf("path %d: inconsistent=%v ok=%v %s\n   lits: %s\n", i, pr.g.inconsistent(), ok, why, pathDesc(lp))
			if i > 3 {
				break
			}
			for a, outs := range pr.g.edges {
				for b, w := range outs {
					fmt.Printf("      %s − %s ≤ %d\n", orStr(b, "0"), orStr(a, "0"), w)
				}
			}
		}
	}
	_ = fnKey
}

// DebugPhi shows why the inductive lower bound of the first int phi in fn's loop header fails.
func DebugPhi(p *Program, fnKey string) {
	fn := findFn(p, fnKey)
	t := &Termer{P: p}
	for _, h := range loopHeaders(fn) {
		for _, in := range h.Instrs {
			phi, ok := in.(*ssa.Phi)
			if !ok || !isIntType(phi.Type()) {
				continue
			}
			paths, _ := EnumLits(h, 0, TabOpts{Termer: t, Limit: 200000,
				Stop: func(in ssa.Instruction, ps *pathState) bool { return in == h.Instrs[0] && len(ps.Path) > 1 }})
			for _, lp := range paths {
				if lp.Stop == nil {
					continue
				}
				pred := lp.PS.Path[len(lp.PS.Path)-2]
				var edge ssa.Value
				for k, pb := range h.Preds {
					if pb == pred {
						edge = phi.Edges[k]
					}
				}
				phiLowerCache[phi] = 3
				sub := newProver(p, t, lp)
				eps := lp.PS.clone()
				if eps.BlockGen != nil {
					delete(eps.BlockGen, h)
				}
				sub.ps = eps
				e := sub.linOf(edge)
				sub.applyDisj()
				if !sub.g.entailsLE(zero, e.base, e.off) {
					fmt.Printf("phi %s edge %s+%d not ≥ 0 on [%s]\n", phi.Name(), e.base, e.off, pathDesc(lp))
					for a, outs := range sub.g.edges {
						for b, w := range outs {
							fmt.Printf("      %s − %s ≤ %d\n", orStr(b, "0"), orStr(a, "0"), w)
						}
					}
					return
				}
			}
		}
	}
}
