package chk

import (
	"fmt"
	"go/token"
	"go/types"
	"os"
	"sort"
	"strings"

	"golang.org/x/tools/go/callgraph"
	"golang.org/x/tools/go/callgraph/cha"
	"golang.org/x/tools/go/callgraph/vta"
	"golang.org/x/tools/go/packages"
	"golang.org/x/tools/go/ssa"
	"golang.org/x/tools/go/ssa/ssautil"
)

const ModPath = "github.com/alicebob/sqlittle"

// Program is the resolved program every rule works on.
type Program struct {
	Repo   string
	GOOS   string
	GOARCH string
	Fset   *token.FileSet
	Pkgs   []*packages.Package          // module packages, sorted by path
	ByPath map[string]*packages.Package // all packages
	SSA    *ssa.Program
	SPkg   map[string]*ssa.Package // module packages by short name: ".", "db", "sql", "driver"
	CG     *callgraph.Graph
	AllFns map[*ssa.Function]bool

	modFns    []*ssa.Function          // every function (incl. closures) declared in the module
	alias     map[*ssa.Function]string // renamed function → the key it had on the confirmed tree
	reachable map[*ssa.Function]bool
	roots     []*ssa.Function
}

func shortName(path string) string {
	if path == ModPath {
		return "."
	}
	return strings.TrimPrefix(path, ModPath+"/")
}

// Load type-checks /repo's working tree and builds SSA + VTA call graph.
func Load(repo, goos, goarch string) (*Program, error) {
	env := append(os.Environ(),
		"GOFLAGS=-mod=mod", "GOPROXY=off", "GOSUMDB=off", "GOWORK=off", "GOTOOLCHAIN=local",
		"GOOS="+goos, "GOARCH="+goarch, "CGO_ENABLED=0")
	cfg := &packages.Config{
		Mode:  packages.LoadAllSyntax,
		Dir:   repo,
		Env:   env,
		Tests: false,
	}
	pkgs, err := packages.Load(cfg, "./...")
	if err != nil {
		return nil, fmt.Errorf("packages.Load: %v", err)
	}
	if len(pkgs) == 0 {
		return nil, fmt.Errorf("no packages loaded from %s", repo)
	}
	p := &Program{Repo: repo, GOOS: goos, GOARCH: goarch, ByPath: map[string]*packages.Package{}, SPkg: map[string]*ssa.Package{}}
	var errs []string
	packages.Visit(pkgs, nil, func(pk *packages.Package) {
		p.ByPath[pk.PkgPath] = pk
		for _, e := range pk.Errors {
			errs = append(errs, fmt.Sprintf("%s: %v", pk.PkgPath, e))
		}
	})
	if len(errs) > 0 {
		sort.Strings(errs)
		return nil, fmt.Errorf("type/load errors:\n  %s", strings.Join(errs, "\n  "))
	}
	for _, pk := range pkgs {
		if pk.PkgPath == ModPath || strings.HasPrefix(pk.PkgPath, ModPath+"/") {
			p.Pkgs = append(p.Pkgs, pk)
		} else {
			return nil, fmt.Errorf("unexpected root package %s", pk.PkgPath)
		}
	}
	sort.Slice(p.Pkgs, func(i, j int) bool { return p.Pkgs[i].PkgPath < p.Pkgs[j].PkgPath })
	want := []string{".", "db", "driver", "sql"}
	var got []string
	for _, pk := range p.Pkgs {
		got = append(got, shortName(pk.PkgPath))
	}
	if strings.Join(got, ",") != strings.Join(want, ",") {
		return nil, fmt.Errorf("module packages are %v, expected %v", got, want)
	}
	p.Fset = pkgs[0].Fset

	prog, _ := ssautil.AllPackages(pkgs, ssa.InstantiateGenerics)
	prog.Build()
	p.SSA = prog
	for _, pk := range p.Pkgs {
		sp := prog.Package(pk.Types)
		if sp == nil {
			return nil, fmt.Errorf("no SSA package for %s", pk.PkgPath)
		}
		p.SPkg[shortName(pk.PkgPath)] = sp
	}
	p.AllFns = ssautil.AllFunctions(prog)
	p.CG = vta.CallGraph(p.AllFns, cha.CallGraph(prog))
	for fn := range p.AllFns {
		if p.InModule(fn) {
			p.modFns = append(p.modFns, fn)
		}
	}
	sort.Slice(p.modFns, func(i, j int) bool { return p.FnKey(p.modFns[i]) < p.FnKey(p.modFns[j]) })
	p.computeRoots()
	p.detectRenames()
	theProgram = p
	inlinable = func(fn *ssa.Function) bool {
		if fn.Parent() != nil || fn.Synthetic != "" || !p.InModule(fn) {
			return false
		}
		_, known := knownFuncs[p.FnKey(fn)]
		return !known
	}
	return p, nil
}

// InModule reports whether fn (or the function enclosing a closure) is declared in the module.
func (p *Program) InModule(fn *ssa.Function) bool {
	for fn.Parent() != nil {
		fn = fn.Parent()
	}
	if fn.Synthetic != "" && fn.Pkg == nil {
		// wrappers/bound methods: attribute to the package of the object
		if o := fn.Object(); o != nil && o.Pkg() != nil {
			return o.Pkg().Path() == ModPath || strings.HasPrefix(o.Pkg().Path(), ModPath+"/")
		}
		return false
	}
	if fn.Pkg == nil {
		return false
	}
	path := fn.Pkg.Pkg.Path()
	return path == ModPath || strings.HasPrefix(path, ModPath+"/")
}

// PkgShort gives ".", "db", "sql", "driver" or "" for non-module functions.
func (p *Program) PkgShort(fn *ssa.Function) string {
	for fn.Parent() != nil {
		fn = fn.Parent()
	}
	var path string
	if fn.Pkg != nil {
		path = fn.Pkg.Pkg.Path()
	} else if o := fn.Object(); o != nil && o.Pkg() != nil {
		path = o.Pkg().Path()
	}
	if path == ModPath || strings.HasPrefix(path, ModPath+"/") {
		return shortName(path)
	}
	return ""
}

// FnKey is a position-independent name: pkg.(*T).M, pkg.F, pkg.F$1 ... A function that was merely renamed since the
// rules were confirmed (detectRenames) keeps its old key, and so do its closures.
func (p *Program) FnKey(fn *ssa.Function) string {
	s := rawKey(fn)
	if len(p.alias) > 0 {
		top := fn
		for top.Parent() != nil {
			top = top.Parent()
		}
		if old, ok := p.alias[top]; ok {
			return old + strings.TrimPrefix(s, rawKey(top))
		}
	}
	return s
}

func rawKey(fn *ssa.Function) string {
	s := fn.String()
	s = strings.ReplaceAll(s, ModPath+"/", "")
	s = strings.ReplaceAll(s, ModPath, "sqlittle")
	return s
}

// SigString renders fn's signature without the receiver and without parameter names.
func SigString(fn *ssa.Function) string {
	sig := fn.Signature
	var ps, rs []string
	for i := 0; i < sig.Params().Len(); i++ {
		ps = append(ps, types.TypeString(sig.Params().At(i).Type(), nil))
	}
	for i := 0; i < sig.Results().Len(); i++ {
		rs = append(rs, types.TypeString(sig.Results().At(i).Type(), nil))
	}
	v := ""
	if sig.Variadic() {
		v = "..."
	}
	return "(" + strings.Join(ps, ", ") + v + ") (" + strings.Join(rs, ", ") + ")"
}

// keyScope: the part of a key that a rename does not change: package and receiver ("(*db.Database)." or "db.").
func keyScope(key string) string {
	if strings.HasPrefix(key, "(") {
		if i := strings.Index(key, ")."); i >= 0 {
			return key[:i+2]
		}
	}
	if i := strings.LastIndex(key, "."); i >= 0 {
		return key[:i+1]
	}
	return ""
}

// detectRenames pairs functions of the confirmed tree that are gone with new functions of the same package, receiver
// and signature, when that pairing is unique: such a function was renamed, not removed, and keeps its old key.
func (p *Program) detectRenames() {
	p.alias = map[*ssa.Function]string{}
	current := map[string]bool{}
	var added []*ssa.Function
	byKey := map[string]*ssa.Function{}
	for _, fn := range p.modFns {
		if fn.Synthetic != "" {
			continue // compiler-made wrappers do not count as the function being there
		}
		k := rawKey(fn)
		current[k] = true
		byKey[k] = fn
		if _, known := knownFuncs[k]; !known && fn.Parent() == nil {
			added = append(added, fn)
		}
	}
	// a method whose receiver changed between pointer and value is the same method
	for k := range knownFuncs {
		if current[k] || strings.Contains(k, "$") || !strings.HasPrefix(k, "(") {
			continue
		}
		other := ""
		if strings.HasPrefix(k, "(*") {
			other = "(" + k[2:]
		} else {
			other = "(*" + k[1:]
		}
		if fn, ok := byKey[other]; ok {
			if _, wasKnown := knownFuncs[other]; !wasKnown {
				p.alias[fn] = k
				current[k] = true
			}
		}
	}
	var added2 []*ssa.Function
	for _, fn := range added {
		if _, aliased := p.alias[fn]; !aliased {
			added2 = append(added2, fn)
		}
	}
	added = added2
	type slot struct{ scope, sig string }
	gone := map[slot][]string{}
	for k, sig := range knownFuncs {
		if strings.Contains(k, "$") || current[k] {
			continue
		}
		// functions of the other build variant (pager_windows etc.) are not `gone`
		gone[slot{keyScope(k), sig}] = append(gone[slot{keyScope(k), sig}], k)
	}
	fresh := map[slot][]*ssa.Function{}
	for _, fn := range added {
		s := slot{keyScope(rawKey(fn)), SigString(fn)}
		fresh[s] = append(fresh[s], fn)
	}
	for s, olds := range gone {
		if news := fresh[s]; len(olds) == 1 && len(news) == 1 {
			p.alias[news[0]] = olds[0]
		}
	}
	// struct fields: a field of the confirmed tree that is gone and a new field of the same type in the same struct
	fieldAlias = map[*types.Var]string{}
	for _, pk := range p.Pkgs {
		scope := pk.Types.Scope()
		for _, name := range scope.Names() {
			tn, ok := scope.Lookup(name).(*types.TypeName)
			if !ok {
				continue
			}
			st, ok := tn.Type().Underlying().(*types.Struct)
			if !ok {
				continue
			}
			known, ok := knownFields[shortName(pk.PkgPath)+"."+name]
			if !ok {
				continue
			}
			have := map[string]bool{}
			for i := 0; i < st.NumFields(); i++ {
				have[st.Field(i).Name()] = true
			}
			goneByType := map[string][]string{}
			for fname, ftype := range known {
				if !have[fname] {
					goneByType[ftype] = append(goneByType[ftype], fname)
				}
			}
			newByType := map[string][]*types.Var{}
			for i := 0; i < st.NumFields(); i++ {
				f := st.Field(i)
				if _, was := known[f.Name()]; !was {
					ts := types.TypeString(f.Type(), nil)
					newByType[ts] = append(newByType[ts], f)
				}
			}
			for ts, olds := range goneByType {
				if news := newByType[ts]; len(olds) == 1 && len(news) == 1 {
					fieldAlias[news[0]] = olds[0]
				}
			}
		}
	}
}

// KnownFieldsOf lists the struct types of the module with their fields (for cmd/genknown).
func (p *Program) KnownFieldsOf() map[string]map[string]string {
	out := map[string]map[string]string{}
	for _, pk := range p.Pkgs {
		scope := pk.Types.Scope()
		for _, name := range scope.Names() {
			tn, ok := scope.Lookup(name).(*types.TypeName)
			if !ok {
				continue
			}
			st, ok := tn.Type().Underlying().(*types.Struct)
			if !ok {
				continue
			}
			m := map[string]string{}
			for i := 0; i < st.NumFields(); i++ {
				m[st.Field(i).Name()] = types.TypeString(st.Field(i).Type(), nil)
			}
			out[shortName(pk.PkgPath)+"."+name] = m
		}
	}
	return out
}

// ModFuncs lists every module function (closures included), sorted by key.
func (p *Program) ModFuncs() []*ssa.Function { return p.modFns }

// Func resolves a module function by package short name and name, e.g. ("db", "(*Database).resolveDirty"),
// ("db", "parseHeader"). Returns nil when absent.
func (p *Program) Func(pkg, name string) *ssa.Function {
	if fn := p.funcByName(pkg, name); fn != nil {
		return fn
	}
	// a renamed function is found under the key it had on the confirmed tree
	if len(p.alias) > 0 {
		pk := pkg
		if pk == "." {
			pk = "sqlittle"
		}
		key := pk + "." + name
		if strings.HasPrefix(name, "(*") {
			key = "(*" + pk + "." + name[2:]
		} else if strings.HasPrefix(name, "(") {
			key = "(" + pk + "." + name[1:]
		}
		for fn, old := range p.alias {
			if old == key {
				return fn
			}
		}
	}
	return nil
}

func (p *Program) funcByName(pkg, name string) *ssa.Function {
	sp := p.SPkg[pkg]
	if sp == nil {
		return nil
	}
	if strings.HasPrefix(name, "(") {
		// method: (*T).M or (T).M
		end := strings.Index(name, ").")
		if end < 0 {
			return nil
		}
		recv, m := name[1:end], name[end+2:]
		ptr := strings.HasPrefix(recv, "*")
		recv = strings.TrimPrefix(recv, "*")
		tm := sp.Members[recv]
		t, ok := tm.(*ssa.Type)
		if !ok {
			return nil
		}
		var T types.Type = t.Type()
		if ptr {
			T = types.NewPointer(T)
		}
		sel := p.SSA.MethodSets.MethodSet(T).Lookup(sp.Pkg, m)
		if sel == nil {
			return nil
		}
		fn := p.SSA.MethodValue(sel)
		// when asked for (T).M but declared on T fine; when asked for (*T).M declared on T we get wrapper: reject
		if fn != nil && fn.Synthetic != "" {
			return nil
		}
		return fn
	}
	if f, ok := sp.Members[name].(*ssa.Function); ok {
		return f
	}
	return nil
}

// Pos renders a position relative to the repo.
func (p *Program) Pos(pos token.Pos) string {
	if !pos.IsValid() {
		return "-"
	}
	ps := p.Fset.Position(pos)
	f := ps.Filename
	f = strings.TrimPrefix(f, p.Repo+"/")
	return fmt.Sprintf("%s:%d", f, ps.Line)
}

func (p *Program) computeRoots() {
	seen := map[*ssa.Function]bool{}
	var roots []*ssa.Function
	add := func(fn *ssa.Function) {
		if fn != nil && !seen[fn] {
			seen[fn] = true
			roots = append(roots, fn)
		}
	}
	for _, sp := range p.SPkg {
		for _, m := range sp.Members {
			switch m := m.(type) {
			case *ssa.Function:
				if m.Object() != nil && m.Object().Exported() {
					add(m)
				}
				if m.Name() == "init" {
					add(m)
				}
			case *ssa.Type:
				if !m.Object().Exported() {
					continue
				}
				for _, T := range []types.Type{m.Type(), types.NewPointer(m.Type())} {
					ms := p.SSA.MethodSets.MethodSet(T)
					for i := 0; i < ms.Len(); i++ {
						sel := ms.At(i)
						if !sel.Obj().Exported() {
							continue
						}
						fn := p.SSA.MethodValue(sel)
						if fn == nil {
							continue
						}
						if fn.Synthetic != "" {
							continue // wrapper; the declared method is added through the other receiver form
						}
						add(fn)
					}
				}
			}
		}
	}
	sort.Slice(roots, func(i, j int) bool { return p.FnKey(roots[i]) < p.FnKey(roots[j]) })
	p.roots = roots
	// reachability over the VTA graph, restricted to module functions (calls leaving the module are not followed,
	// except that closures passed to non-module code (sort.Search, strings.Map) are found through the graph edges
	// from those library functions back into the module).
	reach := map[*ssa.Function]bool{}
	deferred := map[*ssa.Function]bool{} // closures seen as callees while their creating function was not yet reachable
	var visit func(fn *ssa.Function, depthOutside int)
	visit = func(fn *ssa.Function, depthOutside int) {
		if p.InModule(fn) {
			if reach[fn] {
				return
			}
			if par := fn.Parent(); par != nil && !reach[par] {
				// VTA is context-insensitive: a closure is only live if the function creating it is.
				deferred[fn] = true
				return
			}
			reach[fn] = true
			depthOutside = 0
		} else {
			if depthOutside > 2 {
				return
			}
		}
		n := p.CG.Nodes[fn]
		if n == nil {
			return
		}
		for _, e := range n.Out {
			callee := e.Callee.Func
			if p.InModule(callee) {
				visit(callee, 0)
			} else if p.InModule(fn) {
				if passesModuleFunc(e.Site) {
					visit(callee, depthOutside+1)
				}
			} else if depthOutside > 0 {
				visit(callee, depthOutside+1)
			}
		}
	}
	for _, r := range roots {
		visit(r, 0)
	}
	for changed := true; changed; {
		changed = false
		for fn := range deferred {
			if !reach[fn] && reach[fn.Parent()] {
				delete(deferred, fn)
				visit(fn, 0)
				changed = true
			}
		}
	}
	p.reachable = reach
}

func passesModuleFunc(site ssa.CallInstruction) bool {
	if site == nil {
		return false
	}
	for _, a := range site.Common().Args {
		if _, ok := a.Type().Underlying().(*types.Signature); ok {
			return true
		}
	}
	return false
}

// Roots are the API entry points.
func (p *Program) Roots() []*ssa.Function { return p.roots }

// Reachable reports whether a module function is reachable from the API roots.
func (p *Program) Reachable(fn *ssa.Function) bool { return p.reachable[fn] }

// Callees resolves the module/library callees of a call instruction through the VTA graph.
func (p *Program) Callees(site ssa.CallInstruction) []*ssa.Function {
	if c := site.Common().StaticCallee(); c != nil {
		return []*ssa.Function{c}
	}
	fn := site.Parent()
	n := p.CG.Nodes[fn]
	if n == nil {
		return nil
	}
	var out []*ssa.Function
	for _, e := range n.Out {
		if e.Site == site {
			out = append(out, e.Callee.Func)
		}
	}
	sort.Slice(out, func(i, j int) bool { return p.FnKey(out[i]) < p.FnKey(out[j]) })
	return out
}
