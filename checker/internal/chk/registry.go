package chk

// AllRules is the registry of every rule; properties select rules by tag.
func AllRules() []*Rule {
	var rs []*Rule
	rs = append(rs, lockRules()...)
	rs = append(rs, errRules()...)
	return rs
}

type PropInfo struct {
	Explanation string
	NotDecided  string
}

var Props = map[string]PropInfo{}

func init() {
	Props["C06"] = PropInfo{
		Explanation: "Static rules over the resolved program (SSA + VTA call graph) decide the structural necessary conditions of the SHARED-lock interval: every exported sqlittle.DB method that reaches a pager.page implementation brackets all page-reaching calls between a tested RLock and a deferred RUnlock on the same handle (LOCK-1); RUnlock has no other caller and the driver reads only through those methods (LOCK-2); RLock invalidates cached state (LOCK-3); the unix pager requests SQLite's pending byte then shared range, non-blocking, returns both errors, releases the pending byte by defer on every exit and records/clears the shared lock correctly (PAGER); descriptors of the database file are not closed behind another handle's back (LOCK-6, known finding).",
		NotDecided:  "Behaviour of other processes, lock state as observed from outside, the Windows pager (not demonstrable here); the rules decide that sqlittle requests and releases the right byte ranges on the right paths.",
	}
}

func init() {
	Props["C12"] = PropInfo{
		Explanation: "ERR-1/ERR-2 enumerate every error-returning call and every error test in the API-reachable functions of db, the root package and the driver, and decide by SSA value-flow (locals, captured cells, struct fields, fmt.Errorf) and path enumeration that no error value is dropped or tested-and-swallowed; SKIP-1 decides that no scan adapter of the root package can return `continue` without having delivered the row or recorded an error.",
		NotDecided:  "That every failure produces an error value in the first place (e.g. a short read that happens to parse); the rules show that no code path loses an error value that exists.",
	}
	Props["C17"] = PropInfo{
		Explanation: "DONE-1..3 decide, on the SSA of every b-tree iteration level and adapter, that the done flag of an inner iteration is returned as-is or leads straight to a return of true with no intervening call, that adapters return the user callback's answer, and that top-level scans return only the iteration's error; LOCK-1 shows that the unlock is deferred and so covers the early return.",
		NotDecided:  "That the traversal itself enumerates rows in the right order (C01/C02's traversal rules); nothing else data-dependent is needed.",
	}
}
