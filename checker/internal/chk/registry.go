package chk

// AllRules is the registry of every rule; properties select rules by tag.
func AllRules() []*Rule {
	var rs []*Rule
	rs = append(rs, lockRules()...)
	rs = append(rs, errRules()...)
	rs = append(rs, txnRules()...)
	rs = append(rs, globRules()...)
	rs = append(rs, drvRules()...)
	rs = append(rs, cmpRules()...)
	rs = append(rs, fmtRules()...)
	rs = append(rs, travRules()...)
	rs = append(rs, miscRules()...)
	rs = append(rs, gramRules()...)
	rs = append(rs, panicRules()...)
	rs = append(rs, nilRules()...)
	rs = append(rs, termRules()...)
	rs = append(rs, freshRules()...)
	rs = append(rs, autoidxRule())
	rs = append(rs, identRule())
	rs = append(rs, fmtPageRule())
	rs = append(rs, masterRule())
	rs = append(rs, round2Rules()...)
	rs = append(rs, glueRule())
	rs = append(rs, round3Rules()...)
	rs = append(rs, round5Rules()...)
	rs = append(rs, flagsetRules()...)
	return rs
}

type PropInfo struct {
	Explanation string
	NotDecided  string
}

var Props = map[string]PropInfo{}

func init() {
	Props["C06"] = PropInfo{
		Explanation: "Static rules over the resolved program (SSA + VTA call graph) decide the structural necessary conditions of the SHARED-lock interval: every exported sqlittle.DB method that reaches a pager.page implementation brackets all page-reaching calls between a tested RLock and a deferred RUnlock on the same handle (LOCK-1); RUnlock has no other caller and the driver reads only through those methods (LOCK-2); RLock invalidates cached state (LOCK-3); the unix pager requests SQLite's pending byte then shared range, non-blocking, returns both errors, releases the pending byte by defer on every exit and records/clears the shared lock correctly (PAGER); descriptors of the database file are not closed behind another handle's back (LOCK-6, known finding). LOCK-7: nothing the pager runs while it holds the SHARED lock (RLock after the lock is taken, page, CheckReservedLock) opens-and-closes or closes a descriptor, so the handle cannot drop its own lock; LOCK-8: an error from Database.RLock means the pager lock is not held (every caller returns without RUnlock on such an error). LOCK-9: opening a handle (outside any lock) reads the header page only. LOCK-3 also decides that nothing of the module runs in Database.RLock before the pager's lock is requested: a validation made there is made outside the lock and clears the dirty mark.",
		NotDecided:  "Behaviour of other processes, lock state as observed from outside, the Windows pager (not demonstrable here); the rules decide that sqlittle requests and releases the right byte ranges on the right paths.",
	}
}

func init() {
	Props["C12"] = PropInfo{
		Explanation: "ERR-1/ERR-2 enumerate every error-returning call and every error test in the API-reachable functions of db, the root package and the driver, and decide by SSA value-flow (locals, captured cells, struct fields, fmt.Errorf) and path enumeration that no error value is dropped or tested-and-swallowed; SKIP-1 decides that no scan adapter of the root package can return `continue` without having delivered the row or recorded an error. ERR-5 (path-sensitive): an error that may be non-nil is never merely compared and replaced by nil; CACHE-2: a page that failed to parse is not cached. DRV-5: a short read never surfaces as a bare io.EOF through database/sql. ERR-6: the owner of a captured error cell (sort.Search predicates, row adapters) reports success only after it has looked at the cell.",
		NotDecided:  "That every failure produces an error value in the first place (e.g. a short read that happens to parse); the rules show that no code path loses an error value that exists.",
	}
	Props["C17"] = PropInfo{
		Explanation: "DONE-1..3 decide, on the SSA of every b-tree iteration level and adapter, that the done flag of an inner iteration is returned as-is or leads straight to a return of true with no intervening call, that adapters return the user callback's answer, and that top-level scans return only the iteration's error; LOCK-1 shows that the unlock is deferred and so covers the early return. STATELESS: the iteration methods leave no state behind (nothing is stored on pages or the handle), so a stopped scan cannot change what the next one does; PAGER/DRV-4: the lock is released when a stopped scan returns. FMT-overflow/FRESH: what was delivered is not rewritten later (payloads are assembled onto the cell's own local part, scanned bytes are copies). DONE-2b: an adapter around a result-less row callback never stops the scan.",
		NotDecided:  "That the traversal itself enumerates rows in the right order (C01/C02's traversal rules); nothing else data-dependent is needed.",
	}
}

func init() {
	Props["C07"] = PropInfo{
		Explanation: "PAGER decides that the unix pager requests the pending byte and then the shared range with non-blocking F_SETLK read locks and returns both errors before any state change; LOCK-1 that a failed RLock returns before any page-reaching call (no rows); RD-TABLE extracts the decision table of resolveDirty by path enumeration: a hot journal without a live RESERVED lock is an error, every other combination proceeds to the header read; PAGER-6 that the RESERVED probe is F_GETLK/F_WRLCK on SQLite's reserved byte. LOCK-7: the handle does not drop its own SHARED lock while reading (no descriptor of the file is closed by pager code run under the lock). TXN-1: revalidation precedes every page read.",
		NotDecided:  "What a real writer does in each lock state and that proceeding under RESERVED yields the last committed state (true because SQLite does not touch the file before EXCLUSIVE — an assumption about SQLite).",
	}
	Props["C08"] = PropInfo{
		Explanation: "LOCK-3: RLock invalidates; TXN-1: every exported db function revalidates (resolveDirty) before any page read or cache lookup; RD-TABLE: dirty is cleared only after page 1 was re-read and re-parsed and the fresh header installed; TXN-3: the page cache survives only if the change counter was established unchanged, the schema cache only if the cookie was; TXN-5: the mapping must follow the file (violated: known finding). GLUE: OpenFile/newDatabase wire the pager, the <file>-journal name, a dirty handle and a fresh cache; the locking API methods call RLock before Schema. PAGE-RO/FMT-overflow: cached pages are never written; CACHE-2: only pages parsed without error are cached; LOCK-9: opening reads the header only; DRV-10: a prepared statement keeps nothing between executions; HDR-raw: the header bytes are interpreted by parseHeader only. NARROW: every integer conversion that can change the value (a narrower target, or signed to unsigned) is proven to keep it on every path reaching it, is one of the listed intended ones, or sits in a decoder whose widths the format rules judge. HDR: the change counter and schema cookie come from header offsets 24 and 40; FRESH: a scanned []byte is a copy, so a caller cannot rewrite a cached page. CACHE-3: the cached sqlite_master answers exactly what the read that filled the cache answered (list and error). LOCK-3 also: nothing is validated in Database.RLock before the pager's lock is requested.",
		NotDecided:  "History-dependent aspects: that SQLite bumps the counters as assumed and cache coherence for particular interleavings.",
	}
	Props["C09"] = PropInfo{
		Explanation: "RD-TABLE: the journal gate precedes the header read on every path of every revalidation and a hot journal without a RESERVED lock is an error; JRNL-2: the journal consulted is <file>-journal; JRNL-3: a journal is hot only if it opens, carries SQLite's magic, a sane sector size, a full header and a full first sector, and everything else except a non-ENOENT open error means `no journal`; PAGER-6 for the RESERVED probe. TXN-1: the journal check of resolveDirty precedes every page read of a transaction. LOCK-3 `before the lock`: the hot-journal decision of a transaction is never made before its lock is requested.",
		NotDecided:  "The actual crash-point semantics of a dying SQLite writer (a statement about SQLite's write ordering).",
	}
	Props["C15"] = PropInfo{
		Explanation: "HDR: the stream layout of the struct decoded from the header equals fileformat2 §1.3 and, from the accepting paths of parseHeader (path enumeration with literal extraction), the accepted value set of every header field is computed (whole domain for 1- and 2-byte fields) and compared with the spec; fields that do not affect reading must not influence acceptance. RD-TABLE/TXN-1: the header is re-validated at the start of every transaction before any page read; ERR-2: the header error is propagated. HDR-raw: no header field is read outside parseHeader; LOCK-3: every RLock marks the handle for revalidation. NARROW: every integer conversion that can change the value (a narrower target, or signed to unsigned) is proven to keep it on every path reaching it, is one of the listed intended ones, or sits in a decoder whose widths the format rules judge.",
		NotDecided:  "Real WAL/UTF-16 files beyond their header bytes (only the header matters to sqlittle).",
	}
}

func init() {
	Props["C19"] = PropInfo{
		Explanation: "DRV-1..7 decide the producer/consumer protocol of the database/sql driver on SSA: rows are sent only under a blocking select with the cancellable context's Done(), the channel is closed once by the producer's defer after the error was published, Close cancels then waits then reads the error, Next surfaces the stored error or io.EOF and copies positionally, no cancel function is lost, and the driver reads only through sqlittle.DB.SelectDone/Columns with the table and the expanded columns unchanged (LOCK-2, GLOB-3). ERR rules cover error propagation inside the driver. DRV-8: every iteration of Next's copy loop stores row[i] into dest[i] (database/sql reuses dest); DRV-9: each statement owns a handle opened by its own Prepare and closes it; LOCK-1/LOCK-8: the file lock is released on every return of the locking API; GLUE: SelectDone/Columns route table, callback and columns unchanged to the scan. DRV-3 also: Add/Done/Wait use the Rows' own WaitGroup and no sync value is copied; DRV-7 also: the expanded column list owns its memory; PAGER: what Close releases is the lock RLock took.",
		NotDecided:  "Schedules: that database/sql calls Close, goroutine counts at run time, the second lock window between Columns and SelectDone.",
	}
	Props["C20"] = PropInfo{
		Explanation: "GLOB-1: no package-level variable of the four packages is written after initialisation (stores, element/field stores, map updates, appends, escapes of mutable references, followed through module callees); GLOB-2: no handle type is reachable from a package-level variable's type; GLOB-3: the only goroutine is the driver's producer, whose sharing is ordered by DRV-3/4/5; GLOB-4: per-handle state is written only through the method receiver. DRV-9: statements never share a handle (each Prepare opens its own), so concurrently running producers of one connection work on separate handles. GLOB-1 also: a variable captured by a function literal that package initialisation keeps (the collation functions) is never written; DRV-3: no value holding a sync primitive is copied. ARG-RO: no function of the API packages stores into an element of a slice or map it received as a parameter or receiver (database/sql's dest excepted), so a Key shared between goroutines is never written.",
		NotDecided:  "Races inside the standard library or mmap; a user sharing one handle; the exported mutable globals being changed by the user at run time.",
	}
}

func init() {
	Props["C11"] = PropInfo{
		Explanation: "CMP-matrix evaluates compare() by path enumeration under each of the 25 storage-class pairs (a finite abstraction: the operands are touched only through type tests) and checks the 20 cross-class constants and the 5 delegations incl. operand order; CMP-3way checks the sign tables of the three-way helpers over Order(a,b), that operands are used only in comparisons, and the exact int/real scheme (integer compared as integer, guarded truncation, fraction decided by a float comparison); CMP-search extracts the outcome table of one generic loop iteration of Search and Equals over (record shorter, sign of compare, Desc) with the per-column collation; COLL checks the three registered collations against SQLite's definitions. NARROW: every integer conversion that can change the value (a narrower target, or signed to unsigned) is proven to keep it on every path reaching it, is one of the listed intended ones, or sits in a decoder whose widths the format rules judge. COLLATE-VERBATIM: an explicit COLLATE (BINARY too) reaches the index column as written, so the comparison uses the collation the index was built with.",
		NotDecided:  "NaN (never stored by SQLite), invalid UTF-8 under NOCASE, and that the relation is a total preorder for all concrete values (follows from the tables for the abstracted classes only).",
	}
}

func init() {
	Props["C14"] = PropInfo{
		Explanation: "REC-table evaluates one generic iteration of parseRecord under each serial type 0..13 (path enumeration with the type assumed) and checks guard = bytes decoded = body advance = fileformat2 §2.1 and the sign-extension width; SIGN checks the 24/48-bit readers' shifts, mask and subtrahend; VARINT extracts the loop-body table of readVarint (7 bits for bytes 1..8, 8 bits for the 9th, precedence of the 9th-byte test, count, short input); FMT-spill compares the X/M/K formulas and the three-way choice with the spec after SSA removed naming (canonical expression trees); FMT-overflow checks the overflow page layout and that whole pages are appended. NARROW: every integer conversion that can change the value (a narrower target, or signed to unsigned) is proven to keep it on every path reaching it, is one of the listed intended ones, or sits in a decoder whose widths the format rules judge. PAYLOAD-RAW: only addOverflow reads the in-page part of a payload, every record is parsed from its completed bytes.",
		NotDecided:  "That multi-page chains concatenate correctly for concrete files, and the numeric value of each decode beyond width/sign structure. For serial types ≥ 12 the length expression is evaluated for sampled N (12, 13, 14, 15, 112, 113, 65548, 65549, 2^32, 2^32+1) and compared with (N−12)/2 resp. (N−13)/2; agreement for every N is not proven.",
	}
}

func init() {
	Props["C04"] = PropInfo{
		Explanation: "SRCH: the predicates handed to sort.Search in the table leaf and interior pages, evaluated over Order(cell key, rowid), give (F,T,T) on the right field (first cell with key ≥ rowid — the file format's meaning of an interior key), the match test gives (F,T,F) and always stops; TRAV: the interior descent continues with the following children and the right-most child, the leaf delivers only the first qualifying cell; VARINT: rowid varints incl. the 9-byte negative form; DONE/ERR rules via their own ids. GLUE: the wiring functions between the public API and the b-tree (which table/index name is looked up and how, which column map, rowid and callback reach toRow and the scan, how the key is converted) route exactly the confirmed values on every error-free path. ROOT: the lookup starts at the page opened from the table's own root, never at a page remembered from another lookup; SRCH: `no row` is never answered without searching. NARROW: every integer conversion that can change the value (a narrower target, or signed to unsigned) is proven to keep it on every path reaching it, is one of the listed intended ones, or sits in a decoder whose widths the format rules judge. PAYLOAD-RAW: only addOverflow reads the in-page part of a payload, every record is parsed from its completed bytes. CACHE: whatever get() consults is emptied by clear(), element updates of maps included.",
		NotDecided:  "That interior keys on disk are ordered (a property of the input) and concrete lookups on real trees.",
	}
	Props["C13"] = PropInfo{
		Explanation: "TRAV/TRAV-flag: shape of indexLeaf.IterMin and indexInterior.IterMin (search, then tail iteration; child before the cell's own entry; first child searched, later children and the right-most scanned); SRCH: the binary-search predicate is Search(key, record of that cell), key first, with the probe error latched; CMP-search/CMP-matrix: the comparison tables; RANGE: the cut-off tables of ScanEq/ScanRange/ScanMin. ROOT: range scans start at the index's own root. NARROW: every integer conversion that can change the value (a narrower target, or signed to unsigned) is proven to keep it on every path reaching it, is one of the listed intended ones, or sits in a decoder whose widths the format rules judge. PAYLOAD-RAW: only addOverflow reads the in-page part of a payload, every record is parsed from its completed bytes.",
		NotDecided:  "That the search lands on the right cell in real trees.",
	}
}

func init() {
	Props["C01"] = PropInfo{
		Explanation: "TRAV: the table b-tree iteration methods consume every cell's child in order, then the right-most child, and leaves emit every cell; FMT-spill/FMT-overflow/REC-table: payload split, overflow layout and record decoding agree with the file format; ROWMAP: toRow's three cases (rowid / DEFAULT for short records / record[rowIndex]) and the rowid-alias decision of toColumnIndexRowid; ROWIDALIAS: which column aliases the rowid; ERR-1/2: a definition that cannot be interpreted surfaces as an error before any scan. GLUE: the wiring functions between the public API and the b-tree (which table/index name is looked up and how, which column map, rowid and callback reach toRow and the scan, how the key is converted) route exactly the confirmed values on every error-free path. NARROW: every integer conversion that can change the value (a narrower target, or signed to unsigned) is proven to keep it on every path reaching it, is one of the listed intended ones, or sits in a decoder whose widths the format rules judge. TYPENAME: a declared type with arguments must reach the schema whole (known finding: `INTEGER(n) PRIMARY KEY` is read as a rowid alias, so such a column shows the rowid instead of its values). DONE-2b: an adapter around a result-less row callback never stops the scan. WR-KEY-DEDUP: the record positions of a WITHOUT ROWID table follow the de-duplicated key; PAYLOAD-RAW: only addOverflow reads the in-page part of a payload.",
		NotDecided:  "That decoded values, storage classes and order equal SQLite's on real files; the WITHOUT ROWID column store order (a permutation computed from names).",
	}
	Props["C02"] = PropInfo{
		Explanation: "TRAV/TRAV-flag: index b-tree traversals emit left child, then the interior entry, then the right-most child, every cell; SKIP-1/SKIP-2/ERR: every index entry reaches the row callback or an error, never a stale or skipped row; CHOMP: the rowid is the last index field and the adapters look up and deliver the table row, WITHOUT ROWID lookups typed by the table's PK; IDXCOL: per-column collations; FMT-spill for index cells. GLUE: the wiring functions between the public API and the b-tree (which table/index name is looked up and how, which column map, rowid and callback reach toRow and the scan, how the key is converted) route exactly the confirmed values on every error-free path. NARROW: every integer conversion that can change the value (a narrower target, or signed to unsigned) is proven to keep it on every path reaching it, is one of the listed intended ones, or sits in a decoder whose widths the format rules judge. SCHEMA-IDX: only index rows of this very table are attached to its schema; DONE-2b: an adapter around a result-less row callback never stops the scan. COLLATE-VERBATIM, CONSTRAINT-ORDER, WR-KEY-DEDUP: the key columns, collations and directions the lookups use are those of the definition as SQLite reads it.",
		NotDecided:  "Partial-index membership, expression columns, tie order, collation order on real data (C11's tables cover the comparator).",
	}
	Props["C03"] = PropInfo{
		Explanation: "KEY: asDbKey carries index column i's direction and validated collation to key column i and maps every documented Go type to a storage type; RANGE: ScanEq searches and filters with the same key and stops at the first unequal record; PKSEL: the primary-key dispatch table; IDXCOL: collation of index columns; CMP-matrix/CMP-search: the comparison tables; SRCH/TRAV/DONE-0: the binary search and the descent it starts. GLUE: the wiring functions between the public API and the b-tree (which table/index name is looked up and how, which column map, rowid and callback reach toRow and the scan, how the key is converted) route exactly the confirmed values on every error-free path. NARROW: every integer conversion that can change the value (a narrower target, or signed to unsigned) is proven to keep it on every path reaching it, is one of the listed intended ones, or sits in a decoder whose widths the format rules judge. SCHEMA-IDX: only index rows of this very table are attached to its schema; DONE-2b: an adapter around a result-less row callback never stops the scan. COLLATE-VERBATIM, CONSTRAINT-ORDER, WR-KEY-DEDUP: the key columns, collations and directions the lookups use are those of the definition as SQLite reads it.",
		NotDecided:  "That the binary search finds the first equal entry on real trees; PK/index resolution against SQLite's catalogue (C10).",
	}
	Props["C10"] = PropInfo{
		Explanation: "GRAM: every grammar value the parser reports is defined by the element's own production; ROWIDALIAS: the rowid-alias decision table and its call sites; IDXCOL: collation inheritance with a case-insensitive column lookup; SCHEMA-err via ERR-1/2 exceptions (unparseable table ⇒ error, unparseable index ⇒ omitted); AUTOIDX: the automatic-index counter advances only when an index was added (rowid tables). NEWCT: column-level PRIMARY KEY/UNIQUE become keys on that column with its collation and direction; IDENT-VERBATIM: the parser never rewrites the case of a name; TOK-ADV: the tokenizer advances by exactly the token it read. ADDINDEX same-key: two UNIQUE/PRIMARY KEY constraints are one key iff same columns (any spelling) and collations, whatever the direction, and a WITHOUT ROWID key that takes over an earlier index keeps that index's columns and consumes no automatic-index number (AUTOIDX); TYPENAME: a declared type with arguments must reach the schema whole (known finding: INTEGER(n) PRIMARY KEY is read as a rowid alias). SCHEMA-IDX: only index rows of this very table (with SQL text) are attached to its schema; AUTOIDX also: the counter changes by +1 only and advances whenever a constraint made an index of its own. COLLATE-VERBATIM: collation names reach the statement structs as written; WR-KEY-DEDUP: a WITHOUT ROWID table-level key drops a column it already has; CONSTRAINT-ORDER: a column's UNIQUE and PRIMARY KEY are applied in the order they were written; TOK-START: the tokenizer and readBareword agree on what can start a bare word.",
		NotDecided:  "Automatic-index de-duplication and appended key columns beyond the counter discipline — SQLite catalogue rules implemented as name arithmetic.",
	}
}

func init() {
	Props["C05"] = PropInfo{
		Explanation: "PANIC: every index, slice, division, make, byte-order read, non-comma-ok assertion and explicit panic in the API-reachable functions (goyacc skeleton excepted) is discharged on every path reaching it (path enumeration with loop generations) by a difference-constraint prover fed with the path's branch literals, definitions, checked callee contracts, preconditions proven at every call site and field invariants proven at every store; NIL: results of functions that may return nil are dereferenced only under a non-nil test or after a validating loop; TERM-1: every call-graph cycle spends recursion budget; TERM-2: every loop is a range, progress, shrink or bounded-growth loop; CONTRACT: the contracts themselves; GRAM-0: parser value-stack indices. CACHE-2: a page that failed to parse (a typed nil pointer) never enters the cache; ERR-5. NARROW: every integer conversion that can change the value (a narrower target, or signed to unsigned) is proven to keep it on every path reaching it, is one of the listed intended ones, or sits in a decoder whose widths the format rules judge. KEY: a collation name reaches the comparison only after it was found in CollateFuncs under the very name stored (an unknown name would call a nil function). TOK-START: the tokenizer always advances (no hang on any input). NIL-ERR: a pointer or interface obtained together with an error is used only behind `err == nil`; ASSERT-OK: the value half of a comma-ok type assertion is used only where the assertion succeeded (a page of the other kind, a statement of the other kind, a non-integer rowid never go on as a zero value).",
		NotDecided:  "The magnitude of bounds (a self-referencing interior page is re-traversed exponentially often before the budget runs out; a 2 GiB declared payload is `bounded`), stack depth of readQuoted on megabytes of doubled quotes, memory use of the page cache; mutation of a field by a callee between a length test and its use is not tracked (no such pattern on the tree).",
	}
	Props["C16"] = PropInfo{
		Explanation: "local: GRAM-0/1 (every semantic value is defined by its own production; stale value-stack slots are reported with the production that can leak into them); deterministic: GLOB-1 over package sql (keyword/operator maps, parser tables and flags never written after init) and GRAM-3 (fresh lexer and parser per Parse); total: PANIC over the tokenizer, lexer, sql.go helpers and (through GRAM-0) the action switch, TERM-1/2 for the tokenizer loops and readQuoted's recursion. TOK-LOCAL: the tokenizer carries only its position and result between tokens and Lex overwrites every value field; TOK-ADV: exact advance per token; IDENT-VERBATIM. CONTRACT token count: readNumericLiteral/readQuoted answer −1 or a count within 1..len, readBareword within 0..len (the tokenizer advances by these counts). TOK-START: every way readBareword can answer a count of 0 contradicts the tokenizer's dispatch condition, so the tokenizer always advances.",
		NotDecided:  "That accepted statements are SQLite's language; the multi-byte bareword advance in tokenize (wrong tokens or an error, never a panic).",
	}
	Props["C18"] = PropInfo{
		Explanation: "FRESH: every []byte stored through a *[]byte destination or returned by a scan helper has only fresh origins (make, string conversion, append onto nil/fresh), the file pager returns fresh buffers; SCANPURE: scanning never stores into the row; PANIC/CONTRACT: every row index is guarded, type-switch defaults are dead given the producers (REC-table, ROWMAP); CONV: the constants of the documented conversions (base 10, 64 bit, 'g'/-1, the two time layouts, unix seconds) and zero values for NULL/missing columns. CONV-exact: integer text goes through the exact ParseInt first; ROWMAP: a stored NULL is not replaced by the column default. NARROW: every integer conversion that can change the value (a narrower target, or signed to unsigned) is proven to keep it on every path reaching it, is one of the listed intended ones, or sits in a decoder whose widths the format rules judge. ERR-7/ERR-4/ERR-5: a failed conversion of one destination is returned, not overwritten by the next destination's result. ARG-RO: nothing the caller hands in (keys, column lists) is rewritten.",
		NotDecided:  "The numerical content of strconv/time conversions and float→int edge cases.",
	}
}
