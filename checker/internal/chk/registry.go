package chk

// AllRules is the registry of every rule; properties select rules by tag.
func AllRules() []*Rule {
	var rs []*Rule
	rs = append(rs, lockRules()...)
	return rs
}

type PropInfo struct {
	Explanation string
	NotDecided  string
}

var Props = map[string]PropInfo{}

func init() {
	Props["C06"] = PropInfo{
		Explanation: "Static rules over the resolved program (SSA + VTA call graph) decide the structural necessary conditions of the SHARED-lock interval: every exported sqlittle.DB method that reaches a pager.page implementation brackets all page-reaching calls between a tested RLock and a deferred RUnlock on the same handle (LOCK-1); RUnlock has no other caller and the driver reads only through those methods (LOCK-2); RLock invalidates cached state (LOCK-3); the unix pager requests SQLite's pending byte then shared range, non-blocking, returns both errors, releases the pending byte by defer on every exit and records/clears the shared lock correctly (PAGER); descriptors of the database file are not closed behind another handle's back (LOCK-6, known finding).",
		NotDecided:  "Behaviour of other processes, lock state as observed from outside, the Windows pager (not demonstrable here); the rules decide that sqlittle requests and releases the right byte ranges on the right paths.",
	}
}
