package chk

import (
	"fmt"
	"go/token"
	"go/types"
	"math"
	"strconv"
	"strings"

	"golang.org/x/tools/go/ssa"
)

func cmpRules() []*Rule {
	return []*Rule{
		{ID: "CMP-matrix", Props: []string{"C11", "C03", "C13", "C02"}, Min: 25,
			Doc: "compare() evaluated over the 5×5 storage classes: the 20 cross-class cells are SQLite's constants (NULL < numeric < text < blob), the diagonal delegates to the right three-way helper with the operands in order",
			Run: runCmpMatrix},
		{ID: "CMP-3way", Props: []string{"C11", "C03", "C13", "C02"}, Min: 8,
			Doc: "the three-way helpers: sign table over Order(a,b) is (−1,0,+1) and the operands are touched only through comparisons; the int/real comparison is exact (integer compared as an integer, guarded conversion)",
			Run: runCmp3way},
		{ID: "CMP-search", Props: []string{"C11", "C03", "C13", "C02"}, Min: 12,
			Doc: "Search and Equals loop bodies over (record shorter, sign of compare, Desc): the required outcome table; key first, record second; collation = the column's own or the default, per column",
			Run: runCmpSearch},
		{ID: "COLL", Props: []string{"C11", "C03", "C13", "C02"}, Min: 3,
			Doc: "the registered collations: binary = strings.Compare, rtrim strips only ' ', nocase folds only 'A'..'Z'",
			Run: runColl},
	}
}

var storageClasses = []string{"nil", "int64", "float64", "string", "[]byte"}

func classRank(c string) int {
	switch c {
	case "nil":
		return 0
	case "int64", "float64":
		return 1
	case "string":
		return 2
	}
	return 3
}

func runCmpMatrix(c *Ctx) {
	p := c.P
	fn := c.MustFunc("db", "compare")
	if fn == nil {
		return
	}
	if len(fn.Params) != 3 {
		c.Undecided("compare signature", fn.Pos(), "compare no longer takes (a, b, collate)")
		return
	}
	t := &Termer{P: p}
	a, b, coll := "p:"+fn.Params[0].Name(), "p:"+fn.Params[1].Name(), fn.Params[2]
	for _, ca := range storageClasses {
		for _, cb := range storageClasses {
			key := fmt.Sprintf("cell(%s,%s)", ca, cb)
			assume := []Lit{
				{Subject: "type(" + a + ")", Op: token.EQL, C: ca, Val: true},
				{Subject: "type(" + b + ")", Op: token.EQL, C: cb, Val: true},
			}
			paths, ok := EnumLits(fn.Blocks[0], 0, TabOpts{Termer: t, EventOf: callEvents(p), Assume: assume})
			if !ok {
				c.Undecided(key, fn.Pos(), "too many paths")
				continue
			}
			// keep only the paths that positively established both classes
			var sel []*LPath
			for _, lp := range paths {
				if lp.Has("type("+a+")", token.EQL, ca, true) && lp.Has("type("+b+")", token.EQL, cb, true) {
					sel = append(sel, lp)
				}
			}
			if len(sel) != 1 {
				c.Undecided(key, fn.Pos(), "%d paths establish this class pair (expected exactly one): the dispatch on storage classes is not a plain type switch", len(sel))
				continue
			}
			lp := sel[0]
			if len(lp.Unknown) > 0 {
				c.Undecided(key, fn.Pos(), "the cell depends on an unrecognised condition %v", lp.Unknown)
				continue
			}
			if lp.Exit == nil {
				c.Fail(key, fn.Pos(), "comparing %s with %s panics", ca, cb)
				continue
			}
			res := lp.PS.Resolve(lp.Exit.Results[0])
			ra, rb := classRank(ca), classRank(cb)
			if ra != rb {
				want := int64(-1)
				if ra > rb {
					want = 1
				}
				got, isC := constInt(res)
				c.Check(isC && got == want, key, lp.Exit.Pos(), "cross-class cell returns %s; SQLite orders NULL < numeric < text < blob, so it must be %d", t.Term(res, lp.PS), want)
				continue
			}
			// same class: delegate
			av := fmt.Sprintf("assert(%s,%s)#0", a, ca)
			bv := fmt.Sprintf("assert(%s,%s)#0", b, cb)
			neg := false
			if u, ok := res.(*ssa.UnOp); ok && u.Op == token.SUB {
				neg = true
				res = u.X
			}
			call, _ := res.(*ssa.Call)
			switch {
			case ca == "nil":
				got, isC := constInt(res)
				c.Check(isC && got == 0 && !neg, key, lp.Exit.Pos(), "NULL vs NULL is 0")
			case call == nil:
				c.Fail(key, lp.Exit.Pos(), "same-class cell returns %s instead of delegating to a comparison of the two values", t.Term(res, lp.PS))
			default:
				var args []string
				for _, x := range call.Call.Args {
					args = append(args, t.Term(x, lp.PS))
				}
				callee := call.Call.StaticCallee()
				name := ""
				if callee != nil {
					name = p.FnKey(callee)
				}
				good := false
				what := ""
				switch {
				case ca == "int64" && cb == "int64":
					good = !neg && name == "db.cmpInt64" && len(args) == 2 && args[0] == av && args[1] == bv
					what = "cmpInt64(a, b)"
				case ca == "float64" && cb == "float64":
					good = !neg && name == "db.cmpFloat64" && len(args) == 2 && args[0] == av && args[1] == bv
					what = "cmpFloat64(a, b)"
				case ca == "int64" && cb == "float64":
					good = !neg && name == "db.cmpIntFloat" && len(args) == 2 && args[0] == av && args[1] == bv
					what = "cmpIntFloat(a, b)"
				case ca == "float64" && cb == "int64":
					good = neg && name == "db.cmpIntFloat" && len(args) == 2 && args[0] == bv && args[1] == av
					what = "-cmpIntFloat(b, a)"
				case ca == "string":
					good = !neg && callee == nil && call.Call.Value == ssa.Value(coll) && len(args) == 2 && args[0] == av && args[1] == bv
					what = "the collation parameter applied to (a, b)"
				case ca == "[]byte":
					good = !neg && callee != nil && isLibFunc(callee, "bytes", "Compare") && len(args) == 2 && args[0] == av && args[1] == bv
					what = "bytes.Compare(a, b)"
				}
				c.Check(good, key, lp.Exit.Pos(), "same-class cell must be %s; it is %s%s(%s)", what, map[bool]string{true: "-", false: ""}[neg], orStr(name, t.Term(call.Call.Value, lp.PS)), strings.Join(args, ", "))
			}
		}
	}
}

// onlyCompared: every use of parameter v in fn is an ordered/equality comparison (or a debug ref).
func onlyCompared(v ssa.Value) (bool, string) {
	for _, r := range *v.Referrers() {
		switch x := r.(type) {
		case *ssa.BinOp:
			if _, ok := negOp[x.Op]; !ok {
				return false, x.String()
			}
		case *ssa.DebugRef:
		default:
			return false, r.String()
		}
	}
	return true, ""
}

func runCmp3way(c *Ctx) {
	p := c.P
	t := &Termer{P: p}
	for _, name := range []string{"cmpInt64", "cmpFloat64"} {
		fn := c.MustFunc("db", name)
		if fn == nil {
			continue
		}
		a, b := fn.Params[0], fn.Params[1]
		for _, prm := range fn.Params {
			if ok, use := onlyCompared(prm); !ok {
				c.Fail(name+": comparisons only", fn.Pos(), "operand %s is used in `%s`: the result then depends on arithmetic that can wrap or round (e.g. the sign of a−b overflows for operands 2^63 apart), not only on the order of the operands", prm.Name(), use)
			}
		}
		sub := "p:" + a.Name() + "−p:" + b.Name()
		for _, sgn := range []int64{-1, 0, 1} {
			key := fmt.Sprintf("%s: order %+d", name, sgn)
			var assume []Lit
			switch sgn {
			case -1:
				assume = []Lit{{Subject: sub, Op: token.LSS, C: "0", IsInt: true, N: 0, Val: true}}
			case 0:
				assume = []Lit{{Subject: sub, Op: token.EQL, C: "0", IsInt: true, N: 0, Val: true}}
			case 1:
				assume = []Lit{{Subject: sub, Op: token.GTR, C: "0", IsInt: true, N: 0, Val: true}}
			}
			paths, _ := EnumLits(fn.Blocks[0], 0, TabOpts{Termer: t, Assume: assume})
			// also the reversed subject (b−a) may be used by the code; normalise by adding both
			good := len(paths) > 0
			for _, lp := range paths {
				if lp.Exit == nil || len(lp.Unknown) > 0 {
					good = false
					continue
				}
				// reject paths that contradict the assumed order through the swapped subject
				if contradictsSwapped(lp, "p:"+b.Name()+"−p:"+a.Name(), sgn) {
					continue
				}
				got, isC := constInt(lp.PS.Resolve(lp.Exit.Results[0]))
				if !isC || got != sgn {
					good = false
				}
			}
			c.Check(good, key, fn.Pos(), "when a %s b the helper returns %d on every path", map[int64]string{-1: "<", 0: "==", 1: ">"}[sgn], sgn)
		}
	}
	// exact int/real comparison
	fn := c.MustFunc("db", "cmpIntFloat")
	if fn == nil {
		return
	}
	i, f := fn.Params[0], fn.Params[1]
	if !types.Identical(i.Type(), types.Typ[types.Int64]) || !types.Identical(f.Type(), types.Typ[types.Float64]) {
		c.Undecided("cmpIntFloat signature", fn.Pos(), "expected (int64, float64)")
		return
	}
	// CMP-lossless: the integer reaches an integer comparison
	var intCmp []*ssa.BinOp
	onlyViaFloat := true
	viaHelper := false
	for _, r := range *i.Referrers() {
		switch x := r.(type) {
		case *ssa.BinOp:
			if _, ok := negOp[x.Op]; ok {
				intCmp = append(intCmp, x)
				onlyViaFloat = false
			}
		case *ssa.Convert:
			if b, ok := x.Type().Underlying().(*types.Basic); !ok || b.Info()&types.IsFloat == 0 {
				onlyViaFloat = false
			}
		case *ssa.Call:
			// handed, as an integer, to the integer three-way helper (whose sign table is decided above)
			if cal := x.Call.StaticCallee(); cal != nil && p.FnKey(cal) == "db.cmpInt64" {
				onlyViaFloat = false
				viaHelper = true
			}
		}
	}
	c.Check(!onlyViaFloat && (len(intCmp) > 0 || viaHelper), "cmpIntFloat: lossless", fn.Pos(), "the integer operand is compared as an integer (not only through float64(i), which maps 2^53 and 2^53+1 to the same value)")
	// the float→int conversion is guarded by the range checks
	var conv *ssa.Convert
	for _, r := range *f.Referrers() {
		if x, ok := r.(*ssa.Convert); ok && types.Identical(x.Type(), types.Typ[types.Int64]) {
			conv = x
		}
	}
	if conv == nil {
		c.Fail("cmpIntFloat: integral part", fn.Pos(), "the real operand is never truncated to its integral part for an integer comparison")
		return
	}
	also := map[*ssa.Function]bool{}
	if h := findFn(p, "db.cmpInt64"); h != nil {
		also[h] = true
	}
	paths, ok := EnumLits(fn.Blocks[0], 0, TabOpts{Termer: t, EventOf: callEvents(p), InlineAlso: also})
	if !ok {
		c.Undecided("cmpIntFloat: paths", fn.Pos(), "too many paths")
		return
	}
	fT, iT := "p:"+f.Name(), "p:"+i.Name()
	parseF := func(s string) float64 { v, _ := strconv.ParseFloat(s, 64); return v }
	lo, hi := -9223372036854775808.0, 9223372036854775808.0
	for _, lp := range paths {
		// classify the path
		var below, above, inLo, inHi bool
		for _, l := range lp.Lits {
			if l.Subject != fT {
				continue
			}
			v := parseF(l.C)
			switch {
			case l.Op == token.LSS && v == lo:
				below, inLo = l.Val, !l.Val
			case l.Op == token.GEQ && v == hi:
				above, inHi = l.Val, !l.Val
			case l.Op == token.GEQ && v == lo:
				inLo, below = l.Val, !l.Val
			case l.Op == token.LSS && v == hi:
				inHi, above = l.Val, !l.Val
			}
		}
		key := "cmpIntFloat:" + pathSig(lp, 99)
		res := "?"
		if lp.Exit != nil {
			res = t.Term(lp.Exit.Results[0], lp.PS)
		}
		usesConv := false
		for _, l := range lp.Lits {
			if bo, ok := l.Cond.(*ssa.BinOp); ok && (bo.X == ssa.Value(conv) || bo.Y == ssa.Value(conv)) {
				usesConv = true
			}
		}
		switch {
		case below:
			c.Check(res == "const:1", key, lp.Exit.Pos(), "real below −2^63 ⇒ every integer is greater (+1); returns %s", res)
		case above:
			c.Check(res == "const:-1", key, lp.Exit.Pos(), "real ≥ 2^63 ⇒ every integer is smaller (−1); returns %s", res)
		case usesConv && !(inLo && inHi):
			c.Fail(key, conv.Pos(), "int64(f) is compared on a path that did not establish −2^63 ≤ f < 2^63 (the conversion is undefined outside that range)")
		case onlySign(lp, iT+"−"+fT, -1):
			c.Check(res == "const:-1", key, lp.Exit.Pos(), "i < ⌊f⌋ ⇒ −1; returns %s", res)
		case onlySign(lp, iT+"−"+fT, 1):
			c.Check(res == "const:1", key, lp.Exit.Pos(), "i > ⌊f⌋ ⇒ +1; returns %s", res)
		case lp.Holds(fT+"−"+fT, token.NEQ, "0"):
			c.Pass(key, lp.Exit.Pos(), "NaN (never stored by SQLite): returns %s", res)
		default:
			// equal integral parts: the fraction decides
			good := false
			if lp.Exit != nil {
				if call, ok := lp.PS.Resolve(lp.Exit.Results[0]).(*ssa.Call); ok && call.Call.StaticCallee() != nil && p.FnKey(call.Call.StaticCallee()) == "db.cmpFloat64" {
					a0, a1 := t.Term(call.Call.Args[0], lp.PS), t.Term(call.Call.Args[1], lp.PS)
					good = a0 == iT && a1 == fT && inLo && inHi
				}
			}
			if good && !onlySign(lp, iT+"−"+fT, 0) {
				c.Fail(key, lp.Exit.Pos(), "the fraction is asked to decide on a path that has not established i == ⌊f⌋ (signs of i−⌊f⌋ still possible: %v): float64(i) is not exact for |i| > 2^53, so an integer above or below the real's integral part may compare equal", signsConsistent(lp, iT+"−"+fT))
				continue
			}
			c.Check(good, key, lp.Exit.Pos(), "same integral part ⇒ cmpFloat64(float64(i), f) decides by the fraction (exact there, since |i| and f agree in their integral part); returns %s", res)
		}
	}
	_ = math.Inf
}

// onlySign: the path's literals on subject (a difference a−b) leave exactly the sign sgn possible — however the
// three-way test is spelled (`a < b`, `!(a >= b)`, `a != b` after `!(a < b)` …).
func onlySign(lp *LPath, subject string, sgn int64) bool {
	has := false
	for _, l := range lp.Lits {
		if l.Subject == subject && l.IsInt {
			has = true
		}
	}
	if !has {
		return false
	}
	ss := signsConsistent(lp, subject)
	return len(ss) == 1 && ss[0] == sgn
}

func contradictsSwapped(lp *LPath, swapped string, sgn int64) bool {
	for _, l := range lp.Lits {
		if l.Subject != swapped || !l.IsInt {
			continue
		}
		// b−a has sign −sgn
		if evalCmp(-sgn, l.Op, l.N) != l.Val {
			return true
		}
	}
	return false
}

// loopHeader returns the unique loop header (block with phis inside a cycle) of fn, or nil.
func loopHeaders(fn *ssa.Function) []*ssa.BasicBlock {
	var out []*ssa.BasicBlock
	for _, b := range fn.Blocks {
		hasPhi := false
		for _, in := range b.Instrs {
			if _, ok := in.(*ssa.Phi); ok {
				hasPhi = true
			}
		}
		if !inCycle(b) {
			continue
		}
		// a header is entered from outside the cycle: it has a predecessor that it does not reach back... use dominance:
		isHeader := false
		for _, pr := range b.Preds {
			if b.Dominates(pr) {
				isHeader = true // back-edge
			}
		}
		if isHeader && (hasPhi || true) {
			out = append(out, b)
		}
	}
	return out
}

// bodyPaths enumerates one generic iteration of fn's single loop: from the header (phis opaque) to a return or back
// to the header.
func bodyPaths(p *Program, fn *ssa.Function, t *Termer) (*ssa.BasicBlock, []*LPath, bool) {
	return bodyPathsOpt(p, fn, t, false)
}

// bodyPathsOpt with later: one iteration that was reached through the back-edge (the first iteration is then the
// business of whoever enumerates the function from its entry).
func bodyPathsOpt(p *Program, fn *ssa.Function, t *Termer, later bool) (*ssa.BasicBlock, []*LPath, bool) {
	hs := loopHeaders(fn)
	var bind map[*ssa.Parameter]ssa.Value
	if len(hs) == 0 {
		// the loop may have moved into a freshly extracted helper that fn merely delegates to
		// (`func (l *T) cellIter(db, cb) { return l.cellIterFrom(0, cb) }`): one generic iteration of the helper's loop,
		// with the helper's parameters bound to what fn passes
		if h, b := loopDelegate(fn); h != nil {
			hs, bind = loopHeaders(h), b
		}
	}
	if len(hs) != 1 {
		return nil, nil, false
	}
	h := hs[0]
	paths, ok := EnumLits(h, 0, TabOpts{Termer: t, EventOf: callEvents(p), InitBind: bind, StartHavoc: later,
		Stop: func(in ssa.Instruction, ps *pathState) bool { return in == h.Instrs[0] && len(ps.Path) > 1 }})
	return h, paths, ok
}

// loopDelegate: fn contains no loop and makes exactly one call to a freshly extracted helper that has exactly one.
func loopDelegate(fn *ssa.Function) (*ssa.Function, map[*ssa.Parameter]ssa.Value) {
	var found *ssa.Function
	var bind map[*ssa.Parameter]ssa.Value
	for _, cs := range callsIn(fn) {
		h := cs.Common().StaticCallee()
		if h == nil || inlinable == nil || !inlinable(h) || len(loopHeaders(h)) != 1 || len(h.Params) != len(cs.Common().Args) {
			continue
		}
		if found != nil {
			return nil, nil
		}
		found = h
		bind = map[*ssa.Parameter]ssa.Value{}
		for k, a := range cs.Common().Args {
			bind[h.Params[k]] = a
		}
	}
	return found, bind
}

func signsConsistent(lp *LPath, subject string) []int64 {
	var out []int64
	for _, s := range []int64{-1, 0, 1} {
		ok := true
		for _, l := range lp.Lits {
			if l.Subject == subject && l.IsInt && evalCmp(s, l.Op, l.N) != l.Val {
				ok = false
			}
		}
		if ok {
			out = append(out, s)
		}
	}
	return out
}

func runCmpSearch(c *Ctx) {
	p := c.P
	for _, name := range []string{"Search", "Equals"} {
		fn := c.MustFunc("db", name)
		if fn == nil {
			continue
		}
		t := &Termer{P: p}
		h, paths, ok := bodyPaths(p, fn, t)
		if !ok {
			c.Undecided(name+": loop", fn.Pos(), "%s is not a single loop over the key columns any more", name)
			continue
		}
		keyP, recP := "p:"+fn.Params[0].Name(), "p:"+fn.Params[1].Name()
		// no verdict before the first column is looked at — except what cannot depend on the columns: an empty key
		// (true), and for Equals a record with fewer fields than the key (never equal). For Search a short record is
		// NOT decided by its length: its first differing column decides, and only an all-equal prefix makes it smaller
		if h != nil && h.Parent() == fn {
			pre, okPre := EnumLits(fn.Blocks[0], 0, TabOpts{Termer: t, EventOf: callEvents(p),
				Stop: func(in ssa.Instruction, ps *pathState) bool { return in == h.Instrs[0] }})
			if !okPre {
				c.Undecided(name+": before the loop", fn.Pos(), "too many paths")
			}
			for _, lp := range pre {
				if lp.Exit == nil {
					continue
				}
				retV := t.Term(lp.Exit.Results[0], lp.PS)
				pr := newProver(p, t, lp)
				lk, lr := "len("+keyP+")", "len("+recP+")"
				pr.g.addLE(zero, lk, 0)
				pr.g.addLE(zero, lr, 0)
				pr.applyDisj()
				emptyKey := pr.g.entailsLE(lk, zero, 0)
				shortRec := pr.g.entailsLE(lr, lk, -1)
				good := (retV == "const:true" && emptyKey) || (name == "Equals" && retV == "const:false" && shortRec)
				c.Check(good, name+": before the loop:"+pathSig(lp, 99), lp.Exit.Pos(), "%s answers %s before comparing any column on path [%s]; only an empty key (true)%s may be decided there: a record shorter than the key is still ordered by its first differing column", name, retV, pathDesc(lp), map[bool]string{true: " or a record shorter than the key (false)", false: ""}[name == "Equals"])
			}
		}
		// loop index term: the index used for key[...]
		for _, lp := range paths {
			pk := name + ":" + pathSig(lp, 99)
			if len(lp.Unknown) > 0 {
				c.Undecided(pk, fn.Pos(), "unrecognised condition %v", lp.Unknown)
				continue
			}
			ci := eventIndex(lp, "call", "db.compare")
			cont := lp.Stop != nil
			retV := ""
			if lp.Exit != nil {
				retV = t.Term(lp.Exit.Results[0], lp.PS)
			}
			if ci < 0 {
				// no comparison on this path: loop exhausted ⇒ true, or record too short ⇒ false
				// "record too short" is the exit taken right at the length test: the last thing the path established
				// is the literal on len(record)
				short := false
				if n := len(lp.Lits); n > 0 {
					l := lp.Lits[n-1]
					if strings.Contains(l.Subject, "len("+recP+")") && !strings.Contains(l.Subject, "len("+keyP+")") {
						short = true
					}
				}
				switch {
				case cont:
					c.Fail(pk, fn.Pos(), "a key column is skipped without being compared; path [%s]", pathDesc(lp))
				case short:
					c.Check(retV == "const:false", pk, lp.Exit.Pos(), "record has fewer fields than the key ⇒ false (returns %s)", retV)
				default:
					c.Check(retV == "const:true", pk, lp.Exit.Pos(), "all key columns passed ⇒ true (returns %s)", retV)
				}
				continue
			}
			args := lp.Events[ci].Args
			// find the loop index from the key argument: key[IDX].V
			idx := ""
			if strings.HasPrefix(args[0], keyP+"[") && strings.HasSuffix(args[0], "].V") {
				idx = args[0][len(keyP)+1 : len(args[0])-3]
			}
			okArgs := idx != "" && args[1] == recP+"["+idx+"]"
			if !okArgs {
				c.Fail(pk, lp.Events[ci].Instr.Pos(), "compare is called with (%s, %s): expected (key[i].V, record[i]) — key first, same column index", args[0], args[1])
				continue
			}
			el := keyP + "[" + idx + "]"
			wantColl := "g:CollateFuncs[g:DefaultCollate]"
			if lp.Holds(el+".Collate", token.NEQ, `""`) {
				wantColl = "g:CollateFuncs[" + el + ".Collate]"
			} else if !lp.Holds(el+".Collate", token.EQL, `""`) {
				wantColl = "(collation not decided on this path)"
			}
			if args[2] != wantColl {
				c.Fail(pk, lp.Events[ci].Instr.Pos(), "column %s is compared with collation %s, expected %s (the column's own collation if it names one, else the default — never one carried over from another column)", el, args[2], wantColl)
				continue
			}
			signs := signsConsistent(lp, "call:db.compare")
			good := true
			why := ""
			for _, s := range signs {
				var want string // "true", "false", "next"
				if name == "Equals" {
					want = map[bool]string{true: "next", false: "false"}[s == 0]
				} else {
					desc := lp.Holds(el+".Desc", token.EQL, "true")
					asc := lp.Holds(el+".Desc", token.EQL, "false") || lp.Has(el+".Desc", token.EQL, "true", false)
					if s == 0 {
						want = "next" // equal columns decide nothing, whatever the direction
					} else {
						if !desc && !asc {
							good, why = false, "the column's direction is not consulted"
							break
						}
						eff := s
						if desc {
							eff = -s
						}
						want = map[int64]string{-1: "true", 1: "false"}[eff]
					}
				}
				got := "next"
				if !cont {
					got = strings.TrimPrefix(retV, "const:")
				}
				if got != want {
					good = false
					why = fmt.Sprintf("for compare(key, record) %s 0 the outcome is `%s`, it must be `%s`", map[int64]string{-1: "<", 0: "==", 1: ">"}[s], got, want)
				}
			}
			c.Check(good, pk, lp.Events[ci].Instr.Pos(), "%s", orStr(why, "outcome table row holds; path ["+pathDesc(lp)+"]"))
		}
		_ = h
	}
}

func runColl(c *Ctx) {
	p := c.P
	init := p.SPkg["db"].Func("init")
	if init == nil {
		c.Undecided("CollateFuncs", token.NoPos, "package db has no init")
		return
	}
	found := map[string]ssa.Value{}
	for _, in := range instrs(init) {
		mu, ok := in.(*ssa.MapUpdate)
		if !ok {
			continue
		}
		k, ok := constString(mu.Key)
		if !ok {
			continue
		}
		if _, isSig := mu.Value.Type().Underlying().(*types.Signature); isSig {
			found[k] = mu.Value
		}
	}
	for _, name := range []string{"binary", "rtrim", "nocase"} {
		v, ok := found[name]
		if !ok {
			c.Fail(name, init.Pos(), "collation %q is not registered in CollateFuncs", name)
			continue
		}
		var fn *ssa.Function
		switch x := v.(type) {
		case *ssa.Function:
			fn = x
		case *ssa.MakeClosure:
			fn = x.Fn.(*ssa.Function)
		}
		if fn == nil {
			c.Undecided(name, init.Pos(), "collation %q is not a function literal or function", name)
			continue
		}
		switch name {
		case "binary":
			c.Check(isLibFunc(fn, "strings", "Compare"), name, init.Pos(), "BINARY is strings.Compare (memcmp order)")
		case "rtrim":
			ok, why := checkTrimCompare(fn)
			c.Check(ok, name, fn.Pos(), "RTRIM compares with only trailing spaces ignored: %s", why)
		case "nocase":
			ok, why := checkNocase(p, fn)
			c.Check(ok, name, fn.Pos(), "NOCASE folds only the 26 ASCII upper-case letters: %s", why)
		}
	}
}

// checkTrimCompare: return strings.Compare(strings.TrimRight(a, " "), strings.TrimRight(b, " "))
func checkTrimCompare(fn *ssa.Function) (bool, string) {
	rets := returnsOf(fn)
	if len(rets) != 1 || len(fn.Params) != 2 {
		return false, "unrecognised shape"
	}
	call, ok := rets[0].Results[0].(*ssa.Call)
	if !ok || !isLibFunc(call.Call.StaticCallee(), "strings", "Compare") {
		return false, "does not end in strings.Compare"
	}
	for i, a := range call.Call.Args {
		tc, ok := a.(*ssa.Call)
		if !ok || !isLibFunc(tc.Call.StaticCallee(), "strings", "TrimRight") {
			return false, "operand is not strings.TrimRight(x, cutset)"
		}
		if tc.Call.Args[0] != ssa.Value(fn.Params[i]) {
			return false, "operands are not (a, b) in order"
		}
		cut, ok := constString(tc.Call.Args[1])
		if !ok || cut != " " {
			return false, fmt.Sprintf("cutset is %q; SQLite's RTRIM ignores trailing spaces (0x20) only, so 'abc\\t' and 'abc' are different", cut)
		}
	}
	return true, "cutset \" \" on both operands, in order"
}

// checkNocase: strings.Compare(strings.Map(lc, a), strings.Map(lc, b)), lc folds exactly 'A'..'Z'
func checkNocase(p *Program, fn *ssa.Function) (bool, string) {
	rets := returnsOf(fn)
	if len(rets) != 1 || len(fn.Params) != 2 {
		return false, "unrecognised shape"
	}
	call, ok := rets[0].Results[0].(*ssa.Call)
	if !ok || !isLibFunc(call.Call.StaticCallee(), "strings", "Compare") {
		return false, "does not end in strings.Compare"
	}
	var lc *ssa.Function
	for i, a := range call.Call.Args {
		mc, ok := a.(*ssa.Call)
		if !ok || !isLibFunc(mc.Call.StaticCallee(), "strings", "Map") {
			return false, "operand is not strings.Map(fold, x)"
		}
		if mc.Call.Args[1] != ssa.Value(fn.Params[i]) {
			return false, "operands are not (a, b) in order"
		}
		var f *ssa.Function
		switch x := mc.Call.Args[0].(type) {
		case *ssa.MakeClosure:
			f = x.Fn.(*ssa.Function)
		case *ssa.Function:
			f = x
		}
		if f == nil || (lc != nil && lc != f) {
			return false, "the two operands are folded by different functions"
		}
		lc = f
	}
	// fold table: exactly 65..90 are changed
	t := &Termer{P: p}
	paths, ok := EnumLits(lc.Blocks[0], 0, TabOpts{Termer: t, EventOf: callEvents(p)})
	if !ok || len(lc.Params) != 1 {
		return false, "fold function too complex"
	}
	r := "p:" + lc.Params[0].Name()
	for _, v := range []int64{0, 64, 65, 66, 89, 90, 91, 96, 97, 122, 127, 128, 0xc0, 0x130, 0x212a} {
		for _, lp := range paths {
			consistent := true
			for _, l := range lp.Lits {
				if l.Subject == r && l.IsInt && evalCmp(v, l.Op, l.N) != l.Val {
					consistent = false
				}
			}
			if !consistent || lp.Exit == nil {
				continue
			}
			res := t.Term(lp.Exit.Results[0], lp.PS)
			folded := res != r
			want := v >= 65 && v <= 90
			if folded != want {
				return false, fmt.Sprintf("rune %d (%q) is %s", v, rune(v), map[bool]string{true: "folded, but SQLite's NOCASE folds ASCII letters only", false: "not folded"}[folded])
			}
			if folded {
				okFold := strings.Contains(res, "call:strings.ToLower") || strings.Contains(res, "call:unicode.ToLower") || res == "("+r+"+const:32)"
				if !okFold {
					return false, "the folded value is " + res + ", not the lower-case letter"
				}
			}
		}
	}
	return true, "runes 65..90 map to lower case, every other probed rune is unchanged"
}

// isLoopHeader: b is the target of a back-edge.
func isLoopHeader(b *ssa.BasicBlock) bool {
	for _, pr := range b.Preds {
		if b.Dominates(pr) {
			return true
		}
	}
	return false
}
