package chk

import (
	"fmt"
	"go/ast"
	"go/constant"
	"go/importer"
	"go/parser"
	"go/token"
	"go/types"
	"sort"

	"golang.org/x/tools/go/ssa"
	"golang.org/x/tools/go/ssa/ssautil"
)

// Rules added after seeding round 9 (clean-up commits that almost preserve behaviour).
func round9Rules() []*Rule {
	return []*Rule{
		{ID: "KEY-COLL", Props: []string{"C05", "C11", "C03", "C02"}, Min: 2,
			Doc: "db.KeyCol.Collate is `either empty or names a valid CollateFuncs key` (the comparison calls CollateFuncs[name] without looking at it: an unknown name is a call of a nil function). Every store into that field in the module stores the empty string, a literal key of the CollateFuncs table, a copy of another KeyCol.Collate, or a value for which `_, ok := CollateFuncs[v]` was established true on every path to the store",
			Run: runKeyColl},
		{ID: "STACK-ADDR", Props: []string{"C16", "C10"}, Min: 90,
			Doc: "no semantic action of the compiled parser lets a reference to the parser's value stack outlive the action: no `&yyDollar[k]…`/`&yyS[…]…` and no function literal that mentions yyDollar, yyS or yyVAL. Stack slots are overwritten by the next shift, so a retained reference makes what is reported for one clause depend on the tokens that follow it",
			Run: runStackAddr},
	}
}

// ---- KEY-COLL ------------------------------------------------------------------------------------------------

// collateTableKeys reads the literal keys of db.CollateFuncs.
func collateTableKeys(p *Program) (map[string]bool, token.Pos) {
	pk := p.ByPath[modPkgPath("db")]
	if pk == nil {
		return nil, token.NoPos
	}
	for _, f := range pk.Syntax {
		for _, d := range f.Decls {
			gd, ok := d.(*ast.GenDecl)
			if !ok || gd.Tok != token.VAR {
				continue
			}
			for _, sp := range gd.Specs {
				vs := sp.(*ast.ValueSpec)
				for i, n := range vs.Names {
					if n.Name != "CollateFuncs" || i >= len(vs.Values) {
						continue
					}
					cl, ok := vs.Values[i].(*ast.CompositeLit)
					if !ok {
						return nil, n.Pos()
					}
					keys := map[string]bool{}
					for _, e := range cl.Elts {
						kv, ok := e.(*ast.KeyValueExpr)
						if !ok {
							return nil, n.Pos()
						}
						tv, ok := pk.TypesInfo.Types[kv.Key]
						if !ok || tv.Value == nil || tv.Value.Kind() != constant.String {
							return nil, n.Pos()
						}
						keys[constant.StringVal(tv.Value)] = true
					}
					return keys, n.Pos()
				}
			}
		}
	}
	return nil, token.NoPos
}

func isKeyColCollate(fa *ssa.FieldAddr) bool {
	pt, ok := fa.X.Type().Underlying().(*types.Pointer)
	if !ok {
		return false
	}
	nt, ok := pt.Elem().(*types.Named)
	if !ok || nt.Obj().Pkg() == nil || nt.Obj().Pkg().Path() != modPkgPath("db") || nt.Obj().Name() != "KeyCol" {
		return false
	}
	st, ok := nt.Underlying().(*types.Struct)
	return ok && fa.Field < st.NumFields() && st.Field(fa.Field).Name() == "Collate"
}

func isCollateFuncsLoad(v ssa.Value) bool {
	u, ok := v.(*ssa.UnOp)
	if !ok || u.Op != token.MUL {
		return false
	}
	g, ok := u.X.(*ssa.Global)
	return ok && g.Name() == "CollateFuncs" && g.Pkg != nil && g.Pkg.Pkg.Path() == modPkgPath("db")
}

// collateValidatedAt: some comma-ok lookup CollateFuncs[v] is known true on every path into block b.
func collateValidatedAt(v ssa.Value, b *ssa.BasicBlock) bool {
	refs := v.Referrers()
	if refs == nil {
		return false
	}
	for _, r := range *refs {
		lk, ok := r.(*ssa.Lookup)
		if !ok || !lk.CommaOk || lk.Index != v || !isCollateFuncsLoad(lk.X) {
			continue
		}
		for _, r2 := range *lk.Referrers() {
			ex, ok := r2.(*ssa.Extract)
			if !ok || ex.Index != 1 {
				continue
			}
			// the condition and its negation
			type cond struct {
				v   ssa.Value
				neg bool
			}
			conds := []cond{{ex, false}}
			for _, r3 := range *ex.Referrers() {
				if u, ok := r3.(*ssa.UnOp); ok && u.Op == token.NOT {
					conds = append(conds, cond{u, true})
				}
			}
			for _, cd := range conds {
				for _, r3 := range *cd.v.Referrers() {
					iff, ok := r3.(*ssa.If)
					if !ok {
						continue
					}
					safe := iff.Block().Succs[0]
					if cd.neg {
						safe = iff.Block().Succs[1]
					}
					if len(safe.Preds) == 1 && safe.Dominates(b) {
						return true
					}
				}
			}
		}
	}
	return false
}

// collateFromHelper: v is the string result of a module helper whose error-free returns hand out only valid names,
// and (when the helper also returns an error) block b is reached only with that error established nil.
func collateFromHelper(p *Program, v ssa.Value, b *ssa.BasicBlock, keys map[string]bool) bool {
	var call *ssa.Call
	var tuple bool
	switch x := v.(type) {
	case *ssa.Extract:
		if x.Index != 0 {
			return false
		}
		call, _ = x.Tuple.(*ssa.Call)
		tuple = true
	case *ssa.Call:
		call = x
	}
	if call == nil {
		return false
	}
	fn := call.Call.StaticCallee()
	if fn == nil || !p.InModule(fn) || len(fn.Blocks) == 0 {
		return false
	}
	errT := types.Universe.Lookup("error").Type()
	hasErr := false
	for _, blk := range fn.Blocks {
		ret, ok := blk.Instrs[len(blk.Instrs)-1].(*ssa.Return)
		if !ok {
			continue
		}
		if len(ret.Results) == 0 {
			return false
		}
		if last := ret.Results[len(ret.Results)-1]; len(ret.Results) > 1 && types.Identical(last.Type(), errT) {
			hasErr = true
			if k, isC := last.(*ssa.Const); !isC || !k.IsNil() {
				continue // an error return: the caller must not use the name
			}
		}
		r0 := ret.Results[0]
		if k, isC := r0.(*ssa.Const); isC && k.Value != nil && k.Value.Kind() == constant.String {
			if s := constant.StringVal(k.Value); s == "" || keys[s] {
				continue
			}
			return false
		}
		if !collateValidatedAt(r0, blk) {
			return false
		}
	}
	if !tuple || !hasErr {
		return !hasErr || !tuple
	}
	// the caller's store must be reached only with err == nil
	for _, r := range *call.Referrers() {
		ex, ok := r.(*ssa.Extract)
		if !ok || !types.Identical(ex.Type(), errT) {
			continue
		}
		for _, r2 := range *ex.Referrers() {
			bo, ok := r2.(*ssa.BinOp)
			if !ok || (bo.Op != token.EQL && bo.Op != token.NEQ) {
				continue
			}
			var other ssa.Value = bo.Y
			if bo.Y == ssa.Value(ex) {
				other = bo.X
			}
			if k, isC := other.(*ssa.Const); !isC || !k.IsNil() {
				continue
			}
			for _, r3 := range *bo.Referrers() {
				iff, ok := r3.(*ssa.If)
				if !ok {
					continue
				}
				safe := iff.Block().Succs[0] // err == nil
				if bo.Op == token.NEQ {
					safe = iff.Block().Succs[1]
				}
				if len(safe.Preds) == 1 && safe.Dominates(b) {
					return true
				}
			}
		}
	}
	return false
}

func runKeyColl(c *Ctx) {
	p := c.P
	keys, pos := collateTableKeys(p)
	if keys == nil {
		c.Undecided("db.CollateFuncs", pos, "the collation table is not a map literal with constant string keys: the set of valid names cannot be read")
		return
	}
	var names []string
	for k := range keys {
		names = append(names, k)
	}
	sort.Strings(names)
	c.Pass("db.CollateFuncs", pos, "valid collation names read from the table literal: %v", names)
	count := map[string]int{}
	for _, fn := range p.ModFuncs() {
		for _, in := range instrs(fn) {
			st, ok := in.(*ssa.Store)
			if !ok {
				continue
			}
			fa, ok := st.Addr.(*ssa.FieldAddr)
			if !ok || !isKeyColCollate(fa) {
				continue
			}
			fk := p.FnKey(fn)
			count[fk]++
			key := fmt.Sprintf("%s store#%d", fk, count[fk])
			switch v := st.Val.(type) {
			case *ssa.Const:
				if v.Value != nil && v.Value.Kind() == constant.String {
					s := constant.StringVal(v.Value)
					c.Check(s == "" || keys[s], key, st.Pos(), "KeyCol.Collate is set to the literal %q (valid names: %v)", s, names)
					continue
				}
				c.Undecided(key, st.Pos(), "KeyCol.Collate is set from a constant that is not a string")
				continue
			case *ssa.UnOp:
				if v.Op == token.MUL {
					if src, ok := v.X.(*ssa.FieldAddr); ok && isKeyColCollate(src) {
						c.Pass(key, st.Pos(), "KeyCol.Collate is copied from another KeyCol (valid by the same invariant)")
						continue
					}
				}
			}
			if collateValidatedAt(st.Val, st.Block()) {
				c.Pass(key, st.Pos(), "the stored name was looked up in CollateFuncs and found on every path to the store")
			} else if collateFromHelper(p, st.Val, st.Block(), keys) {
				c.Pass(key, st.Pos(), "the stored name is the result of a helper that returns, without an error, only the empty string, a literal key or a name it found in CollateFuncs; the store is reached only when the helper reported no error")
			} else {
				c.Fail(key, st.Pos(), "KeyCol.Collate is set to a name that was not established to be a key of CollateFuncs: Search/Equals call CollateFuncs[name] unchecked, so an unknown COLLATE name in a file's schema becomes a call of a nil function (panic) instead of an error")
			}
		}
	}
}

// ---- STACK-ADDR ----------------------------------------------------------------------------------------------

func stackRooted(e ast.Expr) bool {
	for {
		switch x := e.(type) {
		case *ast.ParenExpr:
			e = x.X
		case *ast.SelectorExpr:
			e = x.X
		case *ast.IndexExpr:
			e = x.X
		case *ast.StarExpr:
			return false // through a pointer stored in the slot: not the slot itself
		case *ast.Ident:
			return x.Name == "yyDollar" || x.Name == "yyS"
		default:
			return false
		}
	}
}

// stackEscapes lists the constructs of an action that keep a reference to the value stack.
func stackEscapes(n ast.Node) []ast.Node {
	var out []ast.Node
	ast.Inspect(n, func(nd ast.Node) bool {
		switch x := nd.(type) {
		case *ast.UnaryExpr:
			if x.Op == token.AND && stackRooted(x.X) {
				out = append(out, x)
			}
		case *ast.FuncLit:
			uses := false
			ast.Inspect(x.Body, func(m ast.Node) bool {
				if id, ok := m.(*ast.Ident); ok && (id.Name == "yyDollar" || id.Name == "yyS" || id.Name == "yyVAL") {
					uses = true
				}
				return !uses
			})
			if uses {
				out = append(out, x)
			}
		}
		return true
	})
	return out
}

func runStackAddr(c *Ctx) {
	p := c.P
	// the detector on its own example first
	for _, fx := range []struct {
		src  string
		want int
	}{
		{"ccReferences(&yyDollar[1].foreignKeyClause)", 1},
		{"ccReferences(yyDollar[1].foreignKeyClause)", 0},
		{"later(func() string { return yyDollar[2].identifier })", 1},
		{"f(&(yyS[yypt-1]).expr)", 1},
		{"f(&local, *yyDollar[1].ptr)", 0},
	} {
		e, err := parser.ParseExpr(fx.src)
		if err != nil || len(stackEscapes(e)) != fx.want {
			c.Undecided("fixture", token.NoPos, "the detector does not give %d finding(s) on its built-in example %q: the rule is not trusted", fx.want, fx.src)
			return
		}
	}
	pk := p.ByPath[modPkgPath("sql")]
	if pk == nil {
		c.Undecided("package sql", token.NoPos, "package sql not loaded")
		return
	}
	var parseFn *ast.FuncDecl
	for _, f := range pk.Syntax {
		for _, d := range f.Decls {
			if fd, ok := d.(*ast.FuncDecl); ok && fd.Name.Name == "Parse" && fd.Recv != nil {
				parseFn = fd
			}
		}
	}
	if parseFn == nil {
		c.Undecided("sql.Parse", token.NoPos, "(*yyParserImpl).Parse not found in package sql")
		return
	}
	var sw *ast.SwitchStmt
	ast.Inspect(parseFn.Body, func(n ast.Node) bool {
		if s, ok := n.(*ast.SwitchStmt); ok {
			if id, ok := s.Tag.(*ast.Ident); ok && id.Name == "yynt" {
				sw = s
			}
		}
		return true
	})
	if sw == nil {
		c.Undecided("sql.Parse", parseFn.Pos(), "semantic-action switch (switch yynt) not found")
		return
	}
	for _, st := range sw.Body.List {
		cc := st.(*ast.CaseClause)
		label := "default"
		if len(cc.List) > 0 {
			if tv, ok := pk.TypesInfo.Types[cc.List[0]]; ok && tv.Value != nil {
				label = tv.Value.String()
			} else {
				label = exprStr(cc.List[0])
			}
		}
		key := "action " + label
		var esc []ast.Node
		for _, s := range cc.Body {
			// `yyDollar = yyS[a:b]` is the window itself, not an escape
			esc = append(esc, stackEscapes(s)...)
		}
		if len(esc) == 0 {
			c.Pass(key, cc.Pos(), "the action keeps no reference to the value stack")
			continue
		}
		for i, e := range esc {
			what := "takes the address of a value-stack slot"
			if _, ok := e.(*ast.FuncLit); ok {
				what = "builds a function literal that reads the value stack when it is called"
			}
			c.Fail(fmt.Sprintf("%s escape#%d", key, i+1), e.Pos(), "the action %s; the slot is overwritten by the next shift, so what is reported for this clause depends on the tokens that follow it", what)
		}
	}
}

// ---- SUBCMP --------------------------------------------------------------------------------------------------

func subcmpRules() []*Rule {
	return []*Rule{
		{ID: "SUBCMP", Props: []string{"C01", "C02", "C03", "C04", "C05", "C11", "C13", "C14"}, Min: 1,
			Doc: "no ordering test by subtraction on 64-bit values: `a-b < 0` (<=, >, >=) with int64 operands that are not both widened from narrower types wraps when the operands are more than 2^63 apart — rowids and stored integers span the whole range, so two well-formed neighbours (-2^63+1 and 5) compare the wrong way. Equality with 0 is exact under wrap-around and is not reported. Carries a built-in example that must be found on every run",
			Run: runSubcmp},
	}
}

const subcmpFixture = `package fixture

func wraps(a, b int64) bool { return a-b <= 0 }

func named(a, b int64) bool { gap := b - a; return gap > 0 }

func narrow(a, b int32) bool { return int64(a)-int64(b) < 0 }

func equal(a, b int64) bool { return a-b == 0 }

func lengths(a, b []byte) bool { return len(a)-len(b) < 0 }
`

func narrowInt(v ssa.Value) bool {
	switch x := v.(type) {
	case *ssa.Const:
		return true
	case *ssa.Convert:
		if b, ok := x.X.Type().Underlying().(*types.Basic); ok {
			switch b.Kind() {
			case types.Int8, types.Int16, types.Int32, types.Uint8, types.Uint16, types.Uint32:
				return true
			}
		}
	}
	return false
}

// subcmpHits lists the ordering comparisons with zero of a 64-bit signed difference.
func subcmpHits(fns []*ssa.Function) []*ssa.BinOp {
	var out []*ssa.BinOp
	for _, fn := range fns {
		for _, in := range instrs(fn) {
			bo, ok := in.(*ssa.BinOp)
			if !ok {
				continue
			}
			switch bo.Op {
			case token.LSS, token.LEQ, token.GTR, token.GEQ:
			default:
				continue
			}
			for _, pair := range [][2]ssa.Value{{bo.X, bo.Y}, {bo.Y, bo.X}} {
				d, z := pair[0], pair[1]
				zc, ok := z.(*ssa.Const)
				if !ok || zc.Value == nil {
					continue
				}
				if n, exact := constant.Int64Val(constant.ToInt(zc.Value)); !exact || n != 0 {
					continue
				}
				sub, ok := d.(*ssa.BinOp)
				if !ok || sub.Op != token.SUB {
					continue
				}
				b, ok := sub.Type().Underlying().(*types.Basic)
				if !ok || b.Kind() != types.Int64 {
					continue
				}
				if narrowInt(sub.X) && narrowInt(sub.Y) {
					continue
				}
				out = append(out, bo)
			}
		}
	}
	sort.Slice(out, func(i, j int) bool { return out[i].Pos() < out[j].Pos() })
	return out
}

func runSubcmp(c *Ctx) {
	p := c.P
	fset := token.NewFileSet()
	f, err := parser.ParseFile(fset, "fixture.go", subcmpFixture, 0)
	if err != nil {
		c.Undecided("fixture", token.NoPos, "the built-in example does not parse: %v", err)
		return
	}
	pkg := types.NewPackage("fixture", "fixture")
	spkg, _, err := ssautil.BuildPackage(&types.Config{Importer: importer.Default()}, fset, pkg, []*ast.File{f}, ssa.BuilderMode(0))
	if err != nil {
		c.Undecided("fixture", token.NoPos, "the built-in example does not build: %v", err)
		return
	}
	var ffns []*ssa.Function
	for _, m := range spkg.Members {
		if fn, ok := m.(*ssa.Function); ok {
			ffns = append(ffns, fn)
		}
	}
	got := map[string]bool{}
	for _, h := range subcmpHits(ffns) {
		got[h.Parent().Name()] = true
	}
	if len(got) != 2 || !got["wraps"] || !got["named"] {
		c.Undecided("fixture", token.NoPos, "the detector reports %v in the built-in example (expected wraps and named only): the rule is not trusted", got)
		return
	}
	c.Pass("fixture", token.NoPos, "the detector finds the two subtraction tests of the built-in example and not its exact, narrow and length forms")
	real := subcmpHits(p.ModFuncs())
	for i, bo := range real {
		c.Fail(fmt.Sprintf("%s difference test#%d", p.FnKey(bo.Parent()), i+1), bo.Pos(), "two 64-bit values are ordered by the sign of their difference: the subtraction wraps when they are more than 2^63 apart (rowids and stored integers span the whole int64 range), so well-formed neighbours compare the wrong way; compare the operands directly")
	}
	if len(real) == 0 {
		c.Pass("module", token.NoPos, "no 64-bit values of the module are ordered by the sign of their difference")
	}
}

// ---- EMPTY-PAGE ----------------------------------------------------------------------------------------------

func emptyPageRules() []*Rule {
	return []*Rule{
		{ID: "EMPTY-PAGE", Props: []string{"C01", "C02", "C03", "C04", "C13"}, Min: 4,
			Doc: "a b-tree page with zero cells is well formed for every page kind (an empty table or index is an empty leaf; SQLite leaves page 1 as an interior page with no cell and only a right-most pointer when sqlite_master shrinks to one leaf): the cell count decoded from the page header (16 bits at offset 3) is followed through conversions and the arguments of module calls, and no comparison of such a value with a constant sends the value 0 to a return of a fresh error",
			Run: runEmptyPage},
	}
}

const emptyPageFixture = `package fixture

type myErr struct{}

func (myErr) Error() string { return "" }

var errC error = myErr{}

func parse(n int, p []byte) ([]int, error) { return make([]int, n), nil }

func bad(count int, p []byte) ([]int, error) {
	if count == 0 || len(p) == 1 {
		return nil, errC
	}
	return parse(count, p)
}

func good(count int, p []byte) ([]int, error) {
	if count > 100 {
		return nil, errC
	}
	return parse(count, p)
}
`

// cellCountRoots: the decodings of the cell-count field of a b-tree page header (2 bytes big-endian at offset 3).
func cellCountRoots(fns []*ssa.Function) []ssa.Value {
	var out []ssa.Value
	for _, fn := range fns {
		for _, in := range instrs(fn) {
			call, ok := in.(*ssa.Call)
			if !ok {
				continue
			}
			cal := call.Call.StaticCallee()
			if cal == nil || cal.Name() != "Uint16" || cal.Pkg == nil || cal.Pkg.Pkg.Path() != "encoding/binary" || len(call.Call.Args) == 0 {
				continue
			}
			sl, ok := call.Call.Args[len(call.Call.Args)-1].(*ssa.Slice)
			if !ok {
				continue
			}
			lo, ok1 := sl.Low.(*ssa.Const)
			hi, ok2 := sl.High.(*ssa.Const)
			if !ok1 || !ok2 || lo.Value == nil || hi.Value == nil {
				continue
			}
			l, _ := constant.Int64Val(constant.ToInt(lo.Value))
			h, _ := constant.Int64Val(constant.ToInt(hi.Value))
			if l == 3 && h == 5 {
				out = append(out, call)
			}
		}
	}
	return out
}

// countValues: everything the roots flow into through conversions and arguments of static module calls.
func countValues(roots []ssa.Value) map[ssa.Value]bool {
	vals := map[ssa.Value]bool{}
	var work []ssa.Value
	add := func(v ssa.Value) {
		if v != nil && !vals[v] {
			vals[v] = true
			work = append(work, v)
		}
	}
	for _, r := range roots {
		add(r)
	}
	for len(work) > 0 {
		v := work[len(work)-1]
		work = work[:len(work)-1]
		refs := v.Referrers()
		if refs == nil {
			continue
		}
		for _, r := range *refs {
			switch y := r.(type) {
			case *ssa.Convert:
				add(y)
			case *ssa.ChangeType:
				add(y)
			case ssa.CallInstruction:
				cal := y.Common().StaticCallee()
				if cal == nil || len(cal.Blocks) == 0 {
					continue
				}
				for i, a := range y.Common().Args {
					if a == v && i < len(cal.Params) {
						add(cal.Params[i])
					}
				}
			}
		}
	}
	return vals
}

func freshErrorReturn(b, from *ssa.BasicBlock, depth int) bool {
	if len(b.Instrs) == 0 {
		return false
	}
	switch t := b.Instrs[len(b.Instrs)-1].(type) {
	case *ssa.Return:
		for _, r := range t.Results {
			if !types.Identical(r.Type(), types.Universe.Lookup("error").Type()) {
				continue
			}
			if ph, ok := r.(*ssa.Phi); ok && ph.Block() == b {
				for i, p := range b.Preds {
					if p == from {
						r = ph.Edges[i]
					}
				}
			}
			switch e := r.(type) {
			case *ssa.Const:
				if e.IsNil() {
					continue
				}
			case *ssa.Extract, *ssa.Phi:
				continue
			}
			return true
		}
	case *ssa.Jump:
		if depth < 3 {
			return freshErrorReturn(b.Succs[0], b, depth+1)
		}
	}
	return false
}

type emptyPageHit struct {
	If  *ssa.If
	Cmp *ssa.BinOp
}

// emptyPageScan returns the comparisons of count values with constants (all) and those that refuse the value 0 (hits).
func emptyPageScan(fns []*ssa.Function, vals map[ssa.Value]bool) (all, hits []emptyPageHit) {
	for _, fn := range fns {
		for _, b := range fn.Blocks {
			if len(b.Instrs) == 0 {
				continue
			}
			iff, ok := b.Instrs[len(b.Instrs)-1].(*ssa.If)
			if !ok {
				continue
			}
			cond := iff.Cond
			neg := false
			for {
				if u, ok := cond.(*ssa.UnOp); ok && u.Op == token.NOT {
					cond, neg = u.X, !neg
					continue
				}
				break
			}
			bo, ok := cond.(*ssa.BinOp)
			if !ok {
				continue
			}
			var k *ssa.Const
			zeroLeft := false
			if vals[bo.X] {
				k, _ = bo.Y.(*ssa.Const)
				zeroLeft = true
			} else if vals[bo.Y] {
				k, _ = bo.X.(*ssa.Const)
			}
			if k == nil || k.Value == nil || k.Value.Kind() != constant.Int {
				continue
			}
			zero := constant.MakeInt64(0)
			var truth bool
			switch bo.Op {
			case token.EQL, token.NEQ, token.LSS, token.LEQ, token.GTR, token.GEQ:
				if zeroLeft {
					truth = constant.Compare(zero, bo.Op, k.Value)
				} else {
					truth = constant.Compare(k.Value, bo.Op, zero)
				}
			default:
				continue
			}
			if neg {
				truth = !truth
			}
			h := emptyPageHit{iff, bo}
			all = append(all, h)
			succ := b.Succs[1]
			if truth {
				succ = b.Succs[0]
			}
			if freshErrorReturn(succ, b, 0) {
				hits = append(hits, h)
			}
		}
	}
	return
}

func runEmptyPage(c *Ctx) {
	p := c.P
	fset := token.NewFileSet()
	f, err := parser.ParseFile(fset, "fixture.go", emptyPageFixture, 0)
	if err != nil {
		c.Undecided("fixture", token.NoPos, "the built-in example does not parse: %v", err)
		return
	}
	pkg := types.NewPackage("fixture", "fixture")
	spkg, _, err := ssautil.BuildPackage(&types.Config{Importer: importer.Default()}, fset, pkg, []*ast.File{f}, ssa.BuilderMode(0))
	if err != nil {
		c.Undecided("fixture", token.NoPos, "the built-in example does not build: %v", err)
		return
	}
	var ffns []*ssa.Function
	for _, m := range spkg.Members {
		if fn, ok := m.(*ssa.Function); ok {
			ffns = append(ffns, fn)
		}
	}
	var froots []ssa.Value
	for _, n := range []string{"bad", "good"} {
		froots = append(froots, spkg.Func(n).Params[0])
	}
	fvals := countValues(froots)
	fall, fhits := emptyPageScan(ffns, fvals)
	if !fvals[spkg.Func("parse").Params[0]] || len(fall) != 2 || len(fhits) != 1 || fhits[0].If.Parent().Name() != "bad" {
		c.Undecided("fixture", token.NoPos, "the detector sees %d comparisons and %d refusals of an empty page in the built-in example (expected 2 and the one in bad): the rule is not trusted", len(fall), len(fhits))
		return
	}
	c.Pass("fixture", token.NoPos, "the detector follows the count into the helper of the built-in example, finds the refusal of count == 0 and not the upper bound")
	roots := cellCountRoots(p.ModFuncs())
	if len(roots) == 0 {
		c.Undecided("cell count", token.NoPos, "no decoding of the page header's cell count (big-endian 16 bits at offset 3) found in the module: the rule has nothing to follow")
		return
	}
	vals := countValues(roots)
	per := map[string]int{}
	for _, r := range roots {
		fk := p.FnKey(r.(*ssa.Call).Parent())
		per[fk]++
		c.Pass(fmt.Sprintf("%s cell count#%d", fk, per[fk]), r.Pos(), "the cell count is decoded here and followed through conversions and call arguments (%d values in all)", len(vals))
	}
	var prms []string
	for v := range vals {
		if prm, ok := v.(*ssa.Parameter); ok {
			prms = append(prms, p.FnKey(prm.Parent()))
		}
	}
	sort.Strings(prms)
	for _, fk := range prms {
		c.Pass(fk+" count parameter", token.NoPos, "receives the cell count")
	}
	all, hits := emptyPageScan(p.ModFuncs(), vals)
	bad := map[*ssa.If]bool{}
	for _, h := range hits {
		bad[h.If] = true
	}
	per = map[string]int{}
	for _, h := range all {
		fk := p.FnKey(h.If.Parent())
		per[fk]++
		key := fmt.Sprintf("%s count test#%d", fk, per[fk])
		if bad[h.If] {
			c.Fail(key, h.Cmp.Pos(), "a page with zero cells is refused here (the cell count 0 goes to a return of a fresh error): empty tables and indexes, and an interior page 1 with only a right-most pointer, are well formed and SQLite reads them")
		} else {
			c.Pass(key, h.Cmp.Pos(), "the cell count is compared with a constant; the value 0 is not refused on that branch")
		}
	}
}
