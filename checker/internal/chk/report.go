package chk

import (
	"encoding/json"
	"fmt"
	"go/token"
	"os"
	"sort"
	"strings"
	"time"

	"golang.org/x/tools/go/ssa"
)

type Status string

const (
	OK        Status = "discharged"
	Violation Status = "violation"
	Undecided Status = "undecided"
	Info      Status = "info"
)

// Ob is one obligation: a rule applied to one construct.
type Ob struct {
	Rule       string `json:"rule"`
	Construct  string `json:"construct"`
	Pos        string `json:"pos,omitempty"`
	Status     Status `json:"status"`
	Why        string `json:"why,omitempty"`
	Nontrivial bool   `json:"nontrivial,omitempty"`
}

func (o Ob) Key() string { return o.Rule + ":" + o.Construct }

// Rule is one static rule (an engine instance) serving one or more properties.
type Rule struct {
	ID    string
	Doc   string
	Props []string
	Min   int // minimum number of instances (non-info obligations) confirmed by hand on the pinned tree
	Run   func(c *Ctx)
}

// Ctx collects obligations for one rule run.
type Ctx struct {
	P    *Program
	Tier string
	rule *Rule
	obs  []Ob
}

func (c *Ctx) add(st Status, construct string, pos token.Pos, nontrivial bool, format string, args ...interface{}) {
	c.obs = append(c.obs, Ob{Rule: c.rule.ID, Construct: construct, Pos: c.P.Pos(pos), Status: st,
		Why: fmt.Sprintf(format, args...), Nontrivial: nontrivial})
}

// Pass records a discharged obligation that needed an argument (non-trivial).
func (c *Ctx) Pass(construct string, pos token.Pos, format string, args ...interface{}) {
	c.add(OK, construct, pos, true, format, args...)
}

// Trivial records a discharged obligation that needed no fact.
func (c *Ctx) Trivial(construct string, pos token.Pos, format string, args ...interface{}) {
	c.add(OK, construct, pos, false, format, args...)
}

func (c *Ctx) Fail(construct string, pos token.Pos, format string, args ...interface{}) {
	c.add(Violation, construct, pos, true, format, args...)
}

func (c *Ctx) Undecided(construct string, pos token.Pos, format string, args ...interface{}) {
	c.add(Undecided, construct, pos, true, format, args...)
}

func (c *Ctx) Info(construct string, pos token.Pos, format string, args ...interface{}) {
	c.add(Info, construct, pos, false, format, args...)
}

// Check is Pass when ok, Fail otherwise.
func (c *Ctx) Check(ok bool, construct string, pos token.Pos, format string, args ...interface{}) bool {
	if ok {
		c.Pass(construct, pos, format, args...)
	} else {
		c.Fail(construct, pos, format, args...)
	}
	return ok
}

// MustFunc resolves an anchor; an unresolved anchor is an undecided obligation (fail closed).
func (c *Ctx) MustFunc(pkg, name string) *ssa.Function {
	fn := c.P.Func(pkg, name)
	if fn == nil {
		c.Undecided("anchor "+pkg+"."+name, token.NoPos, "anchor function %s.%s cannot be resolved in the current tree", pkg, name)
	}
	return fn
}

// ---------------------------------------------------------------------------------------------

type KnownFinding struct {
	Status   string `json:"status"` // "known" or "fixed"
	Property string `json:"property"`
	Key      string `json:"key"` // rule:construct
	What     string `json:"what"`
	Commit   string `json:"commit,omitempty"`
}

type KnownFile struct {
	Findings []KnownFinding `json:"findings"`
	Lines    []string       `json:"fixed_lines,omitempty"`
}

func LoadKnown(path string) (*KnownFile, error) {
	b, err := os.ReadFile(path)
	if err != nil {
		return nil, err
	}
	var k KnownFile
	if err := json.Unmarshal(b, &k); err != nil {
		return nil, err
	}
	return &k, nil
}

type RuleStat struct {
	Instances  int `json:"instances"`
	Min        int `json:"min"`
	Discharged int `json:"discharged"`
	Violations int `json:"violations"`
	Undecided  int `json:"undecided"`
	Info       int `json:"info"`
}

type Result struct {
	Property   string
	Tier       string
	Obs        []Ob
	Stats      map[string]*RuleStat
	Known      []Ob // violations suppressed as known findings
	Violations []Ob // remaining violations + undecided + undercounts
	Wall       float64
	Extra      map[string]interface{}
}

// RunProperty runs all rules tagged with prop.
func RunProperty(p *Program, prop, tier string, rules []*Rule, known *KnownFile) *Result {
	t0 := time.Now()
	res := &Result{Property: prop, Tier: tier, Stats: map[string]*RuleStat{}, Extra: map[string]interface{}{}}
	for _, r := range rules {
		if skip := os.Getenv("SQLCHECK_SKIP"); skip != "" && strings.Contains(","+skip+",", ","+r.ID+",") {
			continue // experiments only: measure what a rule contributes
		}
		serves := prop == "ALL" // measurement mode (tools/mutgen): every rule once
		for _, pr := range r.Props {
			if pr == prop {
				serves = true
			}
		}
		if !serves {
			continue
		}
		c := &Ctx{P: p, Tier: tier, rule: r}
		func() {
			defer func() {
				if e := recover(); e != nil {
					c.Undecided("checker panic", token.NoPos, "rule %s panicked: %v", r.ID, e)
					if os.Getenv("SQLCHECK_DEBUG") != "" {
						panic(e)
					}
				}
			}()
			r.Run(c)
		}()
		st := &RuleStat{Min: r.Min}
		res.Stats[r.ID] = st
		for _, o := range c.obs {
			switch o.Status {
			case OK:
				st.Instances++
				st.Discharged++
			case Violation:
				st.Instances++
				st.Violations++
			case Undecided:
				st.Instances++
				st.Undecided++
			case Info:
				st.Info++
			}
		}
		if st.Instances < r.Min {
			c.obs = append(c.obs, Ob{Rule: r.ID, Construct: "instance-count", Status: Undecided, Nontrivial: true,
				Why: fmt.Sprintf("rule matched %d instances, fewer than the %d confirmed by hand on the pinned tree: the rule no longer sees the code it was written for", st.Instances, r.Min)})
			st.Undecided++
		}
		res.Obs = append(res.Obs, c.obs...)
	}
	sort.SliceStable(res.Obs, func(i, j int) bool {
		if res.Obs[i].Rule != res.Obs[j].Rule {
			return res.Obs[i].Rule < res.Obs[j].Rule
		}
		return res.Obs[i].Construct < res.Obs[j].Construct
	})
	knownKeys := map[string]KnownFinding{}
	if known != nil {
		for _, k := range known.Findings {
			if k.Status == "known" && (k.Property == prop || prop == "ALL") {
				knownKeys[k.Key] = k
			}
		}
	}
	for _, o := range res.Obs {
		if o.Status == Violation {
			if _, ok := knownKeys[o.Key()]; ok {
				res.Known = append(res.Known, o)
				continue
			}
			res.Violations = append(res.Violations, o)
		} else if o.Status == Undecided {
			res.Violations = append(res.Violations, o)
		}
	}
	res.Wall = time.Since(t0).Seconds()
	return res
}

var trustedBase = []string{
	"Go type checker and go/ssa builder of golang.org/x/tools v0.29.0",
	"VTA call graph (sound without reflection/unsafe-based dispatch; sqlittle has none)",
	"documented behaviour of the standard library, x/exp/mmap and x/sys/unix (panic-free under documented preconditions)",
	"POSIX fcntl record-lock semantics",
	"SQLite file-format and locking constants copied into the checker (fileformat2.html, os.h, datatype3.html)",
	"goyacc driver skeleton in sql/parser.go outside the semantic-action switch (generated code)",
}

// WriteEvidence writes evidence/<id>.json.
func (res *Result) WriteEvidence(path string, p *Program, explanation string, notDecided string, loadWall float64, seed int) error {
	obligations, discharged, nontrivial := 0, 0, 0
	distinct := map[string]bool{}
	var samples []interface{}
	perRuleSample := map[string]int{}
	for _, o := range res.Obs {
		if o.Status == Info {
			continue
		}
		obligations++
		if o.Status == OK {
			discharged++
		}
		if o.Nontrivial && !distinct[o.Key()] {
			distinct[o.Key()] = true
			nontrivial++
		}
		if o.Nontrivial && perRuleSample[o.Rule] < 3 {
			perRuleSample[o.Rule]++
			samples = append(samples, o)
		}
	}
	var infos []Ob
	for _, o := range res.Obs {
		if o.Status == Info {
			infos = append(infos, o)
		}
	}
	edges := 0
	for _, n := range p.CG.Nodes {
		edges += len(n.Out)
	}
	var known []string
	for _, o := range res.Known {
		known = append(known, o.Key())
	}
	if samples == nil {
		samples = []interface{}{}
	}
	cov := map[string]interface{}{
		"explanation":         explanation,
		"not_decided":         notDecided,
		"obligations":         obligations,
		"discharged":          discharged,
		"evaluations":         obligations,
		"distinct_nontrivial": nontrivial,
		"rule":                "one obligation per (rule, construct) found by the rule's own enumeration over the resolved program; non-trivial = its discharge needed a dominance/path/flow/table argument (not a constant check on a fresh value); distinct by rule+construct key",
		"samples":             samples,
		"rules":               res.Stats,
		"information":         infos,
		"known_findings":      known,
		"functions_analysed":  len(p.ModFuncs()),
		"api_roots":           len(p.Roots()),
		"call_graph_edges":    edges,
		"build_variant":       p.GOOS + "/" + p.GOARCH,
		"checker_cmd":         "./run.sh " + res.Property + " " + res.Tier,
		"trusted_base":        trustedBase,
		"exhaustive":          false,
	}
	for k, v := range res.Extra {
		cov[k] = v
	}
	ev := map[string]interface{}{
		"property_id": res.Property,
		"tier":        res.Tier,
		"seed":        seed,
		"level":       "other",
		"coverage":    cov,
		"assumptions": []string{
			"API arguments have their documented types; callers check the error of Open/OpenFile before using the handle",
			"the standard library behaves as documented",
			"the analysed build variant is " + p.GOOS + "/" + p.GOARCH + " (what the test-suite builds)",
			"structural necessary conditions are decided, not the run-time behaviour itself (see not_decided)",
		},
		"wall_s":     res.Wall + loadWall,
		"violations": len(res.Violations),
	}
	b, err := json.MarshalIndent(ev, "", " ")
	if err != nil {
		return err
	}
	return os.WriteFile(path, append(b, '\n'), 0o644)
}

// WriteReport writes the replay file listing the violations.
func (res *Result) WriteReport(path string) error {
	b, err := json.MarshalIndent(map[string]interface{}{
		"property":   res.Property,
		"tier":       res.Tier,
		"violations": res.Violations,
		"known":      res.Known,
	}, "", " ")
	if err != nil {
		return err
	}
	return os.WriteFile(path, append(b, '\n'), 0o644)
}

func Explain(path string) error {
	b, err := os.ReadFile(path)
	if err != nil {
		return err
	}
	var r struct {
		Property   string
		Tier       string
		Violations []Ob
		Known      []Ob
	}
	if err := json.Unmarshal(b, &r); err != nil {
		return err
	}
	fmt.Printf("property %s (%s): %d violation(s)\n", r.Property, r.Tier, len(r.Violations))
	for _, o := range r.Violations {
		fmt.Printf("  [%s] %s  %s at %s\n      %s\n", o.Status, o.Rule, o.Construct, o.Pos, strings.ReplaceAll(o.Why, "\n", "\n      "))
	}
	return nil
}

// MergeSelftest merges the thorough tier's self-test results (variants detected / benign variants silent / 386 build
// variant) into the evidence; an undetected variant, a noisy benign variant or a failing 386 run is a violation.
func (res *Result) MergeSelftest(path string) error {
	b, err := os.ReadFile(path)
	if err != nil {
		return err
	}
	var st map[string]interface{}
	if err := json.Unmarshal(b, &st); err != nil {
		return err
	}
	res.Extra["selftest"] = st
	add := func(construct, why string) {
		o := Ob{Rule: "SELFTEST", Construct: construct, Status: Undecided, Why: why, Nontrivial: true}
		res.Obs = append(res.Obs, o)
		res.Violations = append(res.Violations, o)
	}
	if l, ok := st["undetected"].([]interface{}); ok {
		for _, v := range l {
			add(fmt.Sprint(v), "a variant of the repository that is known to break the property was not reported: the rule is weaker than documented")
		}
	}
	if l, ok := st["noisy"].([]interface{}); ok {
		for _, v := range l {
			add(fmt.Sprint(v), "a behaviour-preserving variant of the repository raised an alarm")
		}
	}
	if s, ok := st["arch386"].(string); ok && s != "ok" && s != "" {
		add("GOARCH=386", "the 32-bit build variant does not pass: "+s)
	}
	return nil
}
