package chk

import (
	"fmt"
	"go/constant"
	"go/token"
	"go/types"
	"hash/fnv"
	"os"
	"regexp"
	"sort"
	"strconv"
	"strings"

	"golang.org/x/tools/go/ssa"
)

// TAB engine: path enumeration with literal extraction. Every branch condition on a path is normalised into a
// literal "subject op constant = outcome" (or recorded as unknown); paths whose literals are jointly unsatisfiable
// (single-variable integer / equality reasoning) are pruned. Rules then state requirements over the surviving
// paths' literal sets — a decision table extracted from the code, independent of the order/shape of the tests.

type Lit struct {
	Subject string // canonical term, or "A−B" for a comparison of two terms
	Op      token.Token
	C       string // constant rendered canonically (ints in decimal, strings quoted, "nil", type names)
	Val     bool   // outcome on this path
	IsInt   bool
	N       int64
	Cond    ssa.Value
	PS      *pathState // the path state when the condition was evaluated (not mutated afterwards)
}

func (l Lit) String() string {
	s := fmt.Sprintf("%s %s %s", l.Subject, l.Op, l.C)
	if !l.Val {
		s = "¬(" + s + ")"
	}
	return s
}

type Event struct {
	Kind string   // "call", "defer", "store"
	Name string   // callee key / field name
	Val  string   // store: term of the stored value as resolved on the path
	Base string   // store: term of the struct the field belongs to
	Args []string // call: terms of the arguments
	// Target: for a call through a function value that is, on this path, a known function literal (a callback handed
	// to a helper that is walked in place): the literal's name
	Target string
	Instr  ssa.Instruction
	At     token.Pos // optional: where to report (the outermost call site when the instruction sits in a helper walked in place)
}

// outerPos is the position of the outermost call through which the enumeration reached `in` (in itself when it is in
// the function the enumeration started in).
func outerPos(ps *pathState, in ssa.Instruction) token.Pos {
	for _, fr := range ps.Stack {
		if fr.call != nil && fr.call.Pos().IsValid() {
			return fr.call.Pos()
		}
	}
	return in.Pos()
}

type LPath struct {
	Lits    []Lit
	Unknown []string // unrecognised conditions (with outcome) — make a table undecided when they matter
	Events  []Event
	Exit    *ssa.Return     // nil when the path was stopped by the stop predicate or ends in a panic
	Stop    ssa.Instruction // instruction at which stop() fired
	PS      *pathState
}

func (lp *LPath) Has(subject string, op token.Token, c string, val bool) bool {
	for _, l := range lp.Lits {
		if l.Subject == subject && l.Op == op && l.C == c && l.Val == val {
			return true
		}
	}
	return false
}

// Holds reports whether the path's literals entail "subject op c" (val=true) by exact literal match or its
// complement form (e.g. ¬(x != c) entails x == c).
func (lp *LPath) Holds(subject string, op token.Token, c string) bool {
	if lp.Has(subject, op, c, true) {
		return true
	}
	if neg, ok := negOp[op]; ok && lp.Has(subject, neg, c, false) {
		return true
	}
	return false
}

func (lp *LPath) HasEvent(kind, name string) bool {
	for _, e := range lp.Events {
		if e.Kind == kind && e.Name == name {
			return true
		}
	}
	return false
}

func (lp *LPath) LitStrings() []string {
	var s []string
	for _, l := range lp.Lits {
		s = append(s, l.String())
	}
	return s
}

var negOp = map[token.Token]token.Token{
	token.EQL: token.NEQ, token.NEQ: token.EQL,
	token.LSS: token.GEQ, token.GEQ: token.LSS,
	token.GTR: token.LEQ, token.LEQ: token.GTR,
}

var swapOp = map[token.Token]token.Token{
	token.EQL: token.EQL, token.NEQ: token.NEQ,
	token.LSS: token.GTR, token.GTR: token.LSS,
	token.LEQ: token.GEQ, token.GEQ: token.LEQ,
}

// Termer names SSA values. The default names parameters, fields, globals, call results, len().
type Termer struct {
	depth  int
	P      *Program
	Custom func(v ssa.Value, ps *pathState) (string, bool)
	// ConstPhis: a loop counter that is a known number on the path (see TabOpts.UnrollRoot) is named by that number
	ConstPhis bool
	memo      map[memoKey]string // within one top-level Term call (the path state does not change meanwhile)
}

// Term names v on the path ps. Shared sub-expressions are named once per call, and a name that grows beyond
// maxTermLen is replaced by a digest of itself (the generated parser's value stack otherwise produces names that
// double in size at every step).
const maxTermLen = 1200

func (t *Termer) Term(v ssa.Value, ps *pathState) string {
	if t.depth == 0 {
		t.memo = map[memoKey]string{}
		defer func() { t.memo = nil }()
	}
	if s, ok := t.memo[memoKey{v, ps}]; ok {
		return s
	}
	s := t.term(v, ps)
	if len(s) > maxTermLen {
		h := fnv.New64a()
		h.Write([]byte(s))
		s = fmt.Sprintf("?big:%x", h.Sum64())
	}
	if t.memo != nil {
		t.memo[memoKey{v, ps}] = s
	}
	return s
}

type memoKey struct {
	v  ssa.Value
	ps *pathState
}

func (t *Termer) term(v ssa.Value, ps *pathState) string {
	t.depth++
	defer func() { t.depth-- }()
	if t.depth > 200 {
		if os.Getenv("SQLCHECK_DEBUG") != "" {
			var idx []int
			if ps != nil {
				for _, b := range ps.Path {
					idx = append(idx, b.Index)
				}
			}
			fmt.Fprintf(os.Stderr, "Term recursion on %s in %s path=%v havoc=%v\n", v.String(), v.Parent(), idx, ps != nil && len(ps.Havoc) > 0)
		}
		return "?deep"
	}
	if ps != nil && len(ps.RetInst) > 0 {
		// the result of a helper that was walked in place keeps the name of the instance that produced it, however
		// often the helper has been walked again since
		var call *ssa.Call
		idx := 0
		switch x := v.(type) {
		case *ssa.Call:
			call = x
		case *ssa.Extract:
			if cl, ok := x.Tuple.(*ssa.Call); ok {
				call, idx = cl, x.Index
			}
		}
		if call != nil {
			if rs, ok := ps.Ret[call]; ok && idx < len(rs) {
				if snap, ok := ps.RetInst[call]; ok {
					differs := false
					for b, k := range snap {
						if ps.BlockInst[b] != k {
							differs = true
						}
					}
					if differs {
						ps2 := *ps
						ps2.BlockInst = make(map[*ssa.BasicBlock]int, len(ps.BlockInst))
						for b, k := range ps.BlockInst {
							ps2.BlockInst[b] = k
						}
						for b, k := range snap {
							ps2.BlockInst[b] = k
						}
						ps2.RetInst = nil
						return t.term(rs[idx], &ps2)
					}
				}
			}
		}
	}
	if ps != nil {
		v = ps.Resolve(v)
	}
	if ps != nil && len(ps.ACells) > 0 {
		if ld, ok := v.(*ssa.UnOp); ok && ld.Op == token.MUL {
			if ia, ok := ld.X.(*ssa.IndexAddr); ok {
				if al, ok := ia.X.(*ssa.Alloc); ok {
					if k, ok := evalIntD(ia.Index, ps, 20); ok {
						if s, ok := ps.ACells[arrayCellKey(al, k)]; ok {
							return s
						}
					}
				}
			}
		}
	}
	if t.Custom != nil {
		if s, ok := t.Custom(v, ps); ok {
			return s
		}
	}
	switch x := v.(type) {
	case *ssa.Const:
		return "const:" + constString2(x)
	case *ssa.Parameter:
		if s, ok := t.extraParamTerm(x); ok {
			return s
		}
		return "p:" + x.Name()
	case *ssa.FreeVar:
		if ps != nil {
			if b, ok := ps.BindFV[x]; ok {
				return t.Term(b, ps)
			}
		}
		return "fv:" + x.Name()
	case *ssa.Global:
		return "g:" + x.Name()
	case *ssa.Convert:
		// an integer conversion that can change the value (narrowing, or a change of signedness at the same width) is
		// part of the term: `start > uint16(maxLen)` is not `start > maxLen`
		if lossyIntConv(x) {
			if ps != nil {
				if n, ok := evalInt(x.X, ps); ok {
					if lo, hi, ok := intRange(x.Type()); ok && n >= lo && n <= hi {
						return fmt.Sprintf("const:%d", n)
					}
				}
			}
			return "conv:" + types.TypeString(x.Type(), shortQual) + "(" + t.Term(x.X, ps) + ")"
		}
		return t.Term(x.X, ps)
	case *ssa.ChangeType:
		return t.Term(x.X, ps)
	case *ssa.MakeInterface:
		return t.Term(x.X, ps)
	case *instAlloc:
		return "local:" + x.Alloc.Comment + "#" + itoa(x.inst)
	case *ssa.Alloc:
		// a range-value copy (`for _, k := range key`) is named after the element it copies
		if st := singleStore(x); st != nil {
			// the spill cell of a parameter of an inlined helper (value receivers are spilled) is the bound argument
			if prm, ok := st.Val.(*ssa.Parameter); ok {
				if ps != nil {
					if b, ok := ps.Bind[prm]; ok {
						return t.Term(b, ps)
					}
				}
				// the spill cell of a parameter (value receivers and parameters whose address is taken) is the parameter
				if st.Block() == x.Parent().Blocks[0] {
					return "p:" + prm.Name()
				}
			}
			// a local holding the struct an inlined helper returned is named after what the helper returned
			// (`o, err := db.findObject(…)` where the helper returns its range copy of master[i])
			if ps != nil && len(ps.Ret) > 0 {
				if rv := ps.Resolve(st.Val); rv != st.Val {
					if u, ok := rv.(*ssa.UnOp); ok && u.Op == token.MUL {
						if s2 := t.Term(rv, ps); !strings.HasPrefix(s2, "*") {
							return s2
						}
					}
				}
			}
			if u, ok := st.Val.(*ssa.UnOp); ok && u.Op == token.MUL {
				if ia, ok := u.X.(*ssa.IndexAddr); ok {
					return t.Term(ia, ps)
				}
			}
		}
		if x.Comment != "" {
			return "local:" + x.Comment
		}
		return "alloc:" + x.Name()
	case *ssa.Lookup:
		return t.Term(x.X, ps) + "[" + t.Term(x.Index, ps) + "]"
	case *ssa.MakeClosure:
		// named through FnKey so that the literal of a merely renamed function keeps its old name
		if fn, ok := x.Fn.(*ssa.Function); ok && t.P != nil {
			k := t.P.FnKey(fn)
			if i := strings.LastIndex(k, "."); i >= 0 {
				k = k[i+1:]
			}
			return "closure:" + k
		}
		return "closure:" + x.Fn.Name()
	case *ssa.Function:
		return "func:" + t.P.FnKey(x)
	case *ssa.FieldAddr:
		return t.Term(x.X, ps) + "." + fieldName(x)
	case *ssa.Field:
		return t.Term(x.X, ps) + "." + fieldName(x)
	case *ssa.IndexAddr:
		return t.Term(x.X, ps) + "[" + t.Term(x.Index, ps) + "]"
	case *ssa.Index:
		return t.Term(x.X, ps) + "[" + t.Term(x.Index, ps) + "]"
	case *ssa.UnOp:
		switch x.Op {
		case token.MUL:
			inner := t.Term(x.X, ps)
			if _, ok := x.X.(*ssa.FieldAddr); ok && ps != nil {
				if v := ps.LoadVer[x]; v > 0 {
					return inner + "§" + itoa(v) // the field as it is after its v-th store on this path
				}
			}
			if strings.HasPrefix(inner, "local:") || strings.HasPrefix(inner, "fv:") || strings.HasPrefix(inner, "g:") {
				return inner // a variable's value
			}
			if _, ok := x.X.(*ssa.FieldAddr); ok {
				return inner
			}
			if _, ok := x.X.(*ssa.IndexAddr); ok {
				return inner
			}
			if _, ok := x.X.(*ssa.Alloc); ok && !strings.HasPrefix(inner, "alloc:") {
				return inner // a local named after the element it copies (`for _, k := range key`)
			}
			return "*" + inner
		case token.SUB:
			return "-" + t.Term(x.X, ps)
		case token.NOT:
			return "!" + t.Term(x.X, ps)
		}
	case *ssa.Extract:
		return t.Term(x.Tuple, ps) + "#" + fmt.Sprint(x.Index)
	case *ssa.Call:
		cc := x.Common()
		if b, ok := cc.Value.(*ssa.Builtin); ok {
			var args []string
			for _, a := range cc.Args {
				args = append(args, t.Term(a, ps))
			}
			return b.Name() + "(" + strings.Join(args, ",") + ")"
		}
		if rv, bind, ok := pureHelperResult(x); ok && ps != nil && t.depth < 50 {
			ps2 := ps.clone()
			if ps2.Bind == nil {
				ps2.Bind = map[*ssa.Parameter]ssa.Value{}
			}
			for k, v := range bind {
				ps2.Bind[k] = ps.Resolve(v)
			}
			return t.term(rv, ps2)
		}
		name := calleeName(t.P, x)
		nameOf := func(c2 *ssa.Call) string { return calleeName(t.P, c2) }
		if m, _ := devirt(t.P, x, ps); m != nil {
			// rare: only then are the sibling calls named through the path state as well
			name = t.P.FnKey(m)
			nameOf = func(c2 *ssa.Call) string { return calleeNamePS(t.P, c2, ps) }
		}
		ord := 0
		for _, cs := range callsIn(x.Parent()) {
			if c2, ok := cs.(*ssa.Call); ok && nameOf(c2) == name {
				ord++
				if c2 == x {
					break
				}
			}
		}
		if ord > 1 {
			return fmt.Sprintf("call:%s@%d", name, ord) + ps.genOf(x)
		}
		return "call:" + name + ps.genOf(x)
	case *ssa.MakeSlice:
		return "make[" + t.Term(x.Len, ps) + "]"
	case *ssa.TypeAssert:
		return "assert(" + t.Term(x.X, ps) + "," + types.TypeString(x.AssertedType, shortQual) + ")" + ps.genOf(x)
	case *ssa.BinOp:
		if ps != nil {
			if n, ok := evalInt(x, ps); ok {
				return fmt.Sprintf("const:%d", n)
			}
		}
		return "(" + t.Term(x.X, ps) + x.Op.String() + t.Term(x.Y, ps) + ")"
	case *ssa.Slice:
		lo, hi := "", ""
		if x.Low != nil {
			lo = t.Term(x.Low, ps)
		}
		if x.High != nil {
			hi = t.Term(x.High, ps)
		}
		if lo == "const:0" && hi == "" && x.Max == nil {
			return t.Term(x.X, ps) // x[0:] is x
		}
		return t.Term(x.X, ps) + "[" + lo + ":" + hi + "]"
	case *ssa.Phi:
		if t.ConstPhis && ps != nil {
			if n, ok := ps.Vals[x]; ok {
				return fmt.Sprintf("const:%d", n)
			}
		}
		return "phi:" + x.Name() + "@" + x.Parent().Name() + ps.genOf(x)
	}
	return fmt.Sprintf("?%s", v.Name()) + ps.genOf(v)
}

func shortQual(p *types.Package) string { return p.Name() }

var reConvTerm = regexp.MustCompile(`^conv:[A-Za-z0-9_.]+\((.*)\)$`)

// unconvTerm strips the value-changing integer conversions a term is wrapped in (for rules that ask where a value comes
// from, not what it is).
func unconvTerm(s string) string {
	for {
		m := reConvTerm.FindStringSubmatch(s)
		if m == nil {
			return s
		}
		s = m[1]
	}
}

func constString2(c *ssa.Const) string {
	if c.Value == nil {
		return "nil"
	}
	switch c.Value.Kind() {
	case constant.Int:
		return c.Value.ExactString()
	case constant.String:
		return fmt.Sprintf("%q", constant.StringVal(c.Value))
	case constant.Bool:
		return c.Value.String()
	case constant.Float:
		f, _ := constant.Float64Val(c.Value)
		return strconv.FormatFloat(f, 'g', -1, 64)
	}
	return c.Value.String()
}

// litOf normalises a branch condition (with its outcome) into a literal.
func (t *Termer) litOf(cond ssa.Value, outcome bool, ps *pathState) (Lit, bool) {
	cond = ps.Resolve(cond)
	switch x := cond.(type) {
	case *ssa.UnOp:
		if x.Op == token.NOT {
			return t.litOf(x.X, !outcome, ps)
		}
	case *ssa.Const:
		return Lit{}, false
	case *ssa.BinOp:
		if _, ok := negOp[x.Op]; ok {
			X, Y := ps.Resolve(x.X), ps.Resolve(x.Y)
			cx, okx := stripConv(X).(*ssa.Const)
			cy, oky := stripConv(Y).(*ssa.Const)
			op := x.Op
			if okx && !oky {
				X, Y = Y, X
				cy, oky = cx, true
				op = swapOp[op]
			}
			if !oky {
				if n, ok := evalInt(Y, ps); ok {
					return Lit{Subject: t.Term(X, ps), Op: op, C: fmt.Sprint(n), Val: outcome, IsInt: true, N: n, Cond: cond}, true
				}
				if n, ok := evalInt(X, ps); ok {
					return Lit{Subject: t.Term(Y, ps), Op: swapOp[op], C: fmt.Sprint(n), Val: outcome, IsInt: true, N: n, Cond: cond}, true
				}
			}
			if oky {
				l := Lit{Subject: t.Term(X, ps), Op: op, C: constString2(cy), Val: outcome, Cond: cond}
				if cy.Value == nil {
					// the zero value of an array (go/ssa folds a never-written `var unused [20]byte` into it): all zero
					if _, isArr := cy.Type().Underlying().(*types.Array); isArr {
						l.C, l.IsInt, l.N = "0", true, 0
					}
				}
				if cy.Value != nil && cy.Value.Kind() == constant.Int {
					if n, ok := constant.Int64Val(cy.Value); ok {
						l.IsInt, l.N = true, n
					}
				}
				return l, true
			}
			// compared with a zero-valued local array (`var unused [20]byte; if x != unused`): all elements zero
			if (op == token.EQL || op == token.NEQ) && isZeroArrayLoad(Y) {
				return Lit{Subject: t.Term(X, ps), Op: op, C: "0", Val: outcome, IsInt: true, N: 0, Cond: cond}, true
			}
			if (op == token.EQL || op == token.NEQ) && isZeroArrayLoad(X) {
				return Lit{Subject: t.Term(Y, ps), Op: op, C: "0", Val: outcome, IsInt: true, N: 0, Cond: cond}, true
			}
			// term vs term: difference against zero
			return Lit{Subject: t.Term(X, ps) + "−" + t.Term(Y, ps), Op: op, C: "0", Val: outcome, IsInt: true, N: 0, Cond: cond}, true
		}
	case *ssa.Extract:
		// v, ok := x.(T)
		if ta, ok := x.Tuple.(*ssa.TypeAssert); ok && ta.CommaOk && x.Index == 1 {
			return Lit{Subject: "type(" + t.Term(ta.X, ps) + ")", Op: token.EQL, C: types.TypeString(ta.AssertedType, shortQual), Val: outcome, Cond: cond}, true
		}
	}
	// bytes.Equal(x[:], []byte("literal")) is the comparison string(x[:]) == "literal"
	if call, ok := cond.(*ssa.Call); ok {
		if cal := call.Call.StaticCallee(); cal != nil && isLibFunc(cal, "bytes", "Equal") && len(call.Call.Args) == 2 {
			for k := 0; k < 2; k++ {
				if cv, ok := ps.Resolve(call.Call.Args[k]).(*ssa.Convert); ok {
					if cst, ok := cv.X.(*ssa.Const); ok && cst.Value != nil && cst.Value.Kind() == constant.String {
						return Lit{Subject: t.Term(call.Call.Args[1-k], ps), Op: token.EQL, C: constString2(cst), Val: outcome, Cond: cond}, true
					}
				}
			}
		}
	}
	// a boolean term used directly
	if types.Identical(cond.Type().Underlying(), types.Typ[types.Bool]) {
		return Lit{Subject: t.Term(cond, ps), Op: token.EQL, C: "true", Val: outcome, Cond: cond}, true
	}
	return Lit{}, false
}

// typeNilLit: `x == nil` on an interface value is the type literal type(x) == nil.
func (t *Termer) fixNilTypeLit(l Lit, cond ssa.Value, ps *pathState) Lit {
	b, ok := ps.Resolve(cond).(*ssa.BinOp)
	if !ok || l.C != "nil" {
		return l
	}
	X := ps.Resolve(b.X)
	if isNilConst(X) {
		X = ps.Resolve(b.Y)
	}
	if _, isIface := X.Type().Underlying().(*types.Interface); isIface && !isErrorType(X.Type()) {
		l.Subject = "type(" + t.Term(X, ps) + ")"
	}
	return l
}

// satisfiable checks the conjunction of literals per subject.
func satisfiable(lits []Lit) bool {
	bySub := map[string][]Lit{}
	for _, l := range lits {
		bySub[l.Subject] = append(bySub[l.Subject], l)
	}
	// a length is not negative (`!(len(x) > 0)` and `!(len(x) == 0)` cannot both hold)
	for sub, ls := range bySub {
		if strings.HasPrefix(sub, "len(") && !strings.Contains(sub, "−") && len(ls) > 1 && ls[0].IsInt {
			bySub[sub] = append(ls, Lit{Subject: sub, Op: token.GEQ, C: "0", N: 0, IsInt: true, Val: true})
		}
	}
	for _, ls := range bySub {
		allInt := true
		for _, l := range ls {
			if !l.IsInt {
				allInt = false
			}
		}
		if allInt {
			// candidates: every constant and its neighbours
			cands := map[int64]bool{}
			for _, l := range ls {
				cands[l.N-1], cands[l.N], cands[l.N+1] = true, true, true
			}
			ok := false
			for v := range cands {
				good := true
				for _, l := range ls {
					if evalCmp(v, l.Op, l.N) != l.Val {
						good = false
						break
					}
				}
				if good {
					ok = true
					break
				}
			}
			if !ok {
				return false
			}
			continue
		}
		// equality domain (strings, types, nil, bool): at most one positive equality; no x==c with x!=c
		pos := map[string]bool{}
		neg := map[string]bool{}
		for _, l := range ls {
			eq := l.Op == token.EQL
			if l.Op != token.EQL && l.Op != token.NEQ {
				continue
			}
			if eq == l.Val {
				pos[l.C] = true
			} else {
				neg[l.C] = true
			}
		}
		if len(pos) > 1 {
			return false
		}
		for c := range pos {
			if neg[c] {
				return false
			}
		}
		// booleans: ¬(x==true) ∧ ¬(x==false) impossible
		if neg["true"] && neg["false"] {
			return false
		}
	}
	return true
}

func evalCmp(v int64, op token.Token, c int64) bool {
	switch op {
	case token.EQL:
		return v == c
	case token.NEQ:
		return v != c
	case token.LSS:
		return v < c
	case token.LEQ:
		return v <= c
	case token.GTR:
		return v > c
	case token.GEQ:
		return v >= c
	}
	return false
}

type TabOpts struct {
	Termer *Termer
	Stop   func(in ssa.Instruction, ps *pathState) bool // stop the path *before* executing in; path recorded with Stop=in
	// StopGoesOn: Stop only records the path so far (with a snapshot of its state) and the walk goes on, so that an
	// instruction inside a loop is seen on its first arrival and again in the generic later iteration
	StopGoesOn bool
	EventOf    func(in ssa.Instruction, ps *pathState) (Event, bool)
	// Assume lists literals taken as given (e.g. the abstract class under evaluation); paths contradicting them are pruned.
	Assume []Lit
	// Values fixes SSA values to integers for constant folding (the abstract class under evaluation).
	Values map[ssa.Value]int64
	Limit  int
	// NoInline switches off the inlining of helper functions that are not part of the confirmed tree.
	NoInline bool
	// NoSplitBool keeps `return a < b` as one path returning the comparison (default: two paths, each with the
	// literal and a constant result, exactly as if the function had branched on the comparison).
	NoSplitBool bool
	// FieldCells tracks stores into fields of local structs along the path (so that a load of such a field resolves to
	// what was stored). RunDefers executes the deferred calls at the function's exits (module functions and function
	// literals are walked in place, others produce a "rundefer" event).
	FieldCells bool
	// UnrollRoot: counted loops of the analysed function itself whose trip count is a known number (`for i := range
	// [3]string{}`) are walked iteration by iteration, as such loops in helpers walked in place always are.
	// ArrayCells: what is stored into an element of a local array at an index that is a known number on the path is
	// what a later load of that element sees (kept as the term the value had when it was stored).
	UnrollRoot bool
	ArrayCells bool
	RunDefers  bool
	// InlineAlso: confirmed functions that this enumeration walks in place as well (a three-way helper whose table is
	// decided separately, called where the comparison used to be written out).
	InlineAlso map[*ssa.Function]bool
	// KeepCall: functions that stay calls even when they are freshly written (a comparator whose answer the rule
	// wants to read as the answer of a call)
	KeepCall map[*ssa.Function]bool
	// InitBind: parameters of the function the enumeration starts in that are bound from the outset (the enumeration
	// starts inside a freshly extracted helper, in the context of the one call that reaches it).
	InitBind map[*ssa.Parameter]ssa.Value
	// StartHavoc: the enumeration starts at a loop header in "some later iteration" (as if it had been reached through
	// a back-edge): header phis whose back-edges all carry one loop-invariant value have that value, counters are
	// above their start
	StartHavoc bool
}

// inlinable is set at load time: a module function with a body that was not part of the tree the rules were confirmed
// on (a freshly extracted helper). Calls to such functions are transparent to the path enumeration: the callee's
// blocks are walked in place with its parameters bound to the arguments.
var inlinable func(fn *ssa.Function) bool

// theProgram: the loaded program (for value-level helpers that have no Program at hand: constant tables in evalInt).
var theProgram *Program

const maxInlineDepth = 4

// EnumLits enumerates the feasible simple paths from (start, idx) with their literals.
func EnumLits(start *ssa.BasicBlock, idx int, o TabOpts) ([]*LPath, bool) {
	if o.Limit == 0 {
		o.Limit = 100000
	}
	var out []*LPath
	n := 0
	overflow := false
	type frame struct {
		lits    []Lit
		unknown []string
		events  []Event
	}
	var walk func(b *ssa.BasicBlock, idx int, ps *pathState, fr frame, enter bool)
	walk = func(b *ssa.BasicBlock, idx int, ps *pathState, fr frame, enter bool) {
		if overflow {
			return
		}
		n++
		if n > o.Limit {
			overflow = true
			return
		}
		if enter {
			ps.Path = append(ps.Path, b)
			if ps.Visits == nil {
				ps.Visits = map[*ssa.BasicBlock]int{}
			}
			ps.Visits[b]++
			if ps.Gen > 0 {
				if ps.BlockGen == nil {
					ps.BlockGen = map[*ssa.BasicBlock]int{}
				}
				ps.BlockGen[b] = ps.Gen
			}
		}
		for i := idx; i < len(b.Instrs); i++ {
			in := b.Instrs[i]
			if o.Stop != nil && o.Stop(in, ps) {
				if !o.StopGoesOn {
					out = append(out, &LPath{Lits: fr.lits, Unknown: fr.unknown, Events: fr.events, Stop: in, PS: ps})
					return
				}
				// observed, not stopped: the walk goes on and may arrive here again (a later iteration of a loop)
				out = append(out, &LPath{Lits: fr.lits, Unknown: fr.unknown, Events: fr.events, Stop: in, PS: ps.clone()})
			}
			// field stores and the loads after them (see pathState.FVer)
			switch x := in.(type) {
			case *ssa.Store:
				if fa, ok := x.Addr.(*ssa.FieldAddr); ok {
					key := fieldPathKey(fa, ps)
					if ps.FVer == nil {
						ps.FVer = map[string]int{}
					}
					ps.FVer[key]++
					if ps.FLast == nil {
						ps.FLast = map[string]ssa.Value{}
					}
					ps.FLast[key] = ps.Resolve(x.Val)
				}
			case *ssa.UnOp:
				if fa, ok := x.X.(*ssa.FieldAddr); ok && x.Op == token.MUL && len(ps.FVer) > 0 {
					key := fieldPathKey(fa, ps)
					if v := ps.FVer[key]; v > 0 {
						if ps.LoadVer == nil {
							ps.LoadVer = map[*ssa.UnOp]int{}
						}
						ps.LoadVer[x] = v
						if last, ok := ps.FLast[key]; ok && !o.FieldCells {
							if ps.Loaded == nil {
								ps.Loaded = map[*ssa.UnOp]ssa.Value{}
							}
							ps.Loaded[x] = last
						}
					}
				}
			case ssa.CallInstruction:
				if _, isB := x.Common().Value.(*ssa.Builtin); !isB && len(ps.FLast) > 0 {
					ps.FLast = nil // the callee may have stored into the field as well: the value is not known any more
				}
			}
			if o.ArrayCells {
				if st, ok := in.(*ssa.Store); ok {
					if ia, ok := st.Addr.(*ssa.IndexAddr); ok {
						if al, ok := ia.X.(*ssa.Alloc); ok && isArrayCell(al) {
							if k, ok := evalIntD(ia.Index, ps, 20); ok {
								if ps.ACells == nil {
									ps.ACells = map[string]string{}
								}
								ps.ACells[arrayCellKey(al, k)] = o.Termer.Term(st.Val, ps)
							} else {
								// a store at an unknown index: nothing is known about any element any more
								for key := range ps.ACells {
									if strings.HasPrefix(key, fmt.Sprintf("%p#", al)) {
										delete(ps.ACells, key)
									}
								}
							}
						}
					}
				}
			}
			if o.FieldCells {
				// a struct copied whole from one local to another (`sh := scanNumeric(s)` with the helper walked in
				// place: its `return sh` is a load of its own local): the fields travel with it
				if st, ok := in.(*ssa.Store); ok {
					if dst, ok := st.Addr.(*ssa.Alloc); ok {
						if ld, ok := ps.Resolve(st.Val).(*ssa.UnOp); ok && ld.Op == token.MUL {
							if src, ok := ld.X.(*ssa.Alloc); ok && src != dst {
								sp, dp := ps.fcKeyOf(src, ""), ps.fcKeyOf(dst, "")
								if sp != "" && dp != "" && ps.FCells != nil {
									for k := range ps.FCells {
										if strings.HasPrefix(k, dp) {
											delete(ps.FCells, k)
										}
									}
									for k, v := range ps.FCells {
										if strings.HasPrefix(k, sp) {
											ps.FCells[dp+strings.TrimPrefix(k, sp)] = v
										}
									}
								}
							}
						}
					}
				}
				if st, ok := in.(*ssa.Store); ok {
					if fa, ok := st.Addr.(*ssa.FieldAddr); ok {
						if k := ps.fcKey(fa); k != "" {
							if ps.FCells == nil {
								ps.FCells = map[string]ssa.Value{}
							}
							ps.FCells[k] = ps.Resolve(st.Val)
						}
					}
				}
				if ld, ok := in.(*ssa.UnOp); ok && ld.Op == token.MUL {
					if fa, ok := ld.X.(*ssa.FieldAddr); ok && ps.FCells != nil {
						if cur, stored := ps.FCells[ps.fcKey(fa)]; stored {
							if ps.Loaded == nil {
								ps.Loaded = map[*ssa.UnOp]ssa.Value{}
							}
							ps.Loaded[ld] = cur
						}
					}
				}
			}
			if o.RunDefers {
				if d, ok := in.(*ssa.Defer); ok {
					rec := deferRec{d: d, fn: b.Parent(), val: ps.Resolve(d.Call.Value)}
					for _, a := range d.Call.Args {
						rec.args = append(rec.args, ps.Resolve(a))
					}
					ps.Defers = append(ps.Defers, rec)
				}
				if _, ok := in.(*ssa.RunDefers); ok {
					// the most recently registered deferred call of this function runs next; the instruction is visited
					// again afterwards for the one before it
					k := -1
					for j := len(ps.Defers) - 1; j >= 0; j-- {
						if ps.Defers[j].fn == b.Parent() {
							k = j
							break
						}
					}
					if k >= 0 {
						rec := ps.Defers[k]
						ps.Defers = append(append([]deferRec(nil), ps.Defers[:k]...), ps.Defers[k+1:]...)
						var f *ssa.Function
						var mc *ssa.MakeClosure
						if m, ok := rec.val.(*ssa.MakeClosure); ok {
							mc = m
							f, _ = m.Fn.(*ssa.Function)
						} else if sc := rec.d.Call.StaticCallee(); sc != nil && o.Termer != nil && o.Termer.P != nil && o.Termer.P.InModule(sc) {
							f = sc
						}
						if f != nil && len(f.Blocks) > 0 && len(rec.args) == len(f.Params) && !onStackFn(ps, f) && len(ps.Stack) < maxInlineDepth+2 {
							if ps.Bind == nil {
								ps.Bind = map[*ssa.Parameter]ssa.Value{}
							}
							for j, a := range rec.args {
								ps.Bind[f.Params[j]] = a
							}
							if mc != nil {
								if ps.BindFV == nil {
									ps.BindFV = map[*ssa.FreeVar]ssa.Value{}
								}
								for j, fv := range f.FreeVars {
									if j < len(mc.Bindings) {
										ps.BindFV[fv] = mc.Bindings[j]
									}
								}
							}
							for _, fb := range f.Blocks {
								delete(ps.Visits, fb)
								delete(ps.Havoc, fb)
							}
							ps.newInstance(f)
							ps.Stack = append(ps.Stack, inlFrame{call: nil, block: b, idx: i - 1, fn: f})
							walk(f.Blocks[0], 0, ps, fr, true)
							return
						}
						if o.EventOf != nil {
							if ev, ok := o.EventOf(rec.d, ps); ok {
								ev.Kind = "rundefer"
								ev.Instr = rec.d
								fr.events = append(append([]Event(nil), fr.events...), ev)
							}
						}
						walk(b, i, ps, fr, false)
						return
					}
				}
			}
			if ld, ok := in.(*ssa.UnOp); ok && ld.Op == token.MUL {
				var a *ssa.Alloc
				switch x := ld.X.(type) {
				case *ssa.Alloc:
					a = x
				case *ssa.FreeVar:
					a, _ = ps.BindFV[x].(*ssa.Alloc)
				}
				if a != nil {
					if cur, stored := ps.Cells[a]; stored {
						if ps.Loaded == nil {
							ps.Loaded = map[*ssa.UnOp]ssa.Value{}
						}
						ps.Loaded[ld] = cur
					}
				}
			}
			if s, ok := in.(*ssa.Store); ok {
				if a, ok := s.Addr.(*ssa.Alloc); ok {
					ps.Cells[a] = s.Val
				} else if fv, ok := s.Addr.(*ssa.FreeVar); ok {
					if a, ok := ps.BindFV[fv].(*ssa.Alloc); ok {
						ps.Cells[a] = s.Val
					}
				}
			}
			// a function literal handed to an inlined helper and called there through the helper's parameter is walked
			// in place as well (transaction wrappers: `withSchema(table, func(s) error {…})`)
			if call, ok := in.(*ssa.Call); ok && !o.NoInline && len(ps.Stack) > 0 && len(ps.Stack) < maxInlineDepth && call.Common().StaticCallee() == nil && !call.Common().IsInvoke() {
				if mc, ok := ps.Resolve(call.Common().Value).(*ssa.MakeClosure); ok {
					if f, ok := mc.Fn.(*ssa.Function); ok && len(f.Blocks) > 0 && len(call.Common().Args) == len(f.Params) && !onStackFn(ps, f) {
						if ps.Bind == nil {
							ps.Bind = map[*ssa.Parameter]ssa.Value{}
						}
						if ps.BindFV == nil {
							ps.BindFV = map[*ssa.FreeVar]ssa.Value{}
						}
						for k, a := range call.Common().Args {
							ps.Bind[f.Params[k]] = ps.Resolve(a)
						}
						for k, fv := range f.FreeVars {
							if k < len(mc.Bindings) {
								ps.BindFV[fv] = mc.Bindings[k]
							}
						}
						for _, fb := range f.Blocks {
							delete(ps.Visits, fb)
							delete(ps.Havoc, fb)
						}
						ps.newInstance(f)
						ps.Stack = append(ps.Stack, inlFrame{call: call, block: b, idx: i, fn: f})
						walk(f.Blocks[0], 0, ps, fr, true)
						return
					}
				}
			}
			if call, ok := in.(*ssa.Call); ok && !o.NoInline && inlinable != nil && len(ps.Stack) < maxInlineDepth {
				if f := call.Common().StaticCallee(); f != nil && len(f.Blocks) > 0 && len(f.FreeVars) == 0 && (inlinable(f) || o.InlineAlso[f]) && !o.KeepCall[f] && len(call.Common().Args) == len(f.Params) && !onStack(ps, f) {
					if ps.Bind == nil {
						ps.Bind = map[*ssa.Parameter]ssa.Value{}
					}
					args := make([]ssa.Value, len(f.Params))
					for k, a := range call.Common().Args {
						args[k] = ps.Resolve(a)
					}
					for k, prm := range f.Params {
						ps.Bind[prm] = args[k]
					}
					// a fresh instance of the callee: its blocks start unvisited
					for _, fb := range f.Blocks {
						delete(ps.Visits, fb)
						delete(ps.Havoc, fb)
					}
					ps.newInstance(f)
					ps.Stack = append(ps.Stack, inlFrame{call: call, block: b, idx: i, fn: f})
					walk(f.Blocks[0], 0, ps, fr, true)
					return
				}
			}
			if o.EventOf != nil {
				if ev, ok := o.EventOf(in, ps); ok {
					ev.Instr = in
					fr.events = append(append([]Event(nil), fr.events...), ev)
				}
			}
			// a struct whose address is handed to a call that is not walked in place may be changed by it
			if ci, ok := in.(ssa.CallInstruction); ok && o.FieldCells && len(ps.FCells) > 0 {
				if _, isDefer := in.(*ssa.Defer); !isDefer {
					for _, a := range ci.Common().Args {
						pfx := ""
						switch bb := ps.Resolve(a).(type) {
						case *instAlloc:
							pfx = "I" + itoa(bb.inst) + ":" + bb.Alloc.Name() + "."
						case *ssa.Alloc:
							pfx = "A:" + bb.Parent().Name() + ":" + bb.Name() + "."
						}
						if pfx == "" {
							continue
						}
						for k := range ps.FCells {
							if strings.HasPrefix(k, pfx) {
								delete(ps.FCells, k)
							}
						}
					}
				}
			}
			if r, ok := in.(*ssa.Return); ok {
				if k := len(ps.Stack); k > 0 {
					top := ps.Stack[k-1]
					ps.Stack = ps.Stack[: k-1 : k-1]
					rs := make([]ssa.Value, len(r.Results))
					for j, rv := range r.Results {
						rs[j] = ps.Resolve(rv)
						// an object allocated by this instance of the helper and handed out: give it an identity of its own
						if a, ok := rs[j].(*ssa.Alloc); ok && o.FieldCells && top.fn != nil && a.Parent() == top.fn {
							ps.InstN++
							ia := &instAlloc{Alloc: a, inst: ps.InstN}
							oldPfx := "A:" + a.Parent().Name() + ":" + a.Name() + "."
							for k, v := range ps.FCells {
								if strings.HasPrefix(k, oldPfx) {
									ps.FCells["I"+itoa(ia.inst)+":"+a.Name()+"."+strings.TrimPrefix(k, oldPfx)] = v
									delete(ps.FCells, k)
								}
							}
							rs[j] = ia
						}
					}
					if top.call != nil {
						if ps.Ret == nil {
							ps.Ret = map[*ssa.Call][]ssa.Value{}
						}
						ps.Ret[top.call] = rs
						if top.fn != nil && len(ps.BlockInst) > 0 {
							snap := map[*ssa.BasicBlock]int{}
							for _, fb := range top.fn.Blocks {
								if k, ok := ps.BlockInst[fb]; ok {
									snap[fb] = k
								}
							}
							if len(snap) > 0 {
								nri := make(map[*ssa.Call]map[*ssa.BasicBlock]int, len(ps.RetInst)+1)
								for c2, m2 := range ps.RetInst {
									nri[c2] = m2
								}
								nri[top.call] = snap
								ps.RetInst = nri
							}
						}
					}
					if ps.Resume == nil {
						ps.Resume = map[int]bool{}
					}
					ps.Resume[len(ps.Path)] = true
					ps.Path = append(ps.Path, top.block)
					walk(top.block, top.idx+1, ps, fr, false)
					return
				}
				if !o.NoSplitBool {
					if k, v := splittableBoolResult(r, ps); k >= 0 {
						for _, outcome := range []bool{true, false} {
							nfr := fr
							if fb, ok := foldCond(v, ps); ok {
								if fb != outcome {
									continue
								}
							} else if alts, ok := boolEqAlts(v, outcome, ps); ok {
								// `return a == b` over two booleans: each outcome in its two ways
								for _, alt := range alts {
									nl, good := o.Termer.altLits(alt, fr.lits, ps)
									if !good || !satisfiable(append(append(append([]Lit(nil), nl...), o.Assume...), o.Termer.inductLits(ps)...)) {
										continue
									}
									afr := fr
									afr.lits = nl
									nps := ps.clone()
									if nps.Over == nil {
										nps.Over = map[ssa.Value]ssa.Value{}
									}
									nps.Over[v] = ssa.NewConst(constant.MakeBool(outcome), types.Typ[types.Bool])
									walk(b, i, nps, afr, false)
								}
								continue
							} else if l, ok := o.Termer.litOf(v, outcome, ps); ok {
								l.PS = ps
								nl := append(append([]Lit(nil), fr.lits...), l)
								if !satisfiable(append(append(append([]Lit(nil), nl...), o.Assume...), o.Termer.inductLits(ps)...)) {
									continue
								}
								nfr.lits = nl
							} else {
								continue
							}
							nps := ps.clone()
							if nps.Over == nil {
								nps.Over = map[ssa.Value]ssa.Value{}
							}
							nps.Over[v] = ssa.NewConst(constant.MakeBool(outcome), types.Typ[types.Bool])
							walk(b, i, nps, nfr, false)
						}
						return
					}
				}
				out = append(out, &LPath{Lits: fr.lits, Unknown: fr.unknown, Events: fr.events, Exit: r, PS: ps})
				return
			}
		}
		if len(b.Succs) == 0 {
			out = append(out, &LPath{Lits: fr.lits, Unknown: fr.unknown, Events: fr.events, PS: ps})
			return
		}
		var cond ssa.Value
		if iff, ok := b.Instrs[len(b.Instrs)-1].(*ssa.If); ok {
			cond = iff.Cond
		}
		for k, s := range b.Succs {
			visits := ps.Visits[s]
			// a counted loop inside a helper that is walked in place, whose counters are all known numbers when the
			// back-edge is taken (`for _, a := range [...]string{"ROWID", "OID", "_ROWID_"}`), is walked iteration by
			// iteration with the numbers, not as "some later iteration"
			var cvals map[ssa.Value]int64
			if visits >= 1 && (len(ps.Stack) > 0 || o.UnrollRoot) && s.Dominates(b) && visits < maxConcreteIter {
				cvals = concreteBackEdge(s, b, ps)
			}
			if visits >= 2 && cvals == nil {
				continue
			}
			nfr := fr
			var altFrames []frame
			if cond != nil {
				outcome := k == 0
				rc := ps.Resolve(cond)
				if cb, ok := constBool(rc); ok {
					if cb != outcome {
						continue
					}
				} else if fb, ok := foldCond(rc, ps); ok {
					if fb != outcome {
						continue
					}
				} else if alts, ok := boolEqAlts(rc, outcome, ps); ok {
					// `if a == b` over two booleans: the branch is taken in two ways
					for _, alt := range alts {
						nl, good := o.Termer.altLits(alt, fr.lits, ps)
						if !good || !satisfiable(append(append(append([]Lit(nil), nl...), o.Assume...), o.Termer.inductLits(ps)...)) {
							continue
						}
						afr := fr
						afr.lits = nl
						altFrames = append(altFrames, afr)
					}
					if len(altFrames) == 0 {
						continue
					}
				} else if l, ok := o.Termer.litOf(cond, outcome, ps); ok {
					l = o.Termer.fixNilTypeLit(l, cond, ps)
					l.PS = ps
					nl := append(append([]Lit(nil), fr.lits...), l)
					if !satisfiable(append(append(append([]Lit(nil), nl...), o.Assume...), o.Termer.inductLits(ps)...)) {
						continue
					}
					nfr.lits = nl
				} else {
					nfr.unknown = append(append([]string(nil), fr.unknown...), fmt.Sprintf("%s=%v", o.Termer.Term(cond, ps), outcome))
				}
			}
			if len(altFrames) == 0 {
				altFrames = []frame{nfr}
			}
			for _, nfr := range altFrames {
				nps := ps.clone()
				if visits == 1 || s.Dominates(b) {
					// second arrival at a loop header through a back-edge: its phis (and those of blocks inside the
					// loop that are revisited) stand for an arbitrary later iteration
					if nps.Havoc == nil {
						nps.Havoc = map[*ssa.BasicBlock]bool{}
					}
					nps.Havoc[s] = true
					nps.Gen++
					if cvals == nil {
						// a counter that starts at a constant and only ever moves up is, in any later iteration, above
						// its start: `for i := range xs` has i ≥ 1 from the second iteration on
						for _, hin := range s.Instrs {
							ph, isPhi := hin.(*ssa.Phi)
							if !isPhi {
								break
							}
							if lb, ok := counterLowerBound(ph); ok {
								ni := make(map[*ssa.Phi]int64, len(nps.Induct)+1)
								for k2, v2 := range nps.Induct {
									ni[k2] = v2
								}
								ni[ph] = lb
								nps.Induct = ni
							}
						}
					}
					if cvals != nil {
						nv := make(map[ssa.Value]int64, len(ps.Vals)+len(cvals))
						for k2, v2 := range ps.Vals {
							nv[k2] = v2
						}
						for k2, v2 := range cvals {
							nv[k2] = v2
						}
						nps.Vals = nv
					}
					// what a field was last assigned is an instruction of the iteration that ends here; in the next
					// iteration the same instruction stands for another value (`x.f = append(x.f, …)` would name
					// itself), and what the body's loads saw then is not what they see now
					nps.FLast = nil
					// … and so is what the body stored into a local cell (`to = append(to, buf...)` on a captured
					// variable): the next iteration's load of the cell is a value of its own
					for ib := range loopBody(s) {
						for _, lin := range ib.Instrs {
							if st, ok := lin.(*ssa.Store); ok {
								if al, ok := st.Addr.(*ssa.Alloc); ok {
									if cv, has := nps.Cells[al]; has {
										if cin, isIn := cv.(ssa.Instruction); isIn && cin.Block() != nil && loopBody(s)[cin.Block()] {
											delete(nps.Cells, al)
										}
									}
								}
							}
						}
					}
					if len(nps.Loaded) > 0 {
						nl := make(map[*ssa.UnOp]ssa.Value, len(nps.Loaded))
						body := loopBody(s)
						for k2, v2 := range nps.Loaded {
							if !body[k2.Block()] {
								nl[k2] = v2
							}
						}
						nps.Loaded = nl
					}
					// a new iteration of s's loop: inner loops start over
					for ib := range loopBody(s) {
						if ib != s {
							delete(nps.Visits, ib)
							delete(nps.Havoc, ib)
						}
						// what the loop stores into tracked fields is not known any more in "some later iteration"
						if o.FieldCells && len(nps.FCells) > 0 {
							for _, lin := range ib.Instrs {
								if st, ok := lin.(*ssa.Store); ok {
									if fa, ok := st.Addr.(*ssa.FieldAddr); ok {
										if k := nps.fcKey(fa); k != "" {
											delete(nps.FCells, k)
										}
									}
								}
							}
						}
					}
				}
				walk(s, 0, nps, nfr, true)
			}
		}
	}
	ps0 := &pathState{Cells: map[*ssa.Alloc]ssa.Value{}, Vals: o.Values}
	if o.StartHavoc {
		ps0.Havoc = map[*ssa.BasicBlock]bool{start: true}
		ps0.Gen = 1
		for _, hin := range start.Instrs {
			ph, isPhi := hin.(*ssa.Phi)
			if !isPhi {
				break
			}
			if lb, ok := counterLowerBound(ph); ok {
				if ps0.Induct == nil {
					ps0.Induct = map[*ssa.Phi]int64{}
				}
				ps0.Induct[ph] = lb
			}
		}
	}
	if len(o.InitBind) > 0 {
		ps0.Bind = map[*ssa.Parameter]ssa.Value{}
		for k, v := range o.InitBind {
			ps0.Bind[k] = v
		}
	}
	walk(start, idx, ps0, frame{}, true)
	return out, !overflow
}

// boolAssign: a boolean value and the truth value an alternative gives it.
type boolAssign struct {
	v   ssa.Value
	val bool
}

// boolEqAlts: cond is `a == b` or `a != b` over two booleans neither of which is a constant: the two ways in which it
// has the given outcome (a true and b accordingly; a false and b accordingly).
func boolEqAlts(cond ssa.Value, outcome bool, ps *pathState) ([][]boolAssign, bool) {
	bo, ok := cond.(*ssa.BinOp)
	if !ok || (bo.Op != token.EQL && bo.Op != token.NEQ) {
		return nil, false
	}
	isBool := func(v ssa.Value) bool {
		b, ok := v.Type().Underlying().(*types.Basic)
		return ok && b.Kind() == types.Bool
	}
	x, y := ps.Resolve(bo.X), ps.Resolve(bo.Y)
	if !isBool(x) || !isBool(y) {
		return nil, false
	}
	if _, c := x.(*ssa.Const); c {
		return nil, false
	}
	if _, c := y.(*ssa.Const); c {
		return nil, false
	}
	same := (bo.Op == token.EQL) == outcome // a and b have the same truth value
	return [][]boolAssign{
		{{x, true}, {y, same}},
		{{x, false}, {y, !same}},
	}, true
}

// altLits: the literals of one alternative added to lits; false when the alternative is impossible on this path or a
// part of it cannot be put as a literal.
func (t *Termer) altLits(alt []boolAssign, lits []Lit, ps *pathState) ([]Lit, bool) {
	nl := append([]Lit(nil), lits...)
	for _, ba := range alt {
		v := ps.Resolve(ba.v)
		if cb, isC := constBool(v); isC {
			if cb != ba.val {
				return nil, false
			}
			continue
		}
		if fb, ok := foldCond(v, ps); ok {
			if fb != ba.val {
				return nil, false
			}
			continue
		}
		l, ok := t.litOf(ba.v, ba.val, ps)
		if !ok {
			return nil, false
		}
		l.PS = ps
		nl = append(nl, l)
	}
	return nl, true
}

// newInstance: f is about to be walked in place once more on this path.
func (ps *pathState) newInstance(f *ssa.Function) {
	if ps.InlineCount == nil {
		ps.InlineCount = map[*ssa.Function]int{}
	}
	ps.InlineCount[f]++
	k := ps.InlineCount[f]
	if ps.BlockInst == nil {
		ps.BlockInst = map[*ssa.BasicBlock]int{}
	}
	for _, fb := range f.Blocks {
		ps.BlockInst[fb] = k
	}
}

// fieldPathKey names the field a FieldAddr denotes on this path, for counting the stores into it.
func fieldPathKey(fa *ssa.FieldAddr, ps *pathState) string {
	base := ps.Resolve(fa.X)
	switch b := base.(type) {
	case *ssa.Parameter:
		return "p:" + b.Parent().Name() + ":" + b.Name() + "." + fieldName(fa)
	case *ssa.Alloc:
		return "a:" + b.Parent().Name() + ":" + b.Name() + "." + fieldName(fa)
	case *instAlloc:
		return "i:" + itoa(b.inst) + ":" + b.Alloc.Name() + "." + fieldName(fa)
	case *ssa.FreeVar:
		return "fv:" + b.Parent().Name() + ":" + b.Name() + "." + fieldName(fa)
	case *ssa.UnOp:
		if fa2, ok := b.X.(*ssa.FieldAddr); ok {
			return fieldPathKey(fa2, ps) + "." + fieldName(fa)
		}
	}
	return "v:" + base.Name() + ":" + fieldName(fa)
}

const maxConcreteIter = 12

// counterLowerBound: ph is an integer phi of a loop header whose entry values are one constant c0 and whose back-edge
// values are all `ph + k` with constants k ≥ 1: in an iteration reached through a back-edge ph ≥ c0 + min k.
func counterLowerBound(ph *ssa.Phi) (int64, bool) {
	if b, ok := ph.Type().Underlying().(*types.Basic); !ok || b.Info()&types.IsInteger == 0 {
		return 0, false
	}
	h := ph.Block()
	var c0, step int64
	haveC, haveStep := false, false
	for i, e := range ph.Edges {
		if h.Dominates(h.Preds[i]) {
			bo, ok := e.(*ssa.BinOp)
			if !ok || bo.Op != token.ADD || bo.X != ssa.Value(ph) {
				return 0, false
			}
			k, ok := constInt(bo.Y)
			if !ok || k < 1 {
				return 0, false
			}
			if !haveStep || k < step {
				step = k
			}
			haveStep = true
		} else {
			k, ok := constInt(e)
			if !ok || (haveC && k != c0) {
				return 0, false
			}
			c0, haveC = k, true
		}
	}
	if !haveC || !haveStep {
		return 0, false
	}
	return c0 + step, true
}

// counterStep: the constant a loop counter advances by on every back-edge (all the same), see counterLowerBound.
func counterStep(ph *ssa.Phi) (int64, bool) {
	h := ph.Block()
	var step int64
	have := false
	for i, e := range ph.Edges {
		if !h.Dominates(h.Preds[i]) {
			continue
		}
		bo, ok := e.(*ssa.BinOp)
		if !ok || bo.Op != token.ADD || bo.X != ssa.Value(ph) {
			return 0, false
		}
		k, ok := constInt(bo.Y)
		if !ok || (have && k != step) {
			return 0, false
		}
		step, have = k, true
	}
	return step, have
}

// inductLits: what is known about loop counters in a later iteration (see counterLowerBound), as literals over the
// counter and over `counter + k` computed in the header (the index variable of a range loop is `phi + 1`).
func (t *Termer) inductLits(ps *pathState) []Lit {
	if ps == nil || len(ps.Induct) == 0 {
		return nil
	}
	var out []Lit
	for ph, lb := range ps.Induct {
		if !ps.Havoc[ph.Block()] {
			continue
		}
		out = append(out, Lit{Subject: t.Term(ph, ps), Op: token.GEQ, C: fmt.Sprint(lb), N: lb, IsInt: true, Val: true})
		for _, r := range *ph.Referrers() {
			if bo, ok := r.(*ssa.BinOp); ok && bo.Op == token.ADD && bo.X == ssa.Value(ph) && bo.Block() == ph.Block() {
				if k, ok := constInt(bo.Y); ok {
					out = append(out, Lit{Subject: t.Term(bo, ps), Op: token.GEQ, C: fmt.Sprint(lb + k), N: lb + k, IsInt: true, Val: true})
					// the header's own test `counter+k < N` held in the iteration before, with the counter at its
					// start or above: the loop-invariant bound N is above that (a `range xs` in its second
					// iteration has len(xs) ≥ 1)
					h := ph.Block()
					if iff, ok := h.Instrs[len(h.Instrs)-1].(*ssa.If); ok {
						// (the body is what the test's true outcome leads to; the false outcome leaves the loop)
						body := loopBody(h)
						if cmp, ok := iff.Cond.(*ssa.BinOp); ok && cmp.Op == token.LSS && cmp.X == ssa.Value(bo) && len(h.Succs) == 2 && body[h.Succs[0]] && !body[h.Succs[1]] {
							if nin, ok := cmp.Y.(ssa.Instruction); ok && nin.Block() != nil && nin.Block() != h && nin.Block().Dominates(h) {
								// previous iteration: counter_prev ≥ lb − step, tested counter_prev + k < N; with k == step (the range form) that is N > lb
								if k2, ok := counterStep(ph); ok && k2 == k {
									out = append(out, Lit{Subject: t.Term(cmp.Y, ps), Op: token.GEQ, C: fmt.Sprint(lb + 1), N: lb + 1, IsInt: true, Val: true})
								}
							}
						}
					}
				}
			}
		}
	}
	return out
}

// isArrayCell: a local variable of array type whose elements are only read and written element by element (its address
// does not leave the function and it is not copied or sliced).
func isArrayCell(al *ssa.Alloc) bool {
	pt, ok := al.Type().Underlying().(*types.Pointer)
	if !ok {
		return false
	}
	if _, ok := pt.Elem().Underlying().(*types.Array); !ok {
		return false
	}
	for _, r := range *al.Referrers() {
		switch x := r.(type) {
		case *ssa.IndexAddr, *ssa.DebugRef:
		case *ssa.UnOp:
			// (the copy `range` makes of an array it only needs the length of is never used)
			if x.Referrers() != nil && len(*x.Referrers()) > 0 {
				return false
			}
		default:
			return false
		}
	}
	return true
}

func arrayCellKey(al *ssa.Alloc, k int64) string {
	return fmt.Sprintf("%p#%d", al, k)
}

// concreteBackEdge: the values the phis of loop header h take when it is re-entered from pred on this path, when h has
// phis, all of them integers, and each incoming value is a known number; nil otherwise.
func concreteBackEdge(h, pred *ssa.BasicBlock, ps *pathState) map[ssa.Value]int64 {
	k := -1
	for i, pb := range h.Preds {
		if pb == pred {
			k = i
		}
	}
	if k < 0 {
		return nil
	}
	out := map[ssa.Value]int64{}
	for _, in := range h.Instrs {
		ph, ok := in.(*ssa.Phi)
		if !ok {
			break
		}
		if b, ok := ph.Type().Underlying().(*types.Basic); !ok || b.Info()&types.IsInteger == 0 {
			return nil
		}
		n, ok := evalInt(ph.Edges[k], ps)
		if !ok {
			return nil
		}
		out[ph] = n
	}
	if len(out) == 0 {
		return nil
	}
	// … and with them the loop test in the header is decided (the trip count is known): a counter that is a known
	// number while its bound is not (`for i := 0; i < len(xs); i++`) stays "some later iteration"
	iff, ok := h.Instrs[len(h.Instrs)-1].(*ssa.If)
	if !ok {
		return nil
	}
	tps := ps.clone()
	nv := make(map[ssa.Value]int64, len(ps.Vals)+len(out))
	for k2, v2 := range ps.Vals {
		nv[k2] = v2
	}
	for k2, v2 := range out {
		nv[k2] = v2
	}
	tps.Vals = nv
	if tps.Havoc == nil {
		tps.Havoc = map[*ssa.BasicBlock]bool{}
	}
	tps.Havoc[h] = true
	if _, decided := foldCond(tps.Resolve(iff.Cond), tps); !decided {
		return nil
	}
	return out
}

// literalElem: element idx of a local array literal (`[...]string{"a", "b"}`, also behind `[:]`) whose elements are
// stored once, with constant indices, in the block that creates it.
func literalElem(base ssa.Value, idx int64) (ssa.Value, bool) {
	for i := 0; i < 4; i++ {
		switch x := base.(type) {
		case *ssa.UnOp: // the array value loaded from its cell
			if x.Op != token.MUL {
				return nil, false
			}
			base = x.X
			continue
		case *ssa.Slice:
			if x.Low != nil || x.High != nil {
				return nil, false
			}
			base = x.X
			continue
		}
		break
	}
	// an element of a package-level list of string constants that only the initialiser writes
	if g, isG := base.(*ssa.Global); isG && theProgram != nil {
		if st := theProgram.strTable(g); st != nil {
			if sv, ok := st.vals[idx]; ok && int64(len(st.vals)) == st.n {
				return ssa.NewConst(constant.MakeString(sv), types.Typ[types.String]), true
			}
		}
		return nil, false
	}
	al, ok := base.(*ssa.Alloc)
	if !ok {
		return nil, false
	}
	pt, ok := al.Type().Underlying().(*types.Pointer)
	if !ok {
		return nil, false
	}
	if _, ok := pt.Elem().Underlying().(*types.Array); !ok {
		return nil, false
	}
	var found ssa.Value
	for _, r := range *al.Referrers() {
		ia, ok := r.(*ssa.IndexAddr)
		if !ok {
			switch r.(type) {
			case *ssa.UnOp, *ssa.Slice, *ssa.DebugRef:
				continue
			}
			return nil, false
		}
		k, isC := constInt(ia.Index)
		for _, r2 := range *ia.Referrers() {
			st, isSt := r2.(*ssa.Store)
			if !isSt {
				continue // an element read
			}
			if !isC || st.Addr != ssa.Value(ia) || st.Block() != al.Block() {
				return nil, false
			}
			if k == idx {
				if found != nil {
					return nil, false
				}
				found = st.Val
			}
		}
	}
	return found, found != nil
}

// literalLen: the length of a local array literal, also behind `[:]`.
func literalLen(v ssa.Value) (int64, bool) {
	if sl, ok := v.(*ssa.Slice); ok && sl.Low == nil && sl.High == nil {
		v = sl.X
	} else if u, ok := v.(*ssa.UnOp); ok && u.Op == token.MUL {
		v = u.X
	}
	if al, ok := v.(*ssa.Alloc); ok {
		if pt, ok := al.Type().Underlying().(*types.Pointer); ok {
			if arr, ok := pt.Elem().Underlying().(*types.Array); ok {
				return arr.Len(), true
			}
		}
	}
	if g, ok := v.(*ssa.Global); ok {
		if pt, ok := g.Type().Underlying().(*types.Pointer); ok {
			if arr, ok := pt.Elem().Underlying().(*types.Array); ok {
				return arr.Len(), true
			}
		}
	}
	if arr, ok := v.Type().Underlying().(*types.Array); ok {
		return arr.Len(), true
	}
	return 0, false
}

// splittableBoolResult: the first result of r that is, on this path, a comparison (or its negation) rather than a
// constant or an opaque boolean.
func splittableBoolResult(r *ssa.Return, ps *pathState) (int, ssa.Value) {
	for k, rv := range r.Results {
		if b, ok := rv.Type().Underlying().(*types.Basic); !ok || b.Kind() != types.Bool {
			continue
		}
		v := ps.Resolve(rv)
		inner := v
		for {
			if u, ok := inner.(*ssa.UnOp); ok && u.Op == token.NOT {
				inner = ps.Resolve(u.X)
				continue
			}
			break
		}
		if bo, ok := inner.(*ssa.BinOp); ok {
			if _, isCmp := negOp[bo.Op]; isCmp {
				return k, v
			}
		}
	}
	return -1, nil
}

// devirt: an interface method called on a value whose concrete type is known on this path (an inlined helper taking
// an io.Reader that is handed an *os.File) resolves to the concrete method; recv is the concrete receiver.
func devirt(p *Program, x ssa.CallInstruction, ps *pathState) (*ssa.Function, ssa.Value) {
	if p == nil || ps == nil || !x.Common().IsInvoke() || len(ps.Bind) == 0 {
		return nil, nil
	}
	mi, ok := ps.Resolve(x.Common().Value).(*ssa.MakeInterface)
	if !ok {
		return nil, nil
	}
	sel := p.SSA.MethodSets.MethodSet(mi.X.Type()).Lookup(x.Common().Method.Pkg(), x.Common().Method.Name())
	if sel == nil {
		return nil, nil
	}
	return p.SSA.MethodValue(sel), mi.X
}

func calleeNamePS(p *Program, x ssa.CallInstruction, ps *pathState) string {
	if m, _ := devirt(p, x, ps); m != nil {
		return p.FnKey(m)
	}
	return calleeName(p, x)
}

func onStack(ps *pathState, f *ssa.Function) bool { return onStackFn(ps, f) }

func onStackFn(ps *pathState, f *ssa.Function) bool {
	for _, fr := range ps.Stack {
		if fr.fn == f {
			return true
		}
	}
	return false
}

// callEvents is the usual EventOf: static/interface/func-value calls by name (with argument terms), and stores to
// named fields (with the stored value's term).
func callEvents(p *Program) func(in ssa.Instruction, ps *pathState) (Event, bool) {
	return callEventsT(p, &Termer{P: p})
}

// callEventsT: the same with the caller's Termer (custom names).
func callEventsT(p *Program, t *Termer) func(in ssa.Instruction, ps *pathState) (Event, bool) {
	return func(in ssa.Instruction, ps *pathState) (Event, bool) {
		switch x := in.(type) {
		case ssa.CallInstruction:
			if _, isB := x.Common().Value.(*ssa.Builtin); isB {
				return Event{}, false
			}
			kind := "call"
			if _, ok := x.(*ssa.Defer); ok {
				kind = "defer"
			}
			ev := Event{Kind: kind, Name: calleeName(p, x)}
			if m, recv := devirt(p, x, ps); m != nil {
				ev.Name = p.FnKey(m)
				ev.Args = append(ev.Args, t.Term(recv, ps))
				for _, a := range x.Common().Args {
					ev.Args = append(ev.Args, t.Term(a, ps))
				}
				return ev, true
			}
			if x.Common().IsInvoke() {
				ev.Args = append(ev.Args, t.Term(x.Common().Value, ps))
			} else if x.Common().StaticCallee() == nil && ps != nil {
				fv := ps.Resolve(x.Common().Value)
				for i := 0; i < 3; i++ {
					if ct, isCT := fv.(*ssa.ChangeType); isCT {
						fv = ps.Resolve(ct.X)
					}
				}
				if mc, isMC := fv.(*ssa.MakeClosure); isMC {
					ev.Target = mc.Fn.Name()
				}
			}
			for _, a := range x.Common().Args {
				ev.Args = append(ev.Args, t.Term(a, ps))
			}
			return ev, true
		case *ssa.Store:
			if fa, ok := x.Addr.(*ssa.FieldAddr); ok {
				return Event{Kind: "store", Name: fieldName(fa), Val: t.Term(x.Val, ps), Base: t.Term(fa.X, ps)}, true
			}
			if ia, ok := x.Addr.(*ssa.IndexAddr); ok {
				return Event{Kind: "store", Name: "[]", Val: t.Term(x.Val, ps), Base: t.Term(ia.X, ps) + "[" + t.Term(ia.Index, ps) + "]"}, true
			}
			if fv, ok := x.Addr.(*ssa.FreeVar); ok {
				return Event{Kind: "store", Name: "fv:" + fv.Name(), Val: t.Term(x.Val, ps), Base: ""}, true
			}
			// through a pointer the caller handed in (`*out = v`), directly or as a closure's captured copy
			if pa, ok := x.Addr.(*ssa.Parameter); ok {
				return Event{Kind: "store", Name: "out:" + pa.Name(), Val: t.Term(x.Val, ps), Base: ""}, true
			}
			if u, ok := x.Addr.(*ssa.UnOp); ok && u.Op == token.MUL {
				if fv, isFV := u.X.(*ssa.FreeVar); isFV {
					return Event{Kind: "store", Name: "out:" + fv.Name(), Val: t.Term(x.Val, ps), Base: ""}, true
				}
			}
		}
		return Event{}, false
	}
}

func sortedStrings(m map[string]bool) []string {
	var s []string
	for k := range m {
		s = append(s, k)
	}
	sort.Strings(s)
	return s
}

// evalInt evaluates an integer expression of constants along the path (phis and cells resolved by the path).
func evalInt(v ssa.Value, ps *pathState) (int64, bool) { return evalIntD(v, ps, 0) }

func evalIntD(v ssa.Value, ps *pathState, rec int) (int64, bool) {
	if rec > 24 {
		return 0, false
	}
	for depth := 0; depth < 8; depth++ {
		v = ps.Resolve(v)
		if n, ok := ps.Vals[v]; ok {
			return n, true
		}
		switch x := v.(type) {
		case *ssa.Const:
			return constInt(x)
		case *ssa.Convert:
			v = x.X
			continue
		case *ssa.ChangeType:
			v = x.X
			continue
		case *ssa.Call:
			if bi, ok := x.Call.Value.(*ssa.Builtin); ok && bi.Name() == "len" && len(x.Call.Args) == 1 {
				return literalLen(ps.Resolve(x.Call.Args[0]))
			}
			return 0, false
		case *ssa.UnOp:
			// an element of a package-level constant table at a known index
			if ct, idx, ok := theProgram.constTableLoad(x); ok {
				if k, ok := evalIntD(idx, ps, rec+1); ok && k >= 0 && k < ct.n {
					return ct.vals[k], true
				}
			}
			return 0, false
		case *ssa.BinOp:
			a, ok1 := evalIntD(x.X, ps, rec+1)
			b, ok2 := evalIntD(x.Y, ps, rec+1)
			if !ok1 || !ok2 {
				return 0, false
			}
			switch x.Op {
			case token.ADD:
				return a + b, true
			case token.SUB:
				return a - b, true
			case token.MUL:
				return a * b, true
			case token.SHL:
				if b >= 0 && b < 63 {
					return a << uint(b), true
				}
			case token.AND:
				return a & b, true
			case token.OR:
				return a | b, true
			case token.QUO:
				if b != 0 {
					return a / b, true
				}
			case token.REM:
				if b != 0 {
					return a % b, true
				}
			}
			return 0, false
		default:
			return 0, false
		}
	}
	return 0, false
}

// foldCond evaluates a comparison whose operands are both constant on this path.
func foldCond(c ssa.Value, ps *pathState) (bool, bool) {
	b, ok := c.(*ssa.BinOp)
	if !ok {
		return false, false
	}
	if _, isCmp := negOp[b.Op]; !isCmp {
		return false, false
	}
	// an error value that is certainly not nil — a package-level sentinel (never reassigned: GLOB-1) or a freshly
	// constructed error — compared with nil. Arises when an inlined helper returns `ErrX` and the caller tests it.
	if b.Op == token.EQL || b.Op == token.NEQ {
		x, y := ps.Resolve(b.X), ps.Resolve(b.Y)
		if isNilConst(x) {
			x, y = y, x
		}
		if isNilConst(y) && isErrorType(x.Type()) && certainlyNonNilError(x) {
			return b.Op == token.NEQ, true
		}
		if isNilConst(x) && isNilConst(y) {
			return b.Op == token.EQL, true // an inlined helper returned a literal nil
		}
	}
	x, ok1 := evalInt(b.X, ps)
	y, ok2 := evalInt(b.Y, ps)
	if !ok1 || !ok2 {
		return false, false
	}
	return evalCmp(x, b.Op, y), true
}

// isZeroArrayLoad: a load of a local array variable that is never stored to (its zero value).
func isZeroArrayLoad(v ssa.Value) bool {
	u, ok := v.(*ssa.UnOp)
	if !ok || u.Op != token.MUL {
		return false
	}
	a, ok := u.X.(*ssa.Alloc)
	if !ok {
		return false
	}
	if _, isArr := a.Type().Underlying().(*types.Pointer).Elem().Underlying().(*types.Array); !isArr {
		return false
	}
	for _, r := range *a.Referrers() {
		switch x := r.(type) {
		case *ssa.UnOp, *ssa.DebugRef:
		default:
			_ = x
			return false // stored to, sliced, indexed or escaping
		}
	}
	return true
}

// certainlyNonNilError: a load of a package-level error variable initialised once, or the result of errors.New /
// fmt.Errorf.
func certainlyNonNilError(v ssa.Value) bool {
	switch x := v.(type) {
	case *ssa.UnOp:
		if x.Op != token.MUL {
			return false
		}
		g, ok := x.X.(*ssa.Global)
		if !ok {
			return false
		}
		n := g.Name()
		return strings.HasPrefix(n, "Err") || strings.HasPrefix(n, "err")
	case *ssa.Call:
		if cal := x.Call.StaticCallee(); cal != nil {
			return isLibFunc(cal, "errors", "New") || isLibFunc(cal, "fmt", "Errorf")
		}
	case *ssa.MakeInterface:
		return true
	}
	return false
}

func CallEvents(p *Program) func(in ssa.Instruction, ps *pathState) (Event, bool) {
	return callEvents(p)
}
