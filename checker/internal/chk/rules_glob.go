package chk

import (
	"fmt"
	"go/token"
	"go/types"
	"sort"
	"strings"

	"golang.org/x/tools/go/ssa"
)

func globRules() []*Rule {
	return []*Rule{
		{ID: "GLOB-1", Props: []string{"C20", "C16"}, Min: 30,
			Doc: "no package-level variable of the module is written (directly, through an element/field address, a map update, or by handing a mutable reference to code that may write) outside package initialisation",
			Run: runGlob1},
		{ID: "GLOB-2", Props: []string{"C20"}, Min: 30,
			Doc: "no handle type (DB, Database, pagers, caches, Statement, Rows, Table, Index) is reachable from the type of a package-level variable",
			Run: runGlob2},
		{ID: "GLOB-3", Props: []string{"C20", "C19", "C17", "C06"}, Min: 1,
			Doc: "the only goroutine the module starts is the driver's row producer",
			Run: runGlob3},
		{ID: "ARG-RO", Props: []string{"C20", "C03", "C18"}, Min: 1,
			Doc: "what the caller hands in stays the caller's: no function of the API packages stores into an element of a slice (or map) it received as a parameter or receiver — a Key or a column list shared between goroutines or reused between calls is never rewritten (the one exception is database/sql's dest slice in Rows.Next, an out-parameter by contract)",
			Run: runArgRO},
		{ID: "GLOB-4", Props: []string{"C20"}, Min: 3,
			Doc: "per-handle mutable state (Database.dirty/header/objectCache, btreeCache.elem, filePager.readLock) is written only through the method receiver or a freshly constructed handle — never through a handle obtained from elsewhere",
			Run: runGlob4},
	}
}

func isRefType(t types.Type) bool {
	switch t.Underlying().(type) {
	case *types.Map, *types.Slice, *types.Pointer, *types.Chan:
		return true
	}
	return false
}

func moduleGlobals(p *Program) []*ssa.Global {
	var out []*ssa.Global
	for _, sp := range p.SPkg {
		for _, m := range sp.Members {
			if g, ok := m.(*ssa.Global); ok {
				out = append(out, g)
			}
		}
	}
	sort.Slice(out, func(i, j int) bool { return out[i].String() < out[j].String() })
	return out
}

func inInit(fn *ssa.Function) bool {
	if fn.Parent() != nil {
		return false // a closure created by init runs whenever it is called (the collation functions)
	}
	return fn.Name() == "init" || strings.HasPrefix(fn.Name(), "init#")
}

var readOnlyLibPkgs = map[string]bool{"fmt": true, "strings": true, "bytes": true, "errors": true, "strconv": true, "reflect": true, "unicode/utf8": true}

// globalUses indexes the instructions that use each global (go/ssa keeps no referrers for globals).
func globalUses(p *Program) map[*ssa.Global][]ssa.Instruction {
	idx := map[*ssa.Global][]ssa.Instruction{}
	for _, fn := range p.ModFuncs() {
		for _, in := range instrs(fn) {
			var ops [16]*ssa.Value
			for _, op := range in.Operands(ops[:0]) {
				if op == nil || *op == nil {
					continue
				}
				if g, ok := (*op).(*ssa.Global); ok {
					idx[g] = append(idx[g], in)
				}
			}
		}
	}
	return idx
}

// globalWrites explores every use of global g (outside init) and reports writes/escapes.
func globalWrites(p *Program, g *ssa.Global, uses map[*ssa.Global][]ssa.Instruction) (writes []string, reads int) {
	type item struct {
		v      ssa.Value
		isAddr bool // v is an address inside g's storage (g itself, &g[i], &g.f)
	}
	seen := map[ssa.Value]bool{}
	work := []item{{g, true}}
	seen[g] = true
	push := func(v ssa.Value, isAddr bool) {
		if !seen[v] {
			seen[v] = true
			work = append(work, item{v, isAddr})
		}
	}
	for len(work) > 0 {
		it := work[len(work)-1]
		work = work[:len(work)-1]
		var refList []ssa.Instruction
		if gg, ok := it.v.(*ssa.Global); ok {
			refList = uses[gg]
		} else if refs := it.v.Referrers(); refs != nil {
			refList = *refs
		}
		for _, r := range refList {
			if inInit(r.Parent()) {
				continue
			}
			where := fmt.Sprintf("%s at %s", p.FnKey(r.Parent()), p.Pos(r.Pos()))
			switch x := r.(type) {
			case *ssa.UnOp:
				if x.Op == token.MUL && x.X == it.v {
					reads++
					if isRefType(x.Type()) {
						push(x, false) // a loaded map/slice/pointer still refers to shared storage
					}
				}
			case *ssa.IndexAddr:
				if x.X == it.v {
					push(x, true)
				}
			case *ssa.FieldAddr:
				if x.X == it.v {
					push(x, true)
				}
			case *ssa.Index, *ssa.Field, *ssa.Lookup, *ssa.Range, *ssa.Next, *ssa.Extract:
				reads++
				if v, ok := r.(ssa.Value); ok && isRefType(v.Type()) {
					push(v, false)
				}
			case *ssa.Slice:
				push(x, false)
			case *ssa.Phi, *ssa.ChangeType, *ssa.Convert:
				push(r.(ssa.Value), it.isAddr)
			case *ssa.MakeInterface:
				if isRefType(x.X.Type()) {
					push(x, false)
				}
			case *ssa.Store:
				if x.Addr == it.v {
					writes = append(writes, "store in "+where)
				} else if x.Val == it.v {
					// the reference is stored somewhere: follow local cells, flag the rest
					if a, ok := x.Addr.(*ssa.Alloc); ok {
						for _, l := range cellLoads(a) {
							push(l, it.isAddr)
						}
					} else {
						writes = append(writes, "reference to the variable's storage is stored away in "+where)
					}
				}
			case *ssa.MapUpdate:
				if x.Map == it.v {
					writes = append(writes, "map update in "+where)
				}
			case *ssa.BinOp, *ssa.If, *ssa.Return, *ssa.DebugRef, *ssa.TypeAssert:
				reads++
				if ret, ok := r.(*ssa.Return); ok && (it.isAddr || isRefType(it.v.Type())) {
					_ = ret
					writes = append(writes, "mutable reference returned from "+where)
				}
			case ssa.CallInstruction:
				cc := x.Common()
				if cc.Value == it.v {
					reads++ // calling a func loaded from the variable
					continue
				}
				if b, ok := cc.Value.(*ssa.Builtin); ok {
					switch b.Name() {
					case "len", "cap", "print", "println":
						reads++
						continue
					case "append":
						if len(cc.Args) > 0 && cc.Args[0] == it.v {
							writes = append(writes, "append onto shared backing storage in "+where)
						} else {
							reads++
						}
						continue
					case "copy":
						if len(cc.Args) > 0 && cc.Args[0] == it.v {
							writes = append(writes, "copy into the variable in "+where)
						} else {
							reads++
						}
						continue
					case "delete":
						writes = append(writes, "delete from the map in "+where)
						continue
					}
				}
				callee := cc.StaticCallee()
				if callee != nil && callee.Object() != nil && callee.Object().Pkg() != nil && readOnlyLibPkgs[callee.Object().Pkg().Path()] {
					reads++
					continue
				}
				if callee != nil && p.InModule(callee) {
					// follow into the parameter
					for i, a := range cc.Args {
						if a == it.v && i < len(callee.Params) {
							push(callee.Params[i], it.isAddr)
						}
					}
					continue
				}
				if !it.isAddr && !isRefType(it.v.Type()) {
					reads++
					continue
				}
				writes = append(writes, "mutable reference handed to "+calleeName(p, x)+" in "+where)
			default:
				reads++
			}
		}
	}
	return
}

// retainedLiteral: the function literal fn outlives the call that creates it — some closure value made from it is used
// other than by calling it on the spot (stored, returned, passed on, or captured by another literal).
func retainedLiteral(fn *ssa.Function) bool {
	for _, mc := range makeClosuresOf(fn) {
		for _, r := range *mc.Referrers() {
			if call, ok := r.(*ssa.Call); ok && call.Call.Value == ssa.Value(mc) {
				continue
			}
			if _, ok := r.(*ssa.DebugRef); ok {
				continue
			}
			return true
		}
	}
	if len(makeClosuresOf(fn)) == 0 && fn.Parent() != nil {
		// a literal without captured variables is a plain function value: look for uses of it
		for _, in := range instrs(fn.Parent()) {
			for _, op := range in.Operands(nil) {
				if op != nil && *op == ssa.Value(fn) {
					if call, ok := in.(*ssa.Call); ok && call.Call.Value == ssa.Value(fn) {
						continue
					}
					return true
				}
			}
		}
	}
	return false
}

func runGlob1(c *Ctx) {
	p := c.P
	// positive fixture: the rule must see the writes package initialisation itself performs
	fixture := 0
	uses := globalUses(p)
	for _, g := range moduleGlobals(p) {
		for _, r := range uses[g] {
			if s, ok := r.(*ssa.Store); ok && s.Addr == ssa.Value(g) && inInit(r.Parent()) {
				fixture++
			}
		}
	}
	if fixture == 0 {
		c.Undecided("fixture", token.NoPos, "the write detector matched none of the initialising stores of package variables: it is blind")
		return
	}
	c.Trivial("fixture", token.NoPos, "write detector sees %d initialising stores in package init functions", fixture)
	// state captured by function literals that package initialisation creates and keeps (the collation functions in
	// CollateFuncs): a variable such a literal captured is as global as a package variable
	for _, fn := range p.ModFuncs() {
		top := fn
		for top.Parent() != nil {
			top = top.Parent()
		}
		if fn.Parent() == nil || !inInit(top) || !retainedLiteral(fn) {
			continue
		}
		for _, in := range instrs(fn) {
			st, ok := in.(*ssa.Store)
			if !ok {
				continue
			}
			root := st.Addr
			for i := 0; i < 8; i++ {
				switch x := root.(type) {
				case *ssa.FieldAddr:
					root = x.X
					continue
				case *ssa.IndexAddr:
					root = x.X
					continue
				case *ssa.UnOp:
					root = x.X
					continue
				case *ssa.Slice:
					root = x.X
					continue
				}
				break
			}
			if fv, isFV := root.(*ssa.FreeVar); isFV {
				c.Fail("captured state: "+p.FnKey(fn)+" "+fv.Name(), st.Pos(), "a function literal that package initialisation creates and keeps writes the variable `%s` it captured: the variable is shared by every handle in the process, two goroutines race on it and one operation's result can depend on another's", fv.Name())
			}
		}
	}
	for _, g := range moduleGlobals(p) {
		key := strings.ReplaceAll(g.String(), ModPath+"/", "")
		key = strings.ReplaceAll(key, ModPath, "sqlittle")
		writes, reads := globalWrites(p, g, uses)
		if len(writes) == 0 {
			if reads > 0 {
				c.Pass(key, g.Pos(), "%d uses outside init, all reads", reads)
			} else {
				c.Trivial(key, g.Pos(), "not used outside init")
			}
			continue
		}
		c.Fail(key, g.Pos(), "package-level variable is written after initialisation (%s): two handles used from different goroutines race on it, and the result of one operation can depend on another", strings.Join(writes, "; "))
	}
}

var handleTypes = map[string]bool{
	"sqlittle.DB": true, "db.Database": true, "db.filePager": true, "db.btreeCache": true, "db.objectCache": true,
	"driver.Statement": true, "driver.Rows": true, "driver.Connection": true, "db.Table": true, "db.Index": true, "db.bytePager": true,
}

func typeReaches(t types.Type, seen map[types.Type]bool, hit *string) {
	if seen[t] || *hit != "" {
		return
	}
	seen[t] = true
	switch x := t.(type) {
	case *types.Named:
		if o := x.Obj(); o.Pkg() != nil {
			name := o.Pkg().Name() + "." + o.Name()
			if handleTypes[name] && strings.HasPrefix(o.Pkg().Path(), ModPath) {
				*hit = name
				return
			}
		}
		typeReaches(x.Underlying(), seen, hit)
	case *types.Pointer:
		typeReaches(x.Elem(), seen, hit)
	case *types.Slice:
		typeReaches(x.Elem(), seen, hit)
	case *types.Array:
		typeReaches(x.Elem(), seen, hit)
	case *types.Map:
		typeReaches(x.Key(), seen, hit)
		typeReaches(x.Elem(), seen, hit)
	case *types.Chan:
		typeReaches(x.Elem(), seen, hit)
	case *types.Struct:
		for i := 0; i < x.NumFields(); i++ {
			typeReaches(x.Field(i).Type(), seen, hit)
		}
	case *types.Interface:
		if x.NumMethods() == 0 || !isErrorIface(x) {
			if x.NumMethods() == 0 {
				*hit = "interface{} (may hold a handle)"
			}
		}
	}
}

func isErrorIface(i *types.Interface) bool {
	return i.NumMethods() == 1 && i.Method(0).Name() == "Error"
}

func runGlob2(c *Ctx) {
	p := c.P
	for _, g := range moduleGlobals(p) {
		key := strings.ReplaceAll(strings.ReplaceAll(g.String(), ModPath+"/", ""), ModPath, "sqlittle")
		hit := ""
		typeReaches(g.Type().(*types.Pointer).Elem(), map[types.Type]bool{}, &hit)
		if hit == "" {
			c.Trivial(key, g.Pos(), "type %s holds no handle", types.TypeString(g.Type().(*types.Pointer).Elem(), shortQual))
			continue
		}
		// blank interface-typed assertion variables (`var _ I = (*T)(nil)`) hold typed nils only
		if strings.HasPrefix(g.Name(), "_") {
			c.Trivial(key, g.Pos(), "blank interface-satisfaction assertion")
			continue
		}
		c.Fail(key, g.Pos(), "package-level variable can hold %s: handle state shared between otherwise independent handles", hit)
	}
}

func runGlob3(c *Ctx) {
	p := c.P
	n := 0
	for _, fn := range p.ModFuncs() {
		for _, in := range instrs(fn) {
			g, ok := in.(*ssa.Go)
			if !ok {
				continue
			}
			n++
			top := fn
			for top.Parent() != nil {
				top = top.Parent()
			}
			key := p.FnKey(top) + " go"
			if p.FnKey(top) == "(*driver.Statement).QueryContext" {
				c.Pass(key, g.Pos(), "the driver's row producer (its sharing discipline is DRV-1..5)")
			} else {
				c.Undecided(key, g.Pos(), "a goroutine is started in %s: its shared state is not covered by any rule", p.FnKey(fn))
			}
		}
	}
	if n == 0 {
		c.Undecided("go statements", token.NoPos, "the driver's producer goroutine was not found")
	}
}

func runGlob4(c *Ctx) {
	p := c.P
	watched := map[string]map[string]bool{
		"Database":   {"dirty": true, "header": true, "objectCache": true, "btreeCache": true, "l": true, "journal": true},
		"btreeCache": {"elem": true, "limit": true},
		"filePager":  {"readLock": true, "f": true, "mm": true},
	}
	for _, fn := range p.ModFuncs() {
		for _, in := range instrs(fn) {
			s, ok := in.(*ssa.Store)
			if !ok {
				continue
			}
			fa, ok := s.Addr.(*ssa.FieldAddr)
			if !ok {
				continue
			}
			n := namedOf(fa.X.Type())
			if n == nil || n.Obj().Pkg() == nil || n.Obj().Pkg().Path() != modPkgPath("db") {
				continue
			}
			fields := watched[n.Obj().Name()]
			if fields == nil || !fields[fieldName(fa)] {
				continue
			}
			key := fmt.Sprintf("%s writes %s.%s", p.FnKey(fn), n.Obj().Name(), fieldName(fa))
			base := resolveCell(fa.X)
			okBase := false
			switch b := base.(type) {
			case *ssa.Parameter:
				okBase = fn.Signature.Recv() != nil && len(fn.Params) > 0 && b == fn.Params[0]
			case *ssa.Alloc:
				okBase = true // a handle being constructed
			}
			c.Check(okBase, key, s.Pos(), "per-handle state is written through %s", map[bool]string{true: "the method's own receiver / a handle under construction", false: "a handle obtained from elsewhere (" + accessPath(fa.X) + ")"}[okBase])
		}
	}
}

// argROExceptions: parameters that are out-parameters by contract.
var argROExceptions = map[string]string{
	"(*driver.Rows).Next:dest": "database/sql's driver.Rows contract: Next fills dest",
}

func runArgRO(c *Ctx) {
	p := c.P
	n := 0
	for _, fn := range p.ModFuncs() {
		ps := p.PkgShort(fn)
		if ps != "." && ps != "driver" {
			continue
		}
		// where does a stored-to container come from?
		var origin func(v ssa.Value, depth int) *ssa.Parameter
		origin = func(v ssa.Value, depth int) *ssa.Parameter {
			if depth > 8 {
				return nil
			}
			switch x := v.(type) {
			case *ssa.Parameter:
				return x
			case *ssa.Slice:
				return origin(x.X, depth+1)
			case *ssa.ChangeType:
				return origin(x.X, depth+1)
			case *ssa.Phi:
				for _, e := range x.Edges {
					if o := origin(e, depth+1); o != nil {
						return o
					}
				}
			case *ssa.UnOp:
				// a parameter spilled into a cell (captured or address-taken)
				if al, ok := x.X.(*ssa.Alloc); ok && x.Op == token.MUL {
					for _, st := range cellStores(al) {
						if o := origin(st.Val, depth+1); o != nil {
							return o
						}
					}
				}
			}
			return nil
		}
		for _, in := range instrs(fn) {
			var container ssa.Value
			switch x := in.(type) {
			case *ssa.Store:
				if ia, ok := x.Addr.(*ssa.IndexAddr); ok {
					if _, isSl := ia.X.Type().Underlying().(*types.Slice); isSl {
						container = ia.X
					}
				}
			case *ssa.MapUpdate:
				container = x.Map
			}
			if container == nil {
				continue
			}
			par := origin(container, 0)
			if par == nil {
				continue
			}
			n++
			key := fmt.Sprintf("%s:%s", p.FnKey(fn), par.Name())
			if why, ok := argROExceptions[key]; ok {
				c.Pass(key, in.Pos(), "exception: %s", why)
				continue
			}
			if argFreshAtCallSites(p, fn, par, origin, 0) {
				c.Pass(key, in.Pos(), "every call site hands `%s` a slice it has just made", par.Name())
				continue
			}
			c.Fail(key, in.Pos(), "%s stores into an element of `%s`, which the caller handed in: a Key, column list or buffer that the caller shares between goroutines or reuses for the next call is rewritten under it", p.FnKey(fn), par.Name())
		}
	}
	if n == 0 {
		c.Pass("no stores into arguments", token.NoPos, "no function of the API packages stores into a slice or map it was given")
	}
}

// argFreshAtCallSites: fn is not exported and at each of its call sites the argument bound to par is a slice made in
// the caller (or, in turn, a parameter of an unexported caller of which the same holds).
func argFreshAtCallSites(p *Program, fn *ssa.Function, par *ssa.Parameter, origin func(ssa.Value, int) *ssa.Parameter, depth int) bool {
	if depth > 3 || fn.Object() == nil || fn.Object().Exported() || fn.Parent() != nil {
		return false
	}
	idx := -1
	for i, q := range fn.Params {
		if q == par {
			idx = i
		}
	}
	node := p.CG.Nodes[fn]
	if idx < 0 || node == nil || len(node.In) == 0 {
		return false
	}
	for _, e := range node.In {
		if e.Site == nil || e.Site.Common().StaticCallee() != fn || idx >= len(e.Site.Common().Args) {
			return false
		}
		a := e.Site.Common().Args[idx]
		for i := 0; i < 4; i++ {
			if sl, ok := a.(*ssa.Slice); ok {
				a = sl.X
			}
		}
		switch x := a.(type) {
		case *ssa.MakeSlice:
			continue
		case *ssa.Alloc:
			continue
		default:
			if q := origin(x, 0); q != nil && q.Parent() == e.Caller.Func && argFreshAtCallSites(p, e.Caller.Func, q, origin, depth+1) {
				continue
			}
			return false
		}
	}
	return true
}
