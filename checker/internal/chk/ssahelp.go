package chk

import (
	"go/constant"
	"go/token"
	"go/types"
	"sort"
	"strings"

	"golang.org/x/tools/go/ssa"
)

// ---- instruction enumeration ---------------------------------------------------------------

func instrs(fn *ssa.Function) []ssa.Instruction {
	var out []ssa.Instruction
	for _, b := range fn.Blocks {
		out = append(out, b.Instrs...)
	}
	return out
}

// callsIn lists Call, Defer and Go instructions of fn in block order.
func callsIn(fn *ssa.Function) []ssa.CallInstruction {
	var out []ssa.CallInstruction
	for _, b := range fn.Blocks {
		for _, in := range b.Instrs {
			if c, ok := in.(ssa.CallInstruction); ok {
				out = append(out, c)
			}
		}
	}
	return out
}

// withClosures returns fn and every anonymous function nested in it (transitively).
func withClosures(fn *ssa.Function) []*ssa.Function {
	out := []*ssa.Function{fn}
	for _, a := range fn.AnonFuncs {
		out = append(out, withClosures(a)...)
	}
	return out
}

func instrIndex(in ssa.Instruction) int {
	for i, x := range in.Block().Instrs {
		if x == in {
			return i
		}
	}
	return -1
}

// instrDominates: a is executed before b on every path reaching b (same function).
func instrDominates(a, b ssa.Instruction) bool {
	if a.Parent() != b.Parent() {
		return false
	}
	if a.Block() == b.Block() {
		return instrIndex(a) < instrIndex(b)
	}
	return a.Block().Dominates(b.Block())
}

// returnsOf lists the Return instructions of fn.
func returnsOf(fn *ssa.Function) []*ssa.Return {
	var out []*ssa.Return
	for _, b := range fn.Blocks {
		if len(b.Instrs) == 0 {
			continue
		}
		if r, ok := b.Instrs[len(b.Instrs)-1].(*ssa.Return); ok {
			out = append(out, r)
		}
	}
	return out
}

// ---- callee predicates ---------------------------------------------------------------------

// CallsFn reports whether site may call target (through the VTA graph).
func (p *Program) CallsFn(site ssa.CallInstruction, target *ssa.Function) bool {
	for _, c := range p.Callees(site) {
		if c == target {
			return true
		}
	}
	return false
}

// reachesMemo answers "may fn (transitively, through module and library code) call a function in set?"
type reachQuery struct {
	p    *Program
	set  map[*ssa.Function]bool
	memo map[*ssa.Function]int // 0 unknown 1 yes 2 no 3 in progress
}

func (p *Program) NewReach(targets ...*ssa.Function) *reachQuery {
	q := &reachQuery{p: p, set: map[*ssa.Function]bool{}, memo: map[*ssa.Function]int{}}
	for _, t := range targets {
		if t != nil {
			q.set[t] = true
		}
	}
	return q
}

// Fn: fn is in the set or may transitively call one.
func (q *reachQuery) Fn(fn *ssa.Function) bool {
	// iterative DFS computing reachability (no memo of negative results while cycles are open; simple full search with visited set)
	if v, ok := q.memo[fn]; ok && (v == 1 || v == 2) {
		return v == 1
	}
	visited := map[*ssa.Function]bool{}
	var dfs func(f *ssa.Function) bool
	dfs = func(f *ssa.Function) bool {
		if q.set[f] {
			return true
		}
		if v, ok := q.memo[f]; ok && (v == 1 || v == 2) {
			return v == 1
		}
		if visited[f] {
			return false
		}
		visited[f] = true
		n := q.p.CG.Nodes[f]
		if n == nil {
			return false
		}
		for _, e := range n.Out {
			if dfs(e.Callee.Func) {
				q.memo[f] = 1
				return true
			}
		}
		return false
	}
	r := dfs(fn)
	if r {
		q.memo[fn] = 1
	} else {
		// everything visited is a definite no
		for f := range visited {
			if q.memo[f] != 1 {
				q.memo[f] = 2
			}
		}
	}
	return r
}

// Site: the call may reach the set.
func (q *reachQuery) Site(site ssa.CallInstruction) bool {
	for _, c := range q.p.Callees(site) {
		if q.Fn(c) {
			return true
		}
	}
	return false
}

// ---- values --------------------------------------------------------------------------------

func isNilConst(v ssa.Value) bool {
	c, ok := v.(*ssa.Const)
	return ok && c.Value == nil
}

func constInt(v ssa.Value) (int64, bool) {
	c, ok := v.(*ssa.Const)
	if !ok || c.Value == nil {
		return 0, false
	}
	if c.Value.Kind() != constant.Int {
		return 0, false
	}
	n, ok := constant.Int64Val(c.Value)
	if !ok {
		// may be uint64
		u, ok2 := constant.Uint64Val(c.Value)
		return int64(u), ok2
	}
	return n, true
}

func constBool(v ssa.Value) (bool, bool) {
	c, ok := v.(*ssa.Const)
	if !ok || c.Value == nil || c.Value.Kind() != constant.Bool {
		return false, false
	}
	return constant.BoolVal(c.Value), true
}

func constString(v ssa.Value) (string, bool) {
	c, ok := v.(*ssa.Const)
	if !ok || c.Value == nil || c.Value.Kind() != constant.String {
		return "", false
	}
	return constant.StringVal(c.Value), true
}

func isErrorType(t types.Type) bool {
	n, ok := t.(*types.Named)
	return ok && n.Obj().Pkg() == nil && n.Obj().Name() == "error"
}

// stripConv follows ChangeType / Convert / MakeInterface / ChangeInterface wrappers.
func stripConv(v ssa.Value) ssa.Value {
	for {
		switch x := v.(type) {
		case *ssa.ChangeType:
			v = x.X
		case *ssa.Convert:
			v = x.X
		case *ssa.MakeInterface:
			v = x.X
		case *ssa.ChangeInterface:
			v = x.X
		default:
			return v
		}
	}
}

// fieldOf: if v is a FieldAddr or Field, return the struct field object.
func fieldOf(v ssa.Value) *types.Var {
	switch x := v.(type) {
	case *ssa.FieldAddr:
		st := x.X.Type().Underlying().(*types.Pointer).Elem().Underlying().(*types.Struct)
		return st.Field(x.Field)
	case *ssa.Field:
		st := x.X.Type().Underlying().(*types.Struct)
		return st.Field(x.Field)
	}
	return nil
}

func fieldName(v ssa.Value) string {
	if f := fieldOf(v); f != nil {
		return fieldVarName(f)
	}
	return ""
}

// fieldAlias: struct fields that were merely renamed since the rules were confirmed → the name they had then
// (detectRenames).
var fieldAlias = map[*types.Var]string{}

func fieldVarName(f *types.Var) string {
	if old, ok := fieldAlias[f]; ok {
		return old
	}
	return f.Name()
}

// namedOf returns the named type (through pointers) of t, or nil.
func namedOf(t types.Type) *types.Named {
	for {
		switch x := t.(type) {
		case *types.Pointer:
			t = x.Elem()
		case *types.Named:
			return x
		default:
			return nil
		}
	}
}

func typeIs(t types.Type, pkgPath, name string) bool {
	n := namedOf(t)
	if n == nil {
		return false
	}
	o := n.Obj()
	if o.Name() != name {
		return false
	}
	if o.Pkg() == nil {
		return pkgPath == ""
	}
	return o.Pkg().Path() == pkgPath
}

func modPkgPath(short string) string {
	if short == "." {
		return ModPath
	}
	return ModPath + "/" + short
}

// isLibFunc: fn is the function/method pkgPath.name (name like "Search" or "(*File).Close").
func isLibFunc(fn *ssa.Function, pkgPath, name string) bool {
	if fn == nil {
		return false
	}
	o := fn.Object()
	if o == nil || o.Pkg() == nil || o.Pkg().Path() != pkgPath {
		return false
	}
	full := fn.RelString(o.Pkg())
	return full == name
}

// ---- CFG path queries ----------------------------------------------------------------------

// pathAvoiding: is there a path from the start of block `from` (or after instruction index fromIdx) to a block
// satisfying goal, that never executes an instruction for which avoid() is true? Used for must-pass-through.
type cfgQuery struct {
	avoid func(ssa.Instruction) bool
	goal  func(ssa.Instruction) bool
}

// firstHit walks forward from (b, idx); returns an instruction that satisfies goal reachable without passing an
// avoided instruction, or nil.
func (q cfgQuery) firstHit(b *ssa.BasicBlock, idx int) ssa.Instruction {
	seen := map[*ssa.BasicBlock]bool{}
	var walk func(b *ssa.BasicBlock, idx int) ssa.Instruction
	walk = func(b *ssa.BasicBlock, idx int) ssa.Instruction {
		for i := idx; i < len(b.Instrs); i++ {
			in := b.Instrs[i]
			if q.avoid != nil && q.avoid(in) {
				return nil
			}
			if q.goal(in) {
				return in
			}
		}
		for _, s := range b.Succs {
			if seen[s] {
				continue
			}
			seen[s] = true
			if h := walk(s, 0); h != nil {
				return h
			}
		}
		return nil
	}
	return walk(b, idx)
}

func isReturn(in ssa.Instruction) bool {
	_, ok := in.(*ssa.Return)
	return ok
}

// ---- condition edges -----------------------------------------------------------------------

// nilTest describes `If v != nil` / `If v == nil`.
type nilTest struct {
	If     *ssa.If
	V      ssa.Value
	NonNil *ssa.BasicBlock // successor taken when v != nil
	Nil    *ssa.BasicBlock
}

// nilTestOf recognises an If whose condition is a comparison of a value with nil.
func nilTestOf(in ssa.Instruction) *nilTest {
	i, ok := in.(*ssa.If)
	if !ok {
		return nil
	}
	b, ok := i.Cond.(*ssa.BinOp)
	if !ok || (b.Op != token.NEQ && b.Op != token.EQL) {
		return nil
	}
	var v ssa.Value
	if isNilConst(b.Y) {
		v = b.X
	} else if isNilConst(b.X) {
		v = b.Y
	} else {
		return nil
	}
	t := &nilTest{If: i, V: v}
	if b.Op == token.NEQ {
		t.NonNil, t.Nil = i.Block().Succs[0], i.Block().Succs[1]
	} else {
		t.NonNil, t.Nil = i.Block().Succs[1], i.Block().Succs[0]
	}
	return t
}

// ---- misc ----------------------------------------------------------------------------------

func sortedKeys[M ~map[string]V, V any](m M) []string {
	var ks []string
	for k := range m {
		ks = append(ks, k)
	}
	sort.Strings(ks)
	return ks
}

func shortFn(p *Program, fn *ssa.Function) string { return p.FnKey(fn) }

func hasPrefixAny(s string, pre ...string) bool {
	for _, x := range pre {
		if strings.HasPrefix(s, x) {
			return true
		}
	}
	return false
}

// tupleResult: for an Extract of a call result, return the call and index.
func extractOf(v ssa.Value) (*ssa.Call, int) {
	if e, ok := v.(*ssa.Extract); ok {
		if c, ok := e.Tuple.(*ssa.Call); ok {
			return c, e.Index
		}
	}
	return nil, -1
}

// errResultOf returns the SSA value holding the error result of call (nil if unused/no error result).
// For single-result calls it is the call itself; for tuples the Extract of the last component.
func errResultOf(call *ssa.Call) (ssa.Value, bool) {
	sig := call.Call.Signature()
	n := sig.Results().Len()
	if n == 0 || !isErrorType(sig.Results().At(n-1).Type()) {
		return nil, false
	}
	if n == 1 {
		return call, true
	}
	for _, r := range *call.Referrers() {
		if e, ok := r.(*ssa.Extract); ok && e.Index == n-1 {
			return e, true
		}
	}
	return nil, true // has an error result, but it is never extracted
}

func namedTypeName(t types.Type) string {
	if n := namedOf(t); n != nil {
		return n.Obj().Name()
	}
	return ""
}

// adapterOf finds the function literal that outer hands as the last argument to its call of callee (a b-tree
// iterator), whether the literal is written in place or produced by a freshly extracted helper (`passRecord(cb)`).
// The returned Termer names the literal's free variables after the variables of outer they are bound to, so that
// rules can relate them to outer's parameters whatever the helper calls them.
func adapterOf(p *Program, outer *ssa.Function, callee string) (*ssa.Function, *Termer) {
	// the iterator call may sit in a freshly extracted helper that is handed the literal (`in.scanFrom(key, func…)`)
	for _, cs := range callsIn(outer) {
		h := cs.Common().StaticCallee()
		if h == nil || inlinable == nil || !inlinable(h) || len(h.Params) != len(cs.Common().Args) {
			continue
		}
		for _, hcs := range callsIn(h) {
			if calleeName(p, hcs) != callee || len(hcs.Common().Args) == 0 {
				continue
			}
			prm, ok := resolveCell(stripConv(hcs.Common().Args[len(hcs.Common().Args)-1])).(*ssa.Parameter)
			if !ok {
				continue
			}
			for k, hp := range h.Params {
				if hp != prm {
					continue
				}
				a := cs.Common().Args[k]
				for {
					if ct, ok := a.(*ssa.ChangeType); ok {
						a = ct.X
					} else {
						break
					}
				}
				if mc, ok := a.(*ssa.MakeClosure); ok {
					fn := mc.Fn.(*ssa.Function)
					return fn, &Termer{P: p}
				}
			}
		}
	}
	for _, cs := range callsIn(outer) {
		if calleeName(p, cs) != callee || len(cs.Common().Args) == 0 {
			continue
		}
		arg := cs.Common().Args[len(cs.Common().Args)-1]
		for {
			if ct, ok := arg.(*ssa.ChangeType); ok {
				arg = ct.X
			} else if mi, ok := arg.(*ssa.MakeInterface); ok {
				arg = mi.X
			} else {
				break
			}
		}
		var mc *ssa.MakeClosure
		bind := func(v ssa.Value) ssa.Value { return v }
		switch x := arg.(type) {
		case *ssa.MakeClosure:
			mc = x
		case *ssa.Function:
			return x, &Termer{P: p}
		case *ssa.Call:
			g := x.Common().StaticCallee()
			if g == nil || inlinable == nil || !inlinable(g) {
				return nil, nil
			}
			for _, b := range g.Blocks {
				if r, ok := b.Instrs[len(b.Instrs)-1].(*ssa.Return); ok && len(r.Results) == 1 {
					rv := r.Results[0]
					if ct, ok := rv.(*ssa.ChangeType); ok {
						rv = ct.X
					}
					m, ok := rv.(*ssa.MakeClosure)
					if !ok || (mc != nil && mc.Fn != m.Fn) {
						return nil, nil
					}
					mc = m
				}
			}
			call := x
			bind = func(v ssa.Value) ssa.Value {
				if a, ok := v.(*ssa.Alloc); ok {
					if st := singleStore(a); st != nil {
						v = st.Val
					}
				}
				v = resolveCell(v)
				if prm, ok := v.(*ssa.Parameter); ok {
					for k, gp := range g.Params {
						if gp == prm && k < len(call.Common().Args) {
							return call.Common().Args[k]
						}
					}
				}
				return v
			}
		}
		if mc == nil {
			return nil, nil
		}
		fn := mc.Fn.(*ssa.Function)
		names := map[*ssa.FreeVar]string{}
		base := &Termer{P: p}
		for i, fv := range fn.FreeVars {
			if i >= len(mc.Bindings) {
				break
			}
			b := bind(mc.Bindings[i])
			s := base.Term(resolveCell(b), nil)
			for _, pre := range []string{"p:", "local:", "fv:"} {
				if strings.HasPrefix(s, pre) {
					s = s[len(pre):]
				}
			}
			names[fv] = "fv:" + s
		}
		return fn, &Termer{P: p, Custom: func(v ssa.Value, ps *pathState) (string, bool) {
			if fv, ok := v.(*ssa.FreeVar); ok {
				if s, ok := names[fv]; ok {
					return s, true
				}
			}
			return "", false
		}}
	}
	return nil, nil
}
