package chk

// glueTable: the error-free event sequences (calls with argument terms, stores, return terms) of the small wiring
// functions whose whole job is to route the right values to the right callee. Generated from the tree by
// `CLEAN=1 go run ./cmd/dbg2 <functions>` and confirmed by reading; see the GLUE rule.
var glueTable = map[string][]string{
	"sqlittle.select_": {
		"[] (*db.Database).Table(p:db, p:s.Table) ; (*db.Table).Scan(call:(*db.Database).Table#0, closure:select_$1) ; sqlittle.toColumnIndexRowid(p:s, p:columns) ⇒ call:(*db.Table).Scan",
	},
	"sqlittle.select_$1": {
		"[] func-value:sqlittle.RowDoneCB(call:sqlittle.toRow) ; sqlittle.toRow(p:rowid, fv:ci, p:r) ⇒ call:func-value:sqlittle.RowDoneCB",
	},
	"sqlittle.selectNonRowid": {
		"[] (*db.Database).NonRowidTable(p:db, p:s.Table) ; (*db.Index).Scan(call:(*db.Database).NonRowidTable#0, closure:selectNonRowid$1) ; sqlittle.toColumnIndexNonRowid(p:s, p:columns) ⇒ call:(*db.Index).Scan",
	},
	"sqlittle.selectNonRowid$1": {
		"[] func-value:sqlittle.RowDoneCB(call:sqlittle.toRow) ; sqlittle.toRow(const:0, fv:ci, p:r) ⇒ call:func-value:sqlittle.RowDoneCB",
	},
	"sqlittle.selectRowid": {
		"[call:(*db.Table).Rowid#0 != nil] (*db.Database).Table(p:db, p:s.Table) ; (*db.Table).Rowid(call:(*db.Database).Table#0, p:rowid) ; sqlittle.toColumnIndexRowid(p:s, p:columns) ; sqlittle.toRow(p:rowid, call:sqlittle.toColumnIndexRowid#0, call:(*db.Table).Rowid#0) ⇒ call:sqlittle.toRow, const:nil",
		"[call:(*db.Table).Rowid#0 == nil] (*db.Database).Table(p:db, p:s.Table) ; (*db.Table).Rowid(call:(*db.Database).Table#0, p:rowid) ; sqlittle.toColumnIndexRowid(p:s, p:columns) ⇒ const:nil, call:(*db.Table).Rowid#1",
	},
	"sqlittle.pkSelectNonRowid$1": {
		"[] func-value:sqlittle.RowCB(call:sqlittle.toRow) ; sqlittle.toRow(const:0, fv:ci, p:r) ⇒ const:false",
	},
	"(*sqlittle.DB).Columns": {
		"[len(call:(*db.Database).Schema#0.Columns) <= 0] (*db.Database).RLock(p:db.db) ; (*db.Database).Schema(p:db.db, p:table) ⇒ const:nil, const:nil",
		"[len(call:(*db.Database).Schema#0.Columns) > 0] (*db.Database).RLock(p:db.db) ; (*db.Database).Schema(p:db.db, p:table) ; elem=call:(*db.Database).Schema#0.Columns[i].Column ⇒ φ, const:nil",
	},
	"(*sqlittle.DB).SelectDone": {
		"[call:(*db.Database).Schema#0.WithoutRowid != true] (*db.Database).RLock(p:db.db) ; (*db.Database).Schema(p:db.db, p:table) ; sqlittle.select_(p:db.db, call:(*db.Database).Schema#0, p:cb, p:columns) ⇒ call:sqlittle.select_",
		"[call:(*db.Database).Schema#0.WithoutRowid == true] (*db.Database).RLock(p:db.db) ; (*db.Database).Schema(p:db.db, p:table) ; sqlittle.selectNonRowid(p:db.db, call:(*db.Database).Schema#0, p:cb, p:columns) ⇒ call:sqlittle.selectNonRowid",
	},
	"(*sqlittle.DB).Select": {
		"[] (*sqlittle.DB).SelectDone(p:db, p:table, closure:Select$1, p:columns) ⇒ call:(*sqlittle.DB).SelectDone",
	},
	"(*sqlittle.DB).Select$1": {
		"[] func-value:sqlittle.RowCB(p:row) ⇒ const:false",
	},
	"(*sqlittle.DB).SelectRowid": {
		"[call:(*db.Database).Schema#0.WithoutRowid != true] (*db.Database).RLock(p:db.db) ; (*db.Database).Schema(p:db.db, p:table) ; sqlittle.selectRowid(p:db.db, call:(*db.Database).Schema#0, p:rowid, p:columns) ⇒ call:sqlittle.selectRowid#0, call:sqlittle.selectRowid#1",
		"[call:(*db.Database).Schema#0.WithoutRowid == true] (*db.Database).RLock(p:db.db) ; (*db.Database).Schema(p:db.db, p:table) ; errors.New(const:\"can't use SelectRowid on a WITHOUT ROWID table\") ⇒ const:nil, call:errors.New",
	},
	"(*sqlittle.DB).IndexedSelect": {
		"[call:(*db.Database).Schema#0.WithoutRowid != true ∧ call:(*db.Schema).NamedIndex != nil] (*db.Database).RLock(p:db.db) ; (*db.Database).Schema(p:db.db, p:table) ; (*db.Schema).NamedIndex(call:(*db.Database).Schema#0, p:index) ; sqlittle.indexedSelect(p:db.db, call:(*db.Database).Schema#0, call:(*db.Schema).NamedIndex, p:cb, p:columns) ⇒ call:sqlittle.indexedSelect",
		"[call:(*db.Database).Schema#0.WithoutRowid == true ∧ call:(*db.Schema).NamedIndex != nil] (*db.Database).RLock(p:db.db) ; (*db.Database).Schema(p:db.db, p:table) ; (*db.Schema).NamedIndex(call:(*db.Database).Schema#0, p:index) ; sqlittle.indexedSelectNonRowid(p:db.db, call:(*db.Database).Schema#0, call:(*db.Schema).NamedIndex, p:cb, p:columns) ⇒ call:sqlittle.indexedSelectNonRowid",
		"[call:(*db.Schema).NamedIndex == nil] (*db.Database).RLock(p:db.db) ; (*db.Database).Schema(p:db.db, p:table) ; (*db.Schema).NamedIndex(call:(*db.Database).Schema#0, p:index) ; elem=p:index ; fmt.Errorf(const:\"no such index: %q\", local:varargs[:]) ⇒ call:fmt.Errorf",
	},
	"(*sqlittle.DB).IndexedSelectEq": {
		"[call:(*db.Database).Schema#0.WithoutRowid != true ∧ call:(*db.Schema).NamedIndex != nil] (*db.Database).RLock(p:db.db) ; (*db.Database).Schema(p:db.db, p:table) ; (*db.Schema).NamedIndex(call:(*db.Database).Schema#0, p:index) ; sqlittle.asDbKey(p:key, call:(*db.Schema).NamedIndex.Columns) ; sqlittle.indexedSelectEq(p:db.db, call:(*db.Database).Schema#0, call:(*db.Schema).NamedIndex, call:sqlittle.asDbKey#0, p:cb, p:columns) ⇒ call:sqlittle.indexedSelectEq",
		"[call:(*db.Database).Schema#0.WithoutRowid == true ∧ call:(*db.Schema).NamedIndex != nil] (*db.Database).RLock(p:db.db) ; (*db.Database).Schema(p:db.db, p:table) ; (*db.Schema).NamedIndex(call:(*db.Database).Schema#0, p:index) ; sqlittle.asDbKey(p:key, call:(*db.Schema).NamedIndex.Columns) ; sqlittle.indexedSelectEqNonRowid(p:db.db, call:(*db.Database).Schema#0, call:(*db.Schema).NamedIndex, call:sqlittle.asDbKey#0, p:cb, p:columns) ⇒ call:sqlittle.indexedSelectEqNonRowid",
		"[call:(*db.Schema).NamedIndex == nil] (*db.Database).RLock(p:db.db) ; (*db.Database).Schema(p:db.db, p:table) ; (*db.Schema).NamedIndex(call:(*db.Database).Schema#0, p:index) ; elem=p:index ; fmt.Errorf(const:\"no such index: %q\", local:varargs[:]) ⇒ call:fmt.Errorf",
	},
	"(*sqlittle.DB).PKSelect": {
		"[call:(*db.Database).Schema#0.WithoutRowid != true] (*db.Database).RLock(p:db.db) ; (*db.Database).Schema(p:db.db, p:table) ; sqlittle.pkSelect(p:db.db, call:(*db.Database).Schema#0, p:key, p:cb, p:columns) ⇒ call:sqlittle.pkSelect",
		"[call:(*db.Database).Schema#0.WithoutRowid == true] (*db.Database).RLock(p:db.db) ; (*db.Database).Schema(p:db.db, p:table) ; sqlittle.pkSelectNonRowid(p:db.db, call:(*db.Database).Schema#0, p:key, p:cb, p:columns) ⇒ call:sqlittle.pkSelectNonRowid",
	},
	"sqlittle.Open": {
		"[] db.OpenFile(p:filename) ; db=call:db.OpenFile#0 ⇒ local:complit, const:nil",
	},
	"(*db.Database).Schema": {
		"[] (*db.Database).master(p:db) ; db.newSchema(p:table, call:(*db.Database).master#0) ⇒ call:db.newSchema#0, call:db.newSchema#1",
	},
	"(*db.Database).Table": {
		"[call:(*db.Database).master#0[i].name−call:strings.ToLower != 0 ∧ call:(*db.Database).master#0[i].name−call:strings.ToLower == 0 ∧ call:(*db.Database).master#0[i].typ == \"table\" ∧ len(call:(*db.Database).master#0) > 0] (*db.Database).master(p:db) ; db=p:db ; root=call:(*db.Database).master#0[i].rootPage ; sql=call:(*db.Database).master#0[i].sql ; strings.ToLower(p:name) ⇒ local:complit, const:nil",
		"[call:(*db.Database).master#0[i].name−call:strings.ToLower != 0 ∧ call:(*db.Database).master#0[i].typ == \"table\" ∧ len(call:(*db.Database).master#0) > 0] (*db.Database).master(p:db) ; strings.ToLower(p:name) ⇒ const:nil, g:ErrNoSuchTable",
		"[call:(*db.Database).master#0[i].name−call:strings.ToLower == 0 ∧ call:(*db.Database).master#0[i].typ != \"table\" ∧ call:(*db.Database).master#0[i].typ == \"table\" ∧ len(call:(*db.Database).master#0) > 0] (*db.Database).master(p:db) ; db=p:db ; root=call:(*db.Database).master#0[i].rootPage ; sql=call:(*db.Database).master#0[i].sql ; strings.ToLower(p:name) ⇒ local:complit, const:nil",
		"[call:(*db.Database).master#0[i].name−call:strings.ToLower == 0 ∧ call:(*db.Database).master#0[i].typ == \"table\" ∧ len(call:(*db.Database).master#0) > 0] (*db.Database).master(p:db) ; db=p:db ; root=call:(*db.Database).master#0[i].rootPage ; sql=call:(*db.Database).master#0[i].sql ; strings.ToLower(p:name) ⇒ local:complit, const:nil",
		"[call:(*db.Database).master#0[i].typ != \"table\" ∧ len(call:(*db.Database).master#0) > 0] (*db.Database).master(p:db) ; strings.ToLower(p:name) ⇒ const:nil, g:ErrNoSuchTable",
		"[len(call:(*db.Database).master#0) <= 0] (*db.Database).master(p:db) ; strings.ToLower(p:name) ⇒ const:nil, g:ErrNoSuchTable",
	},
	"(*db.Database).NonRowidTable": {
		"[call:(*db.Database).master#0[i].name−call:strings.ToLower != 0 ∧ call:(*db.Database).master#0[i].name−call:strings.ToLower == 0 ∧ call:(*db.Database).master#0[i].typ == \"table\" ∧ len(call:(*db.Database).master#0) > 0] (*db.Database).master(p:db) ; db=p:db ; root=call:(*db.Database).master#0[i].rootPage ; sql=call:(*db.Database).master#0[i].sql ; strings.ToLower(p:name) ⇒ local:complit, const:nil",
		"[call:(*db.Database).master#0[i].name−call:strings.ToLower != 0 ∧ call:(*db.Database).master#0[i].typ == \"table\" ∧ len(call:(*db.Database).master#0) > 0] (*db.Database).master(p:db) ; strings.ToLower(p:name) ⇒ const:nil, g:ErrNoSuchTable",
		"[call:(*db.Database).master#0[i].name−call:strings.ToLower == 0 ∧ call:(*db.Database).master#0[i].typ != \"table\" ∧ call:(*db.Database).master#0[i].typ == \"table\" ∧ len(call:(*db.Database).master#0) > 0] (*db.Database).master(p:db) ; db=p:db ; root=call:(*db.Database).master#0[i].rootPage ; sql=call:(*db.Database).master#0[i].sql ; strings.ToLower(p:name) ⇒ local:complit, const:nil",
		"[call:(*db.Database).master#0[i].name−call:strings.ToLower == 0 ∧ call:(*db.Database).master#0[i].typ == \"table\" ∧ len(call:(*db.Database).master#0) > 0] (*db.Database).master(p:db) ; db=p:db ; root=call:(*db.Database).master#0[i].rootPage ; sql=call:(*db.Database).master#0[i].sql ; strings.ToLower(p:name) ⇒ local:complit, const:nil",
		"[call:(*db.Database).master#0[i].typ != \"table\" ∧ len(call:(*db.Database).master#0) > 0] (*db.Database).master(p:db) ; strings.ToLower(p:name) ⇒ const:nil, g:ErrNoSuchTable",
		"[len(call:(*db.Database).master#0) <= 0] (*db.Database).master(p:db) ; strings.ToLower(p:name) ⇒ const:nil, g:ErrNoSuchTable",
	},
	"(*db.Database).Index": {
		"[call:(*db.Database).master#0[i].name−call:strings.ToLower != 0 ∧ call:(*db.Database).master#0[i].name−call:strings.ToLower == 0 ∧ call:(*db.Database).master#0[i].typ == \"index\" ∧ len(call:(*db.Database).master#0) > 0] (*db.Database).master(p:db) ; db=p:db ; root=call:(*db.Database).master#0[i].rootPage ; sql=call:(*db.Database).master#0[i].sql ; strings.ToLower(p:name) ⇒ local:complit, const:nil",
		"[call:(*db.Database).master#0[i].name−call:strings.ToLower != 0 ∧ call:(*db.Database).master#0[i].typ == \"index\" ∧ len(call:(*db.Database).master#0) > 0] (*db.Database).master(p:db) ; strings.ToLower(p:name) ⇒ const:nil, g:ErrNoSuchIndex",
		"[call:(*db.Database).master#0[i].name−call:strings.ToLower == 0 ∧ call:(*db.Database).master#0[i].typ != \"index\" ∧ call:(*db.Database).master#0[i].typ == \"index\" ∧ len(call:(*db.Database).master#0) > 0] (*db.Database).master(p:db) ; db=p:db ; root=call:(*db.Database).master#0[i].rootPage ; sql=call:(*db.Database).master#0[i].sql ; strings.ToLower(p:name) ⇒ local:complit, const:nil",
		"[call:(*db.Database).master#0[i].name−call:strings.ToLower == 0 ∧ call:(*db.Database).master#0[i].typ == \"index\" ∧ len(call:(*db.Database).master#0) > 0] (*db.Database).master(p:db) ; db=p:db ; root=call:(*db.Database).master#0[i].rootPage ; sql=call:(*db.Database).master#0[i].sql ; strings.ToLower(p:name) ⇒ local:complit, const:nil",
		"[call:(*db.Database).master#0[i].typ != \"index\" ∧ len(call:(*db.Database).master#0) > 0] (*db.Database).master(p:db) ; strings.ToLower(p:name) ⇒ const:nil, g:ErrNoSuchIndex",
		"[len(call:(*db.Database).master#0) <= 0] (*db.Database).master(p:db) ; strings.ToLower(p:name) ⇒ const:nil, g:ErrNoSuchIndex",
	},
	"(*db.Database).objectNames": {
		"[call:(*db.Database).master#0[i].typ−p:typ != 0 ∧ len(call:(*db.Database).master#0) > 0] (*db.Database).master(p:db) ⇒ φ, const:nil",
		"[call:(*db.Database).master#0[i].typ−p:typ == 0 ∧ len(call:(*db.Database).master#0) > 0] (*db.Database).master(p:db) ; elem=call:(*db.Database).master#0[i].name ⇒ φ, const:nil",
		"[len(call:(*db.Database).master#0) <= 0] (*db.Database).master(p:db) ⇒ const:nil, const:nil",
	},
	"db.OpenFile": {
		"[] db.newDatabase(call:db.newFilePager#0, (p:f+const:\"-journal\")) ; db.newFilePager(p:f) ⇒ call:db.newDatabase#0, call:db.newDatabase#1",
	},
	"db.newDatabase": {
		"[] (*db.Database).resolveDirty(local:complit) ; btreeCache=call:db.newBtreeCache ; db.newBtreeCache(const:100) ; dirty=const:true ; journal=p:journal ; l=p:l ⇒ local:complit, call:(*db.Database).resolveDirty",
	},
	"sqlittle.indexedSelect": {
		"[] (*db.Database).Index(p:db, p:index.Index) ; (*db.Database).Table(p:db, p:schema.Table) ; (*db.Index).Scan(call:(*db.Database).Index#0, closure:indexedSelect$1) ; sqlittle.toColumnIndexRowid(p:schema, p:columns) ⇒ local:cbErr",
	},
	"sqlittle.indexedSelectEq": {
		"[] (*db.Database).Index(p:db, p:index.Index) ; (*db.Database).Table(p:db, p:schema.Table) ; (*db.Index).ScanEq(call:(*db.Database).Index#0, p:key, closure:indexedSelectEq$1) ; sqlittle.toColumnIndexRowid(p:schema, p:columns) ⇒ local:cbErr",
	},
}
