package chk

import (
	"fmt"
	"go/constant"
	"go/token"
	"go/types"
	"sort"
	"strings"
	"sync"

	"golang.org/x/tools/go/ssa"
)

// pagerPageImpls returns every implementation of the module interface db.pager's method `page`.
func (p *Program) pagerImpls(method string) []*ssa.Function {
	return p.ifaceImpls("db", "pager", method)
}

// ifaceImpls returns the concrete methods of module types implementing the named module interface.
func (p *Program) ifaceImpls(pkg, iface, method string) []*ssa.Function {
	sp := p.SPkg[pkg]
	if sp == nil {
		return nil
	}
	tm, ok := sp.Members[iface].(*ssa.Type)
	if !ok {
		return nil
	}
	it, ok := tm.Type().Underlying().(*types.Interface)
	if !ok {
		return nil
	}
	var out []*ssa.Function
	for _, spk := range p.SPkg {
		for _, m := range spk.Members {
			t, ok := m.(*ssa.Type)
			if !ok {
				continue
			}
			if _, isIface := t.Type().Underlying().(*types.Interface); isIface {
				continue
			}
			for _, T := range []types.Type{t.Type(), types.NewPointer(t.Type())} {
				if !types.Implements(T, it) {
					continue
				}
				sel := p.SSA.MethodSets.MethodSet(T).Lookup(sp.Pkg, method)
				if sel == nil {
					continue
				}
				fn := p.SSA.MethodValue(sel)
				if fn != nil && fn.Synthetic == "" {
					out = append(out, fn)
				}
				break
			}
		}
	}
	sort.Slice(out, func(i, j int) bool { return p.FnKey(out[i]) < p.FnKey(out[j]) })
	// dedupe
	var d []*ssa.Function
	for i, f := range out {
		if i == 0 || out[i-1] != f {
			d = append(d, f)
		}
	}
	return d
}

// exportedMethods lists the declared exported methods of module type pkg.T (value and pointer receivers).
func (p *Program) exportedMethods(pkg, typ string) []*ssa.Function {
	var out []*ssa.Function
	for _, fn := range p.ModFuncs() {
		if fn.Parent() != nil || fn.Signature.Recv() == nil || fn.Synthetic != "" {
			continue
		}
		if p.PkgShort(fn) != pkg {
			continue
		}
		n := namedOf(fn.Signature.Recv().Type())
		if n == nil || n.Obj().Name() != typ {
			continue
		}
		if fn.Object() != nil && fn.Object().Exported() {
			out = append(out, fn)
		}
	}
	return out
}

// bracket describes a recognised acquire/defer-release bracket in one function.
type bracket struct {
	Fn      *ssa.Function
	Acquire *ssa.Call
	Test    *nilTest
	Defer   *ssa.Defer
}

// errorEdgeReturnsNonNil: on every path from block b to a Return, the error result (last result) is not the nil
// constant. Returns a description of the offending return, or "".
func errorEdgeReturnsNonNil(p *Program, b *ssa.BasicBlock) string {
	bad := ""
	pv := &pathVisitor{
		OnExit: func(ret *ssa.Return, ps *pathState) {
			if ret == nil || bad != "" {
				return
			}
			n := len(ret.Results)
			if n == 0 {
				bad = "return without an error result at " + p.Pos(ret.Pos())
				return
			}
			v := ps.Resolve(ret.Results[n-1])
			if isNilConst(v) {
				bad = "returns a nil error at " + p.Pos(ret.Pos())
			}
		},
	}
	enumPaths(b, 0, pv)
	if pv.Overflow {
		return "too many paths"
	}
	return bad
}

// findBracket recognises `if err := ACQ(x); err != nil { return err }; defer REL(x)` in fn.
func findBracket(p *Program, fn *ssa.Function, acq, rel *ssa.Function) (*bracket, string) {
	var acqs []*ssa.Call
	for _, c := range callsIn(fn) {
		if call, ok := c.(*ssa.Call); ok && c.Common().StaticCallee() == acq {
			acqs = append(acqs, call)
		}
	}
	if len(acqs) == 0 {
		return nil, "no call of " + p.FnKey(acq)
	}
	if len(acqs) > 1 {
		return nil, fmt.Sprintf("%d calls of %s (nested or repeated locking)", len(acqs), p.FnKey(acq))
	}
	a := acqs[0]
	var test *nilTest
	for _, r := range *a.Referrers() {
		if bo, ok := r.(*ssa.BinOp); ok {
			for _, rr := range *bo.Referrers() {
				if t := nilTestOf(rr); t != nil && t.V == ssa.Value(a) {
					test = t
				}
			}
		}
	}
	if test == nil {
		return nil, "the error of " + p.FnKey(acq) + " is not tested against nil"
	}
	if !instrDominates(a, test.If) {
		return nil, "error test does not follow the acquire"
	}
	if why := errorEdgeReturnsNonNil(p, test.NonNil); why != "" {
		return nil, "on the failed-acquire edge the function " + why
	}
	// deferred release on the success edge, same receiver, before anything else that matters
	var def *ssa.Defer
	for _, c := range callsIn(fn) {
		d, ok := c.(*ssa.Defer)
		if !ok || d.Call.StaticCallee() != rel {
			continue
		}
		if len(d.Call.Args) == 0 || len(a.Call.Args) == 0 || accessPath(d.Call.Args[0]) != accessPath(a.Call.Args[0]) {
			continue
		}
		if def != nil {
			return nil, "more than one deferred " + p.FnKey(rel)
		}
		def = d
	}
	if def == nil {
		return nil, "no `defer " + p.FnKey(rel) + "` on the same handle"
	}
	if !(test.Nil == def.Block() || test.Nil.Dominates(def.Block())) {
		return nil, "deferred release is not on the success edge of the acquire"
	}
	return &bracket{Fn: fn, Acquire: a, Test: test, Defer: def}, ""
}

func lockRules() []*Rule {
	return []*Rule{
		{ID: "LOCK-1", Props: []string{"C06", "C07", "C08", "C17", "C19", "C01", "C02", "C03", "C04"}, Min: 6,
			Doc: "every exported method of *sqlittle.DB that reaches a page read brackets it: RLock error returned, defer RUnlock on the same handle dominates every page-reaching call, no early unlock, no nested lock",
			Run: runLock1},
		{ID: "LOCK-2", Props: []string{"C06", "C19"}, Min: 5,
			Doc: "who-may-call: Database.RUnlock is called only by bracket defers; the driver reaches page reads only through bracketed methods of sqlittle.DB (and Open)",
			Run: runLock2},
		{ID: "LOCK-3", Props: []string{"C06", "C08", "C07", "C09", "C15"}, Min: 2,
			Doc: "Database.RLock marks the handle dirty on every path that can return nil, and runs nothing of the module before the pager's lock is requested (no validation outside the lock)",
			Run: runLock3},
		{ID: "PAGER", Props: []string{"C06", "C07", "C17", "C19"}, Min: 12,
			Doc: "unix pager: pending byte then shared range, both F_RDLCK via non-blocking F_SETLK, both errors returned, pending released by defer on all exits, readLock stored only after success; RUnlock unlocks the stored range and clears it; byte ranges equal SQLite's",
			Run: runPager},
		{ID: "PAGER-6", Props: []string{"C07", "C09"}, Min: 4,
			Doc: "CheckReservedLock probes the reserved byte with F_GETLK/F_WRLCK, reports Type != F_UNLCK and returns the fcntl error",
			Run: runPager6},
		{ID: "LOCK-6", Props: []string{"C06"}, Min: 3,
			Doc: "descriptor hygiene: POSIX drops all of a process's record locks on a file when any descriptor of it is closed; no open-and-close/close of a database-file descriptor outside a process-wide registry",
			Run: runLock6},
		{ID: "LOCK-8", Props: []string{"C06", "C19", "C12"}, Min: 1,
			Doc: "an error from Database.RLock means 'not locked' (that is how every caller treats it): each of its paths returns the pager's own verdict, nil, or releases the pager lock before returning anything else",
			Run: runLock8},
		{ID: "LOCK-7", Props: []string{"C06", "C07", "C08"}, Min: 3,
			Doc: "a handle never drops its own lock while it holds it: nothing the pager runs between taking and releasing the SHARED lock (RLock after the lock is taken, page, CheckReservedLock) closes or re-opens a descriptor of the database file",
			Run: runLock7},
	}
}

func runLock8(c *Ctx) {
	p := c.P
	fn := c.MustFunc("db", "(*Database).RLock")
	if fn == nil {
		return
	}
	t := &Termer{P: p}
	paths, ok := EnumLits(fn.Blocks[0], 0, TabOpts{Termer: t, EventOf: callEvents(p), Limit: 20000})
	if !ok {
		c.Undecided("Database.RLock paths", fn.Pos(), "too many paths")
		return
	}
	for _, lp := range paths {
		if lp.Exit == nil || len(lp.Exit.Results) != 1 {
			continue
		}
		key := "Database.RLock:" + pathSig(lp, 99)
		locked, released := false, false
		for _, e := range lp.Events {
			if e.Kind != "call" {
				continue
			}
			switch e.Name {
			case "db.pager.RLock":
				locked, released = true, false
			case "db.pager.RUnlock":
				released = true
			}
		}
		ret := reOrd.ReplaceAllString(t.Term(lp.Exit.Results[0], lp.PS), "")
		switch {
		case !locked:
			c.Check(ret != "const:nil", key, lp.Exit.Pos(), "path [%s] takes no pager lock and returns %s", pathDesc(lp), ret)
		case ret == "call:db.pager.RLock" || ret == "const:nil" || released:
			c.Pass(key, lp.Exit.Pos(), "path [%s] returns %s (released=%v)", pathDesc(lp), ret, released)
		default:
			c.Fail(key, lp.Exit.Pos(), "path [%s] holds the pager lock and returns %s: when that is an error every caller returns without RUnlock, and the SHARED lock stays until Close", pathDesc(lp), ret)
		}
	}
}

func fdCloser(fn *ssa.Function) string {
	switch {
	case isLibFunc(fn, "os", "(*File).Close"):
		return "(*os.File).Close"
	case isLibFunc(fn, "golang.org/x/exp/mmap", "Open"):
		return "mmap.Open"
	case isLibFunc(fn, "syscall", "Close"), isLibFunc(fn, "golang.org/x/sys/unix", "Close"):
		return "close(2)"
	}
	return ""
}

func runLock7(c *Ctx) {
	p := c.P
	for _, m := range []string{"RLock", "page", "CheckReservedLock"} {
		impls := p.pagerImpls(m)
		if len(impls) == 0 {
			c.Undecided("anchor db.pager."+m, token.NoPos, "no implementation of db.pager.%s found", m)
			continue
		}
		for _, impl := range impls {
			// module functions run by this method (library code cannot know the database file)
			seen := map[*ssa.Function]bool{}
			work := []*ssa.Function{impl}
			var bad []string
			for len(work) > 0 {
				fn := work[len(work)-1]
				work = work[:len(work)-1]
				if seen[fn] || fn.Blocks == nil {
					continue
				}
				seen[fn] = true
				for _, cs := range callsIn(fn) {
					for _, callee := range p.Callees(cs) {
						if name := fdCloser(callee); name != "" {
							bad = append(bad, fmt.Sprintf("%s calls %s (%s)", p.FnKey(fn), name, p.Pos(cs.Pos())))
						} else if p.InModule(callee) {
							work = append(work, callee)
						}
					}
				}
				for _, an := range fn.AnonFuncs {
					work = append(work, an)
				}
			}
			sort.Strings(bad)
			msg := fmt.Sprintf("%d module function(s) run while the lock is held; none opens or closes a file descriptor", len(seen))
			if len(bad) > 0 {
				msg = strings.Join(bad, "; ") + ": POSIX drops every fcntl lock of the process on a file when any descriptor of it is closed, so the handle's own SHARED lock is gone while it still believes it holds it"
			}
			c.Check(len(bad) == 0, p.FnKey(impl), impl.Pos(), "%s", msg)
		}
	}
}

func pageReach(p *Program) *reachQuery {
	return p.NewReach(p.pagerImpls("page")...)
}

var lock1Exempt = map[string]string{
	"sqlittle.Open": "reads the header only to validate the file; Database.RLock marks the handle dirty (LOCK-3) so every later transaction re-reads it under its own lock",
}

func runLock1(c *Ctx) {
	p := c.P
	rlock := c.MustFunc("db", "(*Database).RLock")
	runlock := c.MustFunc("db", "(*Database).RUnlock")
	if rlock == nil || runlock == nil {
		return
	}
	pages := p.pagerImpls("page")
	if len(pages) == 0 {
		c.Undecided("anchor db.pager.page", token.NoPos, "no implementation of db.pager.page found")
		return
	}
	reachPage := pageReach(p)
	reachLock := p.NewReach(rlock)
	bracketed := map[*ssa.Function]bool{}
	var pending []*ssa.Function
	var api []*ssa.Function
	api = append(api, p.exportedMethods(".", "DB")...)
	for _, m := range p.SPkg["."].Members {
		if f, ok := m.(*ssa.Function); ok && f.Object() != nil && f.Object().Exported() {
			api = append(api, f)
		}
	}
	// a freshly extracted transaction wrapper (`db.withSchema(table, func(s) error {…})`) is held to the same
	// standard as an API method: when its own bracket is valid, calls through it are under the lock
	for _, fn := range p.ModFuncs() {
		if p.PkgShort(fn) == "." && inlinable != nil && inlinable(fn) {
			for _, cs := range callsIn(fn) {
				if cs.Common().StaticCallee() == rlock {
					api = append(api, fn) // only wrappers that take the lock themselves; other helpers run inside their caller's bracket
					break
				}
			}
		}
	}
	sort.Slice(api, func(i, j int) bool { return p.FnKey(api[i]) < p.FnKey(api[j]) })
	for _, m := range api {
		if !reachPage.Fn(m) {
			c.Info(p.FnKey(m), m.Pos(), "does not reach a page read")
			continue
		}
		hasAcq := false
		for _, cs := range callsIn(m) {
			if cs.Common().StaticCallee() == rlock {
				hasAcq = true
			}
		}
		if !hasAcq {
			pending = append(pending, m)
			continue
		}
		br, why := findBracket(p, m, rlock, runlock)
		if br == nil {
			c.Fail(p.FnKey(m), m.Pos(), "no valid RLock/defer RUnlock bracket: %s", why)
			continue
		}
		ok := true
		for _, f := range withClosures(m) {
			for _, cs := range callsIn(f) {
				if cs == ssa.CallInstruction(br.Acquire) || cs == ssa.CallInstruction(br.Defer) {
					continue
				}
				if cs.Common().StaticCallee() == runlock {
					c.Fail(p.FnKey(m), cs.Pos(), "RUnlock called at %s besides the deferred one: the lock is dropped before the method returns", p.Pos(cs.Pos()))
					ok = false
					continue
				}
				if reachLock.Site(cs) {
					c.Fail(p.FnKey(m), cs.Pos(), "call at %s reaches Database.RLock inside the bracket (nested lock)", p.Pos(cs.Pos()))
					ok = false
					continue
				}
				if !reachPage.Site(cs) {
					continue
				}
				var anchor ssa.Instruction = cs
				if f != m {
					// a closure of m: its creation must be inside the bracket
					mcs := makeClosuresOf(f)
					inside := len(mcs) > 0
					for _, mc := range mcs {
						if mc.Parent() != m || !instrDominates(br.Defer, mc) {
							inside = false
						}
					}
					if !inside {
						c.Fail(p.FnKey(m), cs.Pos(), "page-reaching call in closure %s is not covered by the bracket", p.FnKey(f))
						ok = false
					}
					continue
				}
				if !instrDominates(br.Defer, anchor) {
					c.Fail(p.FnKey(m), cs.Pos(), "call %s reaches a page read but is not dominated by `defer RUnlock` (read outside the lock)", describeInstr(p, cs))
					ok = false
				}
			}
		}
		if ok {
			bracketed[m] = true
			c.Pass(p.FnKey(m), m.Pos(), "RLock at %s: error edge returns non-nil; defer RUnlock at %s on the same handle dominates every page-reaching call; no other unlock, no nested lock",
				p.Pos(br.Acquire.Pos()), p.Pos(br.Defer.Pos()))
		}
	}
	// methods without a bracket of their own must reach pages only through bracketed (or, transitively, such safe)
	// methods; evaluated to a fixpoint so that Select → SelectDone → withSchema resolves whatever the order
	evalPending := func(m *ssa.Function, report bool) bool {
		key := p.FnKey(m)
		ok := true
		for _, f := range withClosures(m) {
			if f != m {
				// a function literal handed straight to a bracketed wrapper runs inside that wrapper's bracket
				covered := true
				mcs := makeClosuresOf(f)
				for _, mc := range mcs {
					passed := false
					for _, r := range *mc.Referrers() {
						if call, isCall := r.(ssa.CallInstruction); isCall {
							if cal := call.Common().StaticCallee(); cal != nil && bracketed[cal] {
								passed = true
								continue
							}
						}
						if _, isDbg := r.(*ssa.DebugRef); isDbg {
							continue
						}
						passed = false
						break
					}
					if !passed {
						covered = false
					}
				}
				if covered && len(mcs) > 0 {
					continue
				}
			}
			for _, cs := range callsIn(f) {
				if !reachPage.Site(cs) {
					continue
				}
				for _, callee := range p.Callees(cs) {
					if reachPage.Fn(callee) && !bracketed[callee] {
						if report {
							c.Fail(key, cs.Pos(), "reaches a page read through %s without holding the lock", p.FnKey(callee))
						}
						ok = false
					}
				}
			}
		}
		return ok
	}
	for changed := true; changed; {
		changed = false
		for _, m := range pending {
			if bracketed[m] {
				continue
			}
			if _, exempt := lock1Exempt[p.FnKey(m)]; exempt {
				continue
			}
			if evalPending(m, false) {
				bracketed[m] = true
				changed = true
			}
		}
	}
	for _, m := range pending {
		key := p.FnKey(m)
		if why, ok := lock1Exempt[key]; ok {
			c.Pass(key, m.Pos(), "exempt: %s", why)
			continue
		}
		if bracketed[m] || evalPending(m, true) {
			c.Pass(key, m.Pos(), "reaches page reads only through bracketed methods")
		}
	}
}

func runLock2(c *Ctx) {
	p := c.P
	rlock := c.MustFunc("db", "(*Database).RLock")
	runlock := c.MustFunc("db", "(*Database).RUnlock")
	if rlock == nil || runlock == nil {
		return
	}
	// every call site of RUnlock in the module (outside package db's own tests) is a bracket defer
	for _, fn := range p.ModFuncs() {
		for _, cs := range callsIn(fn) {
			if cs.Common().StaticCallee() != runlock {
				continue
			}
			top := fn
			for top.Parent() != nil {
				top = top.Parent()
			}
			br, why := findBracket(p, top, rlock, runlock)
			if br != nil && ssa.CallInstruction(br.Defer) == cs {
				c.Pass(p.FnKey(top)+" unlock", cs.Pos(), "the only RUnlock in this function is the bracket's defer")
			} else {
				if why == "" {
					why = "not the deferred release of the bracket"
				}
				c.Fail(p.FnKey(fn)+" unlock", cs.Pos(), "RUnlock call that is not a bracket's deferred release: %s", why)
			}
		}
	}
	// driver layering
	reachPage := pageReach(p)
	allowed := map[string]bool{}
	for _, m := range p.exportedMethods(".", "DB") {
		allowed[p.FnKey(m)] = true
	}
	allowed["sqlittle.Open"] = true
	n := 0
	for _, fn := range p.ModFuncs() {
		if p.PkgShort(fn) != "driver" {
			continue
		}
		for _, cs := range callsIn(fn) {
			if !reachPage.Site(cs) {
				continue
			}
			for _, callee := range p.Callees(cs) {
				if !reachPage.Fn(callee) || p.PkgShort(callee) == "driver" {
					continue
				}
				n++
				if allowed[p.FnKey(callee)] {
					c.Pass(p.FnKey(fn)+"→"+p.FnKey(callee), cs.Pos(), "driver reads pages only through the locking API of sqlittle.DB")
				} else {
					c.Fail(p.FnKey(fn)+"→"+p.FnKey(callee), cs.Pos(), "driver reaches page reads through %s, bypassing the lock bracket of sqlittle.DB", p.FnKey(callee))
				}
			}
		}
	}
	if n == 0 {
		c.Undecided("driver layering", token.NoPos, "no page-reaching call found in package driver")
	}
}

func runLock3(c *Ctx) {
	p := c.P
	rlock := c.MustFunc("db", "(*Database).RLock")
	if rlock == nil {
		return
	}
	recv := rlock.Params[0]
	isDirtyStore := func(in ssa.Instruction) bool {
		s, ok := in.(*ssa.Store)
		if !ok {
			return false
		}
		fa, ok := s.Addr.(*ssa.FieldAddr)
		if !ok || fieldName(fa) != "dirty" || fa.X != ssa.Value(recv) {
			return false
		}
		b, ok := constBool(s.Val)
		return ok && b
	}
	found := false
	for _, in := range instrs(rlock) {
		if isDirtyStore(in) {
			found = true
		}
	}
	if !found {
		c.Fail(p.FnKey(rlock), rlock.Pos(), "RLock never stores dirty=true on its receiver: the header and caches read under an earlier lock survive into this transaction")
		return
	}
	q := cfgQuery{avoid: isDirtyStore, goal: func(in ssa.Instruction) bool {
		r, ok := in.(*ssa.Return)
		if !ok {
			return false
		}
		v := r.Results[len(r.Results)-1]
		if call, ok := v.(*ssa.Call); ok {
			if callee := call.Call.StaticCallee(); callee != nil && isLibFunc(callee, "errors", "New") {
				return false // definitely non-nil
			}
		}
		return true
	}}
	if hit := q.firstHit(rlock.Blocks[0], 0); hit != nil {
		c.Fail(p.FnKey(rlock), hit.Pos(), "a path reaches the return at %s without storing dirty=true", p.Pos(hit.Pos()))
		return
	}
	c.Pass(p.FnKey(rlock), rlock.Pos(), "dirty=true is stored on the receiver on every path to a possibly-nil return")
	// … and the mark is still there when the lock is held: nothing of the module runs in RLock before the pager's lock
	// has been asked for (a header or journal check made here is made without the lock, and clears the mark, so the
	// transaction that follows trusts what was read before it began)
	isPagerLock := func(in ssa.Instruction) bool {
		cs, ok := in.(ssa.CallInstruction)
		return ok && cs.Common().IsInvoke() && cs.Common().Method.Name() == "RLock"
	}
	hasLock := false
	for _, in := range instrs(rlock) {
		if isPagerLock(in) {
			hasLock = true
		}
	}
	if !hasLock {
		c.Undecided(p.FnKey(rlock)+" before the lock", rlock.Pos(), "no call of the pager's RLock found in Database.RLock")
		return
	}
	early := cfgQuery{avoid: isPagerLock, goal: func(in ssa.Instruction) bool {
		cs, ok := in.(ssa.CallInstruction)
		if !ok {
			return false
		}
		if cs.Common().IsInvoke() {
			return true
		}
		cal := cs.Common().StaticCallee()
		return cal == nil || p.InModule(cal)
	}}.firstHit(rlock.Blocks[0], 0)
	if early != nil {
		c.Fail(p.FnKey(rlock)+" before the lock", early.Pos(), "%s runs before the pager's lock is requested: what it reads and validates (header, journal, caches) is read without the SHARED lock, and a writer that commits — or dies — between that check and the lock goes unnoticed for the whole transaction", calleeName(p, early.(ssa.CallInstruction)))
	} else {
		c.Pass(p.FnKey(rlock)+" before the lock", rlock.Pos(), "nothing of the module runs in Database.RLock before the pager's lock is requested")
	}
}

// ---- unix pager ----------------------------------------------------------------------------

func unixConst(p *Program, name string) (int64, bool) {
	pk := p.ByPath["golang.org/x/sys/unix"]
	if pk == nil {
		return 0, false
	}
	o, ok := pk.Types.Scope().Lookup(name).(*types.Const)
	if !ok {
		return 0, false
	}
	return constant.Int64Val(o.Val())
}

// flockArg resolves the *unix.Flock_t argument of a lock call to its allocation.
// lockRequest is a request made through (*filePager).lock by the call site `site` of some function, directly or
// through a freshly extracted helper that forwards one of its parameters (`func (f *filePager) unlock(fl) { fl.Type =
// F_UNLCK; f.lock(fl) }`). arg is the Flock_t as seen at site; typ/hasTyp the constant the helper stores into its Type
// field before the request (when it does).
type lockRequest struct {
	site   ssa.CallInstruction
	arg    ssa.Value
	typ    int64
	hasTyp bool
}

func lockRequestsIn(p *Program, fn, lk *ssa.Function) []lockRequest {
	var out []lockRequest
	for _, cs := range callsIn(fn) {
		callee := cs.Common().StaticCallee()
		if callee == nil {
			continue
		}
		if callee == lk {
			out = append(out, lockRequest{site: cs, arg: cs.Common().Args[1]})
			continue
		}
		if inlinable == nil || !inlinable(callee) || len(callee.Params) != len(cs.Common().Args) {
			continue
		}
		for _, ics := range callsIn(callee) {
			if ics.Common().StaticCallee() != lk {
				continue
			}
			prm, ok := resolveCell(ics.Common().Args[1]).(*ssa.Parameter)
			if !ok {
				continue
			}
			for k, hp := range callee.Params {
				if hp != prm {
					continue
				}
				r := lockRequest{site: cs, arg: cs.Common().Args[k]}
				for _, in2 := range instrs(callee) {
					s2, ok := in2.(*ssa.Store)
					if !ok || fieldName(s2.Addr) != "Type" || !instrDominates(s2, ics) {
						continue
					}
					if resolveCell(s2.Addr.(*ssa.FieldAddr).X) == ssa.Value(prm) {
						if v, ok := constInt(s2.Val); ok {
							r.typ, r.hasTyp = v, true
						}
					}
				}
				out = append(out, r)
			}
		}
	}
	return out
}

func flockAlloc(v ssa.Value) *ssa.Alloc {
	v = resolveCell(v)
	a, _ := v.(*ssa.Alloc)
	return a
}

// fieldConstAt returns the constant stored into field of alloc a by the last store that dominates `at` within
// the same function (stores elsewhere, e.g. in closures, are ignored here).
func fieldConstAt(a *ssa.Alloc, field string, at ssa.Instruction) (int64, bool) {
	var best *ssa.Store
	for _, fs := range fieldStoresOn(a) {
		if fs.Field != field || fs.Store.Parent() != at.Parent() {
			continue
		}
		if !instrDominates(fs.Store, at) {
			continue
		}
		if best == nil || instrDominates(best, fs.Store) {
			best = fs.Store
		}
	}
	if best == nil {
		return 0, false
	}
	return constInt(best.Val)
}

const (
	specPendingByte  = 0x40000000 // SQLite os.h: PENDING_BYTE
	specReservedByte = specPendingByte + 1
	specSharedFirst  = specPendingByte + 2
	specSharedSize   = 510
)

func runPager(c *Ctx) {
	p := c.P
	rl := c.MustFunc("db", "(*filePager).RLock")
	ru := c.MustFunc("db", "(*filePager).RUnlock")
	if rl == nil || ru == nil {
		return
	}
	fRDLCK, ok1 := unixConst(p, "F_RDLCK")
	fUNLCK, ok2 := unixConst(p, "F_UNLCK")
	fSETLK, ok3 := unixConst(p, "F_SETLK")
	if !ok1 || !ok2 || !ok3 {
		c.Undecided("unix constants", token.NoPos, "cannot resolve F_RDLCK/F_UNLCK/F_SETLK in golang.org/x/sys/unix")
		return
	}
	runPagerPaths(c, rl, ru, fcntlWrappers(p), fRDLCK, fUNLCK, fSETLK)
}

// fcntlWrappers are the functions of package db that hand one of their parameters to unix.FcntlFlock (today
// (*filePager).lock): the path rules walk them in place, so that a request is the fcntl call itself with the command, the
// Flock_t and the error as they are there, whatever the wrapper is called and whatever else it takes.
var fcntlWrapCache sync.Map

func fcntlWrappers(p *Program) map[*ssa.Function]bool {
	if m, ok := fcntlWrapCache.Load(p); ok {
		return m.(map[*ssa.Function]bool)
	}
	out := map[*ssa.Function]bool{}
	defer fcntlWrapCache.Store(p, out)
	for _, fn := range p.ModFuncs() {
		if p.PkgShort(fn) != "db" || fn.Parent() != nil {
			continue
		}
		for _, cs := range callsIn(fn) {
			callee := cs.Common().StaticCallee()
			if callee == nil || !isLibFunc(callee, "golang.org/x/sys/unix", "FcntlFlock") || len(cs.Common().Args) != 3 {
				continue
			}
			if _, isParam := resolveCell(cs.Common().Args[2]).(*ssa.Parameter); isParam {
				out[fn] = true
			}
		}
	}
	// … and, in turn, what hands one of its own parameters on to such a wrapper (`unlock(flock)`: set F_UNLCK, call lock)
	for changed := true; changed; {
		changed = false
		for _, fn := range p.ModFuncs() {
			if p.PkgShort(fn) != "db" || fn.Parent() != nil || out[fn] {
				continue
			}
			for _, cs := range callsIn(fn) {
				callee := cs.Common().StaticCallee()
				if callee == nil || !out[callee] {
					continue
				}
				for _, a := range cs.Common().Args {
					if pa, isParam := resolveCell(a).(*ssa.Parameter); isParam && strings.HasSuffix(pa.Type().String(), "unix.Flock_t") {
						out[fn] = true
						changed = true
					}
				}
			}
		}
	}
	return out
}

// isFcntlWrapper: every return of fn hands back the error of a unix.FcntlFlock call on one of fn's parameters.
func isFcntlWrapper(p *Program, fn *ssa.Function) bool {
	if fn == nil || len(fn.Blocks) == 0 || !fcntlWrappers(p)[fn] {
		return false
	}
	return true
}

// lockReq is one request made through (*filePager).lock on a path: the Flock_t's fields as they are when the call is
// made (path-sensitive, through helpers, constructors and deferred functions), which struct it is, and the call.
type lockReq struct {
	typ, start, length, whence int64
	cmd                        int64
	haveRange                  bool
	obj                        string // identity of the Flock_t
	errTerm                    string
	call                       posInstr
}

// posInstr is an instruction reported at another position (the call site of the helper it sits in).
type posInstr struct {
	ssa.Instruction
	at token.Pos
}

func (p posInstr) Pos() token.Pos {
	if p.at.IsValid() {
		return p.at
	}
	return p.Instruction.Pos()
}

func pagerRequests(p *Program, fn *ssa.Function, wrappers map[*ssa.Function]bool) ([]*LPath, map[*LPath][]lockReq, *Termer, bool) {
	t := &Termer{P: p}
	base := callEvents(p)
	paths, ok := EnumLits(fn.Blocks[0], 0, TabOpts{Termer: t, FieldCells: true, RunDefers: true, Limit: 100000, InlineAlso: wrappers,
		EventOf: func(in ssa.Instruction, ps *pathState) (Event, bool) {
			if call, isCall := in.(*ssa.Call); isCall && call.Call.StaticCallee() != nil && isLibFunc(call.Call.StaticCallee(), "golang.org/x/sys/unix", "FcntlFlock") && len(call.Call.Args) == 3 {
				ptr := call.Call.Args[2]
				ev := Event{Kind: "lockreq", Name: t.Term(call, ps), At: outerPos(ps, call)}
				ev.Base = ps.fcKeyOf(ptr, "")
				if k, ok := evalInt(call.Call.Args[1], ps); ok {
					ev.Args = append(ev.Args, fmt.Sprintf("cmd=%d", k))
				}
				for _, f := range []string{"Type", "Start", "Len", "Whence"} {
					if v, ok := ps.FieldConst(ptr, f); ok {
						ev.Args = append(ev.Args, fmt.Sprintf("%s=%d", f, v))
					}
				}
				return ev, true
			}
			return base(in, ps)
		}})
	reqs := map[*LPath][]lockReq{}
	for _, lp := range paths {
		for _, e := range lp.Events {
			if e.Kind != "lockreq" {
				continue
			}
			r := lockReq{obj: e.Base, errTerm: e.Name, call: posInstr{e.Instr, e.At}, typ: -1, start: -1, length: -1, whence: -1, cmd: -1}
			for _, a := range e.Args {
				var f string
				var v int64
				if i := strings.Index(a, "="); i > 0 {
					f = a[:i]
					fmt.Sscanf(a[i+1:], "%d", &v)
				}
				switch f {
				case "cmd":
					r.cmd = v
				case "Type":
					r.typ = v
				case "Start":
					r.start = v
				case "Len":
					r.length = v
				case "Whence":
					r.whence = v
				}
			}
			r.haveRange = r.start >= 0 && r.length >= 0
			reqs[lp] = append(reqs[lp], r)
		}
	}
	return paths, reqs, t, ok
}

func runPagerPaths(c *Ctx, rl, ru *ssa.Function, lk map[*ssa.Function]bool, fRDLCK, fUNLCK, fSETLK int64) {
	p := c.P
	paths, reqs, t, ok := pagerRequests(p, rl, lk)
	if !ok {
		c.Undecided("RLock: paths", rl.Pos(), "too many paths")
		return
	}
	// PAGER-5: every request of RLock and RUnlock is a non-blocking F_SETLK
	cmdSeen := map[posInstr]bool{}
	checkCmd := func(rs []lockReq) {
		for _, r := range rs {
			if cmdSeen[r.call] && r.cmd == fSETLK {
				continue
			}
			cmdSeen[r.call] = true
			c.Check(r.cmd == fSETLK, "lock: fcntl command", r.call.Pos(), "fcntl command is %d; SQLite readers must not block: expected F_SETLK=%d (F_SETLKW would wait for a writer instead of failing)", r.cmd, fSETLK)
		}
	}
	for _, lp := range paths {
		checkCmd(reqs[lp])
	}
	retIsNil := func(lp *LPath) bool {
		v := lp.PS.Resolve(lp.Exit.Results[0])
		// (named from the result as written: a helper's result keeps the name of the instance that produced it)
		return isNilConst(v) || lp.Holds(t.Term(lp.Exit.Results[0], lp.PS), token.EQL, "nil") || lp.Holds(t.Term(v, lp.PS), token.EQL, "nil")
	}
	storesReadLock := func(lp *LPath) []Event {
		var out []Event
		for _, e := range lp.Events {
			if e.Kind == "store" && e.Name == "readLock" {
				out = append(out, e)
			}
		}
		return out
	}
	nSucc := 0
	for _, lp := range paths {
		if lp.Exit == nil || len(lp.Exit.Results) != 1 {
			continue
		}
		rs := reqs[lp]
		sig := pathSig(lp, 99)
		if len(rs) == 0 {
			// refused before asking the kernel (already locked): an error, no state change
			c.Check(!retIsNil(lp) && len(storesReadLock(lp)) == 0, "RLock: refused without request:"+sig, lp.Exit.Pos(), "a path that makes no lock request returns an error and leaves readLock alone; path [%s]", pathDesc(lp))
			continue
		}
		// request 1: the pending byte
		r1 := rs[0]
		c.Check(r1.haveRange && r1.start == specPendingByte && r1.length == 1, "RLock: pending range", r1.call.Pos(), "lock request #1 covers [%#x,+%d); SQLite's pending range is [%#x,+1)", r1.start, r1.length, int64(specPendingByte))
		c.Check(r1.typ == fRDLCK, "RLock: pending type", r1.call.Pos(), "lock type %d, expected F_RDLCK=%d (a reader takes read locks only)", r1.typ, fRDLCK)
		c.Check(r1.whence == 0, "RLock: pending whence", r1.call.Pos(), "whence %d, expected SEEK_SET", r1.whence)
		if lp.Holds(r1.errTerm, token.NEQ, "nil") {
			good := len(rs) == 1 && !retIsNil(lp) && strings.Contains(t.Term(lp.Exit.Results[0], lp.PS), strings.TrimSuffix(r1.errTerm, "#0")) && len(storesReadLock(lp)) == 0
			c.Check(good, "RLock: pending error", r1.call.Pos(), "failed pending lock: the error is returned, nothing else is requested and readLock is untouched (requests %d, returns %s)", len(rs), t.Term(lp.Exit.Results[0], lp.PS))
			continue
		}
		if !lp.Holds(r1.errTerm, token.EQL, "nil") {
			c.Fail("RLock: pending error", r1.call.Pos(), "the error of the pending lock request is not tested before going on; path [%s]", pathDesc(lp))
			continue
		}
		if len(rs) < 2 {
			c.Fail("RLock: lock calls", r1.call.Pos(), "after the pending byte was locked no shared-range request follows; path [%s]", pathDesc(lp))
			continue
		}
		// request 2: the shared range, only after the pending lock succeeded (established above)
		r2 := rs[1]
		c.Check(r2.haveRange && r2.start == specSharedFirst && r2.length == specSharedSize, "RLock: shared range", r2.call.Pos(), "lock request #2 covers [%#x,+%d); SQLite's shared range is [%#x,+%d)", r2.start, r2.length, int64(specSharedFirst), int64(specSharedSize))
		c.Check(r2.typ == fRDLCK, "RLock: shared type", r2.call.Pos(), "lock type %d, expected F_RDLCK=%d", r2.typ, fRDLCK)
		c.Check(r2.whence == 0, "RLock: shared whence", r2.call.Pos(), "whence %d, expected SEEK_SET", r2.whence)
		c.Pass("RLock: pending before shared", r2.call.Pos(), "the shared-range request is made only after the pending-byte request succeeded")
		// the pending byte is released on this path: a later F_UNLCK request on the very Flock_t of request 1
		released := false
		for _, r := range rs[2:] {
			if r.obj == r1.obj && r.typ == fUNLCK {
				released = true
			} else {
				c.Fail("RLock: lock calls", r.call.Pos(), "an unexpected further lock request (type %d on %s); path [%s]", r.typ, r.obj, pathDesc(lp))
			}
		}
		c.Check(released, "RLock: pending released", r1.call.Pos(), "%s", map[bool]string{true: "the pending byte is unlocked again (F_UNLCK on the same Flock_t) after the shared request, on this exit too", false: "no F_UNLCK of the pending-byte Flock_t on path [" + pathDesc(lp) + "]: the pending byte stays locked and blocks every writer"}[released])
		st := storesReadLock(lp)
		if lp.Holds(r2.errTerm, token.NEQ, "nil") {
			c.Check(!retIsNil(lp) && len(st) == 0, "RLock: shared error", r2.call.Pos(), "failed shared lock: the error is returned and readLock is untouched (returns %s, %d store(s))", t.Term(lp.Exit.Results[0], lp.PS), len(st))
			continue
		}
		if !lp.Holds(r2.errTerm, token.EQL, "nil") {
			c.Fail("RLock: shared error", r2.call.Pos(), "the error of the shared lock request is not tested; path [%s]", pathDesc(lp))
			continue
		}
		nSucc++
		goodStore := len(st) == 1 && strings.HasPrefix(st[0].Base, "p:")
		if goodStore {
			// the value stored is the Flock_t of request 2
			if s, ok := st[0].Instr.(*ssa.Store); ok {
				goodStore = lp.PS.fcKeyOf(s.Val, "") == r2.obj
			}
		}
		c.Check(goodStore, "RLock: readLock stored after success", r2.call.Pos(), "readLock is set to the shared-range Flock_t exactly on the path where the shared request succeeded")
		c.Check(retIsNil(lp), "RLock: success returns nil", lp.Exit.Pos(), "both requests succeeded ⇒ nil")
	}
	if nSucc == 0 {
		c.Fail("RLock: readLock stored after success", rl.Pos(), "RLock has no path on which both requests succeed and the shared lock is recorded")
	}
	// RUnlock
	upaths, ureqs, ut, uok := pagerRequests(p, ru, lk)
	if !uok {
		c.Undecided("RUnlock: paths", ru.Pos(), "too many paths")
		return
	}
	nUn := 0
	for _, lp := range upaths {
		checkCmd(ureqs[lp])
		if lp.Exit == nil || len(lp.Exit.Results) != 1 {
			continue
		}
		rs := ureqs[lp]
		v := lp.PS.Resolve(lp.Exit.Results[0])
		isNil := isNilConst(v) || lp.Holds(ut.Term(v, lp.PS), token.EQL, "nil")
		if len(rs) == 0 {
			c.Check(!isNil, "RUnlock: not locked:"+pathSig(lp, 99), lp.Exit.Pos(), "without a recorded lock RUnlock reports an error and asks the kernel nothing")
			continue
		}
		nUn++
		r := rs[0]
		c.Check(len(rs) == 1, "RUnlock: unlock call", r.call.Pos(), "exactly one request (found %d)", len(rs))
		c.Check(strings.HasPrefix(r.obj, "P:") && strings.Contains(r.obj, ".readLock."), "RUnlock: unlocks stored range", r.call.Pos(), "the Flock_t unlocked is the one stored by RLock (%s)", r.obj)
		c.Check(r.typ == fUNLCK, "RUnlock: F_UNLCK", r.call.Pos(), "Type is set to F_UNLCK on the stored Flock_t before the fcntl (type at the call: %d)", r.typ)
		cleared := false
		after := false
		for _, e := range lp.Events {
			if e.Kind == "lockreq" {
				after = true
			}
			if after && e.Kind == "store" && e.Name == "readLock" && e.Val == "const:nil" {
				cleared = true
			}
		}
		c.Check(cleared, "RUnlock: clears readLock", r.call.Pos(), "readLock is cleared after the unlock so that the next RLock is accepted")
	}
	if nUn == 0 {
		c.Fail("RUnlock: unlock call", ru.Pos(), "RUnlock issues no fcntl: the shared lock is never released")
	}
}

func orStr(a, b string) string {
	if a != "" {
		return a
	}
	return b
}

func runPager6(c *Ctx) {
	p := c.P
	fn := c.MustFunc("db", "(*filePager).CheckReservedLock")
	if fn == nil {
		return
	}
	fWRLCK, ok1 := unixConst(p, "F_WRLCK")
	fUNLCK, ok2 := unixConst(p, "F_UNLCK")
	fGETLK, ok3 := unixConst(p, "F_GETLK")
	if !ok1 || !ok2 || !ok3 {
		c.Undecided("unix constants", token.NoPos, "cannot resolve F_WRLCK/F_UNLCK/F_GETLK")
		return
	}
	// path-sensitive: the Flock_t's fields as they are when the probe is made (whether the struct is a literal or
	// comes from a constructor helper), and the verdict read back from that same struct afterwards
	t := &Termer{P: p}
	base := callEvents(p)
	type probe struct {
		cmd, typ, start, length int64
		obj, errTerm            string
		call                    ssa.Instruction
	}
	paths, ok := EnumLits(fn.Blocks[0], 0, TabOpts{Termer: t, FieldCells: true, RunDefers: true,
		EventOf: func(in ssa.Instruction, ps *pathState) (Event, bool) {
			if call, isCall := in.(*ssa.Call); isCall {
				if cal := call.Call.StaticCallee(); cal != nil && isLibFunc(cal, "golang.org/x/sys/unix", "FcntlFlock") && len(call.Call.Args) == 3 {
					ev := Event{Kind: "probe", Name: t.Term(call, ps), Base: ps.fcKeyOf(call.Call.Args[2], "")}
					if k, ok := evalInt(call.Call.Args[1], ps); ok {
						ev.Args = append(ev.Args, fmt.Sprintf("cmd=%d", k))
					}
					for _, f := range []string{"Type", "Start", "Len"} {
						if v, ok := ps.FieldConst(call.Call.Args[2], f); ok {
							ev.Args = append(ev.Args, fmt.Sprintf("%s=%d", f, v))
						}
					}
					return ev, true
				}
			}
			return base(in, ps)
		}})
	if !ok {
		c.Undecided("CheckReservedLock: paths", fn.Pos(), "too many paths")
		return
	}
	n := 0
	for _, lp := range paths {
		if lp.Exit == nil || len(lp.Exit.Results) != 2 {
			continue
		}
		var pr *probe
		for _, e := range lp.Events {
			if e.Kind != "probe" {
				continue
			}
			q := probe{cmd: -1, typ: -1, start: -1, length: -1, obj: e.Base, errTerm: e.Name, call: e.Instr}
			for _, a := range e.Args {
				var v int64
				i := strings.Index(a, "=")
				fmt.Sscanf(a[i+1:], "%d", &v)
				switch a[:i] {
				case "cmd":
					q.cmd = v
				case "Type":
					q.typ = v
				case "Start":
					q.start = v
				case "Len":
					q.length = v
				}
			}
			if pr != nil {
				c.Fail("CheckReservedLock: probe", e.Instr.Pos(), "more than one fcntl on a path")
			}
			pr = &q
		}
		if pr == nil {
			c.Fail("CheckReservedLock: probe", lp.Exit.Pos(), "a path returns without an fcntl probe; path [%s]", pathDesc(lp))
			continue
		}
		n++
		c.Check(pr.cmd == fGETLK, "CheckReservedLock: F_GETLK", pr.call.Pos(), "fcntl command %d, expected F_GETLK=%d (a probe must not take a lock)", pr.cmd, fGETLK)
		c.Check(pr.start == specReservedByte && pr.length == 1, "CheckReservedLock: range", pr.call.Pos(), "probe covers [%#x,+%d); SQLite's RESERVED byte is [%#x,+1)", pr.start, pr.length, int64(specReservedByte))
		c.Check(pr.typ == fWRLCK, "CheckReservedLock: type", pr.call.Pos(), "probe type %d, expected F_WRLCK=%d as in unixCheckReservedLock", pr.typ, fWRLCK)
		// the verdict: (Type of that struct, read after the probe) != F_UNLCK  — the bool result was split into its two
		// outcomes by the engine, each with the literal on the loaded field
		r0, isC := constBool(lp.PS.Resolve(lp.Exit.Results[0]))
		okRes := false
		for _, l := range lp.Lits {
			bo, isBO := l.Cond.(*ssa.BinOp)
			if !isBO || !l.IsInt || l.N != fUNLCK {
				continue
			}
			for _, side := range []ssa.Value{bo.X, bo.Y} {
				if ld, isLd := side.(*ssa.UnOp); isLd && ld.Op == token.MUL {
					if fa, isFA := ld.X.(*ssa.FieldAddr); isFA && fieldName(fa) == "Type" && lp.PS.fcKeyOf(fa.X, "") == pr.obj {
						isUnlck := (l.Op == token.EQL && l.Val) || (l.Op == token.NEQ && !l.Val)
						okRes = isC && r0 == !isUnlck
					}
				}
			}
		}
		c.Check(okRes, "CheckReservedLock: verdict", lp.Exit.Pos(), "reports `Type != F_UNLCK` read back from the probed struct after the fcntl")
		c.Check(strings.TrimSuffix(t.Term(lp.Exit.Results[1], lp.PS), "#0") == strings.TrimSuffix(pr.errTerm, "#0"), "CheckReservedLock: error", lp.Exit.Pos(), "the fcntl error is returned")
	}
	if n == 0 {
		c.Fail("CheckReservedLock: probe", fn.Pos(), "no fcntl probe")
	}
}

var lock6Exempt = map[string]string{
	"db.validJournal→(*os.File).Close": "descriptor of the -journal file, which carries none of the reader's locks",
}

func runLock6(c *Ctx) {
	p := c.P
	closers := func(fn *ssa.Function) string {
		switch {
		case isLibFunc(fn, "os", "(*File).Close"):
			return "(*os.File).Close"
		case isLibFunc(fn, "golang.org/x/exp/mmap", "Open"):
			return "mmap.Open"
		case isLibFunc(fn, "syscall", "Close"), isLibFunc(fn, "golang.org/x/sys/unix", "Close"):
			return "close(2)"
		}
		return ""
	}
	for _, fn := range p.ModFuncs() {
		for _, cs := range callsIn(fn) {
			for _, callee := range p.Callees(cs) {
				name := closers(callee)
				if name == "" {
					continue
				}
				top := fn
				for top.Parent() != nil {
					top = top.Parent()
				}
				key := p.FnKey(top) + "→" + name
				if why, ok := lock6Exempt[key]; ok {
					c.Pass(key, cs.Pos(), "exempt: %s", why)
					continue
				}
				what := "closes a descriptor of the database file"
				if name == "mmap.Open" {
					what = "opens a second descriptor of the database file and closes it again"
				}
				c.Fail(key, cs.Pos(), "%s: POSIX then drops every fcntl lock this process holds on that file, including the SHARED lock of another sqlittle handle on the same file that is in the middle of a read; there is no process-wide per-file descriptor registry (as in SQLite's os_unix.c) to defer the close", what)
			}
		}
	}
}
