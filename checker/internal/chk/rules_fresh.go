package chk

import (
	"fmt"
	"go/token"
	"go/types"
	"strings"

	"golang.org/x/tools/go/ssa"
)

func freshRules() []*Rule {
	return []*Rule{
		{ID: "FRESH", Props: []string{"C18", "C08", "C17"}, Min: 6,
			Doc: "every []byte handed to the caller by Row.Scan is freshly allocated (never the record's own slice, never the caller's previous buffer); the file pager returns fresh buffers; text values are produced by conversion",
			Run: runFresh},
		{ID: "SCANPURE", Props: []string{"C18"}, Min: 6,
			Doc: "Row.Scan and its helpers never store through the row: the row is unchanged by scanning",
			Run: runScanPure},
		{ID: "CONV", Props: []string{"C18"}, Min: 8,
			Doc: "documented conversions: integers are parsed and formatted in base 10 at 64 bits, reals with ParseFloat/FormatFloat('g', -1, 64), times with the two documented layouts, unix seconds for integers, nil/absent columns give the zero value",
			Run: runConv},
	}
}

// freshness: "" = fresh, otherwise why it aliases
func aliasReason(p *Program, v ssa.Value, depth int, seen map[ssa.Value]bool) string {
	if depth > 10 {
		return "too deep"
	}
	if seen[v] {
		return ""
	}
	seen[v] = true
	switch x := v.(type) {
	case *ssa.Const:
		if x.IsNil() {
			return ""
		}
		return ""
	case *ssa.MakeSlice:
		return ""
	case *ssa.Convert:
		// string → []byte allocates; []byte → named []byte does not
		if b, ok := x.X.Type().Underlying().(*types.Basic); ok && b.Info()&types.IsString != 0 {
			return ""
		}
		return aliasReason(p, x.X, depth+1, seen)
	case *ssa.ChangeType:
		return aliasReason(p, x.X, depth+1, seen)
	case *ssa.Phi:
		for _, e := range x.Edges {
			if w := aliasReason(p, e, depth+1, seen); w != "" {
				return w
			}
		}
		return ""
	case *ssa.Slice:
		return aliasReason(p, x.X, depth+1, seen)
	case *ssa.Call:
		if bi, ok := x.Call.Value.(*ssa.Builtin); ok && bi.Name() == "append" {
			return aliasReason(p, x.Call.Args[0], depth+1, seen)
		}
		if callee := x.Call.StaticCallee(); callee != nil {
			if p.InModule(callee) {
				for _, r := range returnsOf(callee) {
					if w := aliasReason(p, r.Results[0], depth+1, seen); w != "" {
						return w + " (via " + p.FnKey(callee) + ")"
					}
				}
				return ""
			}
			if o := callee.Object(); o != nil && o.Pkg() != nil && (o.Pkg().Path() == "strconv" || o.Pkg().Path() == "bytes" && callee.Name() == "Clone") {
				return ""
			}
		}
		return "result of " + calleeName(p, x)
	case *ssa.Extract:
		if ta, ok := x.Tuple.(*ssa.TypeAssert); ok {
			return "the value stored in the row itself (" + ta.X.Name() + ".([]byte))"
		}
		if call, ok := x.Tuple.(*ssa.Call); ok && x.Index == 0 {
			return aliasReason(p, call, depth+1, seen)
		}
	case *ssa.TypeAssert:
		return "the value stored in the row itself"
	case *ssa.Parameter:
		return "the caller-supplied buffer " + x.Name()
	case *ssa.UnOp:
		if x.Op == token.MUL {
			return "memory loaded from " + x.X.Name()
		}
	}
	return "unrecognised origin " + v.String()
}

func runFresh(c *Ctx) {
	p := c.P
	scan := c.MustFunc(".", "(Row).Scan")
	if scan == nil {
		return
	}
	n := 0
	for _, in := range instrs(scan) {
		s, ok := in.(*ssa.Store)
		if !ok {
			continue
		}
		pt, ok := s.Addr.Type().Underlying().(*types.Pointer)
		if !ok {
			continue
		}
		sl, ok := pt.Elem().Underlying().(*types.Slice)
		if !ok || !types.Identical(sl.Elem(), types.Typ[types.Uint8]) {
			continue
		}
		// destination is the user's *[]byte (a type assertion of an argument)
		if _, isArg := s.Addr.(*ssa.Extract); !isArg {
			if _, isTA := s.Addr.(*ssa.TypeAssert); !isTA {
				continue
			}
		}
		n++
		why := aliasReason(p, s.Val, 0, map[ssa.Value]bool{})
		c.Check(why == "", fmt.Sprintf("Scan *[]byte destination#%d", n), s.Pos(), "the bytes handed to the caller are %s", map[bool]string{true: "freshly allocated", false: "not a fresh copy: they are " + why + " — modifying them changes what later reads return / a later Scan overwrites an earlier result"}[why == ""])
	}
	if n == 0 {
		c.Undecided("Scan *[]byte destination", scan.Pos(), "Row.Scan no longer stores through a *[]byte destination")
	}
	// helper results of type []byte returned by exported/unexported scan helpers
	for _, fn := range p.ModFuncs() {
		if p.PkgShort(fn) != "." || fn.Signature.Recv() == nil || !typeIs(fn.Signature.Recv().Type(), ModPath, "Row") {
			continue
		}
		res := fn.Signature.Results()
		for i := 0; i < res.Len(); i++ {
			sl, ok := res.At(i).Type().Underlying().(*types.Slice)
			if !ok || !types.Identical(sl.Elem(), types.Typ[types.Uint8]) {
				continue
			}
			for k, r := range returnsOf(fn) {
				why := aliasReason(p, r.Results[i], 0, map[ssa.Value]bool{})
				c.Check(why == "", fmt.Sprintf("%s return#%d", p.FnKey(fn), k+1), r.Pos(), "returned bytes are %s", map[bool]string{true: "fresh", false: why}[why == ""])
			}
		}
	}
	// text values: strings are immutable; every string appended to a Record by parseRecord is a conversion (REC-table)
	// file pager: fresh buffer per page (also CONTRACT page length)
	if fp := p.Func("db", "(*filePager).page"); fp != nil {
		good := true
		for _, r := range returnsOf(fp) {
			if _, ok := r.Results[0].(*ssa.MakeSlice); !ok {
				good = false
			}
		}
		c.Check(good, "filePager.page fresh", fp.Pos(), "the file pager copies every page into a buffer of its own (no value can alias the memory map, so values survive Close)")
	}
}

func runScanPure(c *Ctx) {
	p := c.P
	for _, fn := range p.ModFuncs() {
		if p.PkgShort(fn) != "." || fn.Signature.Recv() == nil || !typeIs(fn.Signature.Recv().Type(), ModPath, "Row") {
			continue
		}
		recv := fn.Params[0]
		bad := ""
		for _, in := range instrs(fn) {
			if s, ok := in.(*ssa.Store); ok {
				if ia, ok := s.Addr.(*ssa.IndexAddr); ok && resolveCell(ia.X) == ssa.Value(recv) {
					bad = p.Pos(s.Pos())
				}
			}
			if cs, ok := in.(ssa.CallInstruction); ok {
				if bi, ok := cs.Common().Value.(*ssa.Builtin); ok && (bi.Name() == "copy" || bi.Name() == "append") && len(cs.Common().Args) > 0 && resolveCell(cs.Common().Args[0]) == ssa.Value(recv) {
					bad = p.Pos(cs.Pos())
				}
			}
		}
		c.Check(bad == "", p.FnKey(fn)+" leaves the row unchanged", fn.Pos(), "no store into the row's elements %s", bad)
	}
}

func runConv(c *Ctx) {
	p := c.P
	type want struct {
		args map[int]string // argument index → expected constant rendering
		why  string
	}
	wants := map[string]want{
		"strconv.ParseInt":    {map[int]string{1: "10", 2: "64"}, "numeric text is decimal (base 0 would read 010 as octal and accept 0x…), 64 bits"},
		"strconv.ParseFloat":  {map[int]string{1: "64"}, "64-bit"},
		"strconv.FormatInt":   {map[int]string{1: "10"}, "decimal"},
		"strconv.FormatFloat": {map[int]string{1: "103", 2: "-1", 3: "64"}, "'g' format, shortest representation, 64-bit"},
		"time.Unix":           {map[int]string{1: "0"}, "integer = unix seconds"},
	}
	layouts := map[string]bool{`"2006-01-02 15:04:05"`: true, `"2006-01-02 15:04:05.000"`: true}
	n := 0
	for _, fn := range p.ModFuncs() {
		if p.PkgShort(fn) != "." {
			continue
		}
		top := fn
		for top.Parent() != nil {
			top = top.Parent()
		}
		if top.Signature.Recv() == nil && top.Name() != "stringToInt64" {
			continue
		}
		if top.Signature.Recv() != nil && !typeIs(top.Signature.Recv().Type(), ModPath, "Row") {
			continue
		}
		cnt := map[string]int{}
		for _, cs := range callsIn(fn) {
			callee := cs.Common().StaticCallee()
			if callee == nil {
				continue
			}
			name := calleeName(p, cs)
			cnt[name]++
			key := fmt.Sprintf("%s→%s#%d", p.FnKey(fn), name, cnt[name])
			if w, ok := wants[name]; ok {
				n++
				good := true
				var got []string
				for i, exp := range w.args {
					v, isC := constInt(cs.Common().Args[i])
					got = append(got, fmt.Sprintf("arg%d=%d", i, v))
					if !isC || fmt.Sprint(v) != exp {
						good = false
					}
				}
				c.Check(good, key, cs.Pos(), "%s: %s (%s)", name, w.why, strings.Join(got, " "))
			}
			if name == "time.Parse" {
				n++
				// the layout is a literal, or one element of a local table of literals that is tried in a loop
				set, ok := stringConstsOf(cs.Common().Args[0], 0)
				good := ok && len(set) > 0
				for l := range set {
					if !layouts[l] {
						good = false
					}
				}
				c.Check(good, key, cs.Pos(), "time layout is one of the two documented ones")
			}
		}
	}
	if n < 8 {
		c.Undecided("conversion calls", token.NoPos, "only %d conversion calls found in row.go", n)
	}
	// every destination is handled: the loop of Row.Scan ranges over the whole argument list
	if scan := p.Func(".", "(Row).Scan"); scan != nil {
		tt := &Termer{P: p}
		okRange := false
		hs := loopHeaders(scan)
		for _, h := range hs {
			for _, in := range h.Instrs {
				bo, ok := in.(*ssa.BinOp)
				if !ok || bo.Op != token.LSS {
					continue
				}
				if tt.Term(bo.Y, emptyPS()) == "len(p:"+scan.Params[1].Name()+")" {
					okRange = true
				}
			}
		}
		// and the argument slice is not re-assigned / re-sliced before the loop
		for _, in := range instrs(scan) {
			if sl, ok := in.(*ssa.Slice); ok && resolveCell(sl.X) == ssa.Value(scan.Params[1]) {
				okRange = false
			}
		}
		c.Check(len(hs) == 1 && okRange, "Scan handles every destination", scan.Pos(), "Row.Scan converts into every destination it is given (the loop covers the whole argument list): destinations beyond the row's width get the zero value, unsupported ones an error")
	}
	// missing columns / NULL give the zero value: every scan helper returns its zero on the `len(r) <= i` edge
	t := &Termer{P: p}
	for _, name := range []string{"scanString", "scanBytes", "scanInt64", "scanFloat64", "scanTime"} {
		fn := p.Func(".", "(Row)."+name)
		if fn == nil {
			c.Undecided("zero value "+name, token.NoPos, "not found")
			continue
		}
		paths, _ := EnumLits(fn.Blocks[0], 0, TabOpts{Termer: t})
		r, i := "p:"+fn.Params[0].Name(), "p:"+fn.Params[1].Name()
		good, seen := true, 0
		for _, lp := range paths {
			if lp.Exit == nil {
				continue
			}
			short := newProver(p, t, lp).g.entailsLE("len("+r+")", i, 0)
			isNull := lp.Has("type("+r+"["+i+"])", token.EQL, "nil", true)
			if !short && !isNull {
				continue
			}
			seen++
			v := lp.PS.Resolve(lp.Exit.Results[0])
			zero := false
			switch x := v.(type) {
			case *ssa.Const:
				zero = x.IsNil() || x.Value == nil || x.Value.String() == "0" || x.Value.String() == `""`
			case *ssa.UnOp:
				// time.Time{} is a load of a zero-initialised local
				if al, ok := x.X.(*ssa.Alloc); ok && singleStore(al) == nil {
					zero = true
				}
			}
			if len(lp.Exit.Results) > 1 && !isNilConst(lp.PS.Resolve(lp.Exit.Results[1])) {
				zero = false
			}
			if !zero {
				good = false
			}
		}
		c.Check(good && seen >= 2, "zero value "+name, fn.Pos(), "NULL and missing columns scan to the zero value without error")
	}
}

// stringConstsOf: the string constants v can hold, when that is decidable: a constant, a phi of such, or an element of
// a local array/slice literal all of whose element stores are constants. The constants are rendered as constString2 does.
func stringConstsOf(v ssa.Value, depth int) (map[string]bool, bool) {
	out := map[string]bool{}
	if depth > 6 {
		return nil, false
	}
	switch x := v.(type) {
	case *ssa.Const:
		out[constString2(x)] = true
		return out, true
	case *ssa.Phi:
		for _, e := range x.Edges {
			s, ok := stringConstsOf(e, depth+1)
			if !ok {
				return nil, false
			}
			for k := range s {
				out[k] = true
			}
		}
		return out, true
	case *ssa.UnOp, *ssa.Index:
		var base ssa.Value
		if ix, ok := x.(*ssa.Index); ok {
			// an element of an array value: `for _, l := range [...]string{a, b}` loads the whole array first
			ld, ok := ix.X.(*ssa.UnOp)
			if !ok || ld.Op != token.MUL {
				return nil, false
			}
			base = ld.X
		} else {
			u := x.(*ssa.UnOp)
			if u.Op != token.MUL {
				return nil, false
			}
			ia, ok := u.X.(*ssa.IndexAddr)
			if !ok {
				return nil, false
			}
			base = ia.X
		}
		if sl, ok := base.(*ssa.Slice); ok {
			base = sl.X
		}
		al, ok := base.(*ssa.Alloc)
		if !ok {
			return nil, false
		}
		for _, r := range *al.Referrers() {
			switch y := r.(type) {
			case *ssa.IndexAddr:
				for _, rr := range *y.Referrers() {
					if st, ok := rr.(*ssa.Store); ok && st.Addr == ssa.Value(y) {
						s, ok := stringConstsOf(st.Val, depth+1)
						if !ok {
							return nil, false
						}
						for k := range s {
							out[k] = true
						}
					}
				}
			case *ssa.Slice, *ssa.DebugRef:
			case *ssa.UnOp:
				if y.Op != token.MUL {
					return nil, false
				}
			default:
				return nil, false // the table escapes
			}
		}
		return out, len(out) > 0
	}
	return nil, false
}
