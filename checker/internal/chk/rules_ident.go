package chk

import (
	"fmt"
	"go/token"
	"go/types"

	"golang.org/x/tools/go/ssa"
)

func identRule() *Rule {
	return &Rule{ID: "IDENT-CASE", Props: []string{"C01", "C10", "C02"}, Min: 8,
		Doc: "SQL identifiers are case-insensitive: every equality test involving a column/table/index name compares two values normalised the same way (both lower-cased or both upper-cased, incl. slices built only from such values) or uses strings.EqualFold",
		Run: runIdentCase}
}

var identFields = map[string]bool{
	"TableColumn.Column": true, "IndexColumn.Column": true, "Schema.Table": true, "SchemaIndex.Index": true,
	"sqliteMaster.name": true, "sqliteMaster.tblName": true, "Schema.PrimaryKey": true,
	"IndexedColumn.Column": true, "ColumnDef.Name": true, "CreateTableStmt.Table": true, "CreateIndexStmt.Table": true, "CreateIndexStmt.Index": true,
}

type normInfo struct {
	kind  string // "lower", "upper", "raw", "const"
	ident bool   // derives from an identifier field
}

func fieldKey(v ssa.Value) string {
	var fa ssa.Value
	switch x := v.(type) {
	case *ssa.UnOp:
		if x.Op == token.MUL {
			fa = x.X
		}
	case *ssa.Field:
		fa = x
	}
	if fa == nil {
		return ""
	}
	fv := fieldOf(fa)
	if fv == nil {
		return ""
	}
	var owner types.Type
	switch y := fa.(type) {
	case *ssa.FieldAddr:
		owner = y.X.Type()
	case *ssa.Field:
		owner = y.X.Type()
	}
	n := namedOf(owner)
	if n == nil {
		return ""
	}
	return n.Obj().Name() + "." + fieldVarName(fv)
}

type identAnalysis struct {
	p          *Program
	fieldKinds map[string]string // field → kind of every value stored into it ("" = mixed/raw)
	memo       map[ssa.Value]normInfo
}

func (a *identAnalysis) fieldKind(key string) string {
	if k, ok := a.fieldKinds[key]; ok {
		return k
	}
	a.fieldKinds[key] = "raw" // cycle guard
	kind := ""
	first := true
	for _, fn := range a.p.ModFuncs() {
		for _, in := range instrs(fn) {
			s, ok := in.(*ssa.Store)
			if !ok {
				continue
			}
			fa, ok := s.Addr.(*ssa.FieldAddr)
			if !ok {
				continue
			}
			n := namedOf(fa.X.Type())
			if n == nil || n.Obj().Name()+"."+fieldName(fa) != key {
				continue
			}
			k := a.norm(s.Val, 0).kind
			if k == "const" {
				continue
			}
			if first {
				kind, first = k, false
			} else if k != kind {
				kind = "raw"
			}
		}
	}
	if kind == "" {
		kind = "raw"
	}
	a.fieldKinds[key] = kind
	return kind
}

func (a *identAnalysis) norm(v ssa.Value, depth int) normInfo {
	if depth > 8 {
		return normInfo{kind: "raw"}
	}
	if r, ok := a.memo[v]; ok {
		return r
	}
	a.memo[v] = normInfo{kind: "raw"}
	res := normInfo{kind: "raw"}
	switch x := v.(type) {
	case *ssa.Const:
		res = normInfo{kind: "const"}
	case *ssa.Call:
		if cal := x.Call.StaticCallee(); cal != nil {
			switch {
			case isLibFunc(cal, "strings", "ToLower"):
				res = normInfo{kind: "lower", ident: a.norm(x.Call.Args[0], depth+1).ident}
			case isLibFunc(cal, "strings", "ToUpper"):
				res = normInfo{kind: "upper", ident: a.norm(x.Call.Args[0], depth+1).ident}
			}
		}
	case *ssa.Phi:
		first := true
		for _, e := range x.Edges {
			r := a.norm(e, depth+1)
			if first {
				res, first = r, false
			} else {
				if r.kind != res.kind {
					res.kind = "raw"
				}
				res.ident = res.ident || r.ident
			}
		}
	case *ssa.UnOp:
		if x.Op != token.MUL {
			break
		}
		if key := fieldKey(x); key != "" {
			res = normInfo{kind: "raw", ident: identFields[key]}
			if identFields[key] {
				res.kind = a.fieldKind(key)
			}
			break
		}
		switch src := x.X.(type) {
		case *ssa.IndexAddr:
			res = a.elemNorm(src.X, depth+1)
		case *ssa.Alloc:
			// range-value copy or local: union of stores
			first := true
			for _, st := range cellStores(src) {
				r := a.norm(st.Val, depth+1)
				if first {
					res, first = r, false
				} else {
					if r.kind != res.kind {
						res.kind = "raw"
					}
					res.ident = res.ident || r.ident
				}
			}
		case *ssa.FreeVar:
			first := true
			for _, st := range cellStores(src) {
				r := a.norm(st.Val, depth+1)
				if first {
					res, first = r, false
				} else {
					if r.kind != res.kind {
						res.kind = "raw"
					}
					res.ident = res.ident || r.ident
				}
			}
		}
	case *ssa.Index:
		res = a.elemNorm(x.X, depth+1)
	case *ssa.Field:
		if key := fieldKey(x); key != "" {
			res = normInfo{kind: "raw", ident: identFields[key]}
			if identFields[key] {
				res.kind = a.fieldKind(key)
			}
		}
	case *ssa.Parameter, *ssa.Extract:
		res = normInfo{kind: "raw"}
	}
	a.memo[v] = res
	return res
}

// elemNorm: kind shared by every element ever appended to / stored in the local string slice.
func (a *identAnalysis) elemNorm(slice ssa.Value, depth int) normInfo {
	if depth > 8 {
		return normInfo{kind: "raw"}
	}
	res := normInfo{kind: ""}
	seen := map[ssa.Value]bool{}
	var visit func(v ssa.Value) bool
	merge := func(r normInfo) {
		if r.kind == "const" {
			return
		}
		if res.kind == "" {
			res.kind = r.kind
		} else if res.kind != r.kind {
			res.kind = "raw"
		}
		res.ident = res.ident || r.ident
	}
	visit = func(v ssa.Value) bool {
		if seen[v] {
			return true
		}
		seen[v] = true
		switch x := v.(type) {
		case *ssa.Phi:
			for _, e := range x.Edges {
				if !visit(e) {
					return false
				}
			}
			return true
		case *ssa.MakeSlice:
			return true
		case *ssa.Const:
			return true
		case *ssa.Slice:
			return visit(x.X)
		case *ssa.Call:
			if bi, ok := x.Call.Value.(*ssa.Builtin); ok && bi.Name() == "append" {
				if !visit(x.Call.Args[0]) {
					return false
				}
				// appended elements: a slice of a fresh array whose elements are stored individually
				if sl, ok := x.Call.Args[1].(*ssa.Slice); ok {
					if al, ok := sl.X.(*ssa.Alloc); ok {
						for _, r := range *al.Referrers() {
							if ia, ok := r.(*ssa.IndexAddr); ok {
								for _, rr := range *ia.Referrers() {
									if st, ok := rr.(*ssa.Store); ok {
										merge(a.norm(st.Val, depth+1))
									}
								}
							}
						}
						return true
					}
				}
				return false
			}
			return false
		case *ssa.UnOp:
			// a field holding a slice: not a local build-up
			return false
		}
		return false
	}
	if !visit(slice) || res.kind == "" {
		return normInfo{kind: "raw"}
	}
	return res
}

func runIdentCase(c *Ctx) {
	p := c.P
	a := &identAnalysis{p: p, fieldKinds: map[string]string{}, memo: map[ssa.Value]normInfo{}}
	for _, fn := range p.ModFuncs() {
		pk := p.PkgShort(fn)
		if (pk != "db" && pk != ".") || !p.Reachable(fn) {
			continue
		}
		n := 0
		for _, in := range instrs(fn) {
			var x, y ssa.Value
			how := ""
			switch z := in.(type) {
			case *ssa.MapUpdate, *ssa.Lookup:
				// a map keyed by a name: the key has to be the name in one spelling (`Name` and `name` are one column)
				var k ssa.Value
				if mu, ok := z.(*ssa.MapUpdate); ok {
					k = mu.Key
				} else if lk := z.(*ssa.Lookup); !lk.CommaOk || true {
					if _, isMap := lk.X.Type().Underlying().(*types.Map); !isMap {
						continue
					}
					k = lk.Index
				}
				if k == nil || !isStringType(k.Type()) {
					continue
				}
				nk := a.norm(k, 0)
				if !nk.ident || nk.kind == "const" {
					continue
				}
				n++
				key := fmt.Sprintf("%s name as map key#%d", p.FnKey(fn), n)
				if nk.kind == "lower" || nk.kind == "upper" {
					c.Pass(key, in.Pos(), "the key is the %s-cased name", nk.kind)
				} else {
					c.Fail(key, in.Pos(), "a map is keyed by an identifier as it happens to be spelled (%s): `Name` and `name` denote the same column/table/index in SQLite and would be two keys", nk.kind)
				}
				continue
			case *ssa.BinOp:
				if (z.Op != token.EQL && z.Op != token.NEQ) || !isStringType(z.X.Type()) {
					continue
				}
				x, y, how = z.X, z.Y, "=="
			case *ssa.Call:
				if cal := z.Call.StaticCallee(); cal != nil && isLibFunc(cal, "strings", "EqualFold") {
					x, y, how = z.Call.Args[0], z.Call.Args[1], "EqualFold"
				} else {
					continue
				}
			default:
				continue
			}
			nx, ny := a.norm(x, 0), a.norm(y, 0)
			if !nx.ident && !ny.ident {
				continue
			}
			if nx.kind == "const" || ny.kind == "const" {
				continue // comparison with a literal (e.g. "" or "*")
			}
			n++
			key := fmt.Sprintf("%s name comparison#%d", p.FnKey(fn), n)
			switch {
			case how == "EqualFold":
				c.Pass(key, in.Pos(), "strings.EqualFold")
			case nx.kind == ny.kind && (nx.kind == "lower" || nx.kind == "upper"):
				c.Pass(key, in.Pos(), "both operands %s-cased", nx.kind)
			default:
				c.Fail(key, in.Pos(), "an identifier is compared with == while the operands are normalised differently (%s vs %s): `Name` and `name` denote the same column/table/index in SQLite, so this lookup misses or duplicates it", nx.kind, ny.kind)
			}
		}
	}
}

func isStringType(t types.Type) bool {
	b, ok := t.Underlying().(*types.Basic)
	return ok && b.Info()&types.IsString != 0
}
