package chk

import (
	"go/types"
	"golang.org/x/tools/go/ssa"
)

// pathState is the state carried along one CFG path by enumPaths.
type pathState struct {
	Cells map[*ssa.Alloc]ssa.Value // last value stored into each local cell along this path
	Path  []*ssa.BasicBlock
	Calls []ssa.CallInstruction    // calls executed along the path (in order)
	Havoc map[*ssa.BasicBlock]bool // loop headers re-entered through a back-edge: their phis are opaque
	Vals  map[ssa.Value]int64      // values fixed by the abstract class under evaluation (shared, read-only)
	// Gen counts the back-edges taken so far; BlockGen records the generation in which each block was last entered.
	// A value defined inside a loop denotes a different run-time value in every iteration: terms carry the
	// generation of their defining block so that facts about iteration 1 never constrain iteration 2.
	Gen      int
	BlockGen map[*ssa.BasicBlock]int
	Visits   map[*ssa.BasicBlock]int // visits since the enclosing loop's header was last re-entered
	// Inlining of helper functions that are not part of the confirmed tree (see EnumLits): the frames to return to,
	// the arguments bound to the inlined callee's parameters and the values returned by finished inlined calls.
	Stack []inlFrame
	Bind  map[*ssa.Parameter]ssa.Value
	Ret   map[*ssa.Call][]ssa.Value
	// Resume marks the positions of Path at which a caller's block was re-appended after an inlined call returned
	// (so that the successor's phis see the right predecessor); such an entry is not an arrival at the block.
	Resume map[int]bool
	// Over replaces a boolean comparison that is returned as a value by the constant it has on this path (see
	// EnumLits: `return a < b` is enumerated as `if a < b { return true }; return false`).
	Over map[ssa.Value]ssa.Value
	// BindFV: free variables of a function literal that an inlined helper calls through one of its parameters
	// (`db.withSchema(table, func(s *Schema) error {…})`) → the cell of the enclosing function they capture.
	BindFV map[*ssa.FreeVar]ssa.Value
	// Loaded: what a load of a stored-to cell observed when it was executed on this path (a later store into the
	// cell must not change what an earlier load saw: `cols = append(cols, c)` on a captured variable).
	Loaded map[*ssa.UnOp]ssa.Value
	// Optional (TabOpts.FieldCells / RunDefers): the last value stored into a field of a local struct (or of a struct
	// reached through a stable access path) on this path; the deferred calls registered so far; instance counter for
	// allocations returned by inlined helpers.
	FCells map[string]ssa.Value
	Defers []deferRec
	InstN  int
	// Field stores along the path (always tracked): FVer counts the stores into each field access path so far, LoadVer
	// remembers for each load executed after such a store which version it saw (its term carries the version, so a
	// fact about `len(l.tokens)` from before `l.tokens = l.tokens[1:]` does not speak about the load after it), and
	// FLast holds the value last stored while no call has intervened (the load then is that value).
	FVer    map[string]int
	LoadVer map[*ssa.UnOp]int
	FLast   map[string]ssa.Value
	// A helper walked in place more than once on a path: the values of its second, third … instance carry the instance
	// number in their names (InlineCount per function, BlockInst per block of the instance being walked), so that what was
	// established about the first call's result is not taken for a fact about the second's.
	InlineCount map[*ssa.Function]int
	BlockInst   map[*ssa.BasicBlock]int
	// RetInst: for each finished inlined call, the instance numbers its helper's blocks had when it returned (copied on
	// write; shared between clones).
	RetInst map[*ssa.Call]map[*ssa.BasicBlock]int
	// Induct: lower bounds of loop counters in an iteration reached through a back-edge (copied on write).
	Induct map[*ssa.Phi]int64
	// ACells (TabOpts.ArrayCells): element of a local array at a known index → the term last stored there.
	ACells map[string]string
}

type deferRec struct {
	d    *ssa.Defer
	fn   *ssa.Function
	args []ssa.Value
	val  ssa.Value // the resolved function value (MakeClosure) for closure defers
}

// instAlloc is an allocation made inside one particular inlined instance of a helper and handed out to the caller
// (`pending := byteRange(…); read := byteRange(…)` are two objects although one Alloc instruction made both).
type instAlloc struct {
	*ssa.Alloc
	inst int
}

type inlFrame struct {
	call  *ssa.Call
	block *ssa.BasicBlock
	idx   int
	fn    *ssa.Function
}

func (ps *pathState) clone() *pathState {
	n := &pathState{Cells: make(map[*ssa.Alloc]ssa.Value, len(ps.Cells))}
	for k, v := range ps.Cells {
		n.Cells[k] = v
	}
	n.Vals = ps.Vals
	if len(ps.Visits) > 0 {
		n.Visits = make(map[*ssa.BasicBlock]int, len(ps.Visits))
		for k, v := range ps.Visits {
			n.Visits[k] = v
		}
	}
	n.Gen = ps.Gen
	if len(ps.BlockGen) > 0 {
		n.BlockGen = make(map[*ssa.BasicBlock]int, len(ps.BlockGen))
		for k, v := range ps.BlockGen {
			n.BlockGen[k] = v
		}
	}
	if len(ps.Stack) > 0 {
		n.Stack = append([]inlFrame(nil), ps.Stack...)
	}
	if len(ps.Bind) > 0 {
		n.Bind = make(map[*ssa.Parameter]ssa.Value, len(ps.Bind))
		for k, v := range ps.Bind {
			n.Bind[k] = v
		}
	}
	if len(ps.Ret) > 0 {
		n.Ret = make(map[*ssa.Call][]ssa.Value, len(ps.Ret))
		for k, v := range ps.Ret {
			n.Ret[k] = v
		}
	}
	if len(ps.FCells) > 0 {
		n.FCells = make(map[string]ssa.Value, len(ps.FCells))
		for k, v := range ps.FCells {
			n.FCells[k] = v
		}
	}
	if len(ps.Defers) > 0 {
		n.Defers = append([]deferRec(nil), ps.Defers...)
	}
	n.RetInst = ps.RetInst
	n.Induct = ps.Induct
	if len(ps.ACells) > 0 {
		n.ACells = make(map[string]string, len(ps.ACells))
		for k, v := range ps.ACells {
			n.ACells[k] = v
		}
	}
	n.InstN = ps.InstN
	if len(ps.InlineCount) > 0 {
		n.InlineCount = make(map[*ssa.Function]int, len(ps.InlineCount))
		for k, v := range ps.InlineCount {
			n.InlineCount[k] = v
		}
	}
	if len(ps.BlockInst) > 0 {
		n.BlockInst = make(map[*ssa.BasicBlock]int, len(ps.BlockInst))
		for k, v := range ps.BlockInst {
			n.BlockInst[k] = v
		}
	}
	if len(ps.FVer) > 0 {
		n.FVer = make(map[string]int, len(ps.FVer))
		for k, v := range ps.FVer {
			n.FVer[k] = v
		}
	}
	if len(ps.LoadVer) > 0 {
		n.LoadVer = make(map[*ssa.UnOp]int, len(ps.LoadVer))
		for k, v := range ps.LoadVer {
			n.LoadVer[k] = v
		}
	}
	if len(ps.FLast) > 0 {
		n.FLast = make(map[string]ssa.Value, len(ps.FLast))
		for k, v := range ps.FLast {
			n.FLast[k] = v
		}
	}
	if len(ps.Loaded) > 0 {
		n.Loaded = make(map[*ssa.UnOp]ssa.Value, len(ps.Loaded))
		for k, v := range ps.Loaded {
			n.Loaded[k] = v
		}
	}
	if len(ps.BindFV) > 0 {
		n.BindFV = make(map[*ssa.FreeVar]ssa.Value, len(ps.BindFV))
		for k, v := range ps.BindFV {
			n.BindFV[k] = v
		}
	}
	if len(ps.Over) > 0 {
		n.Over = make(map[ssa.Value]ssa.Value, len(ps.Over))
		for k, v := range ps.Over {
			n.Over[k] = v
		}
	}
	if len(ps.Resume) > 0 {
		n.Resume = make(map[int]bool, len(ps.Resume))
		for k, v := range ps.Resume {
			n.Resume[k] = v
		}
	}
	n.Path = append([]*ssa.BasicBlock(nil), ps.Path...)
	n.Calls = append([]ssa.CallInstruction(nil), ps.Calls...)
	if len(ps.Havoc) > 0 {
		n.Havoc = make(map[*ssa.BasicBlock]bool, len(ps.Havoc))
		for k, v := range ps.Havoc {
			n.Havoc[k] = v
		}
	}
	return n
}

// Pred returns the predecessor of block b on this path (nil if b is the first block).
func (ps *pathState) Pred(b *ssa.BasicBlock) *ssa.BasicBlock {
	for i := len(ps.Path) - 1; i > 0; i-- {
		if ps.Path[i] == b && !ps.Resume[i] {
			return ps.Path[i-1]
		}
	}
	return nil
}

// Resolve follows loads of local cells and phis (using the path's predecessor) to the value that is current
// on this path. in is the instruction at which v is used.
func (ps *pathState) Resolve(v ssa.Value) ssa.Value {
	for i := 0; i < 40; i++ {
		if o, ok := ps.Over[v]; ok {
			return o
		}
		switch x := v.(type) {
		case *ssa.Parameter:
			if b, ok := ps.Bind[x]; ok && b != v {
				v = b
				continue
			}
			return v
		case *ssa.Extract:
			if c, ok := x.Tuple.(*ssa.Call); ok {
				if rs, ok := ps.Ret[c]; ok && x.Index < len(rs) {
					v = rs[x.Index]
					continue
				}
			}
			return v
		case *ssa.Call:
			if rs, ok := ps.Ret[x]; ok && len(rs) == 1 {
				v = rs[0]
				continue
			}
			return v
		case *ssa.Field:
			// a field of a struct literal that an inlined helper built and returned by value
			// (`return overflowPage{next: …, data: …}, nil` … `p.data`)
			if len(ps.Ret) > 0 {
				if ld, ok := ps.Resolve(x.X).(*ssa.UnOp); ok && ld.Op.String() == "*" {
					if a, ok := ld.X.(*ssa.Alloc); ok {
						if fv, ok := structLitField(a, x.Field, ld); ok {
							v = fv
							continue
						}
					}
				}
			}
			return v
		case *ssa.Index:
			// an element of a local array literal at an index that is a known number on this path
			if len(ps.Vals) > 0 || len(ps.Stack) > 0 {
				if k, ok := evalIntD(x.Index, ps, 20); ok {
					if e, ok := literalElem(x.X, k); ok {
						v = e
						continue
					}
				}
			}
			return v
		case *ssa.UnOp:
			if x.Op.String() != "*" {
				return v
			}
			if ia, isIA := x.X.(*ssa.IndexAddr); isIA && (len(ps.Vals) > 0 || len(ps.Stack) > 0) {
				if k, ok := evalIntD(ia.Index, ps, 20); ok {
					if e, ok := literalElem(ps.Resolve(ia.X), k); ok {
						v = e
						continue
					}
				}
			}
			if seen, ok := ps.Loaded[x]; ok {
				v = seen
				continue
			}
			if fa, isFA := x.X.(*ssa.FieldAddr); isFA && ps.FCells != nil {
				if val, ok := ps.FCells[ps.fcKey(fa)]; ok {
					v = val
					continue
				}
				return v
			}
			// a field of a local that holds the struct literal an inlined helper returned by value
			// (`p, err := loadOverflow(db, n)` … `p.data`): the value the helper put there
			if fa, isFA := x.X.(*ssa.FieldAddr); isFA && len(ps.Ret) > 0 {
				if pa, isA := fa.X.(*ssa.Alloc); isA && onlyFieldReads(pa) {
					if st := singleStore(pa); st != nil {
						if ld, ok := ps.Resolve(st.Val).(*ssa.UnOp); ok && ld.Op.String() == "*" && ld != x {
							if a, ok := ld.X.(*ssa.Alloc); ok {
								if fv, ok := structLitField(a, fa.Field, ld); ok {
									v = fv
									continue
								}
							}
						}
					}
				}
			}
			a, ok := x.X.(*ssa.Alloc)
			if !ok {
				// a captured variable of an inlined function literal is the enclosing function's cell
				if fv, isFV := x.X.(*ssa.FreeVar); isFV {
					if b, bound := ps.BindFV[fv]; bound {
						a, ok = b.(*ssa.Alloc)
					}
				}
			}
			if !ok {
				return v
			}
			if val, ok := ps.Cells[a]; ok {
				v = val
				continue
			}
			// a cell with a single store in the entry block (a spilled parameter or once-assigned local)
			if st := singleStore(a); st != nil && st.Block() == a.Parent().Blocks[0] {
				v = st.Val
				continue
			}
			return v
		case *ssa.Phi:
			if ps.Havoc[x.Block()] {
				// a later iteration: if every back-edge carries one and the same value that the loop does not change
				// (a constant, or something made before the loop: `first = false`, `descend = fullScan`), that is it
				if inv := invariantBackEdge(x); inv != nil {
					v = inv
					continue
				}
				return v
			}
			pred := ps.Pred(x.Block())
			if pred == nil {
				return v
			}
			found := false
			for k, pb := range x.Block().Preds {
				if pb == pred {
					v = x.Edges[k]
					found = true
					break
				}
			}
			if !found {
				return v
			}
		default:
			return v
		}
	}
	return v
}

type pathVisitor struct {
	// OnInstr is called for every instruction along the path; returning false prunes the path (not counted as exit).
	OnInstr func(in ssa.Instruction, ps *pathState) bool
	// OnExit is called when the path reaches a Return (ret != nil) or another terminal block (panic; ret == nil).
	OnExit func(ret *ssa.Return, ps *pathState)
	// OnBackEdge is called when the path would re-enter a block already on it (a loop back-edge); the path is cut.
	OnBackEdge func(from, to *ssa.BasicBlock, ps *pathState)
	// OnEdge is called with the (already cloned) state of the successor path; returning false prunes that edge.
	OnEdge   func(from *ssa.BasicBlock, succIdx int, next *pathState) bool
	Limit    int
	n        int
	Overflow bool
}

// enumPaths enumerates the simple paths from (start, idx).
func enumPaths(start *ssa.BasicBlock, idx int, pv *pathVisitor) {
	if pv.Limit == 0 {
		pv.Limit = 200000
	}
	ps := &pathState{Cells: map[*ssa.Alloc]ssa.Value{}}
	pv.walk(start, idx, ps)
}

func (pv *pathVisitor) walk(b *ssa.BasicBlock, idx int, ps *pathState) {
	if pv.Overflow {
		return
	}
	pv.n++
	if pv.n > pv.Limit {
		pv.Overflow = true
		return
	}
	ps.Path = append(ps.Path, b)
	for i := idx; i < len(b.Instrs); i++ {
		in := b.Instrs[i]
		if s, ok := in.(*ssa.Store); ok {
			if a, ok := s.Addr.(*ssa.Alloc); ok {
				ps.Cells[a] = s.Val
			}
		}
		if c, ok := in.(ssa.CallInstruction); ok {
			ps.Calls = append(ps.Calls, c)
		}
		if pv.OnInstr != nil && !pv.OnInstr(in, ps) {
			return
		}
		if r, ok := in.(*ssa.Return); ok {
			if pv.OnExit != nil {
				pv.OnExit(r, ps)
			}
			return
		}
	}
	if len(b.Succs) == 0 {
		if pv.OnExit != nil {
			pv.OnExit(nil, ps)
		}
		return
	}
	for k, s := range b.Succs {
		onPath := false
		for _, pb := range ps.Path {
			if pb == s {
				onPath = true
				break
			}
		}
		if onPath {
			if pv.OnBackEdge != nil {
				pv.OnBackEdge(b, s, ps)
			}
			continue
		}
		next := ps.clone()
		if pv.OnEdge != nil && !pv.OnEdge(b, k, next) {
			continue
		}
		pv.walk(s, 0, next)
	}
}

// genOf returns the generation suffix for a value defined by an instruction ("" outside re-entered loops).
func (ps *pathState) genOf(v ssa.Value) string {
	if ps == nil || (ps.Gen == 0 && len(ps.BlockInst) == 0) {
		return ""
	}
	in, ok := v.(ssa.Instruction)
	if !ok || in.Block() == nil {
		return ""
	}
	s := ""
	if g := ps.BlockGen[in.Block()]; g > 0 && ps.Gen > 0 {
		s = "~" + itoa(g)
	}
	if k := ps.BlockInst[in.Block()]; k > 1 {
		s += "^" + itoa(k)
	}
	return s
}

func itoa(n int) string {
	if n == 0 {
		return "0"
	}
	s := ""
	for n > 0 {
		s = string(rune('0'+n%10)) + s
		n /= 10
	}
	return s
}

// loopBody returns the blocks of the natural loop(s) headed by h (h included): blocks dominated by h that reach h.
func loopBody(h *ssa.BasicBlock) map[*ssa.BasicBlock]bool {
	body := map[*ssa.BasicBlock]bool{h: true}
	var stack []*ssa.BasicBlock
	for _, p := range h.Preds {
		if h.Dominates(p) && !body[p] {
			body[p] = true
			stack = append(stack, p)
		}
	}
	for len(stack) > 0 {
		b := stack[len(stack)-1]
		stack = stack[:len(stack)-1]
		for _, p := range b.Preds {
			if !body[p] && h.Dominates(p) {
				body[p] = true
				stack = append(stack, p)
			}
		}
	}
	return body
}

// fcKey identifies the struct field fa points into on this path: by the allocation (or helper-instance allocation)
// the base resolves to.  Bases that are not local allocations get no key ("").
func (ps *pathState) fcKey(fa *ssa.FieldAddr) string { return ps.fcKeyOf(fa.X, fieldName(fa)) }

func (ps *pathState) fcKeyOf(ptr ssa.Value, field string) string {
	base := ps.Resolve(ptr)
	switch b := base.(type) {
	case *instAlloc:
		return "I" + itoa(b.inst) + ":" + b.Alloc.Name() + "." + field
	case *ssa.Alloc:
		return "A:" + b.Parent().Name() + ":" + b.Name() + "." + field
	case *ssa.UnOp:
		// a pointer loaded from a field of a parameter (f.readLock): stable as long as that field is not reassigned
		if b.Op.String() == "*" {
			if fa2, ok := b.X.(*ssa.FieldAddr); ok {
				if prm, ok := ps.Resolve(fa2.X).(*ssa.Parameter); ok {
					return "P:" + prm.Name() + "." + fieldName(fa2) + "." + field
				}
			}
		}
	}
	return ""
}

// FieldConst: the integer constant currently stored in field `field` of the struct ptr points to on this path.
func (ps *pathState) FieldConst(ptr ssa.Value, field string) (int64, bool) {
	k := ps.fcKeyOf(ptr, field)
	if k == "" || ps.FCells == nil {
		return 0, false
	}
	v, ok := ps.FCells[k]
	if !ok {
		return 0, false
	}
	return evalInt(v, ps)
}

// structLitField: the value stored into field number `field` of the local struct a before it is loaded whole by ld,
// when that field is stored exactly once, in ld's block and ahead of it (a composite literal).
func structLitField(a *ssa.Alloc, field int, ld *ssa.UnOp) (ssa.Value, bool) {
	var found *ssa.Store
	for _, r := range *a.Referrers() {
		fa, ok := r.(*ssa.FieldAddr)
		if !ok || fa.Field != field {
			continue
		}
		for _, r2 := range *fa.Referrers() {
			st, ok := r2.(*ssa.Store)
			if !ok || st.Addr != ssa.Value(fa) {
				return nil, false // the field's address is used for something else
			}
			if found != nil {
				return nil, false
			}
			found = st
		}
	}
	if found == nil || found.Block() != ld.Block() {
		return nil, false
	}
	for _, in := range ld.Block().Instrs {
		if in == ssa.Instruction(found) {
			return found.Val, true
		}
		if in == ssa.Instruction(ld) {
			return nil, false
		}
	}
	return nil, false
}

// onlyFieldReads: the fields of local struct a are only ever read through its field addresses (it is written whole).
func onlyFieldReads(a *ssa.Alloc) bool {
	for _, r := range *a.Referrers() {
		fa, ok := r.(*ssa.FieldAddr)
		if !ok {
			continue
		}
		for _, r2 := range *fa.Referrers() {
			switch r2.(type) {
			case *ssa.UnOp, *ssa.DebugRef:
			default:
				return false
			}
		}
	}
	return true
}

// invariantBackEdge: x is a phi at a loop header; all its back-edge operands are the same constant, or the same value
// defined in a block that dominates the header (so the loop does not redefine it). nil otherwise.
func invariantBackEdge(x *ssa.Phi) ssa.Value {
	h := x.Block()
	var val ssa.Value
	n := 0
	for i, e := range x.Edges {
		if i >= len(h.Preds) || !h.Dominates(h.Preds[i]) {
			continue
		}
		n++
		if c, ok := e.(*ssa.Const); ok {
			if val == nil {
				val = c
				continue
			}
			if pc, ok := val.(*ssa.Const); ok && pc.Value != nil && c.Value != nil && pc.Value.ExactString() == c.Value.ExactString() && types.Identical(pc.Type(), c.Type()) {
				continue
			}
			return nil
		}
		in, ok := e.(ssa.Instruction)
		if !ok || in.Block() == nil || in.Block() == h || !in.Block().Dominates(h) {
			return nil
		}
		if _, isPhi := e.(*ssa.Phi); isPhi {
			return nil
		}
		if val == nil {
			val = e
		} else if val != e {
			return nil
		}
	}
	if n == 0 {
		return nil
	}
	return val
}
