package chk

import (
	"golang.org/x/tools/go/ssa"
)

// pathState is the state carried along one CFG path by enumPaths.
type pathState struct {
	Cells map[*ssa.Alloc]ssa.Value // last value stored into each local cell along this path
	Path  []*ssa.BasicBlock
	Calls []ssa.CallInstruction // calls executed along the path (in order)
	Havoc map[*ssa.BasicBlock]bool // loop headers re-entered through a back-edge: their phis are opaque
	Vals  map[ssa.Value]int64       // values fixed by the abstract class under evaluation (shared, read-only)
}

func (ps *pathState) clone() *pathState {
	n := &pathState{Cells: make(map[*ssa.Alloc]ssa.Value, len(ps.Cells))}
	for k, v := range ps.Cells {
		n.Cells[k] = v
	}
	n.Vals = ps.Vals
	n.Path = append([]*ssa.BasicBlock(nil), ps.Path...)
	n.Calls = append([]ssa.CallInstruction(nil), ps.Calls...)
	if len(ps.Havoc) > 0 {
		n.Havoc = make(map[*ssa.BasicBlock]bool, len(ps.Havoc))
		for k, v := range ps.Havoc {
			n.Havoc[k] = v
		}
	}
	return n
}

// Pred returns the predecessor of block b on this path (nil if b is the first block).
func (ps *pathState) Pred(b *ssa.BasicBlock) *ssa.BasicBlock {
	for i := len(ps.Path) - 1; i > 0; i-- {
		if ps.Path[i] == b {
			return ps.Path[i-1]
		}
	}
	return nil
}

// Resolve follows loads of local cells and phis (using the path's predecessor) to the value that is current
// on this path. in is the instruction at which v is used.
func (ps *pathState) Resolve(v ssa.Value) ssa.Value {
	for i := 0; i < 20; i++ {
		switch x := v.(type) {
		case *ssa.UnOp:
			if x.Op.String() != "*" {
				return v
			}
			a, ok := x.X.(*ssa.Alloc)
			if !ok {
				return v
			}
			if val, ok := ps.Cells[a]; ok {
				v = val
				continue
			}
			// a cell with a single store in the entry block (a spilled parameter or once-assigned local)
			if st := singleStore(a); st != nil && st.Block() == a.Parent().Blocks[0] {
				v = st.Val
				continue
			}
			return v
		case *ssa.Phi:
			if ps.Havoc[x.Block()] {
				return v
			}
			pred := ps.Pred(x.Block())
			if pred == nil {
				return v
			}
			found := false
			for k, pb := range x.Block().Preds {
				if pb == pred {
					v = x.Edges[k]
					found = true
					break
				}
			}
			if !found {
				return v
			}
		default:
			return v
		}
	}
	return v
}

type pathVisitor struct {
	// OnInstr is called for every instruction along the path; returning false prunes the path (not counted as exit).
	OnInstr func(in ssa.Instruction, ps *pathState) bool
	// OnExit is called when the path reaches a Return (ret != nil) or another terminal block (panic; ret == nil).
	OnExit func(ret *ssa.Return, ps *pathState)
	// OnBackEdge is called when the path would re-enter a block already on it (a loop back-edge); the path is cut.
	OnBackEdge func(from, to *ssa.BasicBlock, ps *pathState)
	// OnEdge is called with the (already cloned) state of the successor path; returning false prunes that edge.
	OnEdge func(from *ssa.BasicBlock, succIdx int, next *pathState) bool
	Limit  int
	n      int
	Overflow bool
}

// enumPaths enumerates the simple paths from (start, idx).
func enumPaths(start *ssa.BasicBlock, idx int, pv *pathVisitor) {
	if pv.Limit == 0 {
		pv.Limit = 200000
	}
	ps := &pathState{Cells: map[*ssa.Alloc]ssa.Value{}}
	pv.walk(start, idx, ps)
}

func (pv *pathVisitor) walk(b *ssa.BasicBlock, idx int, ps *pathState) {
	if pv.Overflow {
		return
	}
	pv.n++
	if pv.n > pv.Limit {
		pv.Overflow = true
		return
	}
	ps.Path = append(ps.Path, b)
	for i := idx; i < len(b.Instrs); i++ {
		in := b.Instrs[i]
		if s, ok := in.(*ssa.Store); ok {
			if a, ok := s.Addr.(*ssa.Alloc); ok {
				ps.Cells[a] = s.Val
			}
		}
		if c, ok := in.(ssa.CallInstruction); ok {
			ps.Calls = append(ps.Calls, c)
		}
		if pv.OnInstr != nil && !pv.OnInstr(in, ps) {
			return
		}
		if r, ok := in.(*ssa.Return); ok {
			if pv.OnExit != nil {
				pv.OnExit(r, ps)
			}
			return
		}
	}
	if len(b.Succs) == 0 {
		if pv.OnExit != nil {
			pv.OnExit(nil, ps)
		}
		return
	}
	for k, s := range b.Succs {
		onPath := false
		for _, pb := range ps.Path {
			if pb == s {
				onPath = true
				break
			}
		}
		if onPath {
			if pv.OnBackEdge != nil {
				pv.OnBackEdge(b, s, ps)
			}
			continue
		}
		next := ps.clone()
		if pv.OnEdge != nil && !pv.OnEdge(b, k, next) {
			continue
		}
		pv.walk(s, 0, next)
	}
}
