package chk

import (
	"golang.org/x/tools/go/ssa"
)

// pathState is the state carried along one CFG path by enumPaths.
type pathState struct {
	Cells map[*ssa.Alloc]ssa.Value // last value stored into each local cell along this path
	Path  []*ssa.BasicBlock
	Calls []ssa.CallInstruction // calls executed along the path (in order)
	Havoc map[*ssa.BasicBlock]bool // loop headers re-entered through a back-edge: their phis are opaque
	Vals  map[ssa.Value]int64       // values fixed by the abstract class under evaluation (shared, read-only)
	// Gen counts the back-edges taken so far; BlockGen records the generation in which each block was last entered.
	// A value defined inside a loop denotes a different run-time value in every iteration: terms carry the
	// generation of their defining block so that facts about iteration 1 never constrain iteration 2.
	Gen      int
	BlockGen map[*ssa.BasicBlock]int
	Visits   map[*ssa.BasicBlock]int // visits since the enclosing loop's header was last re-entered
}

func (ps *pathState) clone() *pathState {
	n := &pathState{Cells: make(map[*ssa.Alloc]ssa.Value, len(ps.Cells))}
	for k, v := range ps.Cells {
		n.Cells[k] = v
	}
	n.Vals = ps.Vals
	if len(ps.Visits) > 0 {
		n.Visits = make(map[*ssa.BasicBlock]int, len(ps.Visits))
		for k, v := range ps.Visits {
			n.Visits[k] = v
		}
	}
	n.Gen = ps.Gen
	if len(ps.BlockGen) > 0 {
		n.BlockGen = make(map[*ssa.BasicBlock]int, len(ps.BlockGen))
		for k, v := range ps.BlockGen {
			n.BlockGen[k] = v
		}
	}
	n.Path = append([]*ssa.BasicBlock(nil), ps.Path...)
	n.Calls = append([]ssa.CallInstruction(nil), ps.Calls...)
	if len(ps.Havoc) > 0 {
		n.Havoc = make(map[*ssa.BasicBlock]bool, len(ps.Havoc))
		for k, v := range ps.Havoc {
			n.Havoc[k] = v
		}
	}
	return n
}

// Pred returns the predecessor of block b on this path (nil if b is the first block).
func (ps *pathState) Pred(b *ssa.BasicBlock) *ssa.BasicBlock {
	for i := len(ps.Path) - 1; i > 0; i-- {
		if ps.Path[i] == b {
			return ps.Path[i-1]
		}
	}
	return nil
}

// Resolve follows loads of local cells and phis (using the path's predecessor) to the value that is current
// on this path. in is the instruction at which v is used.
func (ps *pathState) Resolve(v ssa.Value) ssa.Value {
	for i := 0; i < 20; i++ {
		switch x := v.(type) {
		case *ssa.UnOp:
			if x.Op.String() != "*" {
				return v
			}
			a, ok := x.X.(*ssa.Alloc)
			if !ok {
				return v
			}
			if val, ok := ps.Cells[a]; ok {
				v = val
				continue
			}
			// a cell with a single store in the entry block (a spilled parameter or once-assigned local)
			if st := singleStore(a); st != nil && st.Block() == a.Parent().Blocks[0] {
				v = st.Val
				continue
			}
			return v
		case *ssa.Phi:
			if ps.Havoc[x.Block()] {
				return v
			}
			pred := ps.Pred(x.Block())
			if pred == nil {
				return v
			}
			found := false
			for k, pb := range x.Block().Preds {
				if pb == pred {
					v = x.Edges[k]
					found = true
					break
				}
			}
			if !found {
				return v
			}
		default:
			return v
		}
	}
	return v
}

type pathVisitor struct {
	// OnInstr is called for every instruction along the path; returning false prunes the path (not counted as exit).
	OnInstr func(in ssa.Instruction, ps *pathState) bool
	// OnExit is called when the path reaches a Return (ret != nil) or another terminal block (panic; ret == nil).
	OnExit func(ret *ssa.Return, ps *pathState)
	// OnBackEdge is called when the path would re-enter a block already on it (a loop back-edge); the path is cut.
	OnBackEdge func(from, to *ssa.BasicBlock, ps *pathState)
	// OnEdge is called with the (already cloned) state of the successor path; returning false prunes that edge.
	OnEdge func(from *ssa.BasicBlock, succIdx int, next *pathState) bool
	Limit  int
	n      int
	Overflow bool
}

// enumPaths enumerates the simple paths from (start, idx).
func enumPaths(start *ssa.BasicBlock, idx int, pv *pathVisitor) {
	if pv.Limit == 0 {
		pv.Limit = 200000
	}
	ps := &pathState{Cells: map[*ssa.Alloc]ssa.Value{}}
	pv.walk(start, idx, ps)
}

func (pv *pathVisitor) walk(b *ssa.BasicBlock, idx int, ps *pathState) {
	if pv.Overflow {
		return
	}
	pv.n++
	if pv.n > pv.Limit {
		pv.Overflow = true
		return
	}
	ps.Path = append(ps.Path, b)
	for i := idx; i < len(b.Instrs); i++ {
		in := b.Instrs[i]
		if s, ok := in.(*ssa.Store); ok {
			if a, ok := s.Addr.(*ssa.Alloc); ok {
				ps.Cells[a] = s.Val
			}
		}
		if c, ok := in.(ssa.CallInstruction); ok {
			ps.Calls = append(ps.Calls, c)
		}
		if pv.OnInstr != nil && !pv.OnInstr(in, ps) {
			return
		}
		if r, ok := in.(*ssa.Return); ok {
			if pv.OnExit != nil {
				pv.OnExit(r, ps)
			}
			return
		}
	}
	if len(b.Succs) == 0 {
		if pv.OnExit != nil {
			pv.OnExit(nil, ps)
		}
		return
	}
	for k, s := range b.Succs {
		onPath := false
		for _, pb := range ps.Path {
			if pb == s {
				onPath = true
				break
			}
		}
		if onPath {
			if pv.OnBackEdge != nil {
				pv.OnBackEdge(b, s, ps)
			}
			continue
		}
		next := ps.clone()
		if pv.OnEdge != nil && !pv.OnEdge(b, k, next) {
			continue
		}
		pv.walk(s, 0, next)
	}
}

// genOf returns the generation suffix for a value defined by an instruction ("" outside re-entered loops).
func (ps *pathState) genOf(v ssa.Value) string {
	if ps == nil || ps.Gen == 0 {
		return ""
	}
	in, ok := v.(ssa.Instruction)
	if !ok || in.Block() == nil {
		return ""
	}
	if g := ps.BlockGen[in.Block()]; g > 0 {
		return "~" + itoa(g)
	}
	return ""
}

func itoa(n int) string {
	if n == 0 {
		return "0"
	}
	s := ""
	for n > 0 {
		s = string(rune('0'+n%10)) + s
		n /= 10
	}
	return s
}

// loopBody returns the blocks of the natural loop(s) headed by h (h included): blocks dominated by h that reach h.
func loopBody(h *ssa.BasicBlock) map[*ssa.BasicBlock]bool {
	body := map[*ssa.BasicBlock]bool{h: true}
	var stack []*ssa.BasicBlock
	for _, p := range h.Preds {
		if h.Dominates(p) && !body[p] {
			body[p] = true
			stack = append(stack, p)
		}
	}
	for len(stack) > 0 {
		b := stack[len(stack)-1]
		stack = stack[:len(stack)-1]
		for _, p := range b.Preds {
			if !body[p] && h.Dominates(p) {
				body[p] = true
				stack = append(stack, p)
			}
		}
	}
	return body
}
