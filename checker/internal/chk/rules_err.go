package chk

import (
	"fmt"
	"go/token"
	"go/types"
	"strings"

	"golang.org/x/tools/go/ssa"
)

func errRules() []*Rule {
	return []*Rule{
		{ID: "ERR-1", Props: []string{"C12", "C01", "C02", "C19"}, Min: 200,
			Doc: "every error produced by a call on the read path is forwarded to an error result (through locals, captured cells, fields, fmt.Errorf) or tested against nil; never dropped",
			Run: runErr1},
		{ID: "ERR-2", Props: []string{"C12", "C01", "C02", "C15", "C19"}, Min: 120,
			Doc: "on the failing edge of every `err != nil` test the function returns a non-nil error, or (no error result) latches a non-nil error into a captured cell/field on every path",
			Run: runErr2},
		{ID: "ERR-7", Props: []string{"C12", "C18", "C01", "C02"}, Min: 20,
			Doc: "an error obtained inside a loop is looked at in the iteration that obtained it: it is never merely carried into the next iteration (where the next call's result overwrites it)",
			Run: runErr7},
		{ID: "NUMLIT", Props: []string{"C10", "C01", "C16"}, Min: 2,
			Doc: "integer literals of the SQL text are read the way SQLite reads them: decimal, or hexadecimal after 0x — never with base 0, which is Go's literal syntax (a leading 0 means octal, 0b/0o prefixes and underscores are accepted)",
			Run: runNumLit},
		{ID: "ERR-SENTINEL", Props: []string{"C12", "C10", "C16"}, Min: 4,
			Doc: "the tokenizer's number reader has no error result: every failed strconv parse in it returns length −1, and its caller turns a negative length into an error before using the token",
			Run: runErrSentinel},
		{ID: "SKIP-1", Props: []string{"C12", "C02"}, Min: 4,
			Doc: "scan adapters of the root package never skip a row silently: every path delivers the row to the user's callback, or records an error and stops",
			Run: runSkip1},
		{ID: "DONE-1", Props: []string{"C17"}, Min: 14,
			Doc: "the done flag of every inner (bool, error) iteration is returned as-is or, when true, leads to an immediate return of true with no call in between",
			Run: runDone1},
		{ID: "DONE-2", Props: []string{"C17"}, Min: 5,
			Doc: "adapters return the user callback's answer as their done result",
			Run: runDone2},
		{ID: "DONE-2b", Props: []string{"C17", "C03", "C02", "C01"}, Min: 4,
			Doc: "adapters around a result-less user callback (RowCB) answer `go on` after every row: a scan is never cut short on behalf of a caller who cannot ask for it",
			Run: runDone2b},
		{ID: "DONE-3", Props: []string{"C17"}, Min: 3,
			Doc: "top-level scans return exactly the iteration's error (an early stop is not an error)",
			Run: runDone3},
	}
}

// errPackages are the packages whose functions are the read path.
var errPackages = map[string]bool{"db": true, ".": true, "driver": true, "sql": true}

// errFn: fn belongs to the read path's own code — the goyacc driver skeleton (debug Printf calls, no error results)
// is generated and is not judged by the error rules.
func errFn(p *Program, fn *ssa.Function) bool {
	if !errPackages[p.PkgShort(fn)] {
		return false
	}
	top := fn
	for top.Parent() != nil {
		top = top.Parent()
	}
	pos := p.Pos(top.Pos())
	return !strings.Contains(pos, "yaccpar") && !strings.HasPrefix(pos, "sql/parser.go")
}

// errExcludedCallee: the lock/close family (PAGER's discipline) and infallible writers.
func errExcludedCallee(p *Program, callee *ssa.Function, cs ssa.CallInstruction) string {
	if callee == nil {
		// interface invoke
		if cs.Common().IsInvoke() {
			switch cs.Common().Method.Name() {
			case "RUnlock", "Close":
				return "lock/close family"
			}
		}
		return ""
	}
	name := callee.Name()
	switch name {
	case "RUnlock", "Close":
		return "lock/close family"
	}
	if isFcntlWrapper(p, callee) {
		return "fcntl wrapper (PAGER rules)"
	}
	if o := callee.Object(); o != nil && o.Pkg() != nil {
		if o.Pkg().Path() == "fmt" && strings.HasPrefix(name, "Fprint") {
			return "fmt.Fprint* into a strings.Builder cannot fail"
		}
		if o.Pkg().Path() == "strings" {
			return "strings.Builder writes cannot fail"
		}
	}
	return ""
}

type errSource struct {
	Fn   *ssa.Function
	Call ssa.CallInstruction
	Name string // callee description
	Key  string
}

func calleeName(p *Program, cs ssa.CallInstruction) string {
	cc := cs.Common()
	if c := cc.StaticCallee(); c != nil {
		return p.FnKey(c)
	}
	if cc.IsInvoke() {
		return types.TypeString(cc.Value.Type(), func(pk *types.Package) string { return pk.Name() }) + "." + cc.Method.Name()
	}
	// func value: name by type
	return "func-value:" + types.TypeString(cc.Value.Type(), func(pk *types.Package) string { return pk.Name() })
}

func lastResultIsError(sig *types.Signature) bool {
	n := sig.Results().Len()
	return n > 0 && isErrorType(sig.Results().At(n-1).Type())
}

// errSources enumerates the source calls of ERR-1 in API-reachable functions of db, ., driver.
func errSources(p *Program, includeUnreachable bool) []errSource {
	var out []errSource
	for _, fn := range p.ModFuncs() {
		if !errFn(p, fn) {
			continue
		}
		if !includeUnreachable && !p.Reachable(fn) {
			continue
		}
		count := map[string]int{}
		for _, cs := range callsIn(fn) {
			if !lastResultIsError(cs.Common().Signature()) {
				continue
			}
			if errExcludedCallee(p, cs.Common().StaticCallee(), cs) != "" {
				continue
			}
			name := calleeName(p, cs)
			count[name]++
			key := p.FnKey(fn) + "→" + name
			if count[name] > 1 {
				key += fmt.Sprintf("#%d", count[name])
			}
			out = append(out, errSource{fn, cs, name, key})
		}
	}
	return out
}

func inCycle(b *ssa.BasicBlock) bool {
	seen := map[*ssa.BasicBlock]bool{}
	var dfs func(x *ssa.BasicBlock) bool
	dfs = func(x *ssa.BasicBlock) bool {
		for _, s := range x.Succs {
			if s == b {
				return true
			}
			if !seen[s] {
				seen[s] = true
				if dfs(s) {
					return true
				}
			}
		}
		return false
	}
	return dfs(b)
}

// errException returns a reason when the function/callee pair is a documented exception.
func errException(p *Program, fn *ssa.Function, cs ssa.CallInstruction) string {
	top := fn
	for top.Parent() != nil {
		top = top.Parent()
	}
	// code moved out of an excepted function into a freshly extracted helper keeps the exception
	if inlinable != nil && inlinable(top) {
		roots := contextRoots(p, top, 0)
		why := ""
		for _, r := range roots {
			if r == top {
				why = ""
				break
			}
			w := errException(p, r, cs)
			if w == "" {
				why = ""
				break
			}
			why = w
		}
		return why
	}
	switch p.FnKey(top) {
	case "(*db.Database).withoutRowid":
		return "uses `is the root an index page?` as a predicate; its bool result is the verdict"
	case "db.Fuzz":
		return "go-fuzz entry point: its int result is the verdict"
	case "db.validJournal":
		return "a journal that cannot be read in full is by definition not a hot journal (C09: absent, empty or truncated journals do not prevent reading)"
	case "db.newSchema":
		if cs != nil {
			if c := cs.Common().StaticCallee(); c != nil && p.FnKey(c) == "sql.Parse" && inCycle(cs.Block()) {
				return "an index whose SQL does not parse is left out of the schema (C10 allows `the index left out`)"
			}
		}
	case "sql.readNumericLiteral":
		return "has no error result: a number that does not parse is reported as length −1, which tokenize turns into an error (rule ERR-SENTINEL decides both halves)"
	case "sqlittle.stringToInt64":
		if cs != nil {
			if c := cs.Common().StaticCallee(); c != nil && isLibFunc(c, "strconv", "ParseInt") {
				return "falls back to ParseFloat, whose error is returned"
			}
		}
	case "(sqlittle.Row).scanTime":
		if cs != nil && cs.Common().StaticCallee() != nil && isLibFunc(cs.Common().StaticCallee(), "time", "Parse") {
			return "first layout is tried, the second layout's error is returned"
		}
	}
	return ""
}

func isErrorfLike(callee *ssa.Function) bool {
	return isLibFunc(callee, "fmt", "Errorf") || isLibFunc(callee, "errors", "New") || isLibFunc(callee, "fmt", "Sprintf")
}

func isFprintf(callee *ssa.Function) bool {
	return callee != nil && callee.Object() != nil && callee.Object().Pkg() != nil && callee.Object().Pkg().Path() == "fmt" && strings.HasPrefix(callee.Name(), "Fprint")
}

func runErr1(c *Ctx) {
	p := c.P
	flow := NewFlow(p)
	for _, src := range errSources(p, true) {
		if !p.Reachable(src.Fn) {
			c.Info(src.Key, src.Call.Pos(), "function is not reachable from the API; not checked")
			continue
		}
		call, isVal := src.Call.(*ssa.Call)
		if !isVal {
			c.Fail(src.Key, src.Call.Pos(), "error-returning call used as a defer/go statement: its error cannot be observed")
			continue
		}
		ev, _ := errResultOf(call)
		if ev == nil {
			if why := errException(p, src.Fn, src.Call); why != "" {
				c.Pass(src.Key, src.Call.Pos(), "exception: %s", why)
				continue
			}
			c.Fail(src.Key, src.Call.Pos(), "the error result of %s is discarded (never bound to a value)", src.Name)
			continue
		}
		var sink, tested, escaped, rendered bool
		flow.Forward(ev, func(user ssa.Instruction, v ssa.Value) []ssa.Value {
			switch u := user.(type) {
			case *ssa.Return:
				for i, r := range u.Results {
					if r == v && isErrorType(u.Parent().Signature.Results().At(i).Type()) {
						sink = true
					}
				}
			case *ssa.BinOp:
				if (u.Op == token.EQL || u.Op == token.NEQ) && (isNilConst(u.X) || isNilConst(u.Y)) {
					for _, rr := range *u.Referrers() {
						if _, ok := rr.(*ssa.If); ok {
							tested = true
						}
					}
					// err == nil returned as verdict etc.
					if !tested && len(*u.Referrers()) > 0 {
						tested = true
					}
				}
			case *ssa.Store:
				if _, ok := u.Addr.(*ssa.FieldAddr); ok {
					return nil // field loads are followed by Forward itself
				}
				escaped = true
			case ssa.CallInstruction:
				callee := u.Common().StaticCallee()
				if isErrorfLike(callee) {
					if cv, ok := u.(*ssa.Call); ok {
						return []ssa.Value{cv}
					}
				}
				if isFprintf(callee) {
					rendered = true
					return nil
				}
				escaped = true
			case *ssa.TypeAssert:
				tested = true
			case *ssa.Send, *ssa.MapUpdate:
				escaped = true
			case *ssa.Extract, *ssa.DebugRef:
			}
			return nil
		})
		top := src.Fn
		for top.Parent() != nil {
			top = top.Parent()
		}
		switch {
		case sink || tested || escaped:
			how := "tested against nil"
			if sink {
				how = "forwarded to an error result"
			} else if escaped {
				how = "handed on"
			}
			c.Pass(src.Key, src.Call.Pos(), "error of %s is %s", src.Name, how)
		case rendered && p.FnKey(top) == "(*db.Database).Info":
			c.Pass(src.Key, src.Call.Pos(), "Info renders the error into its text")
		default:
			if why := errException(p, src.Fn, src.Call); why != "" {
				c.Pass(src.Key, src.Call.Pos(), "exception: %s", why)
				continue
			}
			c.Fail(src.Key, src.Call.Pos(), "the error of %s is bound but never tested, returned or stored where it is read back: a read failure here is silently lost", src.Name)
		}
	}
}

// isNonNilErrorStoreToShared: a store of a value that is not the nil constant into an error-typed captured cell or field.
func isSharedErrorStore(in ssa.Instruction) bool {
	s, ok := in.(*ssa.Store)
	if !ok || isNilConst(s.Val) {
		return false
	}
	if !isErrorType(s.Val.Type()) {
		return false
	}
	switch a := s.Addr.(type) {
	case *ssa.FreeVar:
		return true
	case *ssa.Alloc:
		return isCapturedCell(a)
	case *ssa.FieldAddr:
		return true
	case *ssa.Parameter:
		// an out-parameter `*error` the caller handed in
		return true
	case *ssa.UnOp:
		// … or a closure's captured copy of one
		if _, isFV := a.X.(*ssa.FreeVar); isFV && a.Op == token.MUL {
			return true
		}
	}
	return false
}

func runErr2(c *Ctx) {
	p := c.P
	for _, fn := range p.ModFuncs() {
		if !errFn(p, fn) {
			continue
		}
		n := 0
		for _, b := range fn.Blocks {
			if len(b.Instrs) == 0 {
				continue
			}
			t := nilTestOf(b.Instrs[len(b.Instrs)-1])
			if t == nil || !isErrorType(t.V.Type()) {
				continue
			}
			n++
			key := fmt.Sprintf("%s test#%d", p.FnKey(fn), n)
			if !p.Reachable(fn) {
				c.Info(key, t.If.Pos(), "function not reachable from the API")
				continue
			}
			top := fn
			for top.Parent() != nil {
				top = top.Parent()
			}
			isInfo := p.FnKey(top) == "(*db.Database).Info"
			hasErrResult := lastResultIsError(fn.Signature)
			bad := ""
			var badPos token.Pos
			latched := func(ps *pathState) bool { return false }
			_ = latched
			// walk the failing edge
			type st struct{ latched, rendered bool }
			pv := &pathVisitor{}
			states := map[*pathState]*st{}
			get := func(ps *pathState) *st {
				s := states[ps]
				if s == nil {
					s = &st{}
					states[ps] = s
				}
				return s
			}
			// pathState is cloned on forks; carry flags through the Cells map using sentinel keys instead of pointer identity
			var latchKey, renderKey ssa.Alloc
			_ = get
			pv.OnInstr = func(in ssa.Instruction, ps *pathState) bool {
				if isSharedErrorStore(in) {
					ps.Cells[&latchKey] = nil
				}
				if cs, ok := in.(ssa.CallInstruction); ok && isInfo && isFprintf(cs.Common().StaticCallee()) {
					ps.Cells[&renderKey] = nil
				}
				return true
			}
			pv.OnExit = func(ret *ssa.Return, ps *pathState) {
				if ret == nil || bad != "" {
					return
				}
				if _, ok := ps.Cells[&latchKey]; ok {
					return
				}
				if _, ok := ps.Cells[&renderKey]; ok {
					return
				}
				if !hasErrResult {
					bad = "returns without recording the error (the function has no error result and nothing non-nil is stored into a captured cell or field on this path)"
					badPos = ret.Pos()
					return
				}
				v := ps.Resolve(ret.Results[len(ret.Results)-1])
				if isNilConst(v) {
					bad = "returns a nil error"
					badPos = ret.Pos()
				}
			}
			pv.OnBackEdge = func(from, to *ssa.BasicBlock, ps *pathState) {}
			enumPaths(t.NonNil, 0, pv)
			if pv.Overflow {
				c.Undecided(key, t.If.Pos(), "too many paths from the failing edge")
				continue
			}
			if bad == "" {
				c.Pass(key, t.If.Pos(), "failing edge of the error test at %s: every path returns a non-nil error or latches one", p.Pos(t.If.Pos()))
				continue
			}
			if why := errException(p, fn, originCall(t.V)); why != "" {
				c.Pass(key, t.If.Pos(), "exception: %s", why)
				continue
			}
			c.Fail(key, t.If.Pos(), "error tested at %s, but on the non-nil edge the function %s at %s: the failure is swallowed and the caller sees success", p.Pos(t.If.Pos()), bad, p.Pos(badPos))
		}
	}
}

// originCall returns the call an error value comes from, if it is directly a call result.
func originCall(v ssa.Value) ssa.CallInstruction {
	switch x := v.(type) {
	case *ssa.Call:
		return x
	case *ssa.Extract:
		if c, ok := x.Tuple.(*ssa.Call); ok {
			return c
		}
	}
	return nil
}

// ---- SKIP ------------------------------------------------------------------------------------

func isModFuncType(t types.Type, pkg, name string) bool {
	n, ok := t.(*types.Named)
	if !ok {
		return false
	}
	if _, ok := n.Underlying().(*types.Signature); !ok {
		return false
	}
	return n.Obj().Name() == name && n.Obj().Pkg() != nil && n.Obj().Pkg().Path() == modPkgPath(pkg)
}

// userCBFreeVars returns the free variables of fn holding a user's row callback (RowCB / RowDoneCB).
func userCBFreeVars(fn *ssa.Function) []*ssa.FreeVar {
	var out []*ssa.FreeVar
	for _, fv := range fn.FreeVars {
		t := fv.Type()
		if pt, ok := t.(*types.Pointer); ok {
			t = pt.Elem()
		}
		if isModFuncType(t, ".", "RowCB") || isModFuncType(t, ".", "RowDoneCB") {
			out = append(out, fv)
		}
	}
	return out
}

// callsValueOf: the call's callee value is a load of the given cell (free variable / alloc).
func callsCell(cs ssa.CallInstruction, cell ssa.Value) bool {
	v := cs.Common().Value
	if cs.Common().IsInvoke() || v == nil {
		return false
	}
	if u, ok := v.(*ssa.UnOp); ok && u.Op.String() == "*" && u.X == cell {
		return true
	}
	return v == cell
}

func runSkip1(c *Ctx) {
	p := c.P
	for _, fn := range p.ModFuncs() {
		if p.PkgShort(fn) != "." || fn.Parent() == nil {
			continue
		}
		cbs := userCBFreeVars(fn)
		if len(cbs) == 0 {
			continue
		}
		// adapter closures: func(Record) bool or func(int64, Record) bool
		res := fn.Signature.Results()
		if res.Len() != 1 || !types.Identical(res.At(0).Type(), types.Typ[types.Bool]) {
			continue
		}
		takesRecord := false
		for i := 0; i < fn.Signature.Params().Len(); i++ {
			if typeIs(fn.Signature.Params().At(i).Type(), modPkgPath("db"), "Record") {
				takesRecord = true
			}
		}
		if !takesRecord {
			continue
		}
		key := p.FnKey(fn)
		var calledKey, latchKey ssa.Alloc
		bad := ""
		var badPos token.Pos
		pv := &pathVisitor{
			OnInstr: func(in ssa.Instruction, ps *pathState) bool {
				if cs, ok := in.(ssa.CallInstruction); ok {
					for _, fv := range cbs {
						if callsCell(cs, fv) {
							ps.Cells[&calledKey] = nil
						}
					}
				}
				if isSharedErrorStore(in) {
					ps.Cells[&latchKey] = nil
				}
				return true
			},
			OnExit: func(ret *ssa.Return, ps *pathState) {
				if ret == nil || bad != "" {
					return
				}
				if _, ok := ps.Cells[&calledKey]; ok {
					return
				}
				if _, ok := ps.Cells[&latchKey]; ok {
					if b, isC := constBool(ps.Resolve(ret.Results[0])); isC && b {
						return
					}
					bad = "records an error but answers `continue`"
					badPos = ret.Pos()
					return
				}
				bad = "returns without delivering the row to the user's callback and without recording an error"
				badPos = ret.Pos()
			},
		}
		enumPaths(fn.Blocks[0], 0, pv)
		if pv.Overflow {
			c.Undecided(key, fn.Pos(), "too many paths")
			continue
		}
		if bad != "" {
			c.Fail(key, badPos, "a path through this scan adapter %s (return at %s): the row is silently missing from the result", bad, p.Pos(badPos))
		} else {
			c.Pass(key, fn.Pos(), "every path calls the user's row callback, or latches an error and stops")
		}
	}
}

// ---- DONE ------------------------------------------------------------------------------------

func returnsBoolError(sig *types.Signature) bool {
	r := sig.Results()
	return r.Len() == 2 && types.Identical(r.At(0).Type(), types.Typ[types.Bool]) && isErrorType(r.At(1).Type())
}

func runDone1(c *Ctx) {
	p := c.P
	for _, fn := range p.ModFuncs() {
		if p.PkgShort(fn) != "db" || !returnsBoolError(fn.Signature) {
			continue
		}
		count := map[string]int{}
		for _, cs := range callsIn(fn) {
			call, ok := cs.(*ssa.Call)
			if !ok || !returnsBoolError(call.Call.Signature()) {
				continue
			}
			name := calleeName(p, cs)
			count[name]++
			key := p.FnKey(fn) + "→" + name
			if count[name] > 1 {
				key += fmt.Sprintf("#%d", count[name])
			}
			if !p.Reachable(fn) {
				c.Info(key, cs.Pos(), "not reachable from the API")
				continue
			}
			var d ssa.Value
			for _, r := range *call.Referrers() {
				if e, ok := r.(*ssa.Extract); ok && e.Index == 0 {
					d = e
				}
			}
			if d == nil {
				c.Fail(key, cs.Pos(), "the done result of %s is discarded: the level above keeps iterating after the callback asked to stop", name)
				continue
			}
			// walk every path from the call: before any further call, loop back-edge or return, the function must
			// return d itself, leave through the failing edge of the call's own error test, or test d — and on
			// d == true go straight to a return of d/true with no call in between.
			var ev ssa.Value
			for _, r := range *call.Referrers() {
				if e, ok := r.(*ssa.Extract); ok && e.Index == 1 {
					ev = e
				}
			}
			var testedKey, errKey, trueKey ssa.Alloc
			bad := ""
			var badPos token.Pos
			has := func(ps *pathState, k *ssa.Alloc) bool { _, ok := ps.Cells[k]; return ok }
			pv := &pathVisitor{
				OnInstr: func(in ssa.Instruction, ps *pathState) bool {
					if bad != "" {
						return false
					}
					if has(ps, &testedKey) && !has(ps, &trueKey) {
						return false // done was false: nothing more to require on this path
					}
					if ci, isCall := in.(ssa.CallInstruction); isCall {
						if _, isDefer := ci.(*ssa.Defer); isDefer {
							return true
						}
						if has(ps, &trueKey) {
							bad = "calls " + calleeName(p, ci) + " after the inner iteration reported done=true"
						} else if !has(ps, &errKey) {
							bad = "goes on to call " + calleeName(p, ci) + " without having looked at done"
						} else {
							return false
						}
						badPos = ci.Pos()
						return false
					}
					return true
				},
				OnEdge: func(from *ssa.BasicBlock, k int, next *pathState) bool {
					iff, ok := from.Instrs[len(from.Instrs)-1].(*ssa.If)
					if !ok {
						return true
					}
					// the tested value may reach the test through a phi or a local (`var done bool; if first {done, err = …}`)
					cond := next.Resolve(iff.Cond)
					if cond == d {
						next.Cells[&testedKey] = nil
						if k == 0 {
							next.Cells[&trueKey] = nil
						}
						return true
					}
					if u, ok := cond.(*ssa.UnOp); ok && u.Op == token.NOT && next.Resolve(u.X) == d {
						next.Cells[&testedKey] = nil
						if k == 1 {
							next.Cells[&trueKey] = nil
						}
						return true
					}
					if t := nilTestOf(iff); t != nil && ev != nil && next.Resolve(t.V) == ev && from.Succs[k] == t.NonNil {
						next.Cells[&errKey] = nil
					}
					return true
				},
				OnExit: func(ret *ssa.Return, ps *pathState) {
					if ret == nil || bad != "" {
						return
					}
					v := ps.Resolve(ret.Results[0])
					if has(ps, &trueKey) {
						if v == d {
							return
						}
						if b, isC := constBool(v); isC && b {
							return
						}
						bad = "returns done=" + v.String() + " although the inner iteration reported done=true"
						badPos = ret.Pos()
						return
					}
					if v == d || has(ps, &errKey) || has(ps, &testedKey) {
						return
					}
					bad = "returns done=" + v.String() + " without having looked at the inner iteration's done"
					badPos = ret.Pos()
				},
				OnBackEdge: func(from, to *ssa.BasicBlock, ps *pathState) {
					if bad != "" {
						return
					}
					if has(ps, &trueKey) {
						bad = "continues its loop after the inner iteration reported done=true"
						badPos = from.Instrs[len(from.Instrs)-1].Pos()
					} else if !has(ps, &testedKey) && !has(ps, &errKey) {
						bad = "continues its loop without having looked at done"
						badPos = from.Instrs[len(from.Instrs)-1].Pos()
					}
				},
			}
			enumPaths(call.Block(), instrIndex(call)+1, pv)
			if pv.Overflow {
				c.Undecided(key, cs.Pos(), "too many paths")
				continue
			}
			if bad != "" {
				c.Fail(key, badPos, "after %s returns, the function %s (at %s): the callback can be invoked again after it asked to stop", name, bad, p.Pos(badPos))
			} else {
				c.Pass(key, cs.Pos(), "done of %s is returned as-is, or tested before anything else happens and on true leads straight to a return of done with no call in between", name)
			}
		}
	}
}

func isUserDoneCBType(t types.Type) bool {
	return isModFuncType(t, "db", "TableScanCB") || isModFuncType(t, "db", "RecordCB") || isModFuncType(t, ".", "RowDoneCB")
}

func runDone2(c *Ctx) {
	p := c.P
	for _, fn := range p.ModFuncs() {
		pk := p.PkgShort(fn)
		if pk != "db" && pk != "." {
			continue
		}
		if !p.Reachable(fn) {
			continue
		}
		count := 0
		for _, cs := range callsIn(fn) {
			call, ok := cs.(*ssa.Call)
			if !ok || call.Call.IsInvoke() {
				continue
			}
			if !isUserDoneCBType(call.Call.Value.Type()) {
				continue
			}
			count++
			key := fmt.Sprintf("%s user-callback#%d", p.FnKey(fn), count)
			// every path from the call to a return returns the call's result as the bool result
			bad := ""
			pv := &pathVisitor{
				OnExit: func(ret *ssa.Return, ps *pathState) {
					if ret == nil || bad != "" {
						return
					}
					if len(ret.Results) == 0 {
						bad = "returns nothing"
						return
					}
					v := ps.Resolve(ret.Results[0])
					if v != ssa.Value(call) {
						bad = "returns " + v.String() + " at " + p.Pos(ret.Pos()) + " instead of the callback's answer"
					}
				},
				OnBackEdge: func(from, to *ssa.BasicBlock, ps *pathState) {
					if bad == "" {
						bad = "loops on after the callback"
					}
				},
			}
			enumPaths(call.Block(), instrIndex(call)+1, pv)
			top := fn
			for top.Parent() != nil {
				top = top.Parent()
			}
			if bad != "" && p.FnKey(top) == "(*db.Database).Info" {
				c.Pass(key, call.Pos(), "exception: Info's own callbacks are the user callbacks")
				continue
			}
			c.Check(bad == "", key, call.Pos(), "the user callback's done answer %s", orStr(bad, "is returned as this adapter's done result on every path"))
		}
	}
}

// runDone2b: the adapters around a user callback that has no result (RowCB: the caller cannot ask to stop): after
// handing a row to it the adapter answers "go on" on every path — `return true` there would end an equality or range
// scan after its first row.
func runDone2b(c *Ctx) {
	p := c.P
	n := 0
	for _, fn := range p.ModFuncs() {
		if p.PkgShort(fn) != "." || !p.Reachable(fn) {
			continue
		}
		res := fn.Signature.Results()
		if res.Len() == 0 {
			continue
		}
		if b, ok := res.At(0).Type().Underlying().(*types.Basic); !ok || b.Kind() != types.Bool {
			continue
		}
		count := 0
		for _, cs := range callsIn(fn) {
			call, ok := cs.(*ssa.Call)
			if !ok || call.Call.IsInvoke() || !isModFuncType(call.Call.Value.Type(), ".", "RowCB") {
				continue
			}
			count++
			n++
			key := fmt.Sprintf("%s row-callback#%d", p.FnKey(fn), count)
			bad := ""
			pv := &pathVisitor{
				OnExit: func(ret *ssa.Return, ps *pathState) {
					if ret == nil || bad != "" || len(ret.Results) == 0 {
						return
					}
					if b, isC := constBool(ps.Resolve(ret.Results[0])); !isC || b {
						bad = "returns " + ps.Resolve(ret.Results[0]).String() + " at " + p.Pos(ret.Pos())
					}
				},
				OnBackEdge: func(from, to *ssa.BasicBlock, ps *pathState) {
					if bad == "" {
						bad = "loops on after the callback"
					}
				},
			}
			enumPaths(call.Block(), instrIndex(call)+1, pv)
			c.Check(bad == "", key, call.Pos(), "after the row went to a callback that cannot ask to stop, the adapter answers `go on` (false) %s", orStr(bad, "on every path"))
		}
	}
	if n == 0 {
		c.Undecided("row-callback adapters", token.NoPos, "no adapter around a RowCB found")
	}
}

func runDone3(c *Ctx) {
	p := c.P
	for _, fn := range p.ModFuncs() {
		if p.PkgShort(fn) != "db" || !p.Reachable(fn) {
			continue
		}
		r := fn.Signature.Results()
		if r.Len() != 1 || !isErrorType(r.At(0).Type()) {
			continue
		}
		for _, cs := range callsIn(fn) {
			call, ok := cs.(*ssa.Call)
			if !ok || !returnsBoolError(call.Call.Signature()) || !call.Call.IsInvoke() {
				continue
			}
			if !typeIs(call.Call.Value.Type(), modPkgPath("db"), "tableBtree") && !typeIs(call.Call.Value.Type(), modPkgPath("db"), "indexBtree") {
				continue
			}
			key := p.FnKey(fn) + "→" + calleeName(p, cs)
			var ev ssa.Value
			for _, rr := range *call.Referrers() {
				if e, ok := rr.(*ssa.Extract); ok && e.Index == 1 {
					ev = e
				}
			}
			bad := ""
			pv := &pathVisitor{
				OnExit: func(ret *ssa.Return, ps *pathState) {
					if ret == nil || bad != "" {
						return
					}
					v := ps.Resolve(ret.Results[0])
					if v != ev {
						bad = "returns " + v.String() + " at " + p.Pos(ret.Pos())
					}
				},
			}
			enumPaths(call.Block(), instrIndex(call)+1, pv)
			c.Check(bad == "" && ev != nil, key, call.Pos(), "after the iteration the scan %s", orStr(bad, "returns exactly the iteration's error: an early stop (done=true, nil) yields a nil error"))
		}
	}
}

// sentinelFuncs: functions that report an error through a sentinel value of one of their results (confirmed by
// reading). Result index and sentinel value.
var sentinelFuncs = map[string]struct {
	Result   int
	Sentinel int64
}{
	"sql.readNumericLiteral": {1, -1},
}

func runErrSentinel(c *Ctx) {
	p := c.P
	for _, name := range sortedKeys(sentinelFuncs) {
		spec := sentinelFuncs[name]
		fn := findFn(p, name)
		if fn == nil {
			c.Undecided("anchor "+name, token.NoPos, "function not found (renamed or removed): its error convention has to be confirmed again")
			continue
		}
		if lastResultIsError(fn.Signature) {
			c.Trivial(name+" has an error result", fn.Pos(), "the function now returns an error; ERR-1/ERR-2 judge it")
			continue
		}
		dominatedReturns := func(from *ssa.BasicBlock) ([]*ssa.Return, bool) {
			var rets []*ssa.Return
			seen := map[*ssa.BasicBlock]bool{}
			closed := true
			var walk func(b *ssa.BasicBlock)
			walk = func(b *ssa.BasicBlock) {
				if seen[b] {
					return
				}
				seen[b] = true
				if b != from && !from.Dominates(b) {
					closed = false
					return
				}
				if r, ok := b.Instrs[len(b.Instrs)-1].(*ssa.Return); ok {
					rets = append(rets, r)
				}
				for _, s := range b.Succs {
					walk(s)
				}
			}
			walk(from)
			return rets, closed
		}
		// the producer's half
		n := 0
		for _, cs := range callsIn(fn) {
			if !lastResultIsError(cs.Common().Signature()) {
				continue
			}
			n++
			key := fmt.Sprintf("%s→%s#%d", name, calleeName(p, cs), n)
			call, ok := cs.(*ssa.Call)
			if !ok {
				c.Fail(key, cs.Pos(), "the error of a deferred or spawned call cannot be reported")
				continue
			}
			var errV ssa.Value
			if call.Call.Signature().Results().Len() == 1 {
				errV = call
			} else {
				for _, r := range *call.Referrers() {
					if e, ok := r.(*ssa.Extract); ok && e.Index == call.Call.Signature().Results().Len()-1 {
						errV = e
					}
				}
			}
			var test *nilTest
			if errV != nil {
				for _, b := range fn.Blocks {
					if t := nilTestOf(b.Instrs[len(b.Instrs)-1]); t != nil && t.V == errV {
						test = t
					}
				}
			}
			if test == nil {
				c.Fail(key, call.Pos(), "the error of %s is not tested: a number that does not parse would be reported as a token (value 0)", calleeName(p, cs))
				continue
			}
			rets, closed := dominatedReturns(test.NonNil)
			bad := ""
			if !closed || len(rets) == 0 || len(test.NonNil.Preds) != 1 {
				bad = "the failing edge does not end in returns of its own"
			}
			for _, r := range rets {
				if k, ok := constInt(r.Results[spec.Result]); !ok || k != spec.Sentinel {
					bad = fmt.Sprintf("the failing edge returns %s at %s, not the sentinel %d", (&Termer{P: p}).Term(r.Results[spec.Result], emptyPS()), p.Pos(r.Pos()), spec.Sentinel)
				}
			}
			c.Check(bad == "", key, call.Pos(), "when %s fails the function returns the sentinel %d in result %d %s", calleeName(p, cs), spec.Sentinel, spec.Result, map[bool]string{true: "", false: "— " + bad}[bad == ""])
		}
		// the consumers' half
		m := 0
		for _, caller := range p.ModFuncs() {
			for _, cs := range callsIn(caller) {
				if cs.Common().StaticCallee() != fn {
					continue
				}
				m++
				key := fmt.Sprintf("%s→%s#%d", p.FnKey(caller), name, m)
				call, ok := cs.(*ssa.Call)
				if !ok {
					c.Fail(key, cs.Pos(), "the sentinel of a deferred or spawned call cannot be looked at")
					continue
				}
				var sent *ssa.Extract
				var others []ssa.Instruction
				for _, r := range *call.Referrers() {
					if e, ok := r.(*ssa.Extract); ok {
						if e.Index == spec.Result {
							sent = e
						} else {
							others = append(others, *e.Referrers()...)
						}
					}
				}
				if sent == nil {
					c.Fail(key, call.Pos(), "result %d (the sentinel) is not looked at", spec.Result)
					continue
				}
				// the test: `l < 0`, `l == -1`, `l <= -1` (or the mirrored / negated spellings)
				var failing *ssa.BasicBlock
				var testBlk *ssa.BasicBlock
				for _, r := range *sent.Referrers() {
					bo, ok := r.(*ssa.BinOp)
					if !ok {
						others = append(others, r)
						continue
					}
					k, isK := constInt(bo.Y)
					if !isK || bo.X != ssa.Value(sent) {
						others = append(others, r)
						continue
					}
					// on which outcome of the comparison is the value certainly the sentinel-or-negative?
					var onTrue, onFalse bool
					switch {
					case bo.Op == token.LSS && k <= 0 && k > spec.Sentinel, bo.Op == token.LEQ && k < 0 && k >= spec.Sentinel, bo.Op == token.EQL && k == spec.Sentinel:
						onTrue = true
					case bo.Op == token.GEQ && k <= 0 && k > spec.Sentinel, bo.Op == token.GTR && k < 0 && k >= spec.Sentinel, bo.Op == token.NEQ && k == spec.Sentinel:
						onFalse = true
					}
					found := false
					for _, u := range *bo.Referrers() {
						if i, ok := u.(*ssa.If); ok && (onTrue || onFalse) {
							testBlk = i.Block()
							if onTrue {
								failing = i.Block().Succs[0]
							} else {
								failing = i.Block().Succs[1]
							}
							found = true
						}
					}
					if !found {
						others = append(others, r)
					}
				}
				if failing == nil {
					c.Fail(key, call.Pos(), "the length result is never compared with the sentinel %d: a number that does not parse goes on as a token", spec.Sentinel)
					continue
				}
				bad := ""
				rets, closed := dominatedReturns(failing)
				if !closed || len(rets) == 0 || len(failing.Preds) != 1 {
					bad = "the sentinel's edge does not end in returns of its own"
				}
				for _, r := range rets {
					e := r.Results[len(r.Results)-1]
					if !isErrorType(e.Type()) || err6Fine(caller, r.Block(), e, func(ssa.Value) bool { return false }, map[ssa.Value]bool{}) == "" {
						bad = "on the sentinel's edge the caller returns at " + p.Pos(r.Pos()) + " without a non-nil error"
					}
				}
				// nothing uses the token or the length before the test
				for _, u := range others {
					if u.Block() == nil || u.Block() == testBlk {
						continue
					}
					if !testBlk.Dominates(u.Block()) {
						bad = "a result is used at " + p.Pos(u.Pos()) + " before the sentinel is tested"
					}
				}
				c.Check(bad == "", key, call.Pos(), "the caller turns the sentinel into an error before it uses the token %s", map[bool]string{true: "", false: "— " + bad}[bad == ""])
			}
		}
	}
}

// runErr7: `for … { x, err = f(i) }; return err` reports the last iteration's error only.
func runErr7(c *Ctx) {
	p := c.P
	n := 0
	for _, src := range errSources(p, false) {
		call, ok := src.Call.(*ssa.Call)
		if !ok || !inCycle(call.Block()) {
			continue
		}
		var errV ssa.Value
		res := call.Call.Signature().Results()
		if res.Len() == 1 {
			errV = call
		} else {
			for _, r := range *call.Referrers() {
				if e, ok := r.(*ssa.Extract); ok && e.Index == res.Len()-1 {
					errV = e
				}
			}
		}
		if errV == nil {
			continue // ERR-1's business
		}
		n++
		looked := false
		var carried *ssa.Phi
		seen := map[ssa.Value]bool{}
		var visit func(v ssa.Value)
		visit = func(v ssa.Value) {
			if seen[v] || v.Referrers() == nil {
				return
			}
			seen[v] = true
			for _, r := range *v.Referrers() {
				switch x := r.(type) {
				case *ssa.DebugRef:
				case *ssa.Phi:
					if x.Block().Dominates(call.Block()) && inCycle(x.Block()) {
						carried = x
					}
					visit(x)
				default:
					looked = true
				}
			}
		}
		visit(errV)
		// a phi that merges the value at the loop's header: is the merged value ever anything but carried on?
		if carried != nil {
			// something other than phis and returns after the loop looked at the value itself (not the merge)
			direct := false
			for _, r := range *errV.Referrers() {
				switch r.(type) {
				case *ssa.DebugRef, *ssa.Phi:
				default:
					direct = true
				}
			}
			if !direct {
				c.Fail(src.Key+" in loop", call.Pos(), "the error of %s is only carried into the next iteration of the loop (merged at %s), where the next result replaces it: of all the iterations only the last one's failure is reported", src.Name, p.Pos(carried.Pos()))
				continue
			}
		}
		_ = looked
		c.Pass(src.Key+" in loop", call.Pos(), "looked at in the iteration that obtained it")
	}
	if n == 0 {
		c.Pass("no error-producing call inside a loop", token.NoPos, "nothing to decide")
	}
}

func runNumLit(c *Ctx) {
	p := c.P
	fn := c.MustFunc("sql", "readNumericLiteral")
	if fn == nil {
		return
	}
	fns := []*ssa.Function{fn}
	for _, cs := range callsIn(fn) {
		if cal := cs.Common().StaticCallee(); cal != nil && inlinable != nil && inlinable(cal) {
			fns = append(fns, cal)
		}
	}
	n := 0
	for _, f := range fns {
		for _, cs := range callsIn(f) {
			cal := cs.Common().StaticCallee()
			if cal == nil || !(isLibFunc(cal, "strconv", "ParseInt") || isLibFunc(cal, "strconv", "ParseUint")) {
				continue
			}
			n++
			key := fmt.Sprintf("%s→%s#%d", p.FnKey(f), calleeName(p, cs), n)
			base, isC := constInt(cs.Common().Args[1])
			switch {
			case !isC:
				c.Undecided(key, cs.Pos(), "the base is not a constant")
			case base == 10:
				c.Pass(key, cs.Pos(), "decimal")
			case base == 16:
				// only for the digits after a 0x prefix
				sl, ok := cs.Common().Args[0].(*ssa.Slice)
				lo := int64(-1)
				if ok && sl.Low != nil {
					lo, _ = constInt(sl.Low)
				}
				c.Check(lo == 2, key, cs.Pos(), "hexadecimal digits are what follows the two characters of the 0x prefix (the string handed over starts at %d)", lo)
			default:
				c.Fail(key, cs.Pos(), "the literal is parsed with base %d: with base 0 Go's own syntax decides — `DEFAULT 010` becomes 8 (SQLite: 10), and 0b/0o prefixes and underscores are taken for numbers", base)
			}
		}
	}
	if n == 0 {
		c.Undecided("integer literals", fn.Pos(), "readNumericLiteral no longer parses integers with strconv.ParseInt/ParseUint")
	}
}
