package chk

import (
	"fmt"
	"go/ast"
	"go/constant"
	"go/importer"
	"go/parser"
	"go/token"
	"go/types"
	"sort"

	"golang.org/x/tools/go/ssa"
	"golang.org/x/tools/go/ssa/ssautil"
)

func flagsetRules() []*Rule {
	return []*Rule{
		{ID: "FLAGSET", Props: []string{"C10", "C16"}, Min: 1,
			Doc: "a value of a flag-set type (a named integer type of the module whose constants are distinct single bits and whose values are combined with `|` somewhere) is never tested with == or != against one flag: where two options can be combined, `set == optA` is false for `optA|optB` (a table with STRICT and WITHOUT ROWID would be read as a rowid table)",
			Run: runFlagset},
	}
}

// flagsetFixture is analysed on every run: the detector must find its one comparison, or the rule is not trusted.
const flagsetFixture = `package fixture

type opt int

const (
	optA opt = 1 << iota
	optB
)

func join(a, b opt) opt { return a | b }

func isA(o opt) bool { return o == optA }

func hasA(o opt) bool { return o&optA != 0 }
`

// flagsetHits lists the equality tests of flag-set values against a single non-zero flag in the given functions.
func flagsetHits(fns []*ssa.Function, inScope func(*types.Named) bool) []*ssa.BinOp {
	// flag-set types: named integer types with ≥ 2 constants, all distinct single bits, and an OR over values of the type
	consts := map[*types.Named][]int64{}
	seenPkg := map[*types.Package]bool{}
	for _, fn := range fns {
		if fn.Pkg == nil || seenPkg[fn.Pkg.Pkg] {
			continue
		}
		seenPkg[fn.Pkg.Pkg] = true
		sc := fn.Pkg.Pkg.Scope()
		for _, name := range sc.Names() {
			cn, ok := sc.Lookup(name).(*types.Const)
			if !ok {
				continue
			}
			nt, ok := cn.Type().(*types.Named)
			if !ok || !inScope(nt) {
				continue
			}
			if b, ok := nt.Underlying().(*types.Basic); !ok || b.Info()&types.IsInteger == 0 {
				continue
			}
			if v, exact := constant.Int64Val(cn.Val()); exact {
				consts[nt] = append(consts[nt], v)
			}
		}
	}
	isFlagSet := map[*types.Named]bool{}
	for nt, vs := range consts {
		if len(vs) < 2 {
			continue
		}
		ok := true
		seen := map[int64]bool{}
		for _, v := range vs {
			if v <= 0 || v&(v-1) != 0 || seen[v] {
				ok = false
			}
			seen[v] = true
		}
		if ok {
			isFlagSet[nt] = true
		}
	}
	ored := map[*types.Named]bool{}
	for _, fn := range fns {
		for _, in := range instrs(fn) {
			if bo, ok := in.(*ssa.BinOp); ok && bo.Op == token.OR {
				if nt, ok := bo.Type().(*types.Named); ok && isFlagSet[nt] {
					ored[nt] = true
				}
			}
		}
	}
	var out []*ssa.BinOp
	for _, fn := range fns {
		for _, in := range instrs(fn) {
			bo, ok := in.(*ssa.BinOp)
			if !ok || (bo.Op != token.EQL && bo.Op != token.NEQ) {
				continue
			}
			for _, pair := range [][2]ssa.Value{{bo.X, bo.Y}, {bo.Y, bo.X}} {
				v, k := pair[0], pair[1]
				nt, ok := v.Type().(*types.Named)
				if !ok || !isFlagSet[nt] || !ored[nt] {
					continue
				}
				if _, isC := v.(*ssa.Const); isC {
					continue
				}
				kc, isC := k.(*ssa.Const)
				if !isC || kc.Value == nil {
					continue
				}
				if n, exact := constant.Int64Val(kc.Value); exact && n != 0 {
					// `x&flag == flag` is a mask test, not a comparison of the set
					if and, isAnd := v.(*ssa.BinOp); isAnd && and.Op == token.AND {
						continue
					}
					out = append(out, bo)
				}
			}
		}
	}
	sort.Slice(out, func(i, j int) bool { return out[i].Pos() < out[j].Pos() })
	return out
}

func runFlagset(c *Ctx) {
	p := c.P
	// the fixture first
	fset := token.NewFileSet()
	f, err := parser.ParseFile(fset, "fixture.go", flagsetFixture, 0)
	if err != nil {
		c.Undecided("fixture", token.NoPos, "the built-in example does not parse: %v", err)
		return
	}
	pkg := types.NewPackage("fixture", "fixture")
	spkg, _, err := ssautil.BuildPackage(&types.Config{Importer: importer.Default()}, fset, pkg, []*ast.File{f}, ssa.BuilderMode(0))
	if err != nil {
		c.Undecided("fixture", token.NoPos, "the built-in example does not build: %v", err)
		return
	}
	var ffns []*ssa.Function
	for _, m := range spkg.Members {
		if fn, ok := m.(*ssa.Function); ok {
			ffns = append(ffns, fn)
		}
	}
	hits := flagsetHits(ffns, func(*types.Named) bool { return true })
	if len(hits) != 1 || hits[0].Parent().Name() != "isA" {
		c.Undecided("fixture", token.NoPos, "the detector finds %d comparisons in the built-in example (expected the one in isA): the rule is not trusted", len(hits))
		return
	}
	c.Pass("fixture", token.NoPos, "the detector finds the one `set == flag` of the built-in example and not its mask test")
	real := flagsetHits(p.ModFuncs(), func(nt *types.Named) bool {
		return nt.Obj().Pkg() != nil && (nt.Obj().Pkg().Path() == ModPath || len(nt.Obj().Pkg().Path()) > len(ModPath) && nt.Obj().Pkg().Path()[:len(ModPath)+1] == ModPath+"/")
	})
	for i, bo := range real {
		c.Fail(fmt.Sprintf("%s flag comparison#%d", p.FnKey(bo.Parent()), i+1), bo.Pos(), "a set of %s flags is compared with %s one flag: the test fails as soon as a second flag is set as well (use a mask)", bo.X.Type().String(), bo.Op)
	}
	if len(real) == 0 {
		c.Pass("module", token.NoPos, "no flag-set value of the module is compared with a single flag by == or !=")
	}
}
