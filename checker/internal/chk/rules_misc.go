package chk

import (
	"fmt"
	"go/token"
	"go/types"
	"regexp"
	"strings"

	"golang.org/x/tools/go/ssa"
)

func miscRules() []*Rule {
	return []*Rule{
		{ID: "RANGE", Props: []string{"C13", "C03", "C02"}, Min: 8,
			Doc: "cut-off tables of the low-level scans: ScanEq stops (without the user callback) at the first record not Equal to the key it searched with; ScanRange stops at the first record not less than `to`; ScanMin/Scan forward every record",
			Run: runRange},
		{ID: "KEY", Props: []string{"C03", "C02", "C11", "C13", "C05"}, Min: 14,
			Doc: "asDbKey: key column i takes direction and collation from index column i (validated against CollateFuncs before use), each accepted Go type maps to one of the five storage types, too many columns is an error",
			Run: runKey},
		{ID: "PKSEL", Props: []string{"C03", "C04"}, Min: 4,
			Doc: "primary-key dispatch: rowid alias ⇒ rowid lookup with key[0].(int64); otherwise the index named by Schema.PrimaryKey with a key typed by that index's columns; WITHOUT ROWID ⇒ ScanEq on the table with a key typed by Schema.PK",
			Run: runPKSel},
		{ID: "IDXCOL", Props: []string{"C10", "C03", "C02", "C11"}, Min: 3,
			Doc: "indexed-column collation: the index's own COLLATE if it names one, else the table column's declared collation looked up case-insensitively",
			Run: runIdxCol},
		{ID: "ROWIDALIAS", Props: []string{"C10", "C01"}, Min: 5,
			Doc: "rowid-alias table: INTEGER ∧ (table constraint ∨ ASC); call sites pass the right flag and are guarded by !WITHOUT ROWID; a single-column PK only",
			Run: runRowidAlias},
		{ID: "ROWMAP", Props: []string{"C01", "C02", "C04", "C14", "C18"}, Min: 5,
			Doc: "record→row mapping: rowid columns get the rowid, columns beyond the record get the column DEFAULT, others record[rowIndex]; rowid/oid/_rowid_ resolve to the rowid only when no column has that name",
			Run: runRowMap},
		{ID: "CHOMP", Props: []string{"C02", "C03", "C11"}, Min: 4,
			Doc: "index entry → table row: the rowid is the last field of the index record (an int64), the adapters look that rowid up and deliver the table row; WITHOUT ROWID adapters type the lookup key by the table's primary key",
			Run: runChomp},
		{ID: "ERR-3", Props: []string{"C12"}, Min: 4,
			Doc: "latched errors are sticky: a captured error cell written inside a callback is only ever assigned a value established non-nil",
			Run: runErr3},
		{ID: "ERR-6", Props: []string{"C12", "C01", "C02", "C19"}, Min: 6,
			Doc: "a latched error comes out: once the callback that can write an error cell has been handed over, the owner returns a possibly-nil error only after testing the cell (or returns the cell itself)",
			Run: runErr6},
		{ID: "SKIP-2", Props: []string{"C12", "C02"}, Min: 1,
			Doc: "the per-entry `found` collector of the WITHOUT ROWID adapters is fresh for every index entry",
			Run: runSkip2},
		{ID: "DONE-0", Props: []string{"C17", "C03", "C13", "C01", "C02"}, Min: 10,
			Doc: "b-tree iteration levels report done=true only when a callback or inner level did",
			Run: runDone0},
	}
}

var rePhiIdx = regexp.MustCompile(`\(phi:t\d+@[A-Za-z0-9_$]+\+const:1\)|phi:t\d+@[A-Za-z0-9_$]+`)

var reGen = regexp.MustCompile(`~\d+`)

// reInst matches the instance marker of values of a helper walked in place more than once.
var reInst = regexp.MustCompile(`\^\d+`)

func gen(s string) string { return rePhiIdx.ReplaceAllString(reGen.ReplaceAllString(s, ""), "i") }

func eventsOf(lp *LPath, kind, name string) []Event {
	var out []Event
	for _, e := range lp.Events {
		if e.Kind == kind && e.Name == name {
			out = append(out, e)
		}
	}
	return out
}

func retTerms(t *Termer, lp *LPath) []string {
	var out []string
	if lp.Exit == nil {
		return nil
	}
	for _, r := range lp.Exit.Results {
		out = append(out, reOrd.ReplaceAllString(t.Term(r, lp.PS), ""))
	}
	return out
}

func runRange(c *Ctx) {
	p := c.P
	type spec struct {
		outer, outerArg string // scanning method, the key its IterMin must search with ("" = a full Iter)
		pred            string // predicate call name ("" = none)
		predArg         string
		stopOn          bool // predicate outcome that stops the scan
	}
	for _, sp0 := range []spec{
		{"(*db.Index).ScanEq", "p:key", "db.Equals", "fv:key", false},
		{"(*db.Index).ScanRange", "p:from", "db.Search", "fv:to", true},
		{"(*db.Index).ScanMin", "p:from", "", "", false},
		{"(*db.Index).Scan", "", "", "", false},
	} {
		outer := findFn(p, sp0.outer)
		if outer == nil {
			c.Undecided("anchor "+sp0.outer, token.NoPos, "not found")
			continue
		}
		iter := "db.indexBtree.IterMin"
		if sp0.outerArg == "" {
			iter = "db.indexBtree.Iter"
		}
		// the per-record adapter: the function literal handed to the iterator (in place or made by a helper)
		fn, ft := adapterOf(p, outer, iter)
		deleg := false
		if fn == nil && sp0.pred != "" && sp0.outer != "(*db.Index).ScanMin" {
			// a scan with a cut-off written as a from-key scan that stops early: `in.ScanMin(from, func(rec) bool {…})`.
			// ScanMin forwards every record and returns the callback's answer (its own row of this table), so the
			// literal is the per-record adapter, with a single result
			if f2, t2 := adapterOf(p, outer, "(*db.Index).ScanMin"); f2 != nil {
				fn, ft, deleg = f2, t2, true
			}
		}
		if fn == nil {
			c.Undecided("anchor "+sp0.outer+" adapter", outer.Pos(), "%s does not hand a function literal to %s", sp0.outer, iter)
			continue
		}
		sp := struct {
			fn, outerArg, pred, predArg string
			stopOn                      bool
		}{sp0.outer + "$1", sp0.outerArg, sp0.pred, sp0.predArg, sp0.stopOn}
		t := ft
		paths, _ := EnumLits(fn.Blocks[0], 0, TabOpts{Termer: t, EventOf: callEventsT(p, t)})
		for _, lp := range paths {
			if lp.Exit == nil {
				continue
			}
			key := sp.fn + ":" + pathSig(lp, 99)
			rt := retTerms(t, lp)
			if deleg && len(rt) == 1 {
				rt = append(rt, "const:nil") // no error result: nothing to get wrong there
			}
			cbs := eventsOf(lp, "call", "func-value:db.RecordCB")
			delivered := len(cbs) == 1 && len(cbs[0].Args) == 1 && cbs[0].Args[0] == "p:rec"
			if sp.pred == "" {
				c.Check(delivered && rt[0] == "call:func-value:db.RecordCB" && rt[1] == "const:nil", key, lp.Exit.Pos(), "every record is forwarded to the user callback and its answer returned")
				continue
			}
			pr := eventsOf(lp, "call", sp.pred)
			if len(pr) != 1 || len(pr[0].Args) != 2 || pr[0].Args[0] != sp.predArg || pr[0].Args[1] != "p:rec" {
				c.Fail(key, lp.Exit.Pos(), "the cut-off test is not %s(%s, record)", sp.pred, sp.predArg)
				continue
			}
			outcomeTrue := lp.Has("call:"+sp.pred, token.EQL, "true", true)
			outcomeFalse := lp.Has("call:"+sp.pred, token.EQL, "true", false)
			switch {
			case (outcomeTrue && sp.stopOn) || (outcomeFalse && !sp.stopOn):
				c.Check(len(cbs) == 0 && rt[0] == "const:true" && rt[1] == "const:nil", key, lp.Exit.Pos(), "past the cut-off ⇒ stop (true, nil) without calling the user (returns %s, callback calls %d)", strings.Join(rt, ","), len(cbs))
			case outcomeTrue || outcomeFalse:
				c.Check(delivered && rt[0] == "call:func-value:db.RecordCB" && rt[1] == "const:nil", key, lp.Exit.Pos(), "inside the range ⇒ the record goes to the user callback and its answer is returned (returns %s)", strings.Join(rt, ","))
			default:
				c.Fail(key, lp.Exit.Pos(), "a record is handled without consulting the cut-off test; path [%s]", pathDesc(lp))
			}
		}
		// the outer function searches with the same key
		t = &Termer{P: p}
		opaths, _ := EnumLits(outer.Blocks[0], 0, TabOpts{Termer: t, EventOf: callEvents(p)})
		for _, lp := range opaths {
			if !cleanPath(lp) || lp.Exit == nil {
				continue
			}
			if deleg {
				ev := eventsOf(lp, "call", "(*db.Index).ScanMin")
				good := len(ev) == 1 && len(ev[0].Args) == 3 && ev[0].Args[0] == "p:"+outer.Params[0].Name() && ev[0].Args[1] == sp.outerArg
				c.Check(good, p.FnKey(outer)+" start", outer.Pos(), "the scan is a ScanMin on the same index from %s", sp.outerArg)
				continue
			}
			name := "db.indexBtree.IterMin"
			if sp.outerArg == "" {
				name = "db.indexBtree.Iter"
			}
			ev := eventsOf(lp, "call", name)
			good := len(ev) == 1 && ev[0].Args[1] == "const:31" && ev[0].Args[2] == "p:in.db"
			if good && sp.outerArg != "" {
				good = ev[0].Args[3] == sp.outerArg
			}
			op := eventsOf(lp, "call", "(*db.Database).openIndex")
			good = good && len(op) == 1 && op[0].Args[0] == "p:in.db" && op[0].Args[1] == "p:in.root"
			c.Check(good, p.FnKey(outer)+" start", outer.Pos(), "the scan opens the index's own root page and starts %s, with the recursion budget 31", map[bool]string{true: "at the beginning", false: "at the first entry not less than " + sp.outerArg}[sp.outerArg == ""])
		}
	}
}

func runKey(c *Ctx) {
	p := c.P
	fn := c.MustFunc(".", "asDbKey")
	if fn == nil {
		return
	}
	t := &Termer{P: p}
	_, paths, ok := bodyPaths(p, fn, t)
	if !ok {
		c.Undecided("asDbKey loop", fn.Pos(), "asDbKey is not a single loop over the key")
		return
	}
	kP, colsP := "p:"+fn.Params[0].Name(), "p:"+fn.Params[1].Name()
	el := colsP + "[i]"
	wantV := map[string]string{
		"nil": "const:nil", "int64": "assert(K,int64)#0", "float64": "assert(K,float64)#0", "string": "assert(K,string)#0", "[]byte": "assert(K,[]byte)#0",
		"int": "assert(K,int)#0", "uint": "conv:int64(assert(K,uint)#0)", "int32": "assert(K,int32)#0", "uint32": "assert(K,uint32)#0", "float32": "assert(K,float32)#0",
	}
	seenTypes := map[string]bool{}
	for _, lp := range paths {
		if len(lp.Unknown) > 0 {
			c.Undecided("asDbKey:"+pathSig(lp, 99), fn.Pos(), "unrecognised condition %v", lp.Unknown)
			continue
		}
		var lits []string
		for _, l := range lp.Lits {
			lits = append(lits, gen(l.String()))
		}
		ls := strings.Join(lits, " ∧ ")
		if lp.Stop == nil {
			// an error exit: too many columns, unknown collation, unknown type
			if lp.Exit != nil && retErrDefinitelyNonNil(lp, t) {
				c.Pass("asDbKey error:"+pathSig(lp, 99), lp.Exit.Pos(), "error exit on [%s]", ls)
			} else if lp.Exit != nil && func() bool {
				for _, l := range lp.Lits {
					if gen(l.Subject) == "i−len("+kP+")" && l.Op == token.LSS && l.Val {
						return true
					}
				}
				return false
			}() {
				c.Fail("asDbKey exit:"+pathSig(lp, 99), lp.Exit.Pos(), "leaves the loop with a nil error before all key columns are converted; [%s]", ls)
			}
			continue
		}
		// a converted column: which type?
		typ := ""
		for _, l := range lp.Lits {
			if strings.HasPrefix(l.Subject, "type(") && l.Op == token.EQL && l.Val {
				typ = l.C
			}
		}
		key := "asDbKey " + typ
		var problems []string
		// bounds: i ≤ len(cols)−1 established
		bounded := false
		for _, l := range lp.Lits {
			parts := strings.Split(l.Subject, "−")
			if len(parts) == 2 && gen(parts[0]) == "i" && strings.Contains(parts[1], "len("+colsP+")") {
				// whatever form the test takes (`i > len-1`, `i >= len`, `!(i < len)`): does the path entail i ≤ len(cols)−1 ?
				if bo, ok := l.Cond.(*ssa.BinOp); ok {
					pr := newProver(p, t, lp)
					if l.PS != nil {
						pr.ps = l.PS // name the operands as they were when the test was made
					}
					for _, side := range []ssa.Value{bo.X, bo.Y} {
						a := pr.linOf(side)
						if gen(a.base) == "i" && pr.g.entailsLE(a.base, "len("+colsP+")", -1-a.off) {
							bounded = true
						}
					}
				}
			}
		}
		if !bounded {
			problems = append(problems, "no check that the key has no more columns than the index")
		}
		desc := eventsOf(lp, "store", "Desc")
		if len(desc) != 1 || gen(desc[0].Val) != "("+el+".SortOrder==const:1)" || !strings.HasSuffix(gen(desc[0].Base), "[i]") {
			problems = append(problems, fmt.Sprintf("Desc of key column i is not `index column i is DESC` (%v)", evVals(desc)))
		}
		coll := eventsOf(lp, "store", "Collate")
		low := eventsOf(lp, "call", "strings.ToLower")
		// however the test is spelled (`x != ""`, `!(x == "")`)
		named := false
		for _, l := range lp.Lits {
			if reOrd.ReplaceAllString(l.Subject, "") == "call:strings.ToLower" && l.C == `""` && (l.Op == token.EQL || l.Op == token.NEQ) {
				named = (l.Op == token.NEQ) == l.Val
			}
		}
		if len(low) != 1 || gen(low[0].Args[0]) != el+".Collate" {
			problems = append(problems, "the collation consulted is not index column i's")
		}
		if named {
			if !strings.Contains(ls, "g:CollateFuncs[call:strings.ToLower]#1 == true") {
				problems = append(problems, "a collation name is used without having been found in CollateFuncs (an unknown name would call a nil function)")
			}
			if len(coll) != 1 || coll[0].Val != "call:strings.ToLower" || !strings.HasSuffix(gen(coll[0].Base), "[i]") {
				problems = append(problems, "the key column does not carry the index column's collation")
			}
		} else if len(coll) != 0 && !(len(coll) == 1 && coll[0].Val == `const:""` && strings.HasSuffix(gen(coll[0].Base), "[i]")) {
			// (storing the empty name into the fresh key column is storing nothing)
			problems = append(problems, "a collation is stored although the index column names none")
		}
		vs := eventsOf(lp, "store", "V")
		if typ == "bool" {
			b := lp.Has("assert("+kP+"[i],bool)#0", token.EQL, "true", true)
			_ = b
			okB := len(vs) == 1 && (vs[0].Val == "const:1" || vs[0].Val == "const:0")
			for _, l := range lp.Lits {
				if strings.HasPrefix(gen(l.Subject), "assert("+kP+"[i],bool)#0") {
					want := "const:0"
					if (l.Op == token.EQL && l.C == "true") == l.Val {
						want = "const:1"
					}
					okB = okB && vs[0].Val == want
				}
			}
			if !okB {
				problems = append(problems, "bool is not mapped to 0/1")
			}
		} else {
			want, known := wantV[typ]
			want = strings.ReplaceAll(want, "K", kP+"[i]")
			if !known {
				problems = append(problems, "type "+typ+" is not in the documented list")
			} else if len(vs) == 1 && gen(vs[0].Val) == kP+"[i]" && map[string]bool{"nil": true, "int64": true, "float64": true, "string": true, "[]byte": true}[typ] {
				// a value of a storage type handed on as it is (`case nil, int64, float64, string, []byte: V = kv`)
			} else if len(vs) != 1 || gen(vs[0].Val) != want {
				problems = append(problems, fmt.Sprintf("value stored is %v, expected %s", evVals(vs), want))
			} else {
				// conversion target: the SSA value stored must have a storage type
				st := vs[0].Instr.(*ssa.Store)
				if mi, ok := lp.PS.Resolve(st.Val).(*ssa.MakeInterface); ok {
					tt := types.TypeString(mi.X.Type(), shortQual)
					wantT := map[string]string{"int": "int64", "uint": "int64", "int32": "int64", "uint32": "int64", "float32": "float64"}[typ]
					if wantT == "" {
						wantT = typ
					}
					if tt != wantT {
						problems = append(problems, "stored as "+tt+", SQLite storage type is "+wantT)
					}
				}
			}
		}
		seenTypes[typ] = true
		if len(problems) == 0 {
			c.Pass(key, fn.Pos(), "key column i: direction and validated collation of index column i, %s value mapped to its storage type", typ)
		} else {
			c.Fail(key, fn.Pos(), "%s; path [%s]", strings.Join(problems, "; "), ls)
		}
	}
	for typ := range wantV {
		if !seenTypes[typ] {
			c.Fail("asDbKey "+typ, fn.Pos(), "documented key type %s is no longer converted", typ)
		}
	}
}

func evVals(es []Event) []string {
	var out []string
	for _, e := range es {
		out = append(out, gen(e.Val))
	}
	return out
}

func runPKSel(c *Ctx) {
	p := c.P
	t := &Termer{P: p}
	fn := c.MustFunc(".", "pkSelect")
	if fn != nil {
		paths, _ := EnumLits(fn.Blocks[0], 0, TabOpts{Termer: t, EventOf: callEvents(p)})
		nR, nI := 0, 0
		for _, lp := range paths {
			if lp.Exit == nil || !cleanPath(lp) {
				continue
			}
			key := "pkSelect:" + pathSig(lp, 99)
			if lp.Has("p:s.RowidPK", token.EQL, "true", true) {
				sr := eventsOf(lp, "call", "sqlittle.selectRowid")
				if len(sr) == 0 {
					continue // error exits (empty key / wrong type) are not clean in the sense below
				}
				nR++
				good := sr[0].Args[0] == "p:db" && sr[0].Args[1] == "p:s" && sr[0].Args[2] == "assert(p:key[const:0],int64)#0" && sr[0].Args[3] == "p:columns"
				good = good && lp.Holds("len(p:key)", token.NEQ, "0") && lp.Has("type(p:key[const:0])", token.EQL, "int64", true)
				cbs := eventsOf(lp, "call", "func-value:sqlittle.RowCB")
				rowNonNil := lp.Holds("call:sqlittle.selectRowid#0", token.NEQ, "nil")
				good = good && ((rowNonNil && len(cbs) == 1 && cbs[0].Args[0] == "call:sqlittle.selectRowid#0") || (!rowNonNil && len(cbs) == 0))
				c.Check(good, key, lp.Exit.Pos(), "rowid-alias primary key ⇒ selectRowid(db, s, key[0].(int64), columns), the row (if any) delivered once")
			} else {
				ie := eventsOf(lp, "call", "sqlittle.indexedSelectEq")
				if len(ie) == 0 {
					continue
				}
				nI++
				ni := eventsOf(lp, "call", "(*db.Schema).NamedIndex")
				ak := eventsOf(lp, "call", "sqlittle.asDbKey")
				good := len(ni) == 1 && ni[0].Args[1] == "p:s.PrimaryKey" && len(ak) == 1 && ak[0].Args[0] == "p:key" && ak[0].Args[1] == "call:(*db.Schema).NamedIndex.Columns"
				good = good && ie[0].Args[0] == "p:db" && ie[0].Args[1] == "p:s" && ie[0].Args[2] == "call:(*db.Schema).NamedIndex" && ie[0].Args[3] == "call:sqlittle.asDbKey#0" && ie[0].Args[4] == "p:cb" && ie[0].Args[5] == "p:columns"
				c.Check(good, key, lp.Exit.Pos(), "otherwise ⇒ equality select through the index named Schema.PrimaryKey with the key typed by that index's columns")
			}
		}
		c.Check(nR > 0 && nI > 0, "pkSelect dispatch", fn.Pos(), "both primary-key kinds are handled (%d rowid paths, %d index paths)", nR, nI)
	}
	fn = c.MustFunc(".", "pkSelectNonRowid")
	if fn != nil {
		paths, _ := EnumLits(fn.Blocks[0], 0, TabOpts{Termer: t, EventOf: callEvents(p)})
		n := 0
		for _, lp := range paths {
			if lp.Exit == nil || !cleanPath(lp) {
				continue
			}
			se := eventsOf(lp, "call", "(*db.Index).ScanEq")
			if len(se) == 0 {
				continue
			}
			n++
			ak := eventsOf(lp, "call", "sqlittle.asDbKey")
			nt := eventsOf(lp, "call", "(*db.Database).NonRowidTable")
			good := len(ak) == 1 && ak[0].Args[0] == "p:key" && ak[0].Args[1] == "p:s.PK" &&
				len(nt) == 1 && nt[0].Args[1] == "p:s.Table" &&
				se[0].Args[0] == "call:(*db.Database).NonRowidTable#0" && se[0].Args[1] == "call:sqlittle.asDbKey#0"
			c.Check(good, "pkSelectNonRowid:"+pathSig(lp, 99), lp.Exit.Pos(), "WITHOUT ROWID ⇒ ScanEq on the table's own b-tree with the key typed by Schema.PK")
		}
		if n == 0 {
			c.Fail("pkSelectNonRowid", fn.Pos(), "no ScanEq on the table")
		}
	}
}

func runIdxCol(c *Ctx) {
	p := c.P
	fn := c.MustFunc("db", "(*Schema).toIndexColumns")
	if fn == nil {
		return
	}
	t := &Termer{P: p}
	_, paths, ok := bodyPaths(p, fn, t)
	if !ok {
		c.Undecided("toIndexColumns loop", fn.Pos(), "not a single loop")
		return
	}
	ci := "p:" + fn.Params[1].Name() + "[i]"
	recv := "p:" + fn.Params[0].Name()
	n := 0
	for _, lp := range paths {
		if lp.Stop == nil {
			continue
		}
		n++
		var lits []string
		for _, l := range lp.Lits {
			lits = append(lits, gen(l.String()))
		}
		ls := strings.Join(lits, " ∧ ")
		key := "toIndexColumns:" + pathSig(lp, 99)
		coll := eventsOf(lp, "store", "Collate")
		colStore := eventsOf(lp, "store", "Column")
		so := eventsOf(lp, "store", "SortOrder")
		base := len(colStore) == 1 && gen(colStore[0].Val) == ci+".Column" && len(so) == 1 && gen(so[0].Val) == ci+".SortOrder"
		if !base {
			c.Fail(key, fn.Pos(), "the schema index column does not copy name and direction of indexed column i")
			continue
		}
		isExpr := strings.Contains(ls, "¬("+ci+`.Column != "")`)
		if isExpr {
			c.Check(len(coll) == 0, key, fn.Pos(), "expression column: no inherited collation")
			continue
		}
		look := eventsOf(lp, "call", "(*db.Schema).column")
		if len(look) != 1 || look[0].Args[0] != recv || gen(look[0].Args[1]) != ci+".Column" {
			c.Fail(key, fn.Pos(), "the table column is not looked up through the case-insensitive Schema.column(indexed column's name): an index naming the column in different letter case would lose the declared collation; path [%s]", ls)
			continue
		}
		found := strings.Contains(ls, "call:(*db.Schema).column != nil") && !strings.Contains(ls, "¬(call:(*db.Schema).column != nil)")
		if !found {
			c.Check(len(coll) == 0, key, fn.Pos(), "unknown column: nothing inherited")
			continue
		}
		own := strings.Contains(ls, ci+`.Collate != ""`) && !strings.Contains(ls, "¬("+ci+`.Collate != "")`)
		want := "call:(*db.Schema).column.Collate"
		if own {
			want = ci + ".Collate"
		}
		c.Check(len(coll) == 1 && gen(coll[0].Val) == want, key, fn.Pos(), "collation of the index column is %v; SQLite uses the index's own COLLATE when it has one, else the column's declared collation: expected %s; path [%s]", evVals(coll), want, ls)
	}
	if n == 0 {
		c.Undecided("toIndexColumns", fn.Pos(), "no loop iteration found")
	}
}

func runRowidAlias(c *Ctx) {
	p := c.P
	fn := c.MustFunc("db", "isRowid")
	if fn == nil {
		return
	}
	t := &Termer{P: p}
	paths, _ := EnumLits(fn.Blocks[0], 0, TabOpts{Termer: t, EventOf: callEvents(p)})
	tc, typ, dir := "p:"+fn.Params[0].Name(), fn.Params[1].Name(), "p:"+fn.Params[2].Name()
	// evaluate over (isInteger, tableConstraint, dirAsc)
	for _, isInt := range []bool{true, false} {
		for _, tcv := range []bool{true, false} {
			for _, asc := range []bool{true, false} {
				want := isInt && (tcv || asc)
				got, found := false, false
				for _, lp := range paths {
					if lp.Exit == nil {
						continue
					}
					feasible := true
					for _, l := range lp.Lits {
						switch {
						case l.Subject == "call:strings.ToUpper" && l.C == `"INTEGER"`:
							if ((l.Op == token.EQL) == isInt) != l.Val {
								feasible = false
							}
						case l.Subject == tc:
							if ((l.Op == token.EQL) == (l.C == "true")) == tcv != l.Val {
								feasible = false
							}
						case l.Subject == dir && l.IsInt:
							v := int64(1)
							if asc {
								v = 0
							}
							if evalCmp(v, l.Op, l.N) != l.Val {
								feasible = false
							}
						}
					}
					if !feasible {
						continue
					}
					found = true
					rv := lp.PS.Resolve(lp.Exit.Results[0])
					if b, isC := constBool(rv); isC {
						got = b
					} else if bo, ok := rv.(*ssa.BinOp); ok && t.Term(bo.X, lp.PS) == dir {
						k, _ := constInt(bo.Y)
						v := int64(1)
						if asc {
							v = 0
						}
						got = evalCmp(v, bo.Op, k)
					} else {
						found = false
					}
				}
				key := fmt.Sprintf("isRowid(INTEGER=%v, tableConstraint=%v, ASC=%v)", isInt, tcv, asc)
				c.Check(found && got == want, key, fn.Pos(), "alias iff INTEGER ∧ (table constraint ∨ ASC): expected %v", want)
			}
		}
	}
	// the type test is the upper-cased declared type
	okType := false
	for _, cs := range callsIn(fn) {
		if cal := cs.Common().StaticCallee(); cal != nil && isLibFunc(cal, "strings", "ToUpper") && cs.Common().Args[0] == ssa.Value(fn.Params[1]) {
			okType = true
		}
	}
	c.Check(okType, "isRowid type test", fn.Pos(), "the declared type %s is compared case-insensitively with INTEGER", typ)
	// call sites
	nct := c.MustFunc("db", "newCreateTable")
	if nct == nil {
		return
	}
	cpaths, _ := EnumLits(nct.Blocks[0], 0, TabOpts{Termer: t, EventOf: callEvents(p), Limit: 400000})
	sites := map[string]bool{}
	for _, lp := range cpaths {
		for _, e := range eventsOf(lp, "call", "db.isRowid") {
			flag := e.Args[0]
			if sites[flag] {
				continue
			}
			var ls []string
			for _, l := range lp.Lits {
				ls = append(ls, l.String())
			}
			guard := false
			for _, l := range lp.Lits {
				if strings.HasSuffix(l.Subject, ".WithoutRowid") && ((l.Op == token.EQL && l.C == "true" && !l.Val) || (l.Op == token.EQL && l.C == "false" && l.Val)) {
					guard = true
				}
			}
			single := true
			if flag == "const:true" {
				single = false
				for _, l := range lp.Lits {
					if strings.HasPrefix(l.Subject, "len(") && strings.HasSuffix(l.Subject, ".IndexedColumns)") && l.Op == token.EQL && l.N == 1 && l.Val {
						single = true
					}
				}
			}
			sites[flag] = true
			c.Check(guard && single, "isRowid call site ("+flag+")", e.Instr.Pos(), "called only for rowid tables%s", map[bool]string{true: " and single-column primary keys", false: ""}[flag == "const:true"])
		}
	}
	c.Check(sites["const:true"] && sites["const:false"], "isRowid call sites", nct.Pos(), "column constraints pass tableConstraint=false, table constraints pass true")
}

func runRowMap(c *Ctx) {
	p := c.P
	fn := c.MustFunc(".", "toRow")
	if fn == nil {
		return
	}
	t := &Termer{P: p}
	_, paths, ok := bodyPaths(p, fn, t)
	if !ok {
		c.Undecided("toRow loop", fn.Pos(), "not a single loop")
		return
	}
	rec := "p:" + fn.Params[2].Name()
	rowid := "p:" + fn.Params[0].Name()
	seen := map[string]bool{}
	for _, lp := range paths {
		if lp.Stop == nil {
			continue
		}
		st := eventsOf(lp, "store", "[]")
		var lits []string
		for _, l := range lp.Lits {
			lits = append(lits, gen(l.String()))
		}
		ls := strings.Join(lits, " ∧ ")
		if len(st) != 1 || !strings.HasSuffix(gen(st[0].Base), "[i]") {
			c.Fail("toRow:"+pathSig(lp, 99), fn.Pos(), "an iteration does not set row[i] exactly once; path [%s]", ls)
			continue
		}
		val := gen(st[0].Val)
		// the element under consideration: the term carrying .rowIndex / .rowid on this path
		elem := ""
		for _, l := range lp.Lits {
			for _, part := range strings.Split(l.Subject, "−") {
				if strings.HasSuffix(part, ".rowid") {
					elem = strings.TrimSuffix(part, ".rowid")
				}
			}
		}
		if elem == "" {
			c.Fail("toRow:"+pathSig(lp, 99), fn.Pos(), "a row element is set without consulting the column's rowid flag; path [%s]", ls)
			continue
		}
		isRowid := lp.Has(elem+".rowid", token.EQL, "true", true) || lp.Has(elem+".rowid", token.EQL, "false", false)
		pr := newProver(p, t, lp)
		recLen := "len(" + rec + ")"
		short := pr.g.entailsLE(recLen, elem+".rowIndex", 0)
		long := pr.g.entailsLE(elem+".rowIndex", recLen, -1)
		ge := gen(elem)
		switch {
		case isRowid:
			seen["rowid"] = true
			c.Check(val == rowid, "toRow rowid", fn.Pos(), "rowid column ⇒ the rowid (stores %s)", val)
		case short:
			seen["default"] = true
			c.Check(val == ge+".col.Default", "toRow default", fn.Pos(), "record shorter than the column's position ⇒ the column DEFAULT (stores %s)", val)
		case long:
			seen["value"] = true
			c.Check(val == rec+"["+ge+".rowIndex]", "toRow value", fn.Pos(), "otherwise ⇒ record[rowIndex], guarded by the length test (stores %s)", val)
		default:
			c.Fail("toRow:"+pathSig(lp, 99), fn.Pos(), "a row element is set to %s without comparing the column's position with the record length; path [%s]", val, ls)
		}
	}
	for _, k := range []string{"rowid", "default", "value"} {
		if !seen[k] {
			c.Fail("toRow "+k, fn.Pos(), "the `%s` case of the row mapping is gone", k)
		}
	}
	// toColumnIndexRowid: alias decision
	fn2 := c.MustFunc(".", "toColumnIndexRowid")
	if fn2 == nil {
		return
	}
	_, paths2, ok := bodyPaths(p, fn2, t)
	if !ok {
		c.Undecided("toColumnIndexRowid loop", fn2.Pos(), "not a single loop")
		return
	}
	for _, lp := range paths2 {
		var lits []string
		for _, l := range lp.Lits {
			lits = append(lits, gen(l.String()))
		}
		ls := strings.Join(lits, " ∧ ")
		key := "alias:" + pathSig(lp, 99)
		notFound := strings.Contains(ls, "call:(*db.Schema).Column < 0") && !strings.Contains(ls, "¬(call:(*db.Schema).Column < 0)")
		st := eventsOf(lp, "store", "rowid")
		col := eventsOf(lp, "store", "col")
		if lp.Stop == nil {
			if lp.Exit != nil && retErrDefinitelyNonNil(lp, t) {
				// unknown column: must not be one of the three aliases
				okErr := notFound && strings.Contains(ls, `¬(call:strings.ToUpper == "ROWID")`) && strings.Contains(ls, `¬(call:strings.ToUpper == "OID")`) && strings.Contains(ls, `¬(call:strings.ToUpper == "_ROWID_")`)
				c.Check(okErr, key, lp.Exit.Pos(), "`no such column` only for a name that is neither a column nor rowid/oid/_rowid_")
			}
			continue
		}
		if len(st) != 1 {
			c.Fail(key, fn2.Pos(), "a requested column is accepted without deciding whether it is the rowid; path [%s]", ls)
			continue
		}
		switch {
		case notFound:
			isAlias := strings.Contains(ls, `call:strings.ToUpper == "ROWID"`) || strings.Contains(ls, `call:strings.ToUpper == "OID"`) || strings.Contains(ls, `call:strings.ToUpper == "_ROWID_"`)
			c.Check(st[0].Val == "const:true" && isAlias, key, fn2.Pos(), "no column of that name ∧ name ∈ {ROWID, OID, _ROWID_} ⇒ the rowid")
		case strings.Contains(ls, ".Rowid == true") && !strings.Contains(ls, "¬(p:s.Columns[call:(*db.Schema).Column].Rowid == true)"):
			c.Check(st[0].Val == "const:true", key, fn2.Pos(), "a column flagged as rowid alias ⇒ the rowid")
		default:
			okCol := len(col) == 1 && strings.HasPrefix(col[0].Val, "p:s.Columns[call:(*db.Schema).Column]")
			ri := eventsOf(lp, "store", "rowIndex")
			okIdx := len(ri) == 1 && ri[0].Val == "call:(*db.Schema).Column"
			c.Check(st[0].Val == "const:false" && okCol && okIdx, key, fn2.Pos(), "an ordinary column ⇒ its definition and its position in the record")
		}
	}
}

func runChomp(c *Ctx) {
	p := c.P
	t := &Termer{P: p}
	fn := c.MustFunc("db", "ChompRowid")
	if fn != nil {
		paths, _ := EnumLits(fn.Blocks[0], 0, TabOpts{Termer: t, EventOf: callEvents(p)})
		rec := "p:" + fn.Params[0].Name()
		good := false
		for _, lp := range paths {
			if lp.Exit == nil || retErrDefinitelyNonNil(lp, t) {
				continue
			}
			rt := retTerms(t, lp)
			last := "(len(" + rec + ")-const:1)"
			good = rt[0] == "assert("+rec+"["+last+"],int64)#0" && rt[1] == rec+"[:"+last+"]" && lp.Holds("len("+rec+")", token.NEQ, "0")
			if !good {
				c.Fail("ChompRowid", lp.Exit.Pos(), "returns (%s, %s): the rowid is the LAST field of an index record and the rest is everything before it", rt[0], rt[1])
				return
			}
		}
		c.Check(good, "ChompRowid", fn.Pos(), "rowid = last field (int64), record = the fields before it, empty records rejected")
	}
	for _, outerName := range []string{"sqlittle.indexedSelect", "sqlittle.indexedSelectEq"} {
		name := outerName + "$1"
		outer := findFn(p, outerName)
		if outer == nil {
			c.Undecided("anchor "+outerName, token.NoPos, "not found")
			continue
		}
		// the adapter: the function value handed to the index scan — a closure of the function itself or one built
		// by a factory around the same values
		cl, boundTo := scanAdapter(p, outer)
		if cl == nil {
			c.Undecided("anchor "+name, token.NoPos, "not found: no closure (direct or from a factory) is handed to the index scan of %s", outerName)
			continue
		}
		producedBy := func(term, callee string) bool {
			if !strings.HasPrefix(term, "fv:") {
				return false
			}
			v := boundTo(strings.TrimPrefix(term, "fv:"))
			if e, ok := v.(*ssa.Extract); ok && e.Index == 0 {
				v = e.Tuple
			}
			call, ok := v.(*ssa.Call)
			return ok && call.Call.StaticCallee() != nil && p.FnKey(call.Call.StaticCallee()) == callee
		}
		paths, _ := EnumLits(cl.Blocks[0], 0, TabOpts{Termer: t, EventOf: callEvents(p)})
		n := 0
		for _, lp := range paths {
			cbs := eventsOf(lp, "call", "func-value:sqlittle.RowCB")
			if len(cbs) == 0 {
				continue
			}
			n++
			ch := eventsOf(lp, "call", "db.ChompRowid")
			rl := eventsOf(lp, "call", "(*db.Table).Rowid")
			tr := eventsOf(lp, "call", "sqlittle.toRow")
			good := len(cl.Params) == 1 && len(ch) == 1 && ch[0].Args[0] == "p:"+cl.Params[0].Name() && len(rl) == 1 && producedBy(rl[0].Args[0], "(*db.Database).Table") && rl[0].Args[1] == "call:db.ChompRowid#0" &&
				len(tr) == 1 && tr[0].Args[0] == "call:db.ChompRowid#0" && producedBy(tr[0].Args[1], "sqlittle.toColumnIndexRowid") && tr[0].Args[2] == "call:(*db.Table).Rowid#0" &&
				cbs[0].Args[0] == "call:sqlittle.toRow"
			c.Check(good, name+" delivers", cl.Pos(), "index entry → ChompRowid → Table.Rowid(that rowid) → toRow(rowid, columns, table row) → user callback")
		}
		if n == 0 {
			c.Fail(name+" delivers", cl.Pos(), "the adapter never calls the user callback")
		}
		// the outer function scans the named index and looks rows up in the schema's table
		opaths, _ := EnumLits(outer.Blocks[0], 0, TabOpts{Termer: t, EventOf: callEvents(p)})
		for _, lp := range opaths {
			if !cleanPath(lp) || lp.Exit == nil {
				continue
			}
			tb := eventsOf(lp, "call", "(*db.Database).Table")
			ix := eventsOf(lp, "call", "(*db.Database).Index")
			good := len(tb) == 1 && tb[0].Args[1] == "p:schema.Table" && len(ix) == 1 && ix[0].Args[1] == "p:index.Index"
			c.Check(good, p.FnKey(outer)+" objects", outer.Pos(), "rows come from the schema's table, entries from the named index")
		}
	}
	for _, name := range []string{"sqlittle.indexedSelectNonRowid", "sqlittle.indexedSelectEqNonRowid"} {
		fn := findFn(p, name)
		if fn == nil {
			c.Undecided("anchor "+name, token.NoPos, "not found")
			continue
		}
		paths, _ := EnumLits(fn.Blocks[0], 0, TabOpts{Termer: t, EventOf: callEvents(p)})
		for _, lp := range paths {
			if !cleanPath(lp) || lp.Exit == nil {
				continue
			}
			ak := eventsOf(lp, "call", "sqlittle.asDbKey")
			pk := eventsOf(lp, "call", "sqlittle.pkColumns")
			good := len(pk) == 1 && pk[0].Args[0] == "p:schema" && pk[0].Args[1] == "p:index"
			// the lookup key template is typed by the TABLE's primary key
			okKey := false
			for _, e := range ak {
				if strings.HasPrefix(e.Args[0], "make[len(p:schema.PK)]") && e.Args[1] == "p:schema.PK" {
					okKey = true
				}
			}
			c.Check(good && okKey, name+" lookup key", fn.Pos(), "the table lookup key has one column per primary-key column and takes collation/direction from the table's PRIMARY KEY (the b-tree it searches), not from the index that supplied the values")
		}
	}
}

// runErr3: captured error cells written inside closures only receive established-non-nil values.
func runErr3(c *Ctx) {
	p := c.P
	for _, fn := range p.ModFuncs() {
		if !errFn(p, fn) || fn.Parent() == nil || !p.Reachable(fn) {
			continue
		}
		n := 0
		for _, in := range instrs(fn) {
			s, ok := in.(*ssa.Store)
			if !ok {
				continue
			}
			fv, ok := s.Addr.(*ssa.FreeVar)
			if !ok || !isErrorType(s.Val.Type()) {
				continue
			}
			n++
			key := fmt.Sprintf("%s latch %s#%d", p.FnKey(fn), fv.Name(), n)
			v := s.Val
			good := false
			why := ""
			switch x := v.(type) {
			case *ssa.UnOp:
				if g, ok := x.X.(*ssa.Global); ok {
					good, why = true, "a package error value ("+g.Name()+")"
				}
			case *ssa.Call:
				if cal := x.Call.StaticCallee(); cal != nil && isErrorfLike(cal) {
					good, why = true, "a freshly built error"
				}
			}
			if !good {
				// dominated by the non-nil edge of a test of the same value
				for _, b := range fn.Blocks {
					t := nilTestOf(b.Instrs[len(b.Instrs)-1])
					if t != nil && t.V == v && (t.NonNil == s.Block() || t.NonNil.Dominates(s.Block())) && len(t.NonNil.Preds) == 1 {
						good, why = true, "stored on the non-nil edge of its own test"
					}
				}
			}
			if !good {
				// `cell = f(x); return cell != nil`: the callback asks for the scan to stop exactly when what it stored
				// is an error, so no later call can overwrite one
				rets := returnsOf(fn)
				all := len(rets) > 0
				for _, r := range rets {
					ok := false
					if len(r.Results) == 1 && (s.Block() == r.Block() || s.Block().Dominates(r.Block())) {
						if bo, isBO := r.Results[0].(*ssa.BinOp); isBO && bo.Op == token.NEQ && isNilConst(bo.Y) {
							if bo.X == v {
								ok = true
							}
							if ld, isLd := bo.X.(*ssa.UnOp); isLd && ld.Op == token.MUL && ld.X == ssa.Value(fv) {
								ok = true
							}
						}
					}
					if !ok {
						all = false
					}
				}
				if all {
					good, why = true, "possibly nil, but the callback stops the scan exactly when it is not (`return cell != nil`)"
				}
			}
			if good {
				c.Pass(key, s.Pos(), "the latched value is %s", why)
			} else {
				c.Fail(key, s.Pos(), "the shared error cell %s is assigned a value that may be nil: a later successful call overwrites (clears) an earlier failure, and the failure is lost", fv.Name())
			}
		}
	}
}

// runErr6: the owner's half of the latch. A callback that cannot return an error (sort.Search's predicate, a row
// callback) parks it in a captured cell; it is the owner's job to look at the cell before it reports success.
func runErr6(c *Ctx) {
	p := c.P
	for _, fn := range p.ModFuncs() {
		if !errFn(p, fn) || !p.Reachable(fn) {
			continue
		}
		for _, in := range instrs(fn) {
			cell, ok := in.(*ssa.Alloc)
			if !ok || !cell.Heap || !isErrorType(cell.Type().(*types.Pointer).Elem()) {
				continue
			}
			// closures that write the cell
			var mcs []*ssa.MakeClosure
			for _, r := range *cell.Referrers() {
				mc, ok := r.(*ssa.MakeClosure)
				if !ok {
					continue
				}
				cf := mc.Fn.(*ssa.Function)
				for i, b := range mc.Bindings {
					if b != cell {
						continue
					}
					for _, cin := range instrs(cf) {
						if st, ok := cin.(*ssa.Store); ok && st.Addr == cf.FreeVars[i] {
							mcs = append(mcs, mc)
							break
						}
					}
				}
			}
			// … and calls the cell's address is given to (a factory that builds such a closure around `&cell`)
			var handovers []ssa.Instruction
			for _, mc := range mcs {
				handovers = append(handovers, mc)
			}
			for _, r := range *cell.Referrers() {
				if call, ok := r.(ssa.CallInstruction); ok && call.Common().StaticCallee() != nil && p.InModule(call.Common().StaticCallee()) {
					handovers = append(handovers, call)
				}
			}
			if len(handovers) == 0 {
				continue
			}
			isCellLoad := func(v ssa.Value) bool {
				u, ok := v.(*ssa.UnOp)
				return ok && u.Op == token.MUL && u.X == cell
			}
			// blocks that end in a nil test of the cell
			tests := map[*ssa.BasicBlock]*nilTest{}
			for _, b := range fn.Blocks {
				if t := nilTestOf(b.Instrs[len(b.Instrs)-1]); t != nil && isCellLoad(t.V) {
					tests[b] = t
				}
			}
			for _, mc := range handovers {
				// everything reachable from the hand-over without passing a test of the cell
				seen := map[*ssa.BasicBlock]bool{}
				var walk func(b *ssa.BasicBlock)
				walk = func(b *ssa.BasicBlock) {
					if seen[b] {
						return
					}
					seen[b] = true
					if tests[b] != nil {
						return
					}
					for _, s := range b.Succs {
						walk(s)
					}
				}
				walk(mc.Block())
				n := 0
				for _, b := range fn.Blocks {
					if !seen[b] {
						continue
					}
					ret, ok := b.Instrs[len(b.Instrs)-1].(*ssa.Return)
					if !ok || len(ret.Results) == 0 {
						continue
					}
					e := ret.Results[len(ret.Results)-1]
					if !isErrorType(e.Type()) {
						continue
					}
					n++
					key := fmt.Sprintf("%s cell %s return#%d", p.FnKey(fn), cell.Comment, n)
					if why := err6Fine(fn, b, e, isCellLoad, map[ssa.Value]bool{}); why != "" {
						c.Pass(key, ret.Pos(), "returns %s", why)
					} else {
						c.Fail(key, ret.Pos(), "after the callback that may park an error in `%s` has been handed over (%s), this return reports a possibly-nil error without anyone having looked at `%s`: the parked error is lost", cell.Comment, p.Pos(handoverPos(mc)), cell.Comment)
					}
				}
				if n == 0 {
					c.Pass(fmt.Sprintf("%s cell %s", p.FnKey(fn), cell.Comment), mc.Pos(), "every return after the hand-over lies behind a nil test of the cell (%d tests)", len(tests))
				}
			}
		}
	}
}

// scanAdapter finds the function value fn hands to (*db.Index).Scan / ScanEq as the per-entry callback, and a lookup
// from the adapter's captured names to the values of fn they stand for.
func scanAdapter(p *Program, fn *ssa.Function) (*ssa.Function, func(name string) ssa.Value) {
	cellVal := func(v ssa.Value) ssa.Value {
		for i := 0; i < 4; i++ {
			al, ok := v.(*ssa.Alloc)
			if !ok {
				break
			}
			sts := cellStores(al)
			if len(sts) != 1 {
				break
			}
			v = sts[0].Val
		}
		return v
	}
	for _, cs := range callsIn(fn) {
		cal := cs.Common().StaticCallee()
		if cal == nil || !(p.FnKey(cal) == "(*db.Index).Scan" || p.FnKey(cal) == "(*db.Index).ScanEq") {
			continue
		}
		args := cs.Common().Args
		cb := args[len(args)-1]
		if ct, ok := cb.(*ssa.ChangeType); ok {
			cb = ct.X
		}
		switch x := cb.(type) {
		case *ssa.MakeClosure:
			cl := x.Fn.(*ssa.Function)
			return cl, func(name string) ssa.Value {
				for i, fv := range cl.FreeVars {
					if fv.Name() == name {
						return cellVal(x.Bindings[i])
					}
				}
				return nil
			}
		case *ssa.Call:
			f := x.Call.StaticCallee()
			if f == nil || !p.InModule(f) {
				continue
			}
			var mc *ssa.MakeClosure
			n := 0
			for _, r := range returnsOf(f) {
				n++
				v := r.Results[0]
				if ct, ok := v.(*ssa.ChangeType); ok {
					v = ct.X
				}
				mc, _ = v.(*ssa.MakeClosure)
			}
			if n != 1 || mc == nil {
				continue
			}
			cl := mc.Fn.(*ssa.Function)
			return cl, func(name string) ssa.Value {
				for i, fv := range cl.FreeVars {
					if fv.Name() != name {
						continue
					}
					v := cellVal(mc.Bindings[i])
					if pa, ok := v.(*ssa.Parameter); ok {
						for k, fp := range f.Params {
							if fp == pa && k < len(x.Call.Args) {
								return cellVal(x.Call.Args[k])
							}
						}
					}
					return v
				}
				return nil
			}
		}
	}
	return nil, nil
}

func handoverPos(in ssa.Instruction) token.Pos {
	if mc, ok := in.(*ssa.MakeClosure); ok {
		return mc.Fn.Pos()
	}
	return in.Pos()
}

// err6Fine: the returned error is the cell itself, or is established non-nil where it is returned.
func err6Fine(fn *ssa.Function, at *ssa.BasicBlock, e ssa.Value, isCellLoad func(ssa.Value) bool, seen map[ssa.Value]bool) string {
	if seen[e] {
		return "(cycle)"
	}
	seen[e] = true
	if isCellLoad(e) {
		return "the cell itself"
	}
	if isNilConst(e) {
		return ""
	}
	switch x := e.(type) {
	case *ssa.UnOp:
		if _, ok := x.X.(*ssa.Global); ok {
			return "a package error value"
		}
	case *ssa.Call:
		if cal := x.Call.StaticCallee(); cal != nil && isErrorfLike(cal) {
			return "a freshly built error"
		}
	case *ssa.Phi:
		all := "a merge of fine values"
		for _, ed := range x.Edges {
			if err6Fine(fn, at, ed, isCellLoad, seen) == "" {
				all = ""
			}
		}
		if all != "" {
			return all
		}
	}
	for _, b := range fn.Blocks {
		t := nilTestOf(b.Instrs[len(b.Instrs)-1])
		if t != nil && t.V == e && len(t.NonNil.Preds) == 1 && (t.NonNil == at || t.NonNil.Dominates(at)) {
			return "an error tested non-nil"
		}
	}
	return ""
}

// autoindexName: "" when v, as seen on the path, is Sprintf("sqlite_autoindex_%s_%d", X.Table, counter).
func autoindexName(p *Program, t *Termer, lp *LPath, v ssa.Value, counter map[ssa.Value]bool) string {
	call, ok := lp.PS.Resolve(v).(*ssa.Call)
	if !ok || call.Call.StaticCallee() == nil || !isLibFunc(call.Call.StaticCallee(), "fmt", "Sprintf") {
		return "the name is " + t.Term(v, lp.PS) + ", not a Sprintf of the automatic-index pattern"
	}
	f, ok := constString(call.Call.Args[0])
	if !ok || f != "sqlite_autoindex_%s_%d" {
		return "the format is " + t.Term(call.Call.Args[0], lp.PS) + ", not \"sqlite_autoindex_%s_%d\""
	}
	elems := map[int64]ssa.Value{}
	if sl, ok := call.Call.Args[1].(*ssa.Slice); ok {
		if al, ok := sl.X.(*ssa.Alloc); ok {
			for _, r := range *al.Referrers() {
				if ia, ok := r.(*ssa.IndexAddr); ok {
					k, isK := constInt(ia.Index)
					for _, rr := range *ia.Referrers() {
						if st, ok := rr.(*ssa.Store); ok && isK {
							elems[k] = st.Val
						}
					}
				}
			}
		}
	}
	if len(elems) != 2 {
		return fmt.Sprintf("the pattern gets %d arguments, not (table, counter)", len(elems))
	}
	tab := t.Term(stripMakeInterface(elems[0]), lp.PS)
	if !strings.HasSuffix(reOrd.ReplaceAllString(tab, ""), ".Table") {
		return "the first argument is " + tab + ", not the table's name"
	}
	n := stripMakeInterface(elems[1])
	if !counter[n] && !counter[lp.PS.Resolve(n)] {
		return "the second argument is " + t.Term(n, lp.PS) + ", not the automatic-index counter"
	}
	return ""
}

func runSkip2(c *Ctx) {
	p := c.P
	n := 0
	for _, fn := range p.ModFuncs() {
		if p.PkgShort(fn) != "." {
			continue
		}
		// the per-entry adapters, and helpers freshly extracted from them (`findByPK(tab, pk)`)
		isAdapter := fn.Parent() != nil && len(userCBFreeVars(fn)) > 0
		isHelper := inlinable != nil && inlinable(fn)
		if !isAdapter && !isHelper {
			continue
		}
		// nested scans whose callback stores into a captured cell
		for _, cs := range callsIn(fn) {
			for _, a := range cs.Common().Args {
				mc, ok := stripConv(a).(*ssa.MakeClosure)
				if !ok {
					continue
				}
				inner := mc.Fn.(*ssa.Function)
				for i, fv := range inner.FreeVars {
					stores := false
					for _, r := range *fv.Referrers() {
						if s, ok := r.(*ssa.Store); ok && s.Addr == ssa.Value(fv) {
							stores = true
						}
					}
					if !stores {
						continue
					}
					n++
					key := p.FnKey(fn) + " collector " + fv.Name()
					b := mc.Bindings[i]
					al, isLocal := b.(*ssa.Alloc)
					fresh := isLocal && al.Parent() == fn
					if !fresh {
						// or reset before the nested call
						if cell, ok := b.(*ssa.FreeVar); ok {
							for _, in := range instrs(fn) {
								if s, ok := in.(*ssa.Store); ok && s.Addr == ssa.Value(cell) && isNilConst(s.Val) && instrDominates(s, cs) {
									fresh = true
								}
							}
						}
					}
					c.Check(fresh, key, cs.Pos(), "the cell the nested lookup fills (%s) is %s", fv.Name(), map[bool]string{true: "allocated (or reset) for every index entry", false: "shared across index entries and never reset: when a lookup finds nothing, the previous entry's row is delivered again instead of an error"}[fresh])
				}
			}
		}
	}
	if n == 0 {
		c.Undecided("collectors", token.NoPos, "no nested-lookup collector found in the adapters")
	}
}

func runDone0(c *Ctx) {
	p := c.P
	t := &Termer{P: p}
	for _, fn := range p.ModFuncs() {
		if p.PkgShort(fn) != "db" || !returnsBoolError(fn.Signature) || !p.Reachable(fn) {
			continue
		}
		top := fn
		for top.Parent() != nil {
			top = top.Parent()
		}
		if top.Signature.Recv() == nil {
			continue
		}
		rn := namedOf(top.Signature.Recv().Type())
		if rn == nil {
			continue
		}
		switch rn.Obj().Name() {
		case "tableLeaf", "tableInterior", "indexLeaf", "indexInterior":
		default:
			continue
		}
		paths, ok := EnumLits(fn.Blocks[0], 0, TabOpts{Termer: t, EventOf: callEvents(p)})
		if !ok {
			c.Undecided(p.FnKey(fn)+" done origin", fn.Pos(), "too many paths")
			continue
		}
		bad := ""
		var badPos token.Pos
		n := 0
		for _, lp := range paths {
			if lp.Exit == nil {
				continue
			}
			n++
			v := lp.PS.Resolve(lp.Exit.Results[0])
			if b, isC := constBool(v); isC {
				if !b {
					continue
				}
				// constant true: some inner (bool, error) call on this path must have reported done
				okTrue := false
				for _, l := range lp.Lits {
					e, isE := l.Cond.(*ssa.Extract)
					if !isE || e.Index != 0 || !((l.Op == token.EQL && l.C == "true" && l.Val) || (l.Op == token.EQL && l.C == "false" && !l.Val)) {
						continue
					}
					if call, isCall := e.Tuple.(*ssa.Call); isCall && returnsBoolError(call.Call.Signature()) {
						okTrue = true
					}
				}
				if !okTrue {
					bad, badPos = "returns done=true on path ["+pathDesc(lp)+"] although no callback or inner level reported done", lp.Exit.Pos()
				}
				continue
			}
			if call, idx := extractOf(v); call != nil && idx == 0 && returnsBoolError(call.Call.Signature()) {
				continue
			}
			bad, badPos = "returns done="+t.Term(v, lp.PS)+", which is not the answer of a callback or inner level", lp.Exit.Pos()
		}
		if n == 0 {
			continue
		}
		if bad == "" {
			c.Pass(p.FnKey(fn)+" done origin", fn.Pos(), "on all %d exit paths done is false, an inner answer, or true only after an inner answer was true", n)
		} else {
			c.Fail(p.FnKey(fn)+" done origin", badPos, "%s: done=true without a callback having asked for it ends the whole scan early (entries in interior pages and pages to the right are never visited)", bad)
		}
	}
}
func autoidxRule() *Rule {
	return &Rule{ID: "AUTOIDX", Props: []string{"C10"}, Min: 3,
		Doc: "automatic-index numbering: on a rowid table the counter behind sqlite_autoindex_<table>_<n> advances only when the constraint actually created an index (SQLite shares an existing equivalent index and does not consume a number); a WITHOUT ROWID primary key consumes one unless it takes over the index of an earlier equivalent UNIQUE",
		Run: runAutoIdx}
}

func runAutoIdx(c *Ctx) {
	p := c.P
	fn := c.MustFunc("db", "newCreateTable")
	if fn == nil {
		return
	}
	// the counter: the integer formatted into "sqlite_autoindex_%s_%d"
	incs := map[*ssa.BinOp]bool{}
	var badUpdates []*ssa.BinOp
	seen := map[ssa.Value]bool{}
	var back func(v ssa.Value)
	back = func(v ssa.Value) {
		if seen[v] {
			return
		}
		seen[v] = true
		switch x := v.(type) {
		case *ssa.Phi:
			for _, e := range x.Edges {
				back(e)
			}
		case *ssa.BinOp:
			if k, ok := constInt(x.Y); ok && x.Op == token.ADD && k == 1 {
				incs[x] = true
				back(x.X)
			} else {
				badUpdates = append(badUpdates, x)
			}
		case *ssa.MakeInterface:
			back(x.X)
		case *ssa.UnOp:
			if al, ok := x.X.(*ssa.Alloc); ok {
				for _, st := range cellStores(al) {
					back(st.Val)
				}
			}
		}
	}
	nfmt := 0
	for _, cs := range callsIn(fn) {
		callee := cs.Common().StaticCallee()
		if callee == nil || !isLibFunc(callee, "fmt", "Sprintf") {
			continue
		}
		f, ok := constString(cs.Common().Args[0])
		if !ok || !strings.HasPrefix(f, "sqlite_autoindex_") {
			continue
		}
		nfmt++
		// variadic args: stores into the backing array
		if sl, ok := cs.Common().Args[1].(*ssa.Slice); ok {
			if al, ok := sl.X.(*ssa.Alloc); ok {
				for _, r := range *al.Referrers() {
					if ia, ok := r.(*ssa.IndexAddr); ok {
						for _, rr := range *ia.Referrers() {
							if st, ok := rr.(*ssa.Store); ok && isIntType(stripConv(st.Val).Type()) {
								back(st.Val)
							}
						}
					}
				}
			}
		}
	}
	if nfmt == 0 || len(incs) == 0 {
		c.Undecided("autoindex counter", fn.Pos(), "cannot find the counter formatted into sqlite_autoindex_<table>_<n> (%d format sites, %d increments)", nfmt, len(incs))
		return
	}
	for _, bu := range badUpdates {
		c.Fail("autoindex counter update", bu.Pos(), "the counter behind sqlite_autoindex_<table>_<n> is changed by something other than +1")
	}
	t := &Termer{P: p}
	// the name itself: every index newCreateTable adds is called sqlite_autoindex_<table as written>_<counter>
	nName := 0
	for _, cs := range callsIn(fn) {
		call, ok := cs.(*ssa.Call)
		if !ok || call.Call.StaticCallee() == nil || p.FnKey(call.Call.StaticCallee()) != "(*db.Schema).addIndex" || len(call.Call.Args) != 4 {
			continue
		}
		nName++
		key := fmt.Sprintf("autoindex name#%d", nName)
		// the name is made in the same iteration: start at the innermost loop around the call
		start := fn.Blocks[0]
		for _, h := range loopHeaders(fn) {
			if loopBody(h)[call.Block()] && (start == fn.Blocks[0] || loopBody(start)[h]) {
				start = h
			}
		}
		paths, ok := EnumLits(start, 0, TabOpts{Termer: t, Limit: 200000,
			Stop: func(in ssa.Instruction, ps *pathState) bool { return in == ssa.Instruction(call) }})
		if !ok {
			c.Undecided(key, call.Pos(), "too many paths")
			continue
		}
		bad, arrivals := "", 0
		for _, lp := range paths {
			if lp.Stop == nil {
				continue
			}
			arrivals++
			if why := autoindexName(p, t, lp, call.Call.Args[2], seen); why != "" {
				bad = why + " on path [" + pathDesc(lp) + "]"
				break
			}
		}
		if arrivals == 0 {
			c.Undecided(key, call.Pos(), "no path reaches the call")
			continue
		}
		c.Check(bad == "", key, call.Pos(), "the index is named fmt.Sprintf(\"sqlite_autoindex_%%s_%%d\", <the table's name as written>, <the counter>) on all %d arrivals %s", arrivals, map[bool]string{true: "", false: "— " + bad + ": IndexedSelect and the schema would know the index under a name SQLite does not use"}[bad == ""])
	}
	// the converse of the increment obligations below: a constraint that made an index of its own advances the counter
	// before the loop goes on to the next constraint (or the function returns)
	nGuard := 0
	for _, cs := range callsIn(fn) {
		call, ok := cs.(*ssa.Call)
		if !ok || call.Call.StaticCallee() == nil {
			continue
		}
		name := p.FnKey(call.Call.StaticCallee())
		if name != "(*db.Schema).addIndex" && name != "(*db.Schema).setPK" {
			continue
		}
		nGuard++
		key := fmt.Sprintf("autoindex advance after %s#%d", call.Call.StaticCallee().Name(), nGuard)
		hasBool := false
		if b, isB := call.Type().Underlying().(*types.Basic); isB && b.Kind() == types.Bool {
			hasBool = true
		}
		paths, ok := EnumLits(call.Block(), instrIndex(call)+1, TabOpts{Termer: t, Limit: 100000,
			Stop: func(in ssa.Instruction, ps *pathState) bool {
				return in == in.Block().Instrs[0] && len(ps.Path) > 1 && isLoopHeader(in.Block())
			}})
		if !ok {
			c.Undecided(key, call.Pos(), "too many paths")
			continue
		}
		res := t.Term(call, emptyPS())
		bad := ""
		for _, lp := range paths {
			made := true // an index of its own was made
			if hasBool {
				isTrue := lp.Has(res, token.EQL, "true", true) || lp.Has(res, token.EQL, "false", false)
				isFalse := lp.Has(res, token.EQL, "true", false) || lp.Has(res, token.EQL, "false", true)
				if name == "(*db.Schema).addIndex" {
					made = isTrue
					if !isTrue && !isFalse {
						made = true // the answer is not looked at: the counter has to move for the `added` case
					}
				} else {
					made = isFalse || (!isTrue && !isFalse) // setPK answers whether it took an earlier index over
				}
			}
			if !made {
				continue
			}
			passed := false
			for bi, b := range lp.PS.Path {
				for ii, in := range b.Instrs {
					if bo, isBO := in.(*ssa.BinOp); isBO && incs[bo] && !(bi == 0 && ii <= instrIndex(call)) {
						passed = true
					}
				}
			}
			// the last block of a stopped path was only entered, not executed
			if !passed {
				bad = pathDesc(lp)
				break
			}
		}
		c.Check(bad == "", key, call.Pos(), "when the constraint made an index of its own the counter advances before the next constraint is looked at %s", map[bool]string{true: "", false: "— not on path [" + bad + "]: the next automatic index would get this one's number"}[bad == ""])
	}
	k := 0
	for _, b := range fn.Blocks {
		for _, in := range b.Instrs {
			inc, ok := in.(*ssa.BinOp)
			if !ok || !incs[inc] {
				continue
			}
			k++
			key := fmt.Sprintf("autoindex increment#%d", k)
			paths, ok := EnumLits(fn.Blocks[0], 0, TabOpts{Termer: t, EventOf: callEvents(p), Limit: 600000, StopGoesOn: inCycle(inc.Block()),
				Stop: func(i2 ssa.Instruction, ps *pathState) bool { return i2 == ssa.Instruction(inc) }})
			if !ok {
				c.Undecided(key, inc.Pos(), "too many paths")
				continue
			}
			bad := ""
			for _, lp := range paths {
				if lp.Stop == nil {
					continue
				}
				wr := false
				for _, l := range lp.Lits {
					if strings.HasSuffix(l.Subject, ".WithoutRowid") && l.Op == token.EQL && ((l.C == "true") == l.Val) {
						wr = true
					}
				}
				// which call decides about this increment: the most recent addIndex or setPK on the path
				var guard *Event
				for i := range lp.Events {
					e := &lp.Events[i]
					if e.Kind == "call" && (e.Name == "(*db.Schema).addIndex" || e.Name == "(*db.Schema).setPK") {
						guard = e
					}
				}
				if wr && guard != nil && guard.Name == "(*db.Schema).setPK" {
					// WITHOUT ROWID: the primary key is an index of its own (it is the table) and uses up a number —
					// unless it takes over the index of an earlier, equivalent UNIQUE, which already has one. That
					// holds for a column's own PRIMARY KEY as well: its UNIQUE may be written first.
					res := ""
					if v, isVal := guard.Instr.(ssa.Value); isVal && v.Type() != nil {
						if b, isB := v.Type().Underlying().(*types.Basic); isB && b.Kind() == types.Bool {
							res = t.Term(v, lp.PS)
						}
					}
					if res == "" || !(lp.Has(res, token.EQL, "true", false) || lp.Has(res, token.EQL, "false", true)) {
						bad = "WITHOUT ROWID table constraint: " + pathDesc(lp)
						if len(bad) > 300 {
							bad = "…" + bad[len(bad)-300:]
						}
						bad += " — the counter advances whether or not the primary key took over the index of an earlier equivalent UNIQUE (`a UNIQUE, PRIMARY KEY(a), UNIQUE(b)`: SQLite names b's index _2)"
						break
					}
					continue
				}
				if wr && guard == nil {
					continue
				}
				// the most recent addIndex call on the path must have answered true
				last := ""
				for _, e := range lp.Events {
					if e.Kind == "call" && e.Name == "(*db.Schema).addIndex" {
						last = t.Term(e.Instr.(ssa.Value), lp.PS)
					}
				}
				if last == "" || !lp.Has(last, token.EQL, "true", true) {
					bad = pathDesc(lp)
					if len(bad) > 300 {
						bad = "…" + bad[len(bad)-300:]
					}
					break
				}
			}
			c.Check(bad == "", key, inc.Pos(), "the counter advances only after addIndex reported that it added an index (or for a WITHOUT ROWID primary key) %s", map[bool]string{true: "", false: "— not on path [" + bad + "]: a constraint that shares an existing index would shift the names of all later automatic indexes"}[bad == ""])
		}
	}
}
