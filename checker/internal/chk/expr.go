package chk

import (
	"fmt"
	"go/token"
	"go/types"
	"sort"
	"strings"

	"golang.org/x/tools/go/ssa"
)

// sx is a small expression tree used to compare arithmetic the code performs with the file format's formulas,
// after SSA has removed local naming. + and * are commutative (operands sorted), integer conversions are dropped,
// constants folded.
type sx struct {
	Op   string // "leaf", "const", "+", "-", "*", "/", "%", "<<", ">>", "|", "&", "call", "conv", "index", "slice", "neg"
	Name string // leaf name / callee / conv type
	N    int64
	Args []*sx
}

func leaf(name string) *sx        { return &sx{Op: "leaf", Name: name} }
func num(n int64) *sx             { return &sx{Op: "const", N: n} }
func bin(op string, a, b *sx) *sx { return fold(&sx{Op: op, Args: []*sx{a, b}}) }

func fold(e *sx) *sx {
	if len(e.Args) == 2 && e.Args[0].Op == "const" && e.Args[1].Op == "const" {
		a, b := e.Args[0].N, e.Args[1].N
		switch e.Op {
		case "+":
			return num(a + b)
		case "-":
			return num(a - b)
		case "*":
			return num(a * b)
		case "/":
			if b != 0 {
				return num(a / b)
			}
		case "%":
			if b != 0 {
				return num(a % b)
			}
		case "<<":
			if b >= 0 && b < 63 {
				return num(a << uint(b))
			}
		}
	}
	return e
}

func (e *sx) String() string {
	switch e.Op {
	case "leaf":
		return e.Name
	case "const":
		return fmt.Sprint(e.N)
	case "call", "conv":
		var as []string
		for _, a := range e.Args {
			as = append(as, a.String())
		}
		return e.Name + "(" + strings.Join(as, ",") + ")"
	case "index":
		return e.Args[0].String() + "[" + e.Args[1].String() + "]"
	case "slice":
		s := e.Args[0].String() + "["
		if e.Args[1] != nil {
			s += e.Args[1].String()
		}
		s += ":"
		if e.Args[2] != nil {
			s += e.Args[2].String()
		}
		return s + "]"
	case "neg":
		return "-(" + e.Args[0].String() + ")"
	}
	a, b := e.Args[0].String(), e.Args[1].String()
	if e.Op == "+" || e.Op == "*" || e.Op == "|" || e.Op == "&" {
		// flatten and sort
		var parts []string
		var collect func(x *sx)
		collect = func(x *sx) {
			if x.Op == e.Op {
				collect(x.Args[0])
				collect(x.Args[1])
			} else {
				parts = append(parts, x.String())
			}
		}
		collect(e)
		sort.Strings(parts)
		return "(" + strings.Join(parts, e.Op) + ")"
	}
	return "(" + a + e.Op + b + ")"
}

// exprOf converts an SSA value to an sx. Leaves are named by `name` (nil result = unknown leaf with its Term).
type exprCtx struct {
	p        *Program
	ps       *pathState
	name     func(v ssa.Value) (string, bool)
	keepConv bool // keep integer/float conversions (needed for sign-extension widths)
	inline   int  // remaining depth for inlining static module callees
}

func (c *exprCtx) of(v ssa.Value) *sx {
	if c.ps != nil {
		v = c.ps.Resolve(v)
	}
	if c.name != nil {
		if s, ok := c.name(v); ok {
			return leaf(s)
		}
	}
	switch x := v.(type) {
	case *ssa.Const:
		if n, ok := constInt(x); ok {
			return num(n)
		}
		return leaf(constString2(x))
	case *ssa.Parameter:
		if e, ok := c.extraParamExpr(x); ok {
			return e
		}
		return leaf("p:" + x.Name())
	case *ssa.Convert:
		if c.keepConv {
			return &sx{Op: "conv", Name: types.TypeString(x.Type(), shortQual), Args: []*sx{c.of(x.X)}}
		}
		return c.of(x.X)
	case *ssa.ChangeType:
		return c.of(x.X)
	case *ssa.MakeInterface:
		return c.of(x.X)
	case *ssa.BinOp:
		op := x.Op.String()
		return bin(op, c.of(x.X), c.of(x.Y))
	case *ssa.UnOp:
		switch x.Op {
		case token.SUB:
			return &sx{Op: "neg", Args: []*sx{c.of(x.X)}}
		case token.MUL:
			switch a := x.X.(type) {
			case *ssa.IndexAddr:
				return &sx{Op: "index", Args: []*sx{c.of(a.X), c.of(a.Index)}}
			case *ssa.FieldAddr:
				return leaf(c.of(a.X).String() + "." + fieldName(a))
			case *ssa.Global:
				return leaf("g:" + a.Name())
			}
		}
	case *ssa.Index:
		return &sx{Op: "index", Args: []*sx{c.of(x.X), c.of(x.Index)}}
	case *ssa.Field:
		return leaf(c.of(x.X).String() + "." + fieldName(x))
	case *ssa.Slice:
		e := &sx{Op: "slice", Args: []*sx{c.of(x.X), nil, nil}}
		if x.Low != nil {
			e.Args[1] = c.of(x.Low)
		}
		if x.High != nil {
			e.Args[2] = c.of(x.High)
		}
		return e
	case *ssa.Extract:
		return leaf(c.of(x.Tuple).String() + "#" + fmt.Sprint(x.Index))
	case *ssa.Call:
		cc := x.Common()
		if b, ok := cc.Value.(*ssa.Builtin); ok {
			e := &sx{Op: "call", Name: b.Name()}
			for _, a := range cc.Args {
				e.Args = append(e.Args, c.of(a))
			}
			return e
		}
		if rv, bind, ok := pureHelperResult(x); ok {
			c2 := *c
			ps2 := emptyPS()
			if c.ps != nil {
				ps2 = c.ps.clone()
			}
			if ps2.Bind == nil {
				ps2.Bind = map[*ssa.Parameter]ssa.Value{}
			}
			for k, v := range bind {
				ps2.Bind[k] = v
			}
			c2.ps = ps2
			return c2.of(rv)
		}
		name := calleeName(c.p, x)
		e := &sx{Op: "call", Name: name}
		for _, a := range cc.Args {
			if g, ok := a.(*ssa.UnOp); ok {
				if gl, ok := g.X.(*ssa.Global); ok && gl.Name() == "BigEndian" {
					continue // receiver of binary.BigEndian methods
				}
			}
			e.Args = append(e.Args, c.of(a))
		}
		return e
	}
	t := &Termer{P: c.p}
	return leaf(t.Term(v, c.ps))
}
