package chk

import (
	"go/token"
	"go/types"
	"strings"

	"golang.org/x/tools/go/ssa"
)

func drvRules() []*Rule {
	return []*Rule{
		{ID: "DRV-1", Props: []string{"C19"}, Min: 3,
			Doc: "every send on the row channel is a case of a blocking select whose other case receives from Done() of the context created by the WithCancel whose cancel function is stored in that Rows",
			Run: runDrv1},
		{ID: "DRV-2", Props: []string{"C19"}, Min: 2,
			Doc: "the producer closes the row channel by defer, and nothing else closes it",
			Run: runDrv2},
		{ID: "DRV-3", Props: []string{"C19", "C20"}, Min: 3,
			Doc: "the producer publishes SelectDone's error into Rows.err before wg.Done and before the deferred close; wg.Add precedes the go statement",
			Run: runDrv3},
		{ID: "DRV-4", Props: []string{"C19", "C20", "C17"}, Min: 2,
			Doc: "Rows.Close cancels, then waits, then reads the error it returns",
			Run: runDrv4},
		{ID: "DRV-5", Props: []string{"C19", "C20", "C12"}, Min: 4,
			Doc: "Rows.Next surfaces the stored error (else io.EOF) when the channel is closed and copies the row positionally; Rows.err is read only after the close was observed or after wg.Wait",
			Run: runDrv5},
		{ID: "DRV-6", Props: []string{"C19"}, Min: 1,
			Doc: "no cancel function is lost: on every path from context.With* to a return the cancel function is called, deferred or stored in the result",
			Run: runDrv6},
		{ID: "DRV-7", Props: []string{"C19"}, Min: 4,
			Doc: "the driver hands SelectDone the parsed table and the expanded column list unchanged, reports those same columns, expands * to Columns' result in place",
			Run: runDrv7},
	}
}

func rowsField(v ssa.Value) string {
	fa, ok := v.(*ssa.FieldAddr)
	if !ok || !typeIs(fa.X.Type(), modPkgPath("driver"), "Rows") {
		return ""
	}
	return fieldName(fa)
}

// loadOfRowsField: v is a load of field `name` of a *Rows.
func loadOfRowsField(v ssa.Value, name string) bool {
	u, ok := v.(*ssa.UnOp)
	return ok && u.Op == token.MUL && rowsField(u.X) == name
}

func withCancelOrigin(v ssa.Value) *ssa.Call {
	// v is (a conversion of) extract #k of a call to context.WithCancel / WithTimeout / WithDeadline
	v = stripConv(v)
	call, _ := extractOf(v)
	if call == nil {
		return nil
	}
	c := call.Call.StaticCallee()
	if c != nil && c.Object() != nil && c.Object().Pkg() != nil && c.Object().Pkg().Path() == "context" && strings.HasPrefix(c.Name(), "With") {
		return call
	}
	return nil
}

// origin is a value that may be the current content of a cell: stored by `store`, or (store == nil) handed directly
// as an argument to the function whose parameter the cell spills.
type origin struct {
	val   ssa.Value
	store *ssa.Store
}

// originsOf: what may have put the current value into the cell `cell`, followed back through parameters: when the
// store is of a parameter of the enclosing function (the producer body extracted into a method and started with
// `go st.produce(ctx, …)`), the search continues with the argument at every call, go or defer site of that function.
func originsOf(p *Program, cell ssa.Value, depth int) []origin {
	var out []origin
	if depth > 4 {
		return nil
	}
	for _, s := range cellStores(cell) {
		prm, ok := stripConv(s.Val).(*ssa.Parameter)
		if !ok {
			out = append(out, origin{s.Val, s})
			continue
		}
		f := prm.Parent()
		idx := -1
		for k, fp := range f.Params {
			if fp == prm {
				idx = k
			}
		}
		found := false
		for _, g := range p.ModFuncs() {
			for _, cs := range callsIn(g) {
				if cs.Common().StaticCallee() != f || idx < 0 || idx >= len(cs.Common().Args) {
					continue
				}
				found = true
				a := stripConv(cs.Common().Args[idx])
				if u, ok := a.(*ssa.UnOp); ok && u.Op == token.MUL {
					out = append(out, originsOf(p, u.X, depth+1)...)
				} else {
					out = append(out, origin{a, nil})
				}
			}
		}
		if !found {
			out = append(out, origin{s.Val, s})
		}
	}
	return out
}

func runDrv1(c *Ctx) {
	p := c.P
	n := 0
	for _, fn := range p.ModFuncs() {
		if p.PkgShort(fn) != "driver" {
			continue
		}
		for _, in := range instrs(fn) {
			switch x := in.(type) {
			case *ssa.Send:
				if loadOfRowsField(x.Chan, "rows") || strings.Contains(x.Chan.Type().String(), "sqlittle.Row") {
					n++
					c.Fail(p.FnKey(fn)+" send", x.Pos(), "plain send on the row channel: after Close/cancel nobody receives, the producer blocks forever holding the read lock")
				}
			case *ssa.Select:
				sendIdx := -1
				for i, st := range x.States {
					if st.Dir == types.SendOnly && loadOfRowsField(st.Chan, "rows") {
						sendIdx = i
					}
				}
				if sendIdx < 0 {
					continue
				}
				n++
				key := p.FnKey(fn) + " select"
				if !x.Blocking {
					c.Fail(key, x.Pos(), "the select sending a row has a default case: a row is dropped whenever the consumer is not already waiting")
					continue
				}
				// another state receives from ctx.Done()
				var ctxCell ssa.Value
				for i, st := range x.States {
					if i == sendIdx || st.Dir != types.RecvOnly {
						continue
					}
					call, ok := st.Chan.(*ssa.Call)
					if !ok || !call.Call.IsInvoke() || call.Call.Method.Name() != "Done" {
						continue
					}
					if u, ok := call.Call.Value.(*ssa.UnOp); ok && u.Op == token.MUL {
						ctxCell = u.X
					}
				}
				if ctxCell == nil {
					c.Fail(key, x.Pos(), "the select sending a row has no case receiving from the context's Done(): Close/cancel cannot unblock the producer")
					continue
				}
				// the context cell holds the context derived by the WithCancel whose cancel is stored in Rows.cancel
				var wc *ssa.Call
				origins := originsOf(p, ctxCell, 0)
				for _, o := range origins {
					if w := withCancelOrigin(o.val); w != nil {
						wc = w
					}
				}
				if wc == nil {
					c.Fail(key, x.Pos(), "the context the producer selects on is not one derived by context.WithCancel in QueryContext: Rows.Close's cancel cannot reach it")
					continue
				}
				stored := false
				for _, f2 := range p.ModFuncs() {
					for _, in2 := range instrs(f2) {
						if s, ok := in2.(*ssa.Store); ok && rowsField(s.Addr) == "cancel" && withCancelOrigin(s.Val) == wc {
							if _, idx := extractOf(stripConv(s.Val)); idx == 1 {
								stored = true
							}
						}
					}
				}
				c.Check(stored, key, x.Pos(), "the send is guarded by <-ctx.Done() of the WithCancel context whose cancel function is stored in Rows.cancel")
				// the store of the derived ctx into the cell precedes the go statement
				for _, o := range origins {
					if withCancelOrigin(o.val) != wc {
						continue
					}
					if o.store == nil {
						c.Pass(key+" ctx-before-go", x.Pos(), "the cancellable context is handed to the producer as an argument of the go statement")
						continue
					}
					s := o.store
					okOrder := false
					for _, in3 := range instrs(s.Parent()) {
						if g, ok := in3.(*ssa.Go); ok && instrDominates(s, g) {
							okOrder = true
						}
					}
					c.Check(okOrder, key+" ctx-before-go", s.Pos(), "the cancellable context is in place before the producer starts")
				}
				// the outcome of the select: ctx.Done ⇒ return true (stop), sent ⇒ return false
				idxV := ssa.Value(nil)
				for _, r := range *x.Referrers() {
					if e, ok := r.(*ssa.Extract); ok && e.Index == 0 {
						idxV = e
					}
				}
				if idxV != nil {
					t := &Termer{P: p}
					paths, _ := EnumLits(x.Block(), instrIndex(x)+1, TabOpts{Termer: t})
					good := true
					for _, lp := range paths {
						if lp.Exit == nil || len(lp.Exit.Results) != 1 {
							continue
						}
						rv, isC := constBool(lp.PS.Resolve(lp.Exit.Results[0]))
						for _, l := range lp.Lits {
							if l.Cond == nil || !l.IsInt || !l.Val || l.Op != token.EQL {
								continue
							}
							if bo, ok := l.Cond.(*ssa.BinOp); ok && bo.X == idxV {
								if int(l.N) == sendIdx && !(isC && !rv) {
									good = false
								}
								if int(l.N) != sendIdx && !(isC && rv) {
									good = false
								}
							}
						}
					}
					c.Check(good, key+" outcome", x.Pos(), "cancelled ⇒ the row callback answers done=true; row sent ⇒ it answers false")
				}
			}
		}
	}
	if n == 0 {
		c.Undecided("row channel", token.NoPos, "no send on Rows.rows found in package driver")
	}
}

func runDrv2(c *Ctx) {
	p := c.P
	closes := 0
	for _, fn := range p.ModFuncs() {
		for _, cs := range callsIn(fn) {
			b, ok := cs.Common().Value.(*ssa.Builtin)
			if !ok || b.Name() != "close" {
				continue
			}
			if !loadOfRowsField(cs.Common().Args[0], "rows") {
				continue
			}
			closes++
			_, isDefer := cs.(*ssa.Defer)
			isProducer := false
			for _, g2 := range p.ModFuncs() {
				for _, in := range instrs(g2) {
					if g, ok := in.(*ssa.Go); ok && g.Call.StaticCallee() == fn {
						isProducer = true // `go st.produce(…)`: the producer body as a method
					}
				}
			}
			if fn.Parent() != nil {
				for _, in := range instrs(fn.Parent()) {
					if g, ok := in.(*ssa.Go); ok {
						if mc, ok := g.Call.Value.(*ssa.MakeClosure); ok && mc.Fn == fn {
							isProducer = true
						}
					}
				}
			}
			key := p.FnKey(fn) + " close"
			if isDefer && isProducer && cs.Block() == fn.Blocks[0] {
				c.Pass(key, cs.Pos(), "the producer closes the row channel by a defer registered in its entry block: it runs on every exit, once")
			} else {
				c.Fail(key, cs.Pos(), "the row channel is closed %s: a second close panics / an early close loses rows or publishes before the error is stored", map[bool]string{true: "outside the producer goroutine", false: "by a non-deferred or conditional close"}[!isProducer])
			}
		}
	}
	if closes == 0 {
		c.Fail("close", token.NoPos, "nobody closes Rows.rows: Next blocks forever at the end of the result")
	} else {
		c.Check(closes == 1, "close count", token.NoPos, "%d close site(s) for Rows.rows", closes)
	}
}

func producerFn(p *Program) (*ssa.Function, *ssa.Go) {
	for _, fn := range p.ModFuncs() {
		if p.PkgShort(fn) != "driver" {
			continue
		}
		for _, in := range instrs(fn) {
			if g, ok := in.(*ssa.Go); ok {
				if mc, ok := g.Call.Value.(*ssa.MakeClosure); ok {
					return mc.Fn.(*ssa.Function), g
				}
				if f := g.Call.StaticCallee(); f != nil {
					return f, g
				}
			}
		}
	}
	return nil, nil
}

func isWG(cs ssa.CallInstruction, method string) bool {
	c := cs.Common().StaticCallee()
	return c != nil && isLibFunc(c, "sync", "(*WaitGroup)."+method)
}

// containsSync: t is, or has a field or element that is, one of package sync's stateful types (by value).
func containsSync(t types.Type, depth int) bool {
	if depth > 4 {
		return false
	}
	if nt, ok := t.(*types.Named); ok && nt.Obj().Pkg() != nil && nt.Obj().Pkg().Path() == "sync" {
		switch nt.Obj().Name() {
		case "WaitGroup", "Mutex", "RWMutex", "Once", "Cond", "Pool", "Map":
			return true
		}
	}
	switch u := t.Underlying().(type) {
	case *types.Struct:
		for i := 0; i < u.NumFields(); i++ {
			if containsSync(u.Field(i).Type(), depth+1) {
				return true
			}
		}
	case *types.Array:
		return containsSync(u.Elem(), depth+1)
	}
	return false
}

func runDrv3(c *Ctx) {
	p := c.P
	prod, goStmt := producerFn(p)
	if prod == nil {
		c.Undecided("producer", token.NoPos, "producer goroutine not found")
		return
	}
	var sel *ssa.Call
	for _, cs := range callsIn(prod) {
		if callee := cs.Common().StaticCallee(); callee != nil && p.FnKey(callee) == "(*sqlittle.DB).SelectDone" {
			sel, _ = cs.(*ssa.Call)
		}
	}
	if sel == nil {
		c.Undecided("producer", prod.Pos(), "the producer does not call (*sqlittle.DB).SelectDone")
		return
	}
	var errStore *ssa.Store
	for _, in := range instrs(prod) {
		if s, ok := in.(*ssa.Store); ok && rowsField(s.Addr) == "err" && s.Val == ssa.Value(sel) {
			errStore = s
		}
	}
	if errStore == nil {
		c.Fail("producer: error published", sel.Pos(), "SelectDone's error is not stored into Rows.err: a failed scan looks like a complete result")
		return
	}
	var done ssa.CallInstruction
	for _, cs := range callsIn(prod) {
		if isWG(cs, "Done") {
			done = cs
		}
	}
	if done == nil {
		c.Fail("producer: wg.Done", prod.Pos(), "the producer never calls wg.Done: Rows.Close waits forever")
	} else {
		_, isDefer := done.(*ssa.Defer)
		c.Check(isDefer || instrDominates(errStore, done), "producer: error before wg.Done", done.Pos(), "Rows.err is stored before wg.Done releases Close")
		if isDefer {
			// deferred Done runs after the store anyway, but must be registered after (= run before) the deferred close? order: defers run LIFO
			c.Pass("producer: wg.Done deferred", done.Pos(), "wg.Done is deferred (runs after the store)")
			// … registered before anything can return
			early := cfgQuery{avoid: func(in ssa.Instruction) bool { return in == ssa.Instruction(done) }, goal: func(in ssa.Instruction) bool {
				_, isRet := in.(*ssa.Return)
				return isRet
			}}.firstHit(prod.Blocks[0], 0)
			c.Check(early == nil, "producer: wg.Done on every exit", done.Pos(), "%s", map[bool]string{true: "the deferred wg.Done is registered before any return of the producer", false: "the producer can return before its wg.Done is registered: Rows.Close waits forever"}[early == nil])
		} else {
			// every way out of the producer passes wg.Done
			early := cfgQuery{avoid: func(in ssa.Instruction) bool {
				cs, ok := in.(ssa.CallInstruction)
				return ok && isWG(cs, "Done")
			}, goal: func(in ssa.Instruction) bool {
				_, isRet := in.(*ssa.Return)
				return isRet
			}}.firstHit(prod.Blocks[0], 0)
			where := ""
			if early != nil {
				where = p.Pos(early.Pos())
			}
			c.Check(early == nil, "producer: wg.Done on every exit", done.Pos(), "%s", map[bool]string{true: "every return of the producer comes after wg.Done", false: "the producer returns at " + where + " without having called wg.Done (it is not deferred): Rows.Close — and with it the connection, the file handle and database/sql's cancel watcher — waits forever"}[early == nil])
		}
	}
	// close is deferred (DRV-2) ⇒ runs after the store; a non-deferred close must come after the store
	for _, cs := range callsIn(prod) {
		if b, ok := cs.Common().Value.(*ssa.Builtin); ok && b.Name() == "close" {
			if _, isDefer := cs.(*ssa.Defer); !isDefer {
				c.Check(instrDominates(errStore, cs), "producer: error before close", cs.Pos(), "the channel is closed only after Rows.err was stored")
			} else {
				c.Pass("producer: error before close", cs.Pos(), "close is deferred, the store precedes it on every normal exit")
			}
		}
	}
	// one WaitGroup: Add, Done and Wait all operate on the Rows' own wg field — a copy (`wg := rows.wg`) counts on its own
	for _, fn := range p.ModFuncs() {
		for _, cs := range callsIn(fn) {
			for _, m := range []string{"Add", "Done", "Wait"} {
				if !isWG(cs, m) {
					continue
				}
				recv := cs.Common().Args[0]
				c.Check(rowsField(recv) == "wg", "wg identity: "+p.FnKey(fn)+" "+m, cs.Pos(), "wg.%s is called on the wg field of the Rows itself (receiver %s): Close waits for the producer only if both use the same counter", m, (&Termer{P: p}).Term(recv, emptyPS()))
			}
		}
		// … and no value holding a sync primitive is copied
		for _, in := range instrs(fn) {
			if ld, ok := in.(*ssa.UnOp); ok && ld.Op == token.MUL && containsSync(ld.Type(), 0) {
				c.Fail("sync value copied: "+p.FnKey(fn), ld.Pos(), "a value of type %s, which holds a sync primitive, is copied: the copy has its own state", types.TypeString(ld.Type(), shortQual))
			}
		}
	}
	// wg.Add(1) dominates the go statement
	okAdd := false
	for _, cs := range callsIn(goStmt.Parent()) {
		if isWG(cs, "Add") && instrDominates(cs, goStmt) {
			if n, ok := constInt(cs.Common().Args[1]); ok && n == 1 {
				okAdd = true
			}
		}
	}
	c.Check(okAdd, "wg.Add before go", goStmt.Pos(), "wg.Add(1) precedes the go statement (Close's Wait cannot pass before the producer is accounted for)")
}

func runDrv4(c *Ctx) {
	_ = c.P
	fn := c.MustFunc("driver", "(*Rows).Close")
	if fn == nil {
		return
	}
	var cancel, wait ssa.CallInstruction
	for _, cs := range callsIn(fn) {
		if loadOfRowsField(cs.Common().Value, "cancel") {
			cancel = cs
		}
		if isWG(cs, "Wait") {
			wait = cs
		}
	}
	if cancel == nil {
		c.Fail("Close: cancel", fn.Pos(), "Rows.Close does not call the cancel function: a producer blocked on send never stops, the goroutine and the read lock leak")
	}
	if wait == nil {
		c.Fail("Close: wait", fn.Pos(), "Rows.Close does not wait for the producer: the statement's handle can be closed while the scan still runs, and the error is read racily")
	}
	if cancel == nil || wait == nil {
		return
	}
	_, cd := cancel.(*ssa.Defer)
	_, wd := wait.(*ssa.Defer)
	c.Check(!cd && !wd && instrDominates(cancel, wait), "Close: cancel before wait", wait.Pos(), "cancel() precedes wg.Wait() (waiting first deadlocks on a producer blocked in send)")
	for _, r := range returnsOf(fn) {
		v := r.Results[0]
		u, ok := v.(*ssa.UnOp)
		good := ok && loadOfRowsField(v, "err") && instrDominates(wait, u)
		c.Check(good, "Close: error after wait", r.Pos(), "the error returned is Rows.err read after wg.Wait()")
	}
	for _, b := range fn.Blocks {
		if b != fn.Blocks[0] && (b == cancel.Block() || b == wait.Block()) {
			c.Fail("Close: unconditional", fn.Pos(), "cancel/wait are conditional in Rows.Close")
		}
	}
}

func runDrv5(c *Ctx) {
	p := c.P
	fn := c.MustFunc("driver", "(*Rows).Next")
	if fn == nil {
		return
	}
	// the receive
	var recv *ssa.UnOp
	for _, in := range instrs(fn) {
		if u, ok := in.(*ssa.UnOp); ok && u.Op == token.ARROW && u.CommaOk && loadOfRowsField(u.X, "rows") {
			recv = u
		}
	}
	if recv == nil {
		c.Fail("Next: receive", fn.Pos(), "Rows.Next does not receive from the row channel with the comma-ok form: the end of the result cannot be told from a nil row")
		return
	}
	t := &Termer{P: p}
	t.Custom = func(v ssa.Value, ps *pathState) (string, bool) {
		if v == ssa.Value(recv) {
			return "recv", true
		}
		return "", false
	}
	paths, ok := EnumLits(fn.Blocks[0], 0, TabOpts{Termer: t, EventOf: callEvents(p)})
	if !ok {
		c.Undecided("Next: paths", fn.Pos(), "too many paths")
		return
	}
	recvName := "p:" + fn.Params[0].Name()
	for _, lp := range paths {
		if lp.Exit == nil {
			continue
		}
		ret := t.Term(lp.Exit.Results[0], lp.PS)
		closed := lp.Holds("recv#1", token.EQL, "false") || lp.Has("recv#1", token.EQL, "true", false)
		open := lp.Has("recv#1", token.EQL, "true", true)
		key := "Next:" + pathSig(lp, 99)
		isEOF := lp.Holds(recvName+".err−g:EOF", token.EQL, "0") || lp.Holds("g:EOF−"+recvName+".err", token.EQL, "0")
		notEOF := lp.Holds(recvName+".err−g:EOF", token.NEQ, "0") || lp.Holds("g:EOF−"+recvName+".err", token.NEQ, "0")
		switch {
		case closed && isEOF:
			c.Check(ret != "g:EOF" && ret != "const:nil" && ret != recvName+".err", key, lp.Exit.Pos(), "channel closed and the stored error is io.EOF itself (a read past the end of a truncated file) ⇒ a different, non-nil error (returns %s): io.EOF from Next means `no more rows` to database/sql", ret)
		case closed && lp.Holds(recvName+".err", token.NEQ, "nil"):
			c.Check(ret == recvName+".err", key, lp.Exit.Pos(), "channel closed and an error stored ⇒ that error is returned (returns %s)", ret)
			if !notEOF && !pagersNeverReturnRawEOF(p) {
				c.Fail(key+" eof", lp.Exit.Pos(), "the stored error is handed to database/sql without excluding io.EOF, and a pager returns the raw error of its read (io.EOF for a page beyond the end of a truncated file): database/sql takes io.EOF from Next as a clean end of rows, so a truncated file gives a short result and rows.Err() == nil")
			}
		case closed && lp.Holds(recvName+".err", token.EQL, "nil"):
			c.Check(ret == "g:EOF", key, lp.Exit.Pos(), "channel closed and no error ⇒ io.EOF (returns %s)", ret)
		case closed:
			c.Fail(key, lp.Exit.Pos(), "channel closed but the stored error is not consulted (returns %s): a failed scan ends like a complete one", ret)
		case open:
			c.Check(ret == "const:nil", key, lp.Exit.Pos(), "a row was received ⇒ nil (returns %s)", ret)
		default:
			c.Fail(key, lp.Exit.Pos(), "Next returns %s without having looked at the receive's ok flag", ret)
		}
	}
	// positional copy: dest[i] = row[i] with the same index
	copied := false
	for _, in := range instrs(fn) {
		s, ok := in.(*ssa.Store)
		if !ok {
			continue
		}
		ia, ok := s.Addr.(*ssa.IndexAddr)
		if !ok || ia.X != ssa.Value(fn.Params[1]) {
			continue
		}
		// value: element of the received row at the same index (range over row: index phi / extract of next)
		v := stripConv(s.Val)
		if u, ok := v.(*ssa.UnOp); ok && u.Op == token.MUL {
			if src, ok := u.X.(*ssa.IndexAddr); ok && src.Index == ia.Index {
				if e, ok := src.X.(*ssa.Extract); ok && e.Tuple == ssa.Value(recv) && e.Index == 0 {
					copied = true
				}
			}
		}
	}
	c.Check(copied, "Next: positional copy", fn.Pos(), "dest[i] receives element i of the received row")
	// every load of Rows.err outside the producer is ordered after the close / the wait
	prod, _ := producerFn(p)
	for _, f2 := range p.ModFuncs() {
		if p.PkgShort(f2) != "driver" || f2 == prod {
			continue
		}
		for _, in := range instrs(f2) {
			u, ok := in.(*ssa.UnOp)
			if !ok || !loadOfRowsField(u, "err") {
				continue
			}
			key := p.FnKey(f2) + " reads Rows.err"
			ordered := false
			for _, cs := range callsIn(f2) {
				if isWG(cs, "Wait") && instrDominates(cs, u) {
					ordered = true
				}
			}
			// dominated by the !ok edge of a comma-ok receive from the row channel
			for _, b := range f2.Blocks {
				iff, ok := b.Instrs[len(b.Instrs)-1].(*ssa.If)
				if !ok {
					continue
				}
				e, ok := iff.Cond.(*ssa.Extract)
				if !ok || e.Index != 1 {
					continue
				}
				rv, ok := e.Tuple.(*ssa.UnOp)
				if !ok || rv.Op != token.ARROW || !loadOfRowsField(rv.X, "rows") {
					continue
				}
				notOK := b.Succs[1]
				if (notOK == u.Block() || notOK.Dominates(u.Block())) && len(notOK.Preds) == 1 {
					ordered = true
				}
			}
			c.Check(ordered, key, u.Pos(), "Rows.err is read only after the channel close was observed or after wg.Wait (happens-after the producer's store)")
		}
	}
}

func runDrv6(c *Ctx) {
	p := c.P
	n := 0
	for _, fn := range p.ModFuncs() {
		if !errFn(p, fn) {
			continue
		}
		for _, cs := range callsIn(fn) {
			call, ok := cs.(*ssa.Call)
			if !ok {
				continue
			}
			callee := call.Call.StaticCallee()
			if callee == nil || callee.Object() == nil || callee.Object().Pkg() == nil || callee.Object().Pkg().Path() != "context" || !strings.HasPrefix(callee.Name(), "With") || callee.Name() == "WithValue" {
				continue
			}
			n++
			key := p.FnKey(fn) + "→context." + callee.Name()
			var cancel ssa.Value
			for _, r := range *call.Referrers() {
				if e, ok := r.(*ssa.Extract); ok && e.Index == 1 {
					cancel = e
				}
			}
			if cancel == nil {
				c.Fail(key, call.Pos(), "the cancel function is discarded: the derived context (and the goroutine propagating the parent's cancellation) lives until the parent is done")
				continue
			}
			uses := map[ssa.Instruction]bool{}
			var collect func(v ssa.Value)
			collect = func(v ssa.Value) {
				for _, r := range *v.Referrers() {
					switch x := r.(type) {
					case *ssa.ChangeType:
						collect(x)
					case *ssa.MakeInterface:
						collect(x)
					case *ssa.Store:
						uses[x] = true
						if a, ok := x.Addr.(*ssa.Alloc); ok && x.Val == v {
							for _, l := range cellLoads(a) {
								collect(l)
							}
						}
					case ssa.CallInstruction:
						uses[x] = true
					case *ssa.MakeClosure, *ssa.Return:
						uses[x.(ssa.Instruction)] = true
					}
				}
			}
			collect(cancel)
			// every path from the call to a return passes a use
			q := cfgQuery{avoid: func(in ssa.Instruction) bool { return uses[in] }, goal: isReturn}
			hit := q.firstHit(call.Block(), instrIndex(call)+1)
			if hit == nil {
				c.Pass(key, call.Pos(), "on every path to a return the cancel function is called, deferred, captured or stored")
			} else {
				c.Fail(key, hit.Pos(), "the return at %s is reached without calling or keeping the cancel function of the context created at %s (lost cancel)", p.Pos(hit.Pos()), p.Pos(call.Pos()))
			}
		}
	}
	if n == 0 {
		c.Undecided("context.With*", token.NoPos, "no derived context found: the driver's cancellation protocol is gone")
	}
}

// throughParam follows v back through a parameter of its function to the argument at that function's only call, go
// or defer site in the module (the producer body extracted into a method receives table and columns as arguments).
func throughParam(p *Program, v ssa.Value) ssa.Value {
	for depth := 0; depth < 4; depth++ {
		v = resolveCell(stripConv(v))
		prm, ok := v.(*ssa.Parameter)
		if !ok {
			return v
		}
		f := prm.Parent()
		var arg ssa.Value
		n := 0
		for _, g := range p.ModFuncs() {
			for _, cs := range callsIn(g) {
				if cs.Common().StaticCallee() != f {
					continue
				}
				for k, fp := range f.Params {
					if fp == prm && k < len(cs.Common().Args) {
						arg = cs.Common().Args[k]
						n++
					}
				}
			}
		}
		if n != 1 {
			return v
		}
		v = arg
	}
	return v
}

func runDrv7(c *Ctx) {
	p := c.P
	qc := c.MustFunc("driver", "(*Statement).QueryContext")
	if qc == nil {
		return
	}
	ex := p.Func("driver", "(*Statement).expandSelectColumns")
	loopFn := ex
	if ex == nil {
		// the expansion may have become a plain function (fed with what it used to fetch itself): it is the driver
		// function whose []string result QueryContext puts into Rows.columns; its loop is then read in QueryContext's
		// context, with its parameters bound to what QueryContext passes
		for _, in := range instrs(qc) {
			s, ok := in.(*ssa.Store)
			if !ok || rowsField(s.Addr) != "columns" {
				continue
			}
			v := throughParam(p, s.Val)
			call, _ := extractOf(v)
			if call == nil {
				call, _ = v.(*ssa.Call)
			}
			if call != nil && call.Call.StaticCallee() != nil && p.PkgShort(call.Call.StaticCallee()) == "driver" {
				ex = call.Call.StaticCallee()
				loopFn = qc
			}
		}
	}
	if ex == nil {
		c.Undecided("anchor driver.(*Statement).expandSelectColumns", token.NoPos, "no function of package driver produces the column list that QueryContext records in Rows.columns")
		return
	}
	prod, _ := producerFn(p)
	if prod == nil {
		c.Undecided("producer", token.NoPos, "producer not found")
		return
	}
	// the columns value: result #0 of expandSelectColumns, stored in a cell shared with the producer and in Rows.columns
	var exCall *ssa.Call
	for _, cs := range callsIn(qc) {
		if cs.Common().StaticCallee() == ex {
			exCall, _ = cs.(*ssa.Call)
		}
	}
	if exCall == nil {
		c.Fail("QueryContext: columns", qc.Pos(), "QueryContext does not expand the column list through expandSelectColumns")
		return
	}
	isCols := func(v ssa.Value) bool {
		// the producer may take the list from Rows.columns, which holds exactly it (checked just below)
		if u, ok := stripConv(v).(*ssa.UnOp); ok && u.Op == token.MUL && rowsField(u.X) == "columns" {
			return true
		}
		v = throughParam(p, v)
		if v == ssa.Value(exCall) {
			return true
		}
		call, idx := extractOf(v)
		return call == exCall && idx == 0
	}
	okCols := false
	for _, in := range instrs(qc) {
		if s, ok := in.(*ssa.Store); ok && rowsField(s.Addr) == "columns" {
			okCols = isCols(s.Val)
		}
	}
	c.Check(okCols, "QueryContext: Rows.columns", qc.Pos(), "Rows.Columns() reports exactly the expanded column list")
	for _, cs := range callsIn(prod) {
		callee := cs.Common().StaticCallee()
		if callee == nil || p.FnKey(callee) != "(*sqlittle.DB).SelectDone" {
			continue
		}
		args := cs.Common().Args
		c.Check(isCols(args[3]), "producer: SelectDone columns", cs.Pos(), "SelectDone is asked for exactly the expanded column list, in order (so row values line up with Columns())")
		// table: sel.Table of the parsed statement
		tv := throughParam(p, args[1])
		okT := false
		if u, ok := tv.(*ssa.UnOp); ok && fieldName(u.X) == "Table" {
			okT = true
		}
		c.Check(okT, "producer: SelectDone table", cs.Pos(), "SelectDone is asked for the table named in the parsed SELECT")
		// the handle is the statement's own
		c.Check(strings.HasSuffix(accessPath(args[0]), ".dbh") || strings.HasSuffix(accessPath(throughParam(p, args[0])), ".dbh"), "producer: handle", cs.Pos(), "the scan runs on the statement's own handle (%s)", accessPath(args[0]))
	}
	// expandSelectColumns: * ⇒ append(cols, allCols...), else append(cols, c)
	var colsCall *ssa.Call
	for _, f := range []*ssa.Function{ex, loopFn} {
		for _, cs := range callsIn(f) {
			if callee := cs.Common().StaticCallee(); callee != nil && p.FnKey(callee) == "(*sqlittle.DB).Columns" {
				colsCall, _ = cs.(*ssa.Call)
			}
		}
	}
	if colsCall == nil {
		c.Fail("expand: Columns", ex.Pos(), "* is not expanded from (*sqlittle.DB).Columns")
		return
	}
	t := &Termer{P: p}
	starOK, otherOK, nStar, nOther := true, true, 0, 0
	// one generic iteration of the loop over the selected columns: on the paths where the element is "*" exactly one
	// append, of Columns()'s result; on the others exactly one append, of the element itself
	_, paths, okPaths := bodyPaths(p, loopFn, t)
	if !okPaths {
		c.Undecided("expand: loop", ex.Pos(), "expandSelectColumns is not a single loop over the selected columns")
		return
	}
	for _, lp := range paths {
		if lp.Stop == nil {
			continue
		}
		var elem ssa.Value
		isStar, tested := false, false
		for _, l := range lp.Lits {
			bo, ok := l.Cond.(*ssa.BinOp)
			if !ok || (bo.Op != token.EQL && bo.Op != token.NEQ) {
				continue
			}
			for _, pair := range [][2]ssa.Value{{bo.X, bo.Y}, {bo.Y, bo.X}} {
				if sc, ok := constString(pair[1]); ok && sc == "*" {
					elem, tested = pair[0], true
					isStar = (bo.Op == token.EQL) == l.Val
				}
			}
		}
		var appends []*ssa.Call
		for _, b := range lp.PS.Path {
			for _, in := range b.Instrs {
				if call, ok := in.(*ssa.Call); ok {
					if bi, ok := call.Call.Value.(*ssa.Builtin); ok && bi.Name() == "append" {
						appends = append(appends, call)
					}
				}
			}
		}
		if !tested {
			// a path that does not look at the element at all must not add anything
			if len(appends) > 0 {
				starOK, otherOK = false, false
			}
			continue
		}
		if isStar {
			nStar++
			if len(appends) != 1 {
				starOK = false
				continue
			}
			cc, idx := extractOf(lp.PS.Resolve(appends[0].Call.Args[1]))
			if cc != colsCall || idx != 0 {
				starOK = false
			}
			continue
		}
		nOther++
		if len(appends) != 1 {
			otherOK = false
			continue
		}
		// the argument is a slice of a fresh 1-element array holding elem
		okElem := false
		if sl, ok := appends[0].Call.Args[1].(*ssa.Slice); ok {
			if al, ok := sl.X.(*ssa.Alloc); ok {
				for _, r := range *al.Referrers() {
					if ia, ok := r.(*ssa.IndexAddr); ok {
						for _, rr := range *ia.Referrers() {
							if st, ok := rr.(*ssa.Store); ok && st.Val == elem {
								okElem = true
							}
						}
					}
				}
			}
		}
		if !okElem {
			otherOK = false
		}
	}
	c.Check(nStar >= 1 && starOK, "expand: star", ex.Pos(), "`*` appends Columns()'s result in place")
	// the list being built starts empty and owns its memory: appending into a slice of the parsed statement's own
	// column list would overwrite the names the loop has yet to read
	if hdr, _, okH := bodyPaths(p, loopFn, t); okH && hdr != nil {
		body := loopBody(hdr)
		nAcc, accOK, accWhy := 0, true, ""
		for _, in := range hdr.Instrs {
			ph, isPhi := in.(*ssa.Phi)
			if !isPhi {
				break
			}
			if sl, isSl := ph.Type().Underlying().(*types.Slice); !isSl || !types.Identical(sl.Elem(), types.Typ[types.String]) {
				continue
			}
			nAcc++
			for k, pb := range hdr.Preds {
				if body[pb] {
					continue
				}
				e := ph.Edges[k]
				switch x := e.(type) {
				case *ssa.Const:
					if !x.IsNil() {
						accOK, accWhy = false, "starts from "+x.String()
					}
				case *ssa.MakeSlice:
				default:
					accOK, accWhy = false, "starts from "+t.Term(e, emptyPS())
				}
			}
		}
		c.Check(nAcc >= 1 && accOK, "expand: fresh list", ex.Pos(), "the expanded list starts as nil or a fresh make(): it shares no memory with the statement's column list %s", accWhy)
	}
	c.Check(nOther >= 1 && otherOK, "expand: named", ex.Pos(), "a named column is appended unchanged")
}

// pagersNeverReturnRawEOF: no pager implementation returns the unwrapped error of a library read (which is io.EOF at
// the end of the file).
func pagersNeverReturnRawEOF(p *Program) bool {
	for _, impl := range p.pagerImpls("page") {
		for _, r := range returnsOf(impl) {
			v := r.Results[len(r.Results)-1]
			call, _ := extractOf(v)
			if c2, ok := v.(*ssa.Call); ok {
				call = c2
			}
			if call == nil {
				continue
			}
			if callee := call.Call.StaticCallee(); callee != nil && !p.InModule(callee) {
				name := callee.Name()
				if strings.HasPrefix(name, "Read") {
					return false
				}
			}
		}
	}
	return true
}
