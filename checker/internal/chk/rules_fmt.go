package chk

import (
	"fmt"
	"go/token"
	"go/types"
	"os"
	"strings"

	"golang.org/x/tools/go/ssa"
)

func fmtRules() []*Rule {
	return []*Rule{
		{ID: "FMT-spill", Props: []string{"C14", "C01", "C02", "C03", "C04", "C13"}, Min: 10,
			Doc: "local-payload computation equals fileformat2 §1.6: X = U−35 (table leaf) / ((U−12)·64/255)−23 (index cells, both kinds identical), M = ((U−12)·32/255)−23, K = M+((P−M) mod (U−4)), choice P≤X→P, K≤X→K, else M; overflow pointer = 4 bytes after the local part",
			Run: runSpill},
		{ID: "FMT-overflow", Props: []string{"C14", "C01", "C02", "C08", "C13", "C03", "C18", "C04", "C17", "C19"}, Min: 4,
			Doc: "overflow page layout: next pointer = big-endian bytes 0..3, content from byte 4 to the end of the page; whole pages are appended (so the append cannot write into the cached page's spare capacity); result cut to the declared length",
			Run: runOverflow},
		{ID: "REC-table", Props: []string{"C14", "C01", "C02", "C03", "C04", "C13"}, Min: 14,
			Doc: "serial-type table of parseRecord: per type, length guard = bytes decoded = advance of the body = fileformat2 §2.1, sign-extension through a signed type of exactly that width, constants for types 8/9, 10/11 rejected, (N−12)/2 and (N−13)/2 for blobs and text",
			Run: runRecTable},
		{ID: "SIGN", Props: []string{"C14", "C01", "C02", "C03", "C04", "C13"}, Min: 2,
			Doc: "readTwos24/48: bytes OR-ed big-endian with shifts 8·k, sign mask 1<<(NN−1) and subtrahend 1<<NN consistent with NN = 8·(bytes read)",
			Run: runSign},
		{ID: "VARINT", Props: []string{"C14", "C04", "C01", "C02", "C03", "C13"}, Min: 4,
			Doc: "readVarint loop-body table: bytes 1..8 contribute 7 bits and stop when the high bit is clear, the 9th byte contributes all 8 bits and always stops, count = bytes consumed, short input ⇒ (0,−1); the 9th-byte test takes precedence over the high-bit test",
			Run: runVarint},
	}
}

func callTo(fn *ssa.Function, p *Program, key string) []*ssa.Call {
	var out []*ssa.Call
	for _, cs := range callsIn(fn) {
		if c := cs.Common().StaticCallee(); c != nil && p.FnKey(c) == key {
			if call, ok := cs.(*ssa.Call); ok {
				out = append(out, call)
			}
		}
	}
	return out
}

func runSpill(c *Ctx) {
	p := c.P
	calc := c.MustFunc("db", "calculateCellInPageBytes")
	pp := c.MustFunc("db", "parsePayload")
	if calc == nil || pp == nil {
		return
	}
	if len(calc.Params) != 3 {
		c.Undecided("calculateCellInPageBytes signature", calc.Pos(), "expected (payload length, page size, max in-page payload)")
		return
	}
	P, U, X := leaf("P"), leaf("U"), leaf("X")
	names := map[ssa.Value]string{calc.Params[0]: "P", calc.Params[1]: "U", calc.Params[2]: "X"}
	ec := &exprCtx{p: p, name: func(v ssa.Value) (string, bool) { s, ok := names[v]; return s, ok }}
	M := bin("-", bin("/", bin("*", bin("-", U, num(12)), num(32)), num(255)), num(23))
	K := bin("+", M, bin("%", bin("-", P, M), bin("-", U, num(4))))
	t := &Termer{P: p, Custom: func(v ssa.Value, ps *pathState) (string, bool) {
		ec2 := *ec
		ec2.ps = ps
		if _, isC := v.(*ssa.Const); isC {
			return "", false
		}
		if _, isB := v.(*ssa.BinOp); isB {
			if _, isCmp := negOp[v.(*ssa.BinOp).Op]; isCmp {
				return "", false
			}
		}
		switch v.(type) {
		case *ssa.BinOp, *ssa.Parameter, *ssa.Convert:
			return ec2.of(v).String(), true
		}
		return "", false
	}}
	paths, ok := EnumLits(calc.Blocks[0], 0, TabOpts{Termer: t})
	if !ok || len(paths) == 0 {
		c.Undecided("calculateCellInPageBytes", calc.Pos(), "cannot enumerate paths")
		return
	}
	pLeX := P.String() + "−" + X.String()
	kLeX := K.String() + "−" + X.String()
	seen := map[string]bool{}
	for _, lp := range paths {
		if lp.Exit == nil {
			continue
		}
		if len(lp.Unknown) > 0 {
			c.Undecided("spill choice", lp.Exit.Pos(), "unrecognised condition %v", lp.Unknown)
			continue
		}
		ec2 := *ec
		ec2.ps = lp.PS
		res := ec2.of(lp.Exit.Results[0]).String()
		switch {
		case lp.Holds(pLeX, token.LEQ, "0"):
			seen["P"] = true
			c.Check(res == P.String(), "choice P≤X", lp.Exit.Pos(), "P ≤ X ⇒ the whole payload is local (returns %s)", res)
		case lp.Holds(pLeX, token.GTR, "0") && lp.Holds(kLeX, token.LEQ, "0"):
			seen["K"] = true
			c.Check(res == K.String(), "choice K≤X", lp.Exit.Pos(), "P > X ∧ K ≤ X ⇒ K bytes local, K = M+((P−M) mod (U−4)) (returns %s)", res)
		case lp.Holds(pLeX, token.GTR, "0") && lp.Holds(kLeX, token.GTR, "0"):
			seen["M"] = true
			c.Check(res == M.String(), "choice else", lp.Exit.Pos(), "otherwise M = ((U−12)·32/255)−23 bytes local (returns %s)", res)
		default:
			c.Fail("spill choice", lp.Exit.Pos(), "the local-size choice is not the file format's three-way test P ≤ X / K ≤ X / else: path [%s] returns %s (expected tests on %s and %s)", pathDesc(lp), res, pLeX, kLeX)
		}
	}
	for _, k := range []string{"P", "K", "M"} {
		if !seen[k] {
			c.Fail("choice "+k, calc.Pos(), "no path implements the `%s` case of the local-size choice", k)
		}
	}
	// call sites of parsePayload: X per cell kind
	xTable := bin("-", leaf("U"), num(35))
	xIndex := bin("-", bin("/", bin("*", bin("-", leaf("U"), num(12)), num(64)), num(255)), num(23))
	want := map[string]*sx{"db.parseTableLeaf": xTable, "db.parseIndexLeaf": xIndex, "db.parseIndexInterior": xIndex}
	for fnKey, wx := range want {
		parts := strings.SplitN(fnKey, ".", 2)
		fn := c.MustFunc(parts[0], parts[1])
		if fn == nil {
			continue
		}
		calls := callTo(fn, p, "db.parsePayload")
		if len(calls) != 1 {
			c.Undecided(fnKey+" X", fn.Pos(), "expected one parsePayload call, found %d", len(calls))
			continue
		}
		call := calls[0]
		var ps ssa.Value
		for _, prm := range fn.Params {
			if types.Identical(prm.Type(), types.Typ[types.Int]) && !p.ExtraParams(fn)[prm] {
				ps = prm
			}
		}
		ecx := &exprCtx{p: p, inline: 1, name: func(v ssa.Value) (string, bool) {
			if v == ps {
				return "U", true
			}
			return "", false
		}}
		got := ecx.ofInline(call.Call.Args[3]).String()
		c.Check(got == wx.String(), fnKey+" X", call.Pos(), "max in-page payload passed is %s; the format's X for this cell kind is %s", got, wx)
		c.Check(call.Call.Args[2] == ps, fnKey+" U", call.Pos(), "the page size is handed through unchanged")
	}
	// parsePayload hands (l, pageSize, X) to the calculation in order and cuts the cell accordingly
	calls := callTo(pp, p, "db.calculateCellInPageBytes")
	if len(calls) != 1 {
		c.Undecided("parsePayload→calculate", pp.Pos(), "expected one call, found %d", len(calls))
		return
	}
	cc := calls[0]
	c.Check(cc.Call.Args[0] == ssa.Value(pp.Params[0]) && cc.Call.Args[1] == ssa.Value(pp.Params[2]) && cc.Call.Args[2] == ssa.Value(pp.Params[3]),
		"parsePayload→calculate args", cc.Pos(), "calculateCellInPageBytes(P, U, X) receives payload length, page size and X in that order")
	// overflow pointer: Uint32(c[n:n+4]) with n the local size; local part c[:n]
	okPtr, okLocal := false, false
	cell := pp.Params[1]
	for _, in := range instrs(pp) {
		sl, ok := in.(*ssa.Slice)
		if !ok || sl.X != ssa.Value(cell) {
			continue
		}
		ec3 := &exprCtx{p: p, name: func(v ssa.Value) (string, bool) {
			if v == ssa.Value(cc) {
				return "n", true
			}
			return "", false
		}}
		lo, hi := "", ""
		if sl.Low != nil {
			lo = ec3.of(sl.Low).String()
		}
		if sl.High != nil {
			hi = ec3.of(sl.High).String()
		}
		if lo == "" && hi == "n" {
			okLocal = true
		}
		if lo == "n" && hi == "(4+n)" {
			for _, r := range *sl.Referrers() {
				if call, ok := r.(*ssa.Call); ok && strings.HasSuffix(calleeName(p, call), "bigEndian).Uint32") {
					okPtr = true
				}
			}
		}
	}
	c.Check(okLocal, "parsePayload local part", pp.Pos(), "the local payload is the first n bytes of the cell content (n = computed local size)")
	c.Check(okPtr, "parsePayload overflow pointer", pp.Pos(), "the first overflow page number is the big-endian uint32 at bytes n..n+3")
}

// ofInline is of() with static module callees of small pure helpers inlined one level (not needed today; identity).
func (c *exprCtx) ofInline(v ssa.Value) *sx { return c.of(v) }

func runOverflow(c *Ctx) {
	p := c.P
	fn := c.MustFunc("db", "addOverflow")
	if fn == nil {
		return
	}
	// Path-based (the page read and the split into next pointer and content may live in a freshly extracted helper, which
	// the enumeration walks in place): one generic iteration of the chain walk.
	hs := loopHeaders(fn)
	if len(hs) != 1 {
		c.Undecided("addOverflow page read", fn.Pos(), "expected one loop over the overflow chain, found %d", len(hs))
		return
	}
	h := hs[0]
	body := loopBody(h)
	var accPhi, pgPhi *ssa.Phi
	for _, in := range h.Instrs {
		ph, ok := in.(*ssa.Phi)
		if !ok {
			continue
		}
		if isByteSlice(ph.Type()) {
			accPhi = ph
		} else if isIntType(ph.Type()) {
			pgPhi = ph
		}
	}
	if accPhi == nil || pgPhi == nil {
		c.Undecided("addOverflow page read", fn.Pos(), "cannot identify the assembled payload and the current overflow page number among the loop's variables")
		return
	}
	t := &Termer{P: p}
	accT, pgT := t.Term(accPhi, emptyPS()), t.Term(pgPhi, emptyPS())
	// where the walk starts
	startOK, localOK := false, false
	for k, pr := range h.Preds {
		if body[pr] {
			continue
		}
		if strings.HasSuffix(t.Term(pgPhi.Edges[k], emptyPS()), ".Overflow") {
			startOK = true
		}
		if strings.HasSuffix(t.Term(accPhi.Edges[k], emptyPS()), ".Payload") {
			localOK = true
		}
	}
	paths, ok := EnumLits(h, 0, TabOpts{Termer: t, EventOf: callEvents(p),
		Stop: func(in ssa.Instruction, ps *pathState) bool { return in == h.Instrs[0] && len(ps.Path) > 1 }})
	if !ok {
		c.Undecided("addOverflow page read", fn.Pos(), "too many paths")
		return
	}
	nCont := 0
	okRead, okNext, okContent, okAppend, okFollow, okLoop := true, true, true, true, true, true
	whyLoop := ""
	for _, lp := range paths {
		if lp.Stop == nil || len(lp.PS.Path) < 2 {
			continue
		}
		nCont++
		pred := lp.PS.Path[len(lp.PS.Path)-2]
		var accNext, pgNext string
		for k, pb := range h.Preds {
			if pb == pred {
				eps := lp.PS.clone()
				if eps.BlockGen != nil {
					delete(eps.BlockGen, h)
				}
				accNext = reGen.ReplaceAllString(t.Term(accPhi.Edges[k], eps), "")
				pgNext = reGen.ReplaceAllString(reOrd.ReplaceAllString(t.Term(pgPhi.Edges[k], eps), ""), "")
			}
		}
		pg := eventsOf(lp, "call", "(*db.Database).page")
		if len(pg) != 1 || len(pg[0].Args) != 2 || pg[0].Args[1] != pgT {
			okRead = false
			continue
		}
		page := "call:(*db.Database).page#0"
		u32 := false
		for _, e := range lp.Events {
			if e.Kind == "call" && strings.HasSuffix(e.Name, "bigEndian).Uint32") && len(e.Args) == 2 && reGen.ReplaceAllString(e.Args[1], "") == page+"[:const:4]" {
				u32 = true
			}
		}
		if !u32 {
			okNext = false
		}
		if !strings.HasPrefix(pgNext, "call:(encoding/binary.bigEndian).Uint32") {
			okFollow = false
		}
		wantAcc := "append(" + accT + "," + page + "[const:4:])"
		if os.Getenv("SQLCHECK_DEBUG") != "" {
			fmt.Fprintf(os.Stderr, "FMT-overflow: accNext=%s want=%s pgNext=%s\n", accNext, wantAcc, pgNext)
		}
		if accNext != wantAcc {
			if strings.HasPrefix(accNext, "append("+accT+",") {
				okAppend = false // something is appended, but not the page's whole content
			} else {
				okContent = false
			}
		}
		// the iteration runs because the assembled payload is still shorter than the declared length
		hasLen := false
		for _, l := range lp.Lits {
			if strings.Contains(l.Subject, "len("+accT+")") && strings.Contains(l.Subject, ".Length") {
				hasLen = true
			}
		}
		if !hasLen {
			okLoop = false
			whyLoop = "an iteration runs without comparing len(payload so far) with the declared length"
		}
	}
	if nCont == 0 {
		c.Fail("addOverflow page read", fn.Pos(), "the overflow walk never continues to a second page")
		return
	}
	c.Check(okRead, "addOverflow page read", fn.Pos(), "each iteration reads the current page of the chain")
	c.Check(okNext, "overflow next pointer", fn.Pos(), "the next overflow page number is the big-endian uint32 in bytes 0..3 of the overflow page")
	c.Check(okContent, "overflow content", fn.Pos(), "the payload continues at byte 4 of the overflow page and runs to the end of the page (U−4 bytes)")
	if okContent && !okAppend {
		// accept when the base cannot share capacity with the cached page: a 3-index slice or a fresh copy
		fresh := true
		for k, pr := range h.Preds {
			if body[pr] {
				continue
			}
			e := accPhi.Edges[k]
			if sl, isSl := e.(*ssa.Slice); !isSl || sl.Max == nil {
				if _, isMake := e.(*ssa.MakeSlice); !isMake {
					fresh = false
				}
			}
		}
		if fresh {
			c.Pass("overflow append whole page", fn.Pos(), "the destination cannot share spare capacity with the cached page")
		} else {
			c.Fail("overflow append whole page", fn.Pos(), "the chunk appended to the cell's in-page slice can be shorter than a page's content: when it fits the spare capacity behind the cell, append writes in place into the cached b-tree page and corrupts the overflow pointer and neighbouring cells for later reads")
		}
	} else if okContent {
		c.Pass("overflow append whole page", fn.Pos(), "each append adds a whole page's content (U−4 bytes), more than the spare capacity behind any cell of a cached page: the append reallocates and never writes into the cached page")
	}
	c.Check(okContent, "overflow append", fn.Pos(), "overflow content is appended to the local part")
	// result cut to the declared length
	okCut := false
	wpaths, _ := EnumLits(fn.Blocks[0], 0, TabOpts{Termer: t})
	for _, lp := range wpaths {
		if lp.Exit == nil || len(lp.Exit.Results) != 2 || !isNilConst(lp.PS.Resolve(lp.Exit.Results[1])) {
			continue
		}
		r0 := t.Term(lp.Exit.Results[0], lp.PS)
		if strings.HasSuffix(r0, ".Length]") && strings.Contains(r0, "[:") {
			okCut = true
		} else {
			okCut = false
			break
		}
	}
	c.Check(okCut, "overflow result length", fn.Pos(), "the assembled payload is cut to the declared payload length")
	if okLoop {
		kind, w := classifyLoop(p, t, fn, h)
		if kind != "growth" {
			okLoop, whyLoop = false, kind+" "+w
		}
	}
	c.Check(okLoop, "overflow walk length", fn.Pos(), "overflow pages are read while the assembled payload is shorter than the declared length (so a partly filled last page is read too): %s", whyLoop)
	c.Check(startOK && localOK && okFollow, "overflow chain", fn.Pos(), "the chain starts at the cell's overflow page (and the cell's local payload) and follows each page's next pointer")
}

func stripLoad(v ssa.Value) ssa.Value {
	if u, ok := v.(*ssa.UnOp); ok && u.Op == token.MUL {
		return u.X
	}
	return v
}

// ---- record serial types ---------------------------------------------------------------------

type decodeInfo struct {
	bytes      int64  // bytes of body the decode reads (−1 unknown)
	signedBits int64  // width of the narrowest signed conversion (0 none)
	kind       string // "int", "float", "const", "nil", "blob", "text"
	constVal   int64
	desc       string
}

func analyseDecode(p *Program, v ssa.Value, body ssa.Value, ps *pathState) decodeInfo {
	d := decodeInfo{bytes: -1, kind: "?"}
	ec := &exprCtx{p: p, ps: ps, keepConv: true, name: func(x ssa.Value) (string, bool) {
		if x == body {
			return "body", true
		}
		return "", false
	}}
	v = ps.Resolve(v)
	if mi, ok := v.(*ssa.MakeInterface); ok {
		v = mi.X
	}
	if isNilConst(v) {
		d.kind, d.bytes, d.desc = "nil", 0, "nil"
		return d
	}
	e := ec.of(v)
	d.desc = e.String()
	if n, ok := constInt(v); ok {
		d.kind, d.constVal, d.bytes = "const", n, 0
		return d
	}
	// a constant once the serial type under evaluation is put in (`case 8, 9: v = c - 8`)
	if n, ok := evalInt(v, ps); ok {
		d.kind, d.constVal, d.bytes = "const", n, 0
		return d
	}
	// walk conversions
	cur := e
	for cur.Op == "conv" {
		switch cur.Name {
		case "int8":
			d.signedBits = minPos(d.signedBits, 8)
		case "int16":
			d.signedBits = minPos(d.signedBits, 16)
		case "int32":
			d.signedBits = minPos(d.signedBits, 32)
		case "int64":
			d.signedBits = minPos(d.signedBits, 64)
		case "string":
			d.kind = "text"
		}
		cur = cur.Args[0]
	}
	switch cur.Op {
	case "index":
		if cur.Args[0].String() == "body" && cur.Args[1].Op == "const" && cur.Args[1].N == 0 {
			d.kind, d.bytes = "int", 1
		}
	case "call":
		name := cur.Name
		arg := (*sx)(nil)
		if len(cur.Args) > 0 {
			arg = cur.Args[len(cur.Args)-1]
		}
		sliceBytes := func(a *sx) int64 {
			if a != nil && a.Op == "slice" && a.Args[0].String() == "body" && a.Args[1] == nil && a.Args[2] != nil && a.Args[2].Op == "const" {
				return a.Args[2].N
			}
			return -1
		}
		switch {
		case strings.HasSuffix(name, "bigEndian).Uint16"):
			d.kind, d.bytes = "int", sliceBytes(arg)
			if d.bytes != 2 {
				d.bytes = -1
			}
		case strings.HasSuffix(name, "bigEndian).Uint32"):
			d.kind, d.bytes = "int", sliceBytes(arg)
			if d.bytes != 4 {
				d.bytes = -1
			}
		case strings.HasSuffix(name, "bigEndian).Uint64"):
			d.kind, d.bytes = "int", sliceBytes(arg)
			if d.bytes != 8 {
				d.bytes = -1
			}
		case name == "db.readTwos24" && arg != nil && arg.String() == "body":
			d.kind, d.bytes, d.signedBits = "int", 3, 24
		case name == "db.readTwos48" && arg != nil && arg.String() == "body":
			d.kind, d.bytes, d.signedBits = "int", 6, 48
		case name == "math.Float64frombits":
			inner := cur.Args[0]
			if inner.Op == "call" && strings.HasSuffix(inner.Name, "bigEndian).Uint64") {
				d.kind, d.bytes = "float", sliceBytes(inner.Args[len(inner.Args)-1])
			}
		}
	case "slice":
		if cur.Args[0].String() == "body" && cur.Args[1] == nil && cur.Args[2] != nil {
			if d.kind != "text" {
				d.kind = "blob"
			}
			d.desc = e.String()
			d.bytes = -2 // variable: the slice bound
		}
	}
	return d
}

func minPos(a, b int64) int64 {
	if a == 0 || b < a {
		return b
	}
	return a
}

func runRecTable(c *Ctx) {
	p := c.P
	fn := c.MustFunc("db", "parseRecord")
	if fn == nil {
		return
	}
	hs := loopHeaders(fn)
	if len(hs) != 1 {
		c.Undecided("parseRecord loop", fn.Pos(), "parseRecord is not a single loop over the header any more (%d loops)", len(hs))
		return
	}
	h := hs[0]
	// the serial type: result #0 of the readVarint call inside the loop; body: the []byte phi that is not the header
	var st ssa.Value
	var stCall *ssa.Call
	for _, cs := range callsIn(fn) {
		call, ok := cs.(*ssa.Call)
		if !ok || cs.Common().StaticCallee() == nil || p.FnKey(cs.Common().StaticCallee()) != "db.readVarint" || !inCycle(cs.Block()) {
			continue
		}
		stCall = call
		for _, r := range *call.Referrers() {
			if e, ok := r.(*ssa.Extract); ok && e.Index == 0 {
				st = e
			}
		}
	}
	if st == nil {
		c.Undecided("parseRecord serial type", fn.Pos(), "no readVarint call inside the loop")
		return
	}
	hdrArg := stCall.Call.Args[0]
	var body *ssa.Phi
	for _, in := range h.Instrs {
		ph, ok := in.(*ssa.Phi)
		if !ok {
			continue
		}
		if sl, ok := ph.Type().Underlying().(*types.Slice); ok && types.Identical(sl.Elem(), types.Typ[types.Uint8]) && ssa.Value(ph) != hdrArg {
			body = ph
		}
	}
	if body == nil {
		c.Undecided("parseRecord body", fn.Pos(), "cannot identify the body cursor")
		return
	}
	t := &Termer{P: p, Custom: func(v ssa.Value, ps *pathState) (string, bool) {
		switch v {
		case st:
			return "serial", true
		case ssa.Value(body):
			return "body", true
		}
		return "", false
	}}
	// events: element stores (the appended value) are captured through the path's instruction stream
	type rec struct {
		appended ssa.Value
	}
	spec := map[int64]struct {
		bytes  int64
		signed int64
		kind   string
		cv     int64
	}{
		0: {0, 0, "nil", 0}, 1: {1, 8, "int", 0}, 2: {2, 16, "int", 0}, 3: {3, 24, "int", 0}, 4: {4, 32, "int", 0},
		5: {6, 48, "int", 0}, 6: {8, 64, "int", 0}, 7: {8, 0, "float", 0}, 8: {0, 0, "const", 0}, 9: {0, 0, "const", 1},
	}
	seen := map[string]bool{}
	ks := []int64{0, 1, 2, 3, 4, 5, 6, 7, 8, 9, 10, 11, 12, 13, 14, 15, 112, 113, 65548, 65549, 1 << 32, 1<<32 + 1}
	for _, k := range ks {
		assume := []Lit{{Subject: "serial", Op: token.EQL, C: fmt.Sprint(k), IsInt: true, N: k, Val: true}}
		var appended ssa.Value
		var appendedPS *pathState
		paths, ok := EnumLits(h, 0, TabOpts{Termer: t, Assume: assume, Values: map[ssa.Value]int64{st: k},
			Stop: func(in ssa.Instruction, ps *pathState) bool { return in == h.Instrs[0] && len(ps.Path) > 1 },
			EventOf: func(in ssa.Instruction, ps *pathState) (Event, bool) {
				if s, ok := in.(*ssa.Store); ok {
					if ia, ok := s.Addr.(*ssa.IndexAddr); ok {
						if al, ok := ia.X.(*ssa.Alloc); ok {
							if arr, ok := al.Type().(*types.Pointer).Elem().Underlying().(*types.Array); ok && arr.Len() == 1 {
								return Event{Kind: "elem", Name: "append"}, true
							}
						}
					}
				}
				return Event{}, false
			}})
		if !ok {
			c.Undecided(fmt.Sprintf("serial %d", k), fn.Pos(), "too many paths")
			continue
		}
		key := fmt.Sprintf("serial type %d", k)
		// success paths: those that continue the loop (Stop) — they must have established serial-specific guard
		var cont []*LPath
		var rets []*LPath
		for _, lp := range paths {
			// only paths on which the serial type was actually read in this iteration
			readHere := false
			for _, pb := range lp.PS.Path {
				if pb == stCall.Block() {
					readHere = true
				}
			}
			if !readHere {
				continue
			}
			if lp.Stop != nil {
				cont = append(cont, lp)
			} else {
				rets = append(rets, lp)
			}
		}
		if k == 10 || k == 11 {
			good := len(cont) == 0
			for _, lp := range rets {
				if lp.Exit != nil && !retErrDefinitelyNonNil(lp, t) {
					good = false
				}
			}
			c.Check(good, key, fn.Pos(), "reserved serial types 10 and 11 are rejected with an error")
			seen[key] = true
			continue
		}
		if len(cont) == 0 {
			c.Fail(key, fn.Pos(), "no path decodes serial type %d", k)
			continue
		}
		for _, lp := range cont {
			// the appended element on this path
			appended, appendedPS = nil, lp.PS
			for _, e := range lp.Events {
				if e.Kind == "elem" {
					appended = e.Instr.(*ssa.Store).Val
				}
			}
			if appended == nil {
				c.Fail(key, fn.Pos(), "serial type %d continues without appending a value; path [%s]", k, pathDesc(lp))
				continue
			}
			d := analyseDecode(p, appended, body, appendedPS)
			// guard: ¬(len(body) < G)
			guard := int64(0)
			for _, l := range lp.Lits {
				if l.Subject == "len(body)" && l.IsInt && ((l.Op == token.LSS && !l.Val) || (l.Op == token.GEQ && l.Val)) {
					if l.N > guard {
						guard = l.N
					}
				}
			}
			// advance: the body phi's incoming value on this back-edge
			adv := int64(-1)
			pred := lp.PS.Path[len(lp.PS.Path)-2]
			for i, pb := range h.Preds {
				if pb != pred {
					continue
				}
				ev := lp.PS.Resolve(body.Edges[i])
				if ev == ssa.Value(body) {
					adv = 0
				} else if sl, ok := ev.(*ssa.Slice); ok && lp.PS.Resolve(sl.X) == ssa.Value(body) && sl.High == nil && sl.Low != nil {
					if n, ok := constInt(sl.Low); ok {
						adv = n
					} else {
						adv = -2
					}
				}
			}
			if k <= 9 {
				sp := spec[k]
				var problems []string
				if d.kind != sp.kind {
					problems = append(problems, fmt.Sprintf("decodes a %s (%s), the format says %s", d.kind, d.desc, sp.kind))
				}
				if sp.kind == "const" && d.constVal != sp.cv {
					problems = append(problems, fmt.Sprintf("constant %d, the format says %d", d.constVal, sp.cv))
				}
				if d.bytes != sp.bytes {
					problems = append(problems, fmt.Sprintf("reads %d bytes (%s), the format says %d", d.bytes, d.desc, sp.bytes))
				}
				if guard != sp.bytes {
					problems = append(problems, fmt.Sprintf("requires %d bytes left, the value occupies %d", guard, sp.bytes))
				}
				if adv != sp.bytes {
					problems = append(problems, fmt.Sprintf("advances the body by %d, the value occupies %d", adv, sp.bytes))
				}
				if sp.signed != 0 && d.signedBits != sp.signed {
					problems = append(problems, fmt.Sprintf("sign-extends from %d bits, the value is a %d-bit two's-complement integer", d.signedBits, sp.signed))
				}
				if len(problems) == 0 {
					c.Pass(key, fn.Pos(), "guard = bytes read = advance = %d, %s, via %s", sp.bytes, sp.kind, d.desc)
				} else {
					c.Fail(key, fn.Pos(), "serial type %d: %s", k, strings.Join(problems, "; "))
				}
				seen[key] = true
				continue
			}
			// 12, 13: blobs and text of (N−12)/2, (N−13)/2 bytes
			wantKind, sub := "blob", int64(12)
			if k%2 == 1 {
				wantKind, sub = "text", 13
			}
			ec := &exprCtx{p: p, ps: lp.PS, name: func(x ssa.Value) (string, bool) {
				if x == st {
					return "N", true
				}
				if x == ssa.Value(body) {
					return "body", true
				}
				return "", false
			}}
			wantLen := bin("/", bin("-", leaf("N"), num(sub)), num(2)).String()
			var problems []string
			if d.kind != wantKind {
				problems = append(problems, fmt.Sprintf("produces a %s, the format says %s", d.kind, wantKind))
			}
			// slice bound of the decoded value, advance, guard all equal (N−sub)/2
			av := lp.PS.Resolve(appended)
			if mi, ok := av.(*ssa.MakeInterface); ok {
				av = mi.X
			}
			av = lp.PS.Resolve(av)
			if cv, ok := av.(*ssa.Convert); ok {
				av = lp.PS.Resolve(cv.X)
			}
			// The serial type is a concrete number on this evaluation (k), so the length expression — however it is
			// written: (N−12)/2 and (N−13)/2 in two branches, or (N−12−N&1)/2 in one — folds to a number; it is compared
			// with the format's value for each sampled N (12, 13, 14, 15, 112, 113, 65548, 65549, 2^32, 2^32+1).
			wantN := (k - sub) / 2
			if sl, ok := av.(*ssa.Slice); ok && sl.High != nil && lp.PS.Resolve(sl.X) == ssa.Value(body) && sl.Low == nil {
				if got, ok := evalInt(sl.High, lp.PS); !ok || got != wantN {
					problems = append(problems, fmt.Sprintf("value length is %s (= %d for N = %d), the format says %s = %d", ec.of(sl.High).String(), got, k, wantLen, wantN))
				}
			} else {
				problems = append(problems, "the value is not a prefix of the body")
			}
			for i, pb := range h.Preds {
				if pb != pred {
					continue
				}
				if sl, ok := lp.PS.Resolve(body.Edges[i]).(*ssa.Slice); ok && sl.Low != nil && sl.High == nil && lp.PS.Resolve(sl.X) == ssa.Value(body) {
					if got, ok := evalInt(sl.Low, lp.PS); !ok || got != wantN {
						problems = append(problems, fmt.Sprintf("body advances by %s (= %d for N = %d), the format says %s = %d", ec.of(sl.Low).String(), got, k, wantLen, wantN))
					}
				} else {
					problems = append(problems, "body is not advanced past the value")
				}
			}
			if guard != wantN {
				problems = append(problems, fmt.Sprintf("the guard requires %d bytes left for N = %d, the value occupies %s = %d", guard, k, wantLen, wantN))
			}
			if len(problems) == 0 {
				c.Pass(key+"+", fn.Pos(), "%s of %s bytes: guard = length = advance", wantKind, wantLen)
			} else {
				c.Fail(key+"+", fn.Pos(), "serial types ≥ %d (%s): %s", k, wantKind, strings.Join(problems, "; "))
			}
			seen[key] = true
		}
	}
	// even/odd dispatch for N ≥ 12 is by the low bit
	_ = seen
}

func runSign(c *Ctx) {
	for _, spec := range []struct {
		name  string
		bytes int64
	}{{"readTwos24", 3}, {"readTwos48", 6}} {
		fn := c.MustFunc("db", spec.name)
		if fn == nil {
			continue
		}
		b := fn.Params[0]
		shifts := map[int64]int64{} // byte index → shift
		var problems []string
		for _, in := range instrs(fn) {
			ia, ok := in.(*ssa.IndexAddr)
			if !ok || ia.X != ssa.Value(b) {
				continue
			}
			idx, ok := constInt(ia.Index)
			if !ok {
				problems = append(problems, "non-constant byte index")
				continue
			}
			// load → convert → optional shift
			sh := int64(0)
			for _, r := range *ia.Referrers() {
				ld, ok := r.(*ssa.UnOp)
				if !ok {
					continue
				}
				for _, r2 := range *ld.Referrers() {
					cv, ok := r2.(*ssa.Convert)
					if !ok {
						continue
					}
					for _, r3 := range *cv.Referrers() {
						if bo, ok := r3.(*ssa.BinOp); ok && bo.Op == token.SHL {
							sh, _ = constInt(bo.Y)
						}
					}
				}
			}
			shifts[idx] = sh
		}
		n := int64(len(shifts))
		if n != spec.bytes {
			problems = append(problems, fmt.Sprintf("reads %d bytes, a %d-bit integer has %d", n, spec.bytes*8, spec.bytes))
		}
		for k, sh := range shifts {
			if sh != 8*(n-1-k) {
				problems = append(problems, fmt.Sprintf("byte %d is shifted by %d, big-endian needs %d", k, sh, 8*(n-1-k)))
			}
		}
		// the sign test and the reduction, read off the paths (a helper such as signExtend(n, 24) is walked in place
		// with its width bound to the constant): exactly two outcomes — sign bit clear ⇒ the assembled value as it is,
		// sign bit set ⇒ that value minus 1<<bits
		okMask, okSub := false, false
		{
			t := &Termer{P: c.P}
			paths, _ := EnumLits(fn.Blocks[0], 0, TabOpts{Termer: t})
			maskS, subS := fmt.Sprintf("&const:%d)", int64(1)<<(8*n-1)), fmt.Sprintf("-const:%d)", int64(1)<<(8*n))
			nSet, nClear := 0, 0
			for _, lp := range paths {
				if lp.Exit == nil || len(lp.Exit.Results) != 1 {
					continue
				}
				ret := t.Term(lp.Exit.Results[0], lp.PS)
				for _, l := range lp.Lits {
					if !strings.HasSuffix(l.Subject, maskS) || l.C != "0" {
						continue
					}
					val := strings.TrimSuffix(strings.TrimPrefix(l.Subject, "("), maskS)
					set := (l.Op == token.NEQ && l.Val) || (l.Op == token.EQL && !l.Val)
					if set {
						nSet++
						if ret == "("+val+subS {
							okSub = true
						}
					} else {
						nClear++
						if ret != val {
							problems = append(problems, "a value with the sign bit clear is not returned as assembled")
						}
					}
				}
			}
			okMask = nSet > 0 && nClear > 0
		}
		if !okMask {
			problems = append(problems, fmt.Sprintf("sign bit mask is not 1<<%d", 8*n-1))
		}
		if !okSub {
			problems = append(problems, fmt.Sprintf("negative values are not reduced by 1<<%d", 8*n))
		}
		if len(problems) == 0 {
			c.Pass(spec.name, fn.Pos(), "%d bytes, big-endian shifts, sign mask 1<<%d, subtrahend 1<<%d", n, 8*n-1, 8*n)
		} else {
			c.Fail(spec.name, fn.Pos(), "%s", strings.Join(problems, "; "))
		}
	}
}

func runVarint(c *Ctx) {
	p := c.P
	fn := c.MustFunc("db", "readVarint")
	if fn == nil {
		return
	}
	hs := loopHeaders(fn)
	if len(hs) != 1 {
		c.Undecided("readVarint loop", fn.Pos(), "readVarint is not a single loop")
		return
	}
	h := hs[0]
	var iPhi, nPhi *ssa.Phi
	for _, in := range h.Instrs {
		if ph, ok := in.(*ssa.Phi); ok {
			if types.Identical(ph.Type(), types.Typ[types.Int]) {
				iPhi = ph
			} else if types.Identical(ph.Type(), types.Typ[types.Uint64]) {
				nPhi = ph
			}
		}
	}
	if iPhi == nil || nPhi == nil {
		c.Undecided("readVarint loop", fn.Pos(), "cannot identify the index and accumulator")
		return
	}
	bP := fn.Params[0]
	name := func(v ssa.Value) (string, bool) {
		switch v {
		case ssa.Value(iPhi):
			return "i", true
		case ssa.Value(nPhi):
			return "n", true
		case ssa.Value(bP):
			return "b", true
		}
		if u, ok := v.(*ssa.UnOp); ok && u.Op == token.MUL {
			if ia, ok := u.X.(*ssa.IndexAddr); ok && ia.X == ssa.Value(bP) && ia.Index == ssa.Value(iPhi) {
				return "c", true
			}
		}
		return "", false
	}
	t := &Termer{P: p, Custom: func(v ssa.Value, ps *pathState) (string, bool) { return name(v) }}
	paths, ok := EnumLits(h, 0, TabOpts{Termer: t,
		Stop: func(in ssa.Instruction, ps *pathState) bool { return in == h.Instrs[0] && len(ps.Path) > 1 }})
	if !ok {
		c.Undecided("readVarint paths", fn.Pos(), "too many paths")
		return
	}
	acc7 := bin("|", bin("<<", leaf("n"), num(7)), bin("&", leaf("c"), num(127))).String()
	acc8 := bin("|", bin("<<", leaf("n"), num(8)), leaf("c")).String()
	for _, lp := range paths {
		ec := &exprCtx{p: p, ps: lp.PS, name: name}
		key := "varint:" + pathSig(lp, 99)
		if len(lp.Unknown) > 0 {
			c.Undecided(key, fn.Pos(), "unrecognised condition %v", lp.Unknown)
			continue
		}
		short := lp.Holds("i−len(b)", token.GEQ, "0")
		ninth := lp.Holds("i", token.EQL, "8")
		notNinth := lp.Holds("i", token.NEQ, "8")
		hiClear := lp.Holds("c", token.LSS, "128")
		hiSet := lp.Holds("c", token.GEQ, "128")
		if lp.Stop != nil {
			// continue: accumulator gets 7 more bits, i+1, only for bytes 1..8 with the high bit set
			pred := lp.PS.Path[len(lp.PS.Path)-2]
			var nNext, iNext string
			for k, pb := range h.Preds {
				if pb == pred {
					nNext = ec.of(nPhi.Edges[k]).String()
					iNext = ec.of(iPhi.Edges[k]).String()
				}
			}
			good := notNinth && hiSet && nNext == acc7 && iNext == "(1+i)"
			c.Check(good, key, fn.Pos(), "continuing needs: not the 9th byte ∧ high bit set, n ← (n<<7)|(c&0x7f), i ← i+1; path [%s] gives n ← %s, i ← %s", pathDesc(lp), nNext, iNext)
			continue
		}
		if lp.Exit == nil {
			continue
		}
		val := ec.of(lp.Exit.Results[0]).String()
		cnt := ec.of(lp.Exit.Results[1]).String()
		switch {
		case short:
			c.Check(val == "0" && cnt == "-1", key, lp.Exit.Pos(), "input exhausted ⇒ (0, −1); returns (%s, %s)", val, cnt)
		case ninth:
			c.Check(val == acc8 && (cnt == "(1+i)" || cnt == "9"), key, lp.Exit.Pos(), "9th byte ⇒ all 8 bits, stop, count i+1 = 9; returns (%s, %s)", val, cnt)
		case notNinth && hiClear:
			c.Check(val == acc7 && cnt == "(1+i)", key, lp.Exit.Pos(), "byte 1..8 with the high bit clear ⇒ 7 bits, stop, count i+1; returns (%s, %s)", val, cnt)
		default:
			c.Fail(key, lp.Exit.Pos(), "a varint ends on a path that established neither `9th byte` nor (`not 9th byte` ∧ `high bit clear`): the 9th byte must contribute 8 bits whatever its high bit is; path [%s] returns (%s, %s)", pathDesc(lp), val, cnt)
		}
	}
}

func fmtPageRule() *Rule {
	return &Rule{ID: "FMT-page", Props: []string{"C01", "C02", "C14", "C03", "C13", "C04", "C15"}, Min: 12,
		Doc: "b-tree page and cell layout per fileformat2 §1.6: page type codes 13/5/10/2 select the right page kind; cell count at header bytes 3..4, right-most pointer at 8..11, cell pointer array at 8 (leaf) / 12 (interior), header at byte 100 on page 1, cell offsets relative to the page start; cell formats: table leaf = varint length, varint rowid, payload; table interior = 4-byte child, varint key; index leaf = varint length, payload; index interior = 4-byte child, varint length, payload",
		Run: runFmtPage}
}

func runFmtPage(c *Ctx) {
	p := c.P
	t := &Termer{P: p}
	fn := c.MustFunc("db", "newBtree")
	if fn != nil {
		paths, _ := EnumLits(fn.Blocks[0], 0, TabOpts{Termer: t, EventOf: callEvents(p)})
		seen := map[string]bool{}
		for _, lp := range paths {
			if lp.Exit == nil {
				continue
			}
			hb := "p:b"
			if lp.Has("p:isFileHeader", token.EQL, "true", true) {
				hb = "p:b[const:100:]"
			}
			typ := ""
			for _, l := range lp.Lits {
				if l.Subject == hb+"[const:0]" && l.Op == token.EQL && l.Val {
					typ = l.C
				}
			}
			key := "page type " + orStr(typ, "other") + map[bool]string{true: " (page 1)", false: ""}[hb != "p:b"]
			seq := normSeq(travSeq(lp))
			cnt := "(encoding/binary.bigEndian).Uint16(g:BigEndian, " + hb + "[const:3:const:5])"
			ptr := func(h string) string {
				return "(encoding/binary.bigEndian).Uint32(g:BigEndian, " + h + "[const:8:const:12])"
			}
			var want []string
			switch typ {
			case "13":
				want = []string{j(cnt, "db.newLeafTableBtree(call:(encoding/binary.bigEndian).Uint16, "+hb+"[const:8:], p:b, p:pageSize)")}
			case "5":
				want = []string{j(cnt, ptr(hb), "db.newInteriorTableBtree(call:(encoding/binary.bigEndian).Uint16, "+hb+"[const:12:], p:b, call:(encoding/binary.bigEndian).Uint32)")}
			case "10":
				for _, h := range []string{hb, "p:b"} {
					want = append(want, j(cnt, "db.newLeafIndex(call:(encoding/binary.bigEndian).Uint16, "+h+"[const:8:], p:b, p:pageSize)"))
				}
			case "2":
				for _, h := range []string{hb, "p:b"} {
					want = append(want, j(cnt, ptr(h), "db.newInteriorIndex(call:(encoding/binary.bigEndian).Uint16, "+h+"[const:12:], p:b, call:(encoding/binary.bigEndian).Uint32, p:pageSize)"))
				}
			default:
				c.Check(retErrDefinitelyNonNil(lp, t), key, lp.Exit.Pos(), "an unknown page type is an error")
				continue
			}
			seen[typ] = true
			ok := false
			for _, w := range want {
				if seq == w {
					ok = true
				}
			}
			c.Check(ok, key, lp.Exit.Pos(), "page is parsed as [%s]; the format requires [%s]", seq, want[0])
		}
		for _, ty := range []string{"13", "5", "10", "2"} {
			if !seen[ty] {
				c.Fail("page type "+ty, fn.Pos(), "page type %s is not handled", ty)
			}
		}
	}
	x := "((((p:pageSize-const:12)*const:64)/const:255)-const:23)"
	cells := map[string]string{
		"db.parseTableLeaf": j("db.readVarint(p:c)", "db.readVarint(p:c[call:db.readVarint#1:])",
			"db.parsePayload(call:db.readVarint#0, p:c[call:db.readVarint#1:][call:db.readVarint@2#1:], p:pageSize, (p:pageSize-const:35))") + " ⇒ left=call:db.readVarint@2#0 payload=call:db.parsePayload#0",
		"db.parseTableInterior": j("(encoding/binary.bigEndian).Uint32(g:BigEndian, p:c[:const:4])", "db.readVarint(p:c[const:4:])") + " ⇒ left=call:(encoding/binary.bigEndian).Uint32 key=call:db.readVarint#0",
		"db.parseIndexLeaf":     j("db.readVarint(p:c)", "db.parsePayload(call:db.readVarint#0, p:c[call:db.readVarint#1:], p:pageSize, "+x+")") + " ⇒ ",
		"db.parseIndexInterior": j("(encoding/binary.bigEndian).Uint32(g:BigEndian, p:c[:const:4])", "db.readVarint(p:c[const:4:])",
			"db.parsePayload(call:db.readVarint#0, p:c[const:4:][call:db.readVarint#1:], p:pageSize, "+x+")") + " ⇒ left=call:(encoding/binary.bigEndian).Uint32 payload=call:db.parsePayload#0",
	}
	for name, want := range cells {
		parts := strings.SplitN(name, ".", 2)
		fn := c.MustFunc(parts[0], parts[1])
		if fn == nil {
			continue
		}
		paths, _ := EnumLits(fn.Blocks[0], 0, TabOpts{Termer: t, EventOf: callEvents(p)})
		// every successful parse (the error result is nil) must be the format's one; a variant that parses some cells
		// differently (say, the key of a long cell from a shortened slice) shows up as a second successful shape
		best := ""
		nOK := 0
		for _, lp := range paths {
			if lp.Exit == nil || len(lp.Exit.Results) < 2 || !cleanPathLoose(lp) || retErrDefinitelyNonNil(lp, t) {
				continue
			}
			var stores []string
			for _, e := range lp.Events {
				if e.Kind == "store" && e.Name != "[]" {
					stores = append(stores, e.Name+"="+e.Val)
				}
			}
			s := reGen.ReplaceAllString(strings.Join(travSeq(lp), " ; "), "") + " ⇒ " + strings.Join(stores, " ")
			nOK++
			if best == "" || s != want {
				best = s
			}
		}
		if nOK == 0 {
			best = "(no successful parse)"
		}
		c.Check(best == want, "cell "+name, fn.Pos(), "cell is parsed as [%s]; the format requires [%s]", best, want)
	}
}

func masterRule() *Rule {
	return &Rule{ID: "MASTER", Props: []string{"C01", "C10", "C05"}, Min: 5,
		Doc: "sqlite_master rows: five columns (type, name, tbl_name, rootpage, sql) taken from record positions 0..4 with their types checked before use, name and tbl_name lower-cased, a NULL sql accepted; table scans decode each cell as addOverflow → parseRecord → callback(rowid, record)",
		Run: runMaster}
}

func runMaster(c *Ctx) {
	p := c.P
	t := &Termer{P: p}
	cl := findFn(p, "(*db.Database).master$1")
	if cl == nil {
		c.Undecided("anchor master callback", token.NoPos, "not found")
		return
	}
	// (a row read column by column in a counted loop over a small local array is walked iteration by iteration)
	t.ConstPhis = true
	paths, _ := EnumLits(cl.Blocks[0], 0, TabOpts{Termer: t, EventOf: callEvents(p), UnrollRoot: true, ArrayCells: true})
	rec := "call:db.parseRecord#0"
	want := map[string]string{
		"typ":      "assert(" + rec + "[const:0],string)#0",
		"name":     "lower(assert(" + rec + "[const:1],string)#0)",
		"tblName":  "lower(assert(" + rec + "[const:2],string)#0)",
		"rootPage": "assert(" + rec + "[const:3],int64)#0",
		"sql":      "assert(" + rec + "[const:4],string)#0",
	}
	n := 0
	for _, lp := range paths {
		if lp.Exit == nil || retErrDefinitelyNonNil(lp, t) {
			continue
		}
		n++
		key := "master row:" + pathSig(lp, 99)
		var problems []string
		if !lp.Holds("len("+rec+")", token.EQL, "5") {
			problems = append(problems, "the row is used without checking that it has five columns")
		}
		seq := travSeq(lp)
		if len(seq) < 2 || seq[0] != "db.addOverflow(fv:db, p:pl)" || seq[1] != "db.parseRecord(call:db.addOverflow#0)" {
			problems = append(problems, "the row is not decoded as parseRecord(addOverflow(db, payload))")
		}
		// resolve lower-casing calls
		lower := map[string]string{}
		for _, e := range lp.Events {
			if e.Kind == "call" && e.Name == "strings.ToLower" {
				lower[t.Term(e.Instr.(ssa.Value), lp.PS)] = "lower(" + e.Args[0] + ")"
			}
		}
		got := map[string]string{}
		for _, e := range lp.Events {
			if e.Kind == "store" {
				v := e.Val
				if l, ok := lower[v]; ok {
					v = l
				}
				// (a column read in the k-th round of an unrolled loop carries the round in its name)
				got[e.Name] = reInst.ReplaceAllString(reGen.ReplaceAllString(v, ""), "")
			}
		}
		for f, w := range want {
			g, has := got[f]
			if f == "sql" && !has {
				if !lp.Has("type("+rec+"[const:4])", token.EQL, "nil", true) {
					problems = append(problems, "sql left empty for a value that is not NULL")
				}
				continue
			}
			if g != w {
				problems = append(problems, fmt.Sprintf("%s = %s, expected %s", f, g, w))
			}
		}
		for i, ty := range []string{"string", "string", "string", "int64"} {
			checked := false
			for _, l := range lp.Lits {
				if reInst.ReplaceAllString(reGen.ReplaceAllString(l.Subject, ""), "") == fmt.Sprintf("type(%s[const:%d])", rec, i) && l.Op == token.EQL && l.C == ty && l.Val {
					checked = true
				}
			}
			if !checked {
				problems = append(problems, fmt.Sprintf("column %d used without its type being checked", i))
			}
		}
		stored := false
		for _, e := range lp.Events {
			if e.Kind == "store" && strings.HasPrefix(e.Name, "fv:") && strings.HasPrefix(e.Val, "append(") {
				stored = true
			}
		}
		if !stored {
			problems = append(problems, "the row is not added to the object list")
		}
		if b, isC := constBool(lp.PS.Resolve(lp.Exit.Results[0])); !isC || b {
			problems = append(problems, "the master scan is stopped early")
		}
		c.Check(len(problems) == 0, key, cl.Pos(), "sqlite_master row mapping %s", strings.Join(problems, "; "))
	}
	if n == 0 {
		c.Fail("master row", cl.Pos(), "no accepting path")
	}
	// master() scans the table rooted at page 1
	if fn := p.Func("db", "(*Database).master"); fn != nil {
		ok := false
		for _, cs := range callsIn(fn) {
			if cal := cs.Common().StaticCallee(); cal != nil && p.FnKey(cal) == "(*db.Database).openTable" {
				if n, isC := constInt(cs.Common().Args[1]); isC && n == 1 {
					ok = true
				}
			}
		}
		c.Check(ok, "master root page", fn.Pos(), "sqlite_master is the table b-tree rooted at page 1")
	}
	// Table.Scan / Table.Rowid decode sequence
	if cl := findFn(p, "(*db.Table).Scan$1"); cl != nil {
		paths, _ := EnumLits(cl.Blocks[0], 0, TabOpts{Termer: t, EventOf: callEvents(p)})
		good := false
		for _, lp := range paths {
			if lp.Exit == nil || !cleanPath(lp) {
				continue
			}
			s := strings.Join(travSeq(lp), " ; ")
			good = s == "db.addOverflow(fv:t.db, p:pl) ; db.parseRecord(call:db.addOverflow#0) ; func-value:db.TableScanCB(p:rowid, call:db.parseRecord#0)"
			if !good {
				c.Fail("Table.Scan decode", cl.Pos(), "a table cell is delivered as [%s]", s)
				return
			}
		}
		c.Check(good, "Table.Scan decode", cl.Pos(), "each cell: addOverflow → parseRecord → callback(rowid of that cell, record)")
	}
	if fn := p.Func("db", "(*Table).Rowid"); fn != nil {
		paths, _ := EnumLits(fn.Blocks[0], 0, TabOpts{Termer: t, EventOf: callEvents(p)})
		good := false
		for _, lp := range paths {
			if lp.Exit == nil {
				continue
			}
			seq := travSeq(lp)
			if len(seq) < 2 || !strings.HasPrefix(seq[len(seq)-1], "db.parseRecord(") {
				continue
			}
			good = strings.HasPrefix(seq[len(seq)-2], "db.addOverflow(p:t.db, ") && seq[len(seq)-1] == "db.parseRecord(call:db.addOverflow#0)" &&
				t.Term(lp.Exit.Results[0], lp.PS) == "call:db.parseRecord#0"
		}
		c.Check(good, "Table.Rowid decode", fn.Pos(), "the found cell is decoded as parseRecord(addOverflow(db, that cell's payload))")
	}
}
