package chk

import (
	"fmt"
	"go/token"
	"strings"

	"golang.org/x/tools/go/ssa"
)

// Rules added after the second round of independently seeded changes.
func round2Rules() []*Rule {
	return []*Rule{
		{ID: "ERR-4", Props: []string{"C12", "C04", "C19"}, Min: 150,
			Doc: "between a call and the test of its error no return can slip through: every path from an error-producing call to a return tests that error, returns it, or stores it first",
			Run: runErr4},
		{ID: "ADDINDEX", Props: []string{"C10", "C03"}, Min: 6,
			Doc: "Schema.addIndex table: equal to the WITHOUT ROWID key ⇒ nothing; equal to an existing index ⇒ nothing added and, for a primary key, PrimaryKey = that existing index's name; otherwise the index is added under the given name and, for a primary key, PrimaryKey = that name",
			Run: runAddIndex},
		{ID: "PKCOLS", Props: []string{"C10", "C02"}, Min: 2,
			Doc: "pkColumns: a primary-key column already in the index is found at its own position; a missing one is appended to the index definition and found at the new last position",
			Run: runPKCols},
		{ID: "SETKEY", Props: []string{"C02", "C03"}, Min: 2,
			Doc: "setKey only replaces the values of the prepared lookup key (its per-column direction and collation stay), taking value i from the entry position recorded for primary-key column i",
			Run: runSetKey},
		{ID: "SQLPASS", Props: []string{"C10", "C16"}, Min: 4,
			Doc: "the parser's constructors record what was written: an indexed column keeps its COLLATE and direction verbatim, a column definition keeps name and type",
			Run: runSQLPass},
	}
}

func runErr4(c *Ctx) {
	p := c.P
	for _, src := range errSources(p, false) {
		call, isVal := src.Call.(*ssa.Call)
		if !isVal {
			continue
		}
		ev, _ := errResultOf(call)
		if ev == nil {
			continue // ERR-1's business
		}
		if errException(p, src.Fn, src.Call) != "" {
			continue
		}
		top := src.Fn
		for top.Parent() != nil {
			top = top.Parent()
		}
		isInfo := p.FnKey(top) == "(*db.Database).Info"
		// uses that count as `handled`: nil test, return operand, store, argument of a call
		handled := map[ssa.Instruction]bool{}
		var mark func(v ssa.Value, depth int)
		mark = func(v ssa.Value, depth int) {
			if depth > 4 {
				return
			}
			for _, r := range *v.Referrers() {
				switch x := r.(type) {
				case *ssa.BinOp:
					for _, rr := range *x.Referrers() {
						if i, ok := rr.(ssa.Instruction); ok {
							handled[i] = true
						}
					}
					handled[x] = true
				case *ssa.Return, *ssa.Store, *ssa.Send, *ssa.MapUpdate:
					handled[x.(ssa.Instruction)] = true
				case ssa.CallInstruction:
					handled[x] = true
				case *ssa.Phi, *ssa.MakeInterface, *ssa.ChangeInterface:
					mark(x.(ssa.Value), depth+1)
				case *ssa.TypeAssert:
					handled[x] = true
				}
			}
		}
		mark(ev, 0)
		bad := ""
		var badPos token.Pos
		pv := &pathVisitor{
			OnInstr: func(in ssa.Instruction, ps *pathState) bool {
				if handled[in] {
					return false // handled on this path: nothing more to require
				}
				return true
			},
			OnExit: func(ret *ssa.Return, ps *pathState) {
				if ret == nil || bad != "" {
					return
				}
				bad = "returns at " + p.Pos(ret.Pos())
				badPos = ret.Pos()
			},
		}
		enumPaths(call.Block(), instrIndex(call)+1, pv)
		if pv.Overflow {
			c.Undecided(src.Key, call.Pos(), "too many paths")
			continue
		}
		if bad != "" && isInfo {
			bad = ""
		}
		if bad == "" {
			c.Pass(src.Key, call.Pos(), "every path from the call first tests, returns or stores its error")
		} else {
			c.Fail(src.Key, badPos, "after %s the function %s without having looked at the call's error: a failure of %s is reported as success (or as `not found`)", src.Name, bad, src.Name)
		}
	}
}

func runAddIndex(c *Ctx) {
	p := c.P
	fn := c.MustFunc("db", "(*Schema).addIndex")
	if fn == nil {
		return
	}
	t := &Termer{P: p}
	paths, ok := EnumLits(fn.Blocks[0], 0, TabOpts{Termer: t, EventOf: callEvents(p)})
	if !ok {
		c.Undecided("addIndex paths", fn.Pos(), "too many paths")
		return
	}
	recv, pk, name, cols := "p:"+fn.Params[0].Name(), "p:"+fn.Params[1].Name(), "p:"+fn.Params[2].Name(), "p:"+fn.Params[3].Name()
	for _, lp := range paths {
		if lp.Exit == nil {
			continue
		}
		key := "addIndex:" + pathSig(lp, 99)
		isPK := lp.Has(pk, token.EQL, "true", true)
		notPK := lp.Has(pk, token.EQL, "true", false) || lp.Has(pk, token.EQL, "false", true)
		// which comparison succeeded?
		dupPK, dupIdx := false, ""
		for _, e := range lp.Events {
			if e.Kind != "call" || e.Name != "reflect.DeepEqual" {
				continue
			}
			res := t.Term(e.Instr.(ssa.Value), lp.PS)
			if !lp.Has(res, token.EQL, "true", true) {
				continue
			}
			if e.Args[0] == recv+".PK" && e.Args[1] == cols {
				dupPK = true
			} else if strings.HasPrefix(e.Args[0], recv+".Indexes[") && strings.HasSuffix(e.Args[0], ".Columns") && e.Args[1] == cols {
				dupIdx = strings.TrimSuffix(e.Args[0], ".Columns")
			}
		}
		pkStores := eventsOf(lp, "store", "PrimaryKey")
		appended := false
		for _, e := range lp.Events {
			if e.Kind == "store" && e.Name == "Indexes" && strings.HasPrefix(e.Val, "append(") {
				appended = true
			}
		}
		ret := t.Term(lp.Exit.Results[0], lp.PS)
		var problems []string
		switch {
		case dupPK:
			if len(pkStores) > 0 || appended || ret != "const:false" {
				problems = append(problems, "columns equal the WITHOUT ROWID key: nothing may change and false must be returned")
			}
		case dupIdx != "":
			if appended || ret != "const:false" {
				problems = append(problems, "an equivalent index exists: nothing may be added and false must be returned")
			}
			if isPK && !(len(pkStores) == 1 && pkStores[0].Val == dupIdx+".Index") {
				problems = append(problems, fmt.Sprintf("a PRIMARY KEY that shares an existing index must record THAT index's name (%s.Index) as PrimaryKey; stores %v", dupIdx, evVals(pkStores)))
			}
			if notPK && len(pkStores) > 0 {
				problems = append(problems, "PrimaryKey changed by a constraint that is not the primary key")
			}
		default:
			if !appended || ret != "const:true" {
				problems = append(problems, "a new index must be added and true returned")
			}
			idx := eventsOf(lp, "store", "Index")
			colsSt := eventsOf(lp, "store", "Columns")
			if len(idx) != 1 || idx[0].Val != name || len(colsSt) != 1 || colsSt[0].Val != cols {
				problems = append(problems, "the added index must carry the given name and columns")
			}
			if isPK && !(len(pkStores) == 1 && pkStores[0].Val == name) {
				problems = append(problems, "a new PRIMARY KEY index must be recorded as PrimaryKey under its own name")
			}
			if notPK && len(pkStores) > 0 {
				problems = append(problems, "PrimaryKey changed by a constraint that is not the primary key")
			}
		}
		if !isPK && !notPK && !dupPK {
			problems = append(problems, "the primary-key flag is not consulted")
		}
		c.Check(len(problems) == 0, key, lp.Exit.Pos(), "addIndex %s", orStr(strings.Join(problems, "; "), "row holds on path ["+pathDesc(lp)+"]"))
	}
}

func runPKCols(c *Ctx) {
	p := c.P
	fn := c.MustFunc(".", "pkColumns")
	if fn == nil {
		return
	}
	t := &Termer{P: p}
	_, paths, ok := bodyPaths(p, fn, t)
	if !ok {
		c.Undecided("pkColumns loop", fn.Pos(), "pkColumns is not a single loop over the primary key")
		return
	}
	schema, ind := "p:"+fn.Params[0].Name(), "p:"+fn.Params[1].Name()
	el := schema + ".PK[i]"
	n := 0
	for _, lp := range paths {
		if lp.Stop == nil {
			continue
		}
		n++
		key := "pkColumns:" + pathSig(lp, 99)
		look := eventsOf(lp, "call", "(*db.SchemaIndex).Column")
		if len(look) != 1 || look[0].Args[0] != ind || gen(look[0].Args[1]) != el+".Column" {
			c.Fail(key, fn.Pos(), "primary-key column i is not looked up in the index by its own name")
			continue
		}
		res := "call:(*db.SchemaIndex).Column"
		missing := lp.Holds(res, token.LSS, "0")
		present := lp.Holds(res, token.GEQ, "0")
		// the position recorded: the last element store into a one-element int array (variadic append onto the result)
		var pos string
		var colsAppend bool
		for _, e := range lp.Events {
			if e.Kind != "store" {
				continue
			}
			if e.Name == "Columns" && e.Base == ind && strings.HasPrefix(e.Val, "append("+ind+".Columns,") {
				colsAppend = true
			}
			if e.Name == "[]" {
				if st, ok := e.Instr.(*ssa.Store); ok && isIntType(st.Val.Type()) {
					pos = gen(e.Val)
				}
			}
		}
		switch {
		case present:
			c.Check(pos == res && !colsAppend, key, fn.Pos(), "a primary-key column the index already has is read at its own position in the entry (records %s)", pos)
		case missing:
			c.Check(colsAppend && pos == "(len("+ind+".Columns)-const:1)", key, fn.Pos(), "a primary-key column the index lacks is appended to the index definition (SQLite appends it to every entry) and read at that new last position (records %s, appended: %v)", pos, colsAppend)
		default:
			c.Fail(key, fn.Pos(), "a position is recorded without checking whether the index already has the column; path [%s]", pathDesc(lp))
		}
	}
	if n == 0 {
		c.Fail("pkColumns", fn.Pos(), "no position is recorded per primary-key column")
	}
	// the result is the list built in the loop
	for _, r := range returnsOf(fn) {
		if _, isPhi := r.Results[0].(*ssa.Phi); !isPhi {
			c.Fail("pkColumns result", r.Pos(), "the result is not the list of positions collected per primary-key column")
		}
	}
}

func runSetKey(c *Ctx) {
	p := c.P
	fn := c.MustFunc(".", "setKey")
	if fn == nil {
		return
	}
	t := &Termer{P: p}
	_, paths, ok := bodyPaths(p, fn, t)
	if !ok {
		c.Undecided("setKey loop", fn.Pos(), "not a single loop")
		return
	}
	r, idx, key := "p:"+fn.Params[0].Name(), "p:"+fn.Params[1].Name(), "p:"+fn.Params[2].Name()
	n := 0
	for _, lp := range paths {
		if lp.Stop == nil {
			continue
		}
		n++
		var stores []string
		for _, e := range lp.Events {
			if e.Kind == "store" {
				stores = append(stores, gen(e.Base)+"."+e.Name+"="+gen(e.Val))
			}
		}
		want := key + "[i].V=" + r + "[" + idx + "[i]]"
		c.Check(len(stores) == 1 && stores[0] == want, "setKey:"+pathSig(lp, 99), fn.Pos(), "each iteration stores exactly %s (stores %v): replacing the whole key column would drop the DESC/COLLATE flags the table's primary key needs", want, stores)
	}
	c.Check(n > 0, "setKey iterates", fn.Pos(), "setKey fills one key column per recorded position")
}

func runSQLPass(c *Ctx) {
	p := c.P
	t := &Termer{P: p}
	if fn := c.MustFunc("sql", "newIndexColumn"); fn != nil {
		paths, _ := EnumLits(fn.Blocks[0], 0, TabOpts{Termer: t, EventOf: callEvents(p)})
		coll, sort := "p:"+fn.Params[1].Name(), "p:"+fn.Params[2].Name()
		for _, lp := range paths {
			if lp.Exit == nil {
				continue
			}
			cs := eventsOf(lp, "store", "Collate")
			ss := eventsOf(lp, "store", "SortOrder")
			col := eventsOf(lp, "store", "Column")
			c.Check(len(cs) == 1 && cs[0].Val == coll, "newIndexColumn collate:"+pathSig(lp, 99), fn.Pos(), "the COLLATE written on an indexed column is recorded verbatim (an explicit BINARY must stay distinguishable from `none`: it overrides the column's declared collation); stores %v", evVals(cs))
			c.Check(len(ss) == 1 && ss[0].Val == sort, "newIndexColumn order:"+pathSig(lp, 99), fn.Pos(), "the direction is recorded verbatim")
			c.Check(len(col) == 1 && col[0].Val == "call:sql.AsColumn", "newIndexColumn column:"+pathSig(lp, 99), fn.Pos(), "the column name is the expression's column")
		}
	}
	if fn := c.MustFunc("sql", "makeColumnDef"); fn != nil {
		ok1, ok2 := false, false
		for _, in := range instrs(fn) {
			if s, ok := in.(*ssa.Store); ok {
				if fieldName(s.Addr) == "Name" && s.Val == ssa.Value(fn.Params[0]) {
					ok1 = true
				}
				if fieldName(s.Addr) == "Type" && s.Val == ssa.Value(fn.Params[1]) {
					ok2 = true
				}
			}
		}
		c.Check(ok1 && ok2, "makeColumnDef name/type", fn.Pos(), "a column definition keeps the name and type that were written")
	}
}
