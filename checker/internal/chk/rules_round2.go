package chk

import (
	"fmt"
	"go/token"
	"go/types"
	"regexp"
	"sort"
	"strings"

	"golang.org/x/tools/go/ssa"
)

// Rules added after the second round of independently seeded changes.
func round2Rules() []*Rule {
	return []*Rule{
		{ID: "ERR-4", Props: []string{"C12", "C04", "C19", "C18"}, Min: 150,
			Doc: "between a call and the test of its error no return can slip through: every path from an error-producing call to a return tests that error, returns it, or stores it first",
			Run: runErr4},
		{ID: "ADDINDEX", Props: []string{"C10", "C03"}, Min: 6,
			Doc: "Schema.addIndex table: equal to the WITHOUT ROWID key ⇒ nothing; equal to an existing index ⇒ nothing added and, for a primary key, PrimaryKey = that existing index's name; otherwise the index is added under the given name and, for a primary key, PrimaryKey = that name",
			Run: runAddIndex},
		{ID: "PKCOLS", Props: []string{"C10", "C02"}, Min: 2,
			Doc: "pkColumns: a primary-key column already in the index is found at its own position; a missing one is appended to the index definition and found at the new last position",
			Run: runPKCols},
		{ID: "SETKEY", Props: []string{"C02", "C03"}, Min: 2,
			Doc: "setKey only replaces the values of the prepared lookup key (its per-column direction and collation stay), taking value i from the entry position recorded for primary-key column i",
			Run: runSetKey},
		{ID: "SQLPASS", Props: []string{"C10", "C16"}, Min: 4,
			Doc: "the parser's constructors record what was written: an indexed column keeps its COLLATE and direction verbatim, a column definition keeps name and type",
			Run: runSQLPass},
		{ID: "DRV-8", Props: []string{"C19"}, Min: 1,
			Doc: "Rows.Next hands over the whole row: every iteration of its copy loop stores column i of the received row into dest[i] (database/sql reuses dest, so a skipped column would show the previous row's value)",
			Run: runDrv8},
		{ID: "DRV-9", Props: []string{"C20", "C19"}, Min: 2,
			Doc: "one handle per statement: every store into Statement.dbh is the result of a sqlittle.Open made in the same call, and Statement.Close closes that handle (result sets of one connection run their producers concurrently; a handle is not synchronised)",
			Run: runDrv9},
	}
}

func runDrv9(c *Ctx) {
	p := c.P
	stores := 0
	for _, fn := range p.ModFuncs() {
		for _, b := range fn.Blocks {
			for _, in := range b.Instrs {
				st, ok := in.(*ssa.Store)
				if !ok {
					continue
				}
				fa, ok := st.Addr.(*ssa.FieldAddr)
				if !ok || fieldName(fa) != "dbh" || namedTypeName(fa.X.Type()) != "Statement" {
					continue
				}
				stores++
				key := "Statement.dbh store in " + p.FnKey(fn)
				fresh := false
				if ex, ok := st.Val.(*ssa.Extract); ok && ex.Index == 0 {
					if call, ok := ex.Tuple.(*ssa.Call); ok {
						if cal := call.Common().StaticCallee(); cal != nil && p.FnKey(cal) == "sqlittle.Open" {
							fresh = true
						}
					}
				}
				c.Check(fresh, key, st.Pos(), "%s", map[bool]string{true: "the statement's handle is opened by this very call", false: "the statement's handle is not a handle opened by this call (" + st.Val.String() + "): statements would share a handle, and their producer goroutines run concurrently"}[fresh])
			}
		}
	}
	if stores == 0 {
		c.Undecided("Statement.dbh", token.NoPos, "no store into Statement.dbh found")
	}
	cl := findFn(p, "(*driver.Statement).Close")
	if cl == nil {
		c.Undecided("anchor Statement.Close", token.NoPos, "(*driver.Statement).Close not found")
		return
	}
	closes := false
	for _, cs := range callsIn(cl) {
		if cal := cs.Common().StaticCallee(); cal != nil && p.FnKey(cal) == "(*sqlittle.DB).Close" {
			if ld, ok := cs.Common().Args[0].(*ssa.UnOp); ok {
				if fa, ok := ld.X.(*ssa.FieldAddr); ok && fieldName(fa) == "dbh" {
					closes = true
				}
			}
		}
	}
	c.Check(closes, "Statement.Close closes its handle", cl.Pos(), "Statement.Close %s", map[bool]string{true: "closes st.dbh", false: "does not close st.dbh"}[closes])
}

func runDrv8(c *Ctx) {
	p := c.P
	fn := findFn(p, "(*driver.Rows).Next")
	if fn == nil {
		c.Undecided("anchor Rows.Next", token.NoPos, "(*driver.Rows).Next not found")
		return
	}
	t := &Termer{P: p}
	_, paths, ok := bodyPaths(p, fn, t)
	if !ok {
		c.Undecided("Rows.Next loop", fn.Pos(), "Rows.Next is not a single copy loop any more")
		return
	}
	dest := "p:" + fn.Params[1].Name()
	for _, lp := range paths {
		if lp.Stop == nil {
			continue // the loop exit
		}
		key := "Rows.Next copy:" + pathSig(lp, 99)
		good := false
		for _, e := range lp.Events {
			st, isSt := e.Instr.(*ssa.Store)
			if e.Kind != "store" || e.Name != "[]" || !isSt {
				continue
			}
			ia, ok1 := st.Addr.(*ssa.IndexAddr)
			sv := st.Val
			for {
				if ct, ok := sv.(*ssa.ChangeType); ok {
					sv = ct.X
				} else if mi, ok := sv.(*ssa.MakeInterface); ok {
					sv = mi.X
				} else {
					break
				}
			}
			ld, ok2 := sv.(*ssa.UnOp)
			if !ok1 || !ok2 || ld.Op != token.MUL {
				continue
			}
			src, ok3 := ld.X.(*ssa.IndexAddr)
			if !ok3 || t.Term(ia.X, lp.PS) != dest || t.Term(ia.Index, lp.PS) != t.Term(src.Index, lp.PS) {
				continue
			}
			if ex, ok := src.X.(*ssa.Extract); ok && ex.Index == 0 {
				if rc, ok := ex.Tuple.(*ssa.UnOp); ok && rc.Op == token.ARROW {
					good = true
				}
			}
		}
		c.Check(good, key, fn.Pos(), "an iteration of the copy loop on path [%s] %s", pathDesc(lp), map[bool]string{true: "stores row[i] into dest[i]", false: "does not store row[i] into dest[i]: dest keeps the previous row's value there"}[good])
	}
}

func runErr4(c *Ctx) {
	p := c.P
	for _, src := range errSources(p, false) {
		call, isVal := src.Call.(*ssa.Call)
		if !isVal {
			continue
		}
		ev, _ := errResultOf(call)
		if ev == nil {
			continue // ERR-1's business
		}
		if errException(p, src.Fn, src.Call) != "" {
			continue
		}
		top := src.Fn
		for top.Parent() != nil {
			top = top.Parent()
		}
		isInfo := p.FnKey(top) == "(*db.Database).Info"
		// uses that count as `handled`: nil test, return operand, store, argument of a call
		handled := map[ssa.Instruction]bool{}
		var mark func(v ssa.Value, depth int)
		mark = func(v ssa.Value, depth int) {
			if depth > 4 {
				return
			}
			for _, r := range *v.Referrers() {
				switch x := r.(type) {
				case *ssa.BinOp:
					for _, rr := range *x.Referrers() {
						if i, ok := rr.(ssa.Instruction); ok {
							handled[i] = true
						}
					}
					handled[x] = true
				case *ssa.Return, *ssa.Store, *ssa.Send, *ssa.MapUpdate:
					handled[x.(ssa.Instruction)] = true
				case ssa.CallInstruction:
					handled[x] = true
				case *ssa.Phi, *ssa.MakeInterface, *ssa.ChangeInterface:
					mark(x.(ssa.Value), depth+1)
				case *ssa.TypeAssert:
					handled[x] = true
				}
			}
		}
		mark(ev, 0)
		bad := ""
		var badPos token.Pos
		pv := &pathVisitor{
			OnInstr: func(in ssa.Instruction, ps *pathState) bool {
				if handled[in] {
					return false // handled on this path: nothing more to require
				}
				return true
			},
			OnExit: func(ret *ssa.Return, ps *pathState) {
				if ret == nil || bad != "" {
					return
				}
				bad = "returns at " + p.Pos(ret.Pos())
				badPos = ret.Pos()
			},
		}
		enumPaths(call.Block(), instrIndex(call)+1, pv)
		if pv.Overflow {
			c.Undecided(src.Key, call.Pos(), "too many paths")
			continue
		}
		if bad != "" && isInfo {
			bad = ""
		}
		if bad == "" {
			c.Pass(src.Key, call.Pos(), "every path from the call first tests, returns or stores its error")
		} else {
			c.Fail(src.Key, badPos, "after %s the function %s without having looked at the call's error: a failure of %s is reported as success (or as `not found`)", src.Name, bad, src.Name)
		}
	}
}

func runAddIndex(c *Ctx) {
	p := c.P
	fn := c.MustFunc("db", "(*Schema).addIndex")
	if fn == nil {
		return
	}
	t := &Termer{P: p}
	paths, ok := EnumLits(fn.Blocks[0], 0, TabOpts{Termer: t, EventOf: callEvents(p)})
	if !ok {
		c.Undecided("addIndex paths", fn.Pos(), "too many paths")
		return
	}
	if len(fn.Params) != 4 {
		c.Undecided("addIndex signature", fn.Pos(), "addIndex no longer takes (pk, name, columns): the decision table of this rule (which index name becomes Schema.PrimaryKey) has nothing to read")
		return
	}
	recv, pk, name, cols := "p:"+fn.Params[0].Name(), "p:"+fn.Params[1].Name(), "p:"+fn.Params[2].Name(), "p:"+fn.Params[3].Name()
	nDupPK, nDupIdx, nNew := 0, 0, 0
	defer func() {
		// the table has three kinds of row; a kind with no path means the comparison that selects it is not made or
		// its answer not looked at
		c.Check(nDupPK > 0, "addIndex:row:key", fn.Pos(), "addIndex has %d paths on which the columns are found to be the WITHOUT ROWID key (a UNIQUE over the key's columns has no index of its own)", nDupPK)
		c.Check(nDupIdx > 0, "addIndex:row:shared", fn.Pos(), "addIndex has %d paths on which an equivalent earlier index is found (constraints over the same key share one index)", nDupIdx)
		c.Check(nNew > 0, "addIndex:row:new", fn.Pos(), "addIndex has %d paths on which a new index is added", nNew)
	}()
	for _, lp := range paths {
		if lp.Exit == nil {
			continue
		}
		key := "addIndex:" + pathSig(lp, 99)
		isPK := lp.Has(pk, token.EQL, "true", true)
		notPK := lp.Has(pk, token.EQL, "true", false) || lp.Has(pk, token.EQL, "false", true)
		// which comparison succeeded?
		dupPK, dupIdx := false, ""
		for _, e := range lp.Events {
			// the same-key test: a call comparing the given columns with the key or with an index's columns (which
			// comparison it has to be is the business of the `same-key test` obligations below)
			if e.Kind != "call" || len(e.Args) != 2 || e.Args[1] != cols {
				continue
			}
			if _, isVal := e.Instr.(ssa.Value); !isVal {
				continue
			}
			res := t.Term(e.Instr.(ssa.Value), lp.PS)
			if !lp.Has(res, token.EQL, "true", true) {
				continue
			}
			if e.Args[0] == recv+".PK" && e.Args[1] == cols {
				dupPK = true
			} else if strings.HasPrefix(e.Args[0], recv+".Indexes[") && strings.HasSuffix(e.Args[0], ".Columns") && e.Args[1] == cols {
				dupIdx = strings.TrimSuffix(e.Args[0], ".Columns")
			}
		}
		pkStores := eventsOf(lp, "store", "PrimaryKey")
		appended := false
		for _, e := range lp.Events {
			if e.Kind == "store" && e.Name == "Indexes" && strings.HasPrefix(e.Val, "append(") {
				appended = true
			}
		}
		ret := t.Term(lp.Exit.Results[0], lp.PS)
		var problems []string
		switch {
		case dupPK:
			nDupPK++
			if len(pkStores) > 0 || appended || ret != "const:false" {
				problems = append(problems, "columns equal the WITHOUT ROWID key: nothing may change and false must be returned")
			}
		case dupIdx != "":
			nDupIdx++
			if appended || ret != "const:false" {
				problems = append(problems, "an equivalent index exists: nothing may be added and false must be returned")
			}
			if isPK && !(len(pkStores) == 1 && pkStores[0].Val == dupIdx+".Index") {
				problems = append(problems, fmt.Sprintf("a PRIMARY KEY that shares an existing index must record THAT index's name (%s.Index) as PrimaryKey; stores %v", dupIdx, evVals(pkStores)))
			}
			if notPK && len(pkStores) > 0 {
				problems = append(problems, "PrimaryKey changed by a constraint that is not the primary key")
			}
		default:
			nNew++
			if !appended || ret != "const:true" {
				problems = append(problems, "a new index must be added and true returned")
			}
			idx := eventsOf(lp, "store", "Index")
			colsSt := eventsOf(lp, "store", "Columns")
			if len(idx) != 1 || idx[0].Val != name || len(colsSt) != 1 || colsSt[0].Val != cols {
				problems = append(problems, "the added index must carry the given name and columns")
			}
			if isPK && !(len(pkStores) == 1 && pkStores[0].Val == name) {
				problems = append(problems, "a new PRIMARY KEY index must be recorded as PrimaryKey under its own name")
			}
			if notPK && len(pkStores) > 0 {
				problems = append(problems, "PrimaryKey changed by a constraint that is not the primary key")
			}
		}
		if !isPK && !notPK && !dupPK {
			problems = append(problems, "the primary-key flag is not consulted")
		}
		c.Check(len(problems) == 0, key, lp.Exit.Pos(), "addIndex %s", orStr(strings.Join(problems, "; "), "row holds on path ["+pathDesc(lp)+"]"))
	}
	runSameKey(c, fn)
}

// runSameKey: when are two UNIQUE / PRIMARY KEY constraints one key? SQLite (build.c, sqlite3CreateIndex) shares one
// index between constraints that name the same columns under the same collations; it looks neither at the direction
// nor at how a name is spelled. The test used by addIndex and setPK has to be that comparison; and a WITHOUT ROWID
// primary key that takes over an earlier constraint's index keeps that index's columns (the table is stored in the
// earlier constraint's directions).
func runSameKey(c *Ctx, addIndex *ssa.Function) {
	p := c.P
	setPK := c.MustFunc("db", "(*Schema).setPK")
	if setPK == nil {
		return
	}
	isKeyCols := func(v ssa.Value) bool {
		sl, ok := v.Type().Underlying().(*types.Slice)
		return ok && typeIs(sl.Elem(), modPkgPath("db"), "IndexColumn")
	}
	for _, fn := range []*ssa.Function{addIndex, setPK} {
		n := 0
		for _, cs := range callsIn(fn) {
			call, ok := cs.(*ssa.Call)
			if !ok || len(call.Call.Args) != 2 {
				continue
			}
			a0, a1 := stripMakeInterface(call.Call.Args[0]), stripMakeInterface(call.Call.Args[1])
			if !isKeyCols(a0) || !isKeyCols(a1) {
				continue
			}
			n++
			key := fmt.Sprintf("same-key test in %s#%d", fn.Name(), n)
			callee := call.Call.StaticCallee()
			switch {
			case callee == nil:
				c.Undecided(key, call.Pos(), "the comparison is made through a function value")
			case !p.InModule(callee):
				c.Fail(key, call.Pos(), "constraints are compared with %s, which looks at every field of every column — direction and the spelling of names included: `PRIMARY KEY DESC UNIQUE`, `UNIQUE(a DESC, b), UNIQUE(a, b DESC)` or `UNIQUE(A), PRIMARY KEY(a)` are one key with one index in SQLite, and every automatic index after them is numbered accordingly", calleeName(p, call))
			default:
				why := sameKeyComparator(p, callee)
				if why == "" {
					why = keyCmpTable(p, callee)
				}
				c.Check(why == "", key, call.Pos(), "constraints are compared by column (whatever the spelling) and collation, not by direction %s", why)
			}
		}
		if n == 0 {
			c.Undecided("same-key test in "+fn.Name(), fn.Pos(), "%s no longer compares the given columns with existing keys", fn.Name())
		}
	}
	// setPK: on a take-over the key is the earlier index's column list
	t := &Termer{P: p}
	paths, ok := EnumLits(setPK.Blocks[0], 0, TabOpts{Termer: t, EventOf: callEvents(p)})
	if !ok {
		c.Undecided("setPK take-over", setPK.Pos(), "too many paths")
		return
	}
	recv, cols := "p:"+setPK.Params[0].Name(), "p:"+setPK.Params[1].Name()
	nTake := 0
	for _, lp := range paths {
		if lp.Exit == nil {
			continue
		}
		took := ""
		for _, e := range lp.Events {
			if e.Kind != "call" || len(e.Args) != 2 || e.Args[1] != cols || !strings.HasSuffix(e.Args[0], ".Columns") {
				continue
			}
			if v, isVal := e.Instr.(ssa.Value); isVal && lp.Has(t.Term(v, lp.PS), token.EQL, "true", true) {
				took = e.Args[0]
			}
		}
		// what setPK answers (when it answers): "took an earlier index over" — the automatic-index counter depends on it
		if len(lp.Exit.Results) == 1 {
			if b, isC := constBool(lp.PS.Resolve(lp.Exit.Results[0])); isC {
				c.Check(b == (took != ""), "setPK answer:"+pathSig(lp, 99), lp.Exit.Pos(), "setPK answers true exactly when the key took over the index of an earlier equivalent constraint (took over: %v, answers %v)", took != "", b)
			} else {
				c.Undecided("setPK answer:"+pathSig(lp, 99), lp.Exit.Pos(), "setPK's answer is not a constant on this path")
			}
		}
		if took == "" {
			continue
		}
		nTake++
		pk := eventsOf(lp, "store", "PK")
		last := ""
		if len(pk) > 0 {
			last = pk[len(pk)-1].Val
		}
		c.Check(last == took && strings.HasPrefix(pk[len(pk)-1].Base, recv), "setPK take-over:"+pathSig(lp, 99), lp.Exit.Pos(), "a WITHOUT ROWID primary key that equals an earlier constraint takes over that constraint's index: the key recorded is that index's column list (%s), with its directions — the table is stored that way; recorded: %s", took, orStr(last, "nothing"))
	}
	if nTake == 0 {
		c.Fail("setPK take-over", setPK.Pos(), "setPK never finds an earlier equivalent constraint")
	}
}

// sameGen: two terms carry the same generation suffix (they were computed in the same loop iteration).
func sameGen(a, b string) bool {
	suffix := func(s string) string {
		if i := strings.LastIndex(s, "~"); i >= 0 {
			return s[i:]
		}
		return ""
	}
	return suffix(a) == suffix(b)
}

func stripMakeInterface(v ssa.Value) ssa.Value {
	if mi, ok := v.(*ssa.MakeInterface); ok {
		return mi.X
	}
	return v
}

// sameKeyComparator: "" when fn (with the module functions it calls) compares two column lists by length, column name
// without regard to case, and collation — and never reads a direction.
func sameKeyComparator(p *Program, fn *ssa.Function) string { return keyComparator(p, fn, true) }

// sameColumnComparator: the same for a function that compares two single key columns (no lengths to compare).
func sameColumnComparator(p *Program, fn *ssa.Function) string {
	if len(fn.Params) != 2 || !typeIs(fn.Params[0].Type(), modPkgPath("db"), "IndexColumn") || !typeIs(fn.Params[1].Type(), modPkgPath("db"), "IndexColumn") {
		return "— it does not take two key columns"
	}
	return keyComparator(p, fn, false)
}

func keyComparator(p *Program, fn *ssa.Function, lists bool) string {
	seen := map[*ssa.Function]bool{}
	var fns []*ssa.Function
	var visit func(f *ssa.Function)
	visit = func(f *ssa.Function) {
		if seen[f] || len(fns) > 8 {
			return
		}
		seen[f] = true
		fns = append(fns, f)
		for _, cs := range callsIn(f) {
			// only helpers that compare two strings belong to the comparison; a function that merely CALLS a
			// comparator over column lists (an "is it in this list" wrapper) is not one itself
			if cal := cs.Common().StaticCallee(); cal != nil && p.InModule(cal) && (allStringParams(cal) || sameColumnParams(cal)) {
				visit(cal)
			}
		}
	}
	visit(fn)
	reads := map[string]int{}
	foldsNames, lens := false, false
	for _, f := range fns {
		for _, in := range instrs(f) {
			switch x := in.(type) {
			case *ssa.FieldAddr:
				if typeIs(x.X.Type(), modPkgPath("db"), "IndexColumn") {
					reads[fieldName(x)]++
				}
			case *ssa.Field:
				if typeIs(x.X.Type(), modPkgPath("db"), "IndexColumn") {
					reads[fieldName(x)]++
				}
			case *ssa.Call:
				if cal := x.Call.StaticCallee(); cal != nil && (isLibFunc(cal, "strings", "EqualFold") || isLibFunc(cal, "strings", "ToLower") || isLibFunc(cal, "strings", "ToUpper")) {
					for _, a := range x.Call.Args {
						if strings.HasSuffix((&Termer{P: p}).Term(a, emptyPS()), ".Column") {
							foldsNames = true
						}
					}
				}
				if cal := x.Call.StaticCallee(); cal != nil && !p.InModule(cal) && cal.Pkg != nil && cal.Pkg.Pkg.Path() == "reflect" {
					return "— it falls back on reflect." + cal.Name()
				}
			case *ssa.BinOp:
				if x.Op == token.EQL || x.Op == token.NEQ {
					lx, ly := (&Termer{P: p}).Term(x.X, emptyPS()), (&Termer{P: p}).Term(x.Y, emptyPS())
					if strings.HasPrefix(lx, "len(p:") && strings.HasPrefix(ly, "len(p:") {
						lens = true
					}
				}
			}
		}
	}
	switch {
	case reads["SortOrder"] > 0:
		return "— it reads SortOrder: constraints that differ only in direction are one key in SQLite"
	case reads["Column"] < 2 || !foldsNames:
		return "— column names are not compared without regard to case"
	case reads["Collate"] < 2:
		return "— collations are not compared"
	case !lens && lists:
		return "— the number of columns is not compared"
	}
	return ""
}

// keyCmpTable: the decision table of a comparator of key columns (two lists, or two single columns), by paths, with
// freshly written helpers walked in place: it answers true only on paths on which every comparison of names (without
// regard to case) and of collations it made came out equal, each name comparison paired with a collation comparison;
// it answers false only on paths on which some comparison — or the lengths — came out unequal.
func keyCmpTable(p *Program, fn *ssa.Function) string {
	t := &Termer{P: p}
	paths, ok := EnumLits(fn.Blocks[0], 0, TabOpts{Termer: t, EventOf: callEvents(p), Limit: 50000})
	if !ok {
		return "— too many paths to read its decision table"
	}
	kindOf := func(l Lit) string {
		v := l.Cond
		for {
			if u, ok := v.(*ssa.UnOp); ok && u.Op == token.NOT {
				v = u.X
				continue
			}
			break
		}
		if bo, ok := v.(*ssa.BinOp); ok && (bo.Op == token.EQL || bo.Op == token.NEQ) {
			lx, ly := t.Term(bo.X, l.PS), t.Term(bo.Y, l.PS)
			if strings.HasPrefix(lx, "len(") && strings.HasPrefix(ly, "len(") {
				return "len"
			}
		}
		call, ok := v.(*ssa.Call)
		if !ok || call.Call.StaticCallee() == nil || len(call.Call.Args) != 2 {
			return ""
		}
		a0, a1 := reGen.ReplaceAllString(t.Term(call.Call.Args[0], l.PS), ""), reGen.ReplaceAllString(t.Term(call.Call.Args[1], l.PS), "")
		cal := call.Call.StaticCallee()
		switch {
		case isLibFunc(cal, "strings", "EqualFold") && strings.HasSuffix(a0, ".Column") && strings.HasSuffix(a1, ".Column"):
			return "name"
		case strings.HasSuffix(a0, ".Collate") && strings.HasSuffix(a1, ".Collate") && p.InModule(cal) && allStringParams(cal):
			return "coll"
		case sameColumnParams(cal) && p.InModule(cal) && sameColumnComparator(p, cal) == "" && keyCmpTable(p, cal) == "":
			return "both"
		}
		return ""
	}
	for _, lp := range paths {
		if lp.Exit == nil || len(lp.Exit.Results) != 1 {
			continue
		}
		if len(lp.Unknown) > 0 {
			return fmt.Sprintf("— its answer depends on a condition the rule cannot read: %v", lp.Unknown)
		}
		res, isC := constBool(lp.PS.Resolve(lp.Exit.Results[0]))
		if !isC {
			return "— its answer is not a constant on path [" + pathDesc(lp) + "]"
		}
		nameT, collT, unequal := 0, 0, false
		for _, l := range lp.Lits {
			isTrue := false
			switch {
			case l.C == "true" && (l.Op == token.EQL || l.Op == token.NEQ):
				isTrue = (l.Op == token.EQL) == l.Val
			case l.C == "false" && (l.Op == token.EQL || l.Op == token.NEQ):
				isTrue = (l.Op == token.EQL) != l.Val
			}
			switch kindOf(l) {
			case "len":
				// `len(a) != len(b)` true
				if bo, ok := l.Cond.(*ssa.BinOp); ok {
					if (bo.Op == token.NEQ) == l.Val {
						unequal = true
					}
				}
			case "name":
				if isTrue {
					nameT++
				} else {
					unequal = true
				}
			case "coll":
				if isTrue {
					collT++
				} else {
					unequal = true
				}
			case "both":
				if isTrue {
					nameT++
					collT++
				} else {
					unequal = true
				}
			}
		}
		switch {
		case res && unequal:
			return "— it answers `same key` on path [" + pathDesc(lp) + "], on which a name, a collation or the number of columns differed"
		case res && nameT != collT:
			return fmt.Sprintf("— it answers `same key` on path [%s] after %d name and %d collation comparisons: every column must be compared in both", pathDesc(lp), nameT, collT)
		case !res && !unequal:
			return "— it answers `different keys` on path [" + pathDesc(lp) + "], on which nothing that was compared differed"
		}
	}
	return ""
}

// sameColumnParams: f compares two single key columns.
func sameColumnParams(f *ssa.Function) bool {
	return len(f.Params) == 2 && typeIs(f.Params[0].Type(), modPkgPath("db"), "IndexColumn") && typeIs(f.Params[1].Type(), modPkgPath("db"), "IndexColumn")
}

func allStringParams(f *ssa.Function) bool {
	for _, pa := range f.Params {
		if b, ok := pa.Type().Underlying().(*types.Basic); !ok || b.Info()&types.IsString == 0 {
			return false
		}
	}
	return len(f.Params) > 0
}

func runPKCols(c *Ctx) {
	p := c.P
	fn := c.MustFunc(".", "pkColumns")
	if fn == nil {
		return
	}
	// the loop over the primary-key columns: the outermost loop
	var h *ssa.BasicBlock
	hs := loopHeaders(fn)
	for _, cand := range hs {
		inside := false
		for _, h2 := range hs {
			if h2 != cand && loopBody(h2)[cand] {
				inside = true
			}
		}
		if !inside {
			if h != nil {
				c.Undecided("pkColumns loop", fn.Pos(), "more than one outer loop")
				return
			}
			h = cand
		}
	}
	if h == nil {
		c.Undecided("pkColumns loop", fn.Pos(), "pkColumns has no loop over the primary key")
		return
	}
	t := &Termer{P: p}
	paths, ok := EnumLits(h, 0, TabOpts{Termer: t, EventOf: callEvents(p), Limit: 100000,
		Stop: func(in ssa.Instruction, ps *pathState) bool { return in == h.Instrs[0] && len(ps.Path) > 1 }})
	if !ok {
		c.Undecided("pkColumns loop", fn.Pos(), "too many paths")
		return
	}
	schema, ind := "p:"+fn.Params[0].Name(), "p:"+fn.Params[1].Name()
	mentions := func(lp *LPath, what string) bool {
		for _, l := range lp.Lits {
			if strings.Contains(gen(l.Subject), what) {
				return true
			}
		}
		for _, e := range lp.Events {
			for _, a := range e.Args {
				if strings.Contains(gen(a), what) {
					return true
				}
			}
		}
		return false
	}
	nAppend, nReuse := 0, 0
	for _, lp := range paths {
		if lp.Stop == nil {
			continue
		}
		var pos string
		colsAppend := false
		for _, e := range lp.Events {
			if e.Kind != "store" {
				continue
			}
			if e.Name == "Columns" && e.Base == ind && strings.HasPrefix(gen(e.Val), "append("+ind+".Columns,") {
				colsAppend = true
			}
			if e.Name == "[]" {
				if st, ok := e.Instr.(*ssa.Store); ok && isIntType(st.Val.Type()) {
					pos = gen(e.Val)
				}
			}
		}
		if pos == "" {
			c.Fail("pkColumns:"+pathSig(lp, 99), fn.Pos(), "a primary-key column is passed over without recording a position; path [%s]", pathDesc(lp))
			continue
		}
		if newProver(p, t, lp).g.inconsistent() {
			continue // e.g. "found at a negative position"
		}
		// did the search over the index columns end on a match, and at which position?
		matched, matchIdx := false, ""
		{
			var lastEF *Event
			for i := range lp.Events {
				e := &lp.Events[i]
				if e.Kind == "call" && e.Name == "strings.EqualFold" && len(e.Args) == 2 && strings.HasSuffix(gen(e.Args[0])+gen(e.Args[1]), ".Column") {
					lastEF = e
				}
			}
			if lastEF != nil {
				efT := t.Term(lastEF.Instr.(ssa.Value), lp.PS)
				okName := lp.Has(efT, token.EQL, "true", true)
				okColl := false
				for i := range lp.Events {
					e := &lp.Events[i]
					if e.Kind == "call" && e.Name == "sqlittle.sameCollation" && e.Instr.Pos() > lastEF.Instr.Pos() || (e.Kind == "call" && e.Name == "sqlittle.sameCollation" && sameGen(t.Term(e.Instr.(ssa.Value), lp.PS), efT)) {
						okColl = lp.Has(t.Term(e.Instr.(ssa.Value), lp.PS), token.EQL, "true", true)
					}
				}
				matched = okName && okColl
				for _, a := range lastEF.Args {
					if i := strings.Index(a, ".Columns["); i >= 0 && strings.HasSuffix(a, "].Column") {
						matchIdx = a[i+len(".Columns[") : len(a)-len("].Column")]
					}
				}
			}
		}
		if colsAppend && matched {
			c.Fail("pkColumns found", fn.Pos(), "the key column was found in the index (at position %s) and is appended all the same: a key column that is the index's first column, say, would be stored twice; path [%s]", matchIdx, pathDesc(lp))
			continue
		}
		if !colsAppend {
			c.Check(matched && gen(pos) == gen(matchIdx), "pkColumns found", fn.Pos(), "a key column that the index already has is found at the position of the matching index column (matched=%v at %s, recorded %s)", matched, matchIdx, pos)
		}
		if colsAppend {
			nAppend++
			isPK := false
			for _, e := range lp.Events {
				if e.Kind == "store" && e.Name == "[]" && strings.Contains(gen(e.Val), schema+".PK[i]") {
					isPK = true // the appended element is the key column itself
				}
			}
			good := strings.HasPrefix(pos, "(len(") && strings.HasSuffix(pos, "-const:1)") && isPK
			c.Check(good, "pkColumns appended", fn.Pos(), "a key column that is not in the index yet is appended to the index definition and found at the new last position (position %s)", pos)
			continue
		}
		// reuse of an index column: it must be the same column under the same collation — SQLite stores the key column
		// again when the index has it under another collation
		nReuse++
		name := mentions(lp, schema+".PK[i].Column") || mentions(lp, ".Column")
		// the collations are compared by sameCollation (whose table — no name means BINARY, names compare without
		// case — is decided below), with this index column's and this key column's collation
		coll := false
		for _, e := range lp.Events {
			if e.Kind == "call" && e.Name == "sqlittle.sameCollation" && len(e.Args) == 2 {
				a0, a1 := gen(e.Args[0]), gen(e.Args[1])
				if (strings.HasSuffix(a0, ".Collate") && a1 == schema+".PK[i].Collate") || (strings.HasSuffix(a1, ".Collate") && a0 == schema+".PK[i].Collate") {
					coll = true
				}
			}
		}
		c.Check(name && coll, "pkColumns reuse", fn.Pos(), "%s", map[bool]string{true: "an index column stands in for a key column only after its name and its collation were compared with the key column's", false: "an index column is taken for a key column by name alone: when the index has that column under another collation SQLite stores the key column a second time, and every position after it is off by one"}[name && coll])
	}
	if nAppend == 0 || nReuse == 0 {
		c.Fail("pkColumns", fn.Pos(), "expected a path that reuses an index column and one that appends the key column (found %d, %d)", nReuse, nAppend)
	}
	// the result is the list built in the loop
	for _, r := range returnsOf(fn) {
		if _, isPhi := r.Results[0].(*ssa.Phi); !isPhi {
			c.Fail("pkColumns result", r.Pos(), "the result is not the list of positions collected per primary-key column")
		}
	}
	// sameCollation: "" stands for BINARY on either side; names are compared without regard to case
	sc := findFn(p, "sqlittle.sameCollation")
	if sc == nil {
		c.Undecided("anchor sameCollation", token.NoPos, "sqlittle.sameCollation not found")
		return
	}
	spaths, _ := EnumLits(sc.Blocks[0], 0, TabOpts{Termer: t, EventOf: callEvents(p)})
	a, b := "p:"+sc.Params[0].Name(), "p:"+sc.Params[1].Name()
	n := 0
	for _, lp := range spaths {
		if lp.Exit == nil {
			continue
		}
		n++
		want := func(prm string) string {
			if lp.Holds(prm, token.EQL, `""`) {
				return `const:"binary"`
			}
			if lp.Holds(prm, token.NEQ, `""`) {
				return prm
			}
			return "?"
		}
		ef := eventsOf(lp, "call", "strings.EqualFold")
		good := len(ef) == 1 && len(ef[0].Args) == 2 && ((ef[0].Args[0] == want(a) && ef[0].Args[1] == want(b)) || (ef[0].Args[0] == want(b) && ef[0].Args[1] == want(a))) &&
			strings.HasPrefix(t.Term(lp.Exit.Results[0], lp.PS), "call:strings.EqualFold")
		c.Check(good, "sameCollation:"+pathSig(lp, 99), lp.Exit.Pos(), "on path [%s]: an empty name counts as BINARY, and the two names are compared without regard to case", pathDesc(lp))
	}
	if n < 4 {
		c.Fail("sameCollation", sc.Pos(), "expected the four combinations of named/unnamed collations (found %d paths)", n)
	}
}

func runSetKey(c *Ctx) {
	p := c.P
	fn := c.MustFunc(".", "setKey")
	if fn == nil {
		return
	}
	t := &Termer{P: p}
	_, paths, ok := bodyPaths(p, fn, t)
	if !ok {
		c.Undecided("setKey loop", fn.Pos(), "not a single loop")
		return
	}
	if len(fn.Params) != 3 {
		c.Undecided("setKey loop", fn.Pos(), "setKey does not take (record, positions, key) any more")
		return
	}
	r, idx, key := "p:"+p.KnownParam(fn, 0).Name(), "p:"+p.KnownParam(fn, 1).Name(), "p:"+p.KnownParam(fn, 2).Name()
	n := 0
	for _, lp := range paths {
		if lp.Stop == nil {
			continue
		}
		n++
		var stores []string
		for _, e := range lp.Events {
			if e.Kind == "store" {
				stores = append(stores, gen(e.Base)+"."+e.Name+"="+gen(e.Val))
			}
		}
		want := key + "[i].V=" + r + "[" + idx + "[i]]"
		c.Check(len(stores) == 1 && stores[0] == want, "setKey:"+pathSig(lp, 99), fn.Pos(), "each iteration stores exactly %s (stores %v): replacing the whole key column would drop the DESC/COLLATE flags the table's primary key needs", want, stores)
	}
	c.Check(n > 0, "setKey iterates", fn.Pos(), "setKey fills one key column per recorded position")
}

func runSQLPass(c *Ctx) {
	p := c.P
	t := &Termer{P: p}
	if fn := c.MustFunc("sql", "newIndexColumn"); fn != nil {
		paths, _ := EnumLits(fn.Blocks[0], 0, TabOpts{Termer: t, EventOf: callEvents(p)})
		coll, sort := "p:"+fn.Params[1].Name(), "p:"+fn.Params[2].Name()
		for _, lp := range paths {
			if lp.Exit == nil {
				continue
			}
			cs := eventsOf(lp, "store", "Collate")
			ss := eventsOf(lp, "store", "SortOrder")
			col := eventsOf(lp, "store", "Column")
			c.Check(len(cs) == 1 && cs[0].Val == coll, "newIndexColumn collate:"+pathSig(lp, 99), fn.Pos(), "the COLLATE written on an indexed column is recorded verbatim (an explicit BINARY must stay distinguishable from `none`: it overrides the column's declared collation); stores %v", evVals(cs))
			c.Check(len(ss) == 1 && ss[0].Val == sort, "newIndexColumn order:"+pathSig(lp, 99), fn.Pos(), "the direction is recorded verbatim")
			c.Check(len(col) == 1 && col[0].Val == "call:sql.AsColumn", "newIndexColumn column:"+pathSig(lp, 99), fn.Pos(), "the column name is the expression's column")
		}
	}
	if fn := c.MustFunc("sql", "makeColumnDef"); fn != nil {
		ok1, ok2 := false, false
		for _, in := range instrs(fn) {
			if s, ok := in.(*ssa.Store); ok {
				if fieldName(s.Addr) == "Name" && s.Val == ssa.Value(fn.Params[0]) {
					ok1 = true
				}
				if fieldName(s.Addr) == "Type" && s.Val == ssa.Value(fn.Params[1]) {
					ok2 = true
				}
			}
		}
		c.Check(ok1 && ok2, "makeColumnDef name/type", fn.Pos(), "a column definition keeps the name and type that were written")
		// … and the collation name of its COLLATE constraint, unchanged
		nColl, okColl := 0, true
		// (the constraint loop may live in a freshly extracted helper)
		collIns := instrs(fn)
		for _, cs := range callsIn(fn) {
			if cal := cs.Common().StaticCallee(); cal != nil && inlinable != nil && inlinable(cal) {
				collIns = append(collIns, instrs(cal)...)
			}
		}
		for _, in := range collIns {
			if s, ok := in.(*ssa.Store); ok && fieldName(s.Addr) == "Collate" {
				nColl++
				v := s.Val
				for {
					if cv, ok := v.(*ssa.ChangeType); ok {
						v = cv.X
					} else if cv, ok := v.(*ssa.Convert); ok {
						v = cv.X
					} else {
						break
					}
				}
				ta := false
				switch x := v.(type) {
				case *ssa.TypeAssert:
					ta = true
				case *ssa.Extract:
					_, ta = x.Tuple.(*ssa.TypeAssert)
				}
				if !ta {
					okColl = false
				}
			}
		}
		c.Check(nColl >= 1 && okColl, "makeColumnDef collate", fn.Pos(), "the COLLATE constraint's name is recorded as written (not passed through a function that could turn an explicit BINARY into `none`)")
	}
}

func glueRule() *Rule {
	return &Rule{ID: "GLUE", Props: []string{"C01", "C02", "C03", "C04", "C08", "C19"}, Min: 20,
		Doc: "wiring functions route the right values: the error-free event sequences of the select/open/lookup glue (which table, which columns, which rowid, which callback, which key) equal the confirmed table",
		Run: runGlue}
}

func runGlue(c *Ctx) {
	p := c.P
	for _, name := range sortedKeys(glueTable) {
		want := glueTable[name]
		fn := findFn(p, name)
		if fn == nil {
			// a function literal that became a named function or a method value: its enclosing function is still
			// compared (it hands on `closure`), and what the adapter itself does is decided by the adapter rules
			if i := strings.Index(name, "$"); i > 0 && findFn(p, name[:i]) != nil {
				c.Info("anchor "+name, token.NoPos, "function literal %s is no longer a literal of %s; its enclosing function is compared, the adapter rules decide what it does", name, name[:i])
				continue
			}
			c.Undecided("anchor "+name, token.NoPos, "wiring function %s not found", name)
			continue
		}
		got := cleanSeqs(p, fn)
		// what is compared: the calls the function can make with their argument terms, the fields it sets with their
		// value terms, and the conditions on non-error values it branches on — as sets over all error-free paths. How the
		// paths are grouped, the order of events and the form of the results are the author's business (a transaction
		// wrapper or a lookup helper regroups them without changing what is routed where).
		wc, we := glueSets(want)
		gc, ge := glueSets(got)
		var extra, missing []string
		for k := range ge {
			if !we[k] {
				extra = append(extra, k)
			}
		}
		for k := range gc {
			if !wc[k] {
				extra = append(extra, "if "+k)
			}
		}
		for k := range we {
			if !ge[k] {
				missing = append(missing, k)
			}
		}
		for k := range wc {
			if !gc[k] {
				missing = append(missing, "if "+k)
			}
		}
		sort.Strings(extra)
		sort.Strings(missing)
		if len(extra) == 0 && len(missing) == 0 {
			c.Pass(name, fn.Pos(), "%d call/store event(s) and %d condition(s) as confirmed", len(ge), len(gc))
			continue
		}
		c.Fail(name, fn.Pos(), "the values this function routes changed: new [%s]; gone [%s]", strings.Join(extra, " | "), strings.Join(missing, " | "))
	}
}

// glueSets splits rendered error-free paths "[c ∧ c] ev ; ev ⇒ results" into the set of conditions and the set of
// events (stores into captured variables are internal data flow and left out).
// reClosureName: which function literal (or bound method) is handed on is named after where it was written; what it
// does is the business of the adapter rules (DONE-3, RANGE, CHOMP, ROWMAP), which find it through the call it is handed to.
var reClosureName = regexp.MustCompile(`closure:[A-Za-z0-9_$.()*]+`)

func glueSets(seqs []string) (conds, events map[string]bool) {
	conds, events = map[string]bool{}, map[string]bool{}
	for _, s := range seqs {
		s = reClosureName.ReplaceAllString(s, "closure")
		body := s
		if i := strings.LastIndex(s, " ⇒ "); i >= 0 {
			body = s[:i]
		}
		if strings.HasPrefix(body, "[") {
			if j := strings.Index(body, "] "); j >= 0 {
				for _, c := range strings.Split(body[1:j], " ∧ ") {
					if c != "" {
						conds[c] = true
					}
				}
				body = body[j+2:]
			} else if strings.HasSuffix(body, "]") {
				for _, c := range strings.Split(body[1:len(body)-1], " ∧ ") {
					if c != "" {
						conds[c] = true
					}
				}
				body = ""
			}
		}
		for _, e := range strings.Split(body, " ; ") {
			e = strings.TrimSpace(e)
			if e == "" || strings.HasPrefix(e, "fv:") {
				continue
			}
			events[e] = true
		}
	}
	return
}
