package chk

import (
	"fmt"
	"go/token"
	"go/types"
	"os"
	"regexp"
	"sort"
	"strings"

	"golang.org/x/tools/go/ssa"
)

func travRules() []*Rule {
	return []*Rule{
		{ID: "TRAV", Props: []string{"C01", "C02", "C04", "C13", "C03", "C12"}, Min: 19,
			Doc: "b-tree traversal shape: every iteration method ranges over all cells (or the tail found by the binary search), visits left child → (index interior: the cell's own entry) in that order for every cell with no cell skipped, then the right-most child; leaves emit every visited cell; the rowid leaf search delivers only the first qualifying cell",
			Run: runTrav},
		{ID: "TRAV-flag", Props: []string{"C13", "C02", "C03"}, Min: 2,
			Doc: "indexInterior.IterMin: the first child visited is searched (IterMin with the key), every later child and — iff a cell was visited — the right-most child is scanned (Iter)",
			Run: runTravFlag},
		{ID: "SRCH", Props: []string{"C13", "C03", "C04", "C02"}, Min: 8,
			Doc: "binary-search predicates: index pages use Search(key, record-of-that-cell) with the key first and latch the probe error; table pages use `cell key >= rowid` on the right field; the rowid match test is equality and always stops",
			Run: runSrch},
	}
}

// travPrimitives are the calls the traversal templates are written in; any other static module callee is a helper
// and is replaced by its own (single) clean event sequence, so that extracting a helper does not change the verdict.
var travPrimitives = map[string]bool{
	"(*db.Database).openIndex": true, "(*db.Database).openTable": true, "db.addOverflow": true, "db.parseRecord": true,
	"(*db.tableInterior).cellIter": true, "(*db.tableInterior).cellIterMin": true, "db.indexBinSearch": true, "db.Search": true,
}

var travProg *Program

// travSeq renders the call events of a path as "callee(args)" strings, inlining helper functions one level deep.
func travSeq(lp *LPath) []string { return travSeqT(lp, false) }

// travSeqT: with targets, a call through a function value that is a known function literal on the path is rendered
// with that literal's name (`func-value:db.interiorIterCB→Iter$1(…)`).
func travSeqT(lp *LPath, targets bool) []string {
	var out []string
	for _, e := range lp.Events {
		if e.Kind != "call" {
			continue
		}
		if exp, ok := inlineHelper(e); ok {
			out = append(out, exp...)
			continue
		}
		name := e.Name
		if targets && e.Target != "" {
			name += "→" + e.Target
		}
		out = append(out, name+"("+strings.Join(e.Args, ", ")+")")
	}
	return out
}

func inlineHelper(e Event) ([]string, bool) {
	p := travProg
	if p == nil || travPrimitives[e.Name] {
		return nil, false
	}
	cs, ok := e.Instr.(ssa.CallInstruction)
	if !ok {
		return nil, false
	}
	callee := cs.Common().StaticCallee()
	isLit := false
	if callee == nil && e.Target != "" && cs.Parent() != nil {
		// a call through a function value that is, on this path, a function literal of the enclosing function
		// (`descend := func(p indexBtree) (bool, error) { return p.IterMin(r-1, db, key, cb) }`): its single clean
		// sequence, with what it captured named as the enclosing function names it
		outer := cs.Parent()
		for outer.Parent() != nil {
			outer = outer.Parent()
		}
		var find func(f *ssa.Function) *ssa.Function
		find = func(f *ssa.Function) *ssa.Function {
			for _, a := range f.AnonFuncs {
				if a.Name() == e.Target {
					return a
				}
				if g := find(a); g != nil {
					return g
				}
			}
			return nil
		}
		callee = find(outer)
		isLit = callee != nil
	}
	if callee == nil || p.PkgShort(callee) != "db" || (callee.Parent() != nil && !isLit) || len(loopHeaders(callee)) > 0 || len(callee.Blocks) == 0 {
		return nil, false
	}
	// methods of the page types are traversal levels, not helpers
	if callee.Signature.Recv() != nil {
		return nil, false
	}
	t := &Termer{P: p}
	paths, ok2 := EnumLits(callee.Blocks[0], 0, TabOpts{Termer: t, EventOf: callEvents(p), Limit: 5000})
	if !ok2 {
		return nil, false
	}
	var seq []string
	found := false
	for _, hp := range paths {
		if hp.Exit == nil || !cleanPath(hp) {
			continue
		}
		var s []string
		for _, he := range hp.Events {
			if he.Kind == "call" {
				s = append(s, he.Name+"("+strings.Join(he.Args, ", ")+")")
			}
		}
		if found && strings.Join(s, ";") != strings.Join(seq, ";") {
			return nil, false
		}
		seq, found = s, true
	}
	if !found {
		return nil, false
	}
	if isLit {
		// captured parameters of the enclosing function
		top := callee
		for top.Parent() != nil {
			top = top.Parent()
		}
		for _, fv := range callee.FreeVars {
			for _, prm := range top.Params {
				if prm.Name() == fv.Name() {
					for k := range seq {
						seq[k] = replaceTerm(seq[k], "fv:"+fv.Name(), "p:"+prm.Name())
					}
				}
			}
		}
	}
	// substitute parameters by the call's argument terms
	for i, prm := range callee.Params {
		if i >= len(e.Args) {
			break
		}
		for k := range seq {
			seq[k] = replaceTerm(seq[k], "p:"+prm.Name(), e.Args[i])
		}
	}
	return seq, true
}

// replaceTerm replaces whole occurrences of the term `from` (not prefixes of longer names).
func replaceTerm(s, from, to string) string {
	out := ""
	for {
		i := strings.Index(s, from)
		if i < 0 {
			return out + s
		}
		end := i + len(from)
		if end < len(s) && (s[end] == '_' || (s[end] >= 'a' && s[end] <= 'z') || (s[end] >= 'A' && s[end] <= 'Z') || (s[end] >= '0' && s[end] <= '9')) {
			out += s[:end]
			s = s[end:]
			continue
		}
		out += s[:i] + to
		s = s[end:]
	}
}

var (
	reOrd   = regexp.MustCompile(`@\d+|~\d+`)
	reIdx0  = regexp.MustCompile(`\[const:0\]`)
	reIdxP  = regexp.MustCompile(`\[\(phi:[^\]]*?\+const:1\)\]`)
	rePhi   = regexp.MustCompile(`phi:t\d+@[A-Za-z0-9_$]+`)
	reSpace = regexp.MustCompile(`\s+`)
)

// the element at the position the binary search returned is the first element of the tail from there:
// cells[n] ≡ cells[n:][0]
var reAtSearch = regexp.MustCompile(`\[call:sort\.Search\]`)

func normSeq(seq []string) string {
	s := strings.Join(seq, " ; ")
	s = reOrd.ReplaceAllString(s, "")
	s = reAtSearch.ReplaceAllString(s, "[call:sort.Search:][i]")
	s = reIdx0.ReplaceAllString(s, "[i]")
	s = reIdxP.ReplaceAllString(s, "[i]")
	s = rePhi.ReplaceAllString(s, "φ")
	return s
}

// cleanPath: no error established non-nil, no inner done established true, recursion guard passed.
func cleanPath(lp *LPath) bool {
	for _, l := range lp.Lits {
		isErrSub := strings.HasSuffix(l.Subject, "#1") || strings.HasPrefix(l.Subject, "local:") || strings.HasPrefix(l.Subject, "fv:")
		if isErrSub && l.C == "nil" && ((l.Op == token.NEQ && l.Val) || (l.Op == token.EQL && !l.Val)) {
			return false
		}
		if strings.HasSuffix(l.Subject, "#0") && l.C == "true" && l.Op == token.EQL && l.Val {
			return false
		}
		if strings.HasPrefix(l.Subject, "p:") && l.Op == token.EQL && l.C == "0" && l.Val {
			return false // r == 0
		}
	}
	return true
}

type travSpec struct {
	fn     string
	whole  []string // allowed clean whole-function sequences (0 or 1 concrete iteration, then exit)
	body   []string // allowed clean generic-iteration sequences (continue to the next cell)
	noLoop bool
	// merged: the method does the work of the cell-iteration helper it used to delegate to (that helper is gone and
	// whatever replaced it is walked in place); calls through the callback name the function literal they reach
	merged bool
}

const (
	tOpenI  = "(*db.Database).openIndex(p:db, %s)"
	tOpenT  = "(*db.Database).openTable(fv:db, %s)"
	tIterI  = "db.indexBtree.Iter(call:(*db.Database).openIndex#0, (p:r-const:1), p:db, p:cb)"
	tIterMI = "db.indexBtree.IterMin(call:(*db.Database).openIndex#0, (p:r-const:1), p:db, p:key, p:cb)"
	tEmitI  = "db.addOverflow(p:db, %s) ; db.parseRecord(call:db.addOverflow#0) ; func-value:db.indexIterCB(call:db.parseRecord#0)"
)

func j(parts ...string) string { return strings.Join(parts, " ; ") }

func travSpecs() []travSpec {
	cell := "p:l.cells[i]"
	tail := "p:l.cells[call:sort.Search:][i]"
	searchL := "sort.Search(len(p:l.cells), closure:IterMin$1)"
	searchC := "sort.Search(len(p:l.cells), closure:cellIterMin$1)"
	emitT := func(e string) string { return "func-value:db.iterCB(" + e + ".left, " + e + ".payload)" }
	descT := func(e string) string { return "func-value:db.interiorIterCB(" + e + ")" }
	emitI := func(e string) string { return fmt.Sprintf(tEmitI, e) }
	openI := func(e string) string { return fmt.Sprintf(tOpenI, e) }
	return []travSpec{
		{fn: "(*db.tableLeaf).Iter",
			whole: []string{"", emitT(cell)},
			body:  []string{emitT(cell)}},
		{fn: "(*db.tableLeaf).IterMin", noLoop: true,
			whole: []string{searchL, j(searchL, emitT(tail))}},
		{fn: "(*db.tableInterior).cellIter",
			whole: []string{descT("p:l.rightmost"), j(descT(cell+".left"), descT("p:l.rightmost"))},
			body:  []string{descT(cell + ".left")}},
		{fn: "(*db.tableInterior).cellIterMin",
			whole: []string{j(searchC, descT("p:l.rightmost")), j(searchC, descT(tail+".left"), descT("p:l.rightmost"))},
			body:  []string{descT(tail + ".left")}},
		{fn: "(*db.tableInterior).Iter", noLoop: true,
			whole: []string{"(*db.tableInterior).cellIter(p:l, p:db, closure:Iter$1)"}},
		{fn: "(*db.tableInterior).Iter$1", noLoop: true,
			whole: []string{j(fmt.Sprintf(tOpenT, "p:p"), "db.tableBtree.Iter(call:(*db.Database).openTable#0, (fv:r-const:1), fv:db, fv:cb)")}},
		{fn: "(*db.tableInterior).IterMin", noLoop: true,
			whole: []string{"(*db.tableInterior).cellIterMin(p:l, p:db, p:rowid, closure:IterMin$1)"}},
		{fn: "(*db.tableInterior).IterMin$1", noLoop: true,
			whole: []string{j(fmt.Sprintf(tOpenT, "p:pageID"), "db.tableBtree.IterMin(call:(*db.Database).openTable#0, (fv:r-const:1), fv:db, fv:rowid, fv:cb)")}},
		{fn: "(*db.indexLeaf).Iter",
			whole: []string{"", emitI(cell)},
			body:  []string{emitI(cell)}},
		{fn: "(*db.indexLeaf).IterMin",
			whole: []string{searchL, j(searchL, emitI(tail))},
			body:  []string{emitI(tail)}},
		{fn: "(*db.indexInterior).Iter",
			whole: []string{j(openI("p:l.rightmost"), tIterI), j(openI(cell+".left"), tIterI, emitI(cell+".payload"), openI("p:l.rightmost"), tIterI)},
			body:  []string{j(openI(cell+".left"), tIterI, emitI(cell+".payload"))}},
		{fn: "(*db.indexInterior).IterMin",
			whole: []string{
				j(searchL, openI("p:l.rightmost"), tIterMI),
				j(searchL, openI(tail+".left"), tIterMI, emitI(tail+".payload"), openI("p:l.rightmost"), tIterI),
			},
			body: []string{
				j(openI(tail+".left"), tIterI, emitI(tail+".payload")),
				j(openI(tail+".left"), tIterMI, emitI(tail+".payload")),
			}},
	}
}

func findFn(p *Program, key string) *ssa.Function {
	var synth *ssa.Function
	for _, fn := range p.ModFuncs() {
		if p.FnKey(fn) == key {
			if fn.Synthetic != "" {
				synth = fn // a compiler-made wrapper: only if nothing declared carries the key
				continue
			}
			return fn
		}
	}
	return synth
}

// mergedTravSpecs: when (*tableInterior).cellIter / cellIterMin do not exist, Iter / IterMin themselves (with the
// helpers that replaced them walked in place) must visit what the pair visited: the callback is the method's own
// function literal, the cells are all cells (Iter) or those from the binary search's answer on (IterMin), then the
// right-most child.
func mergedTravSpecs(p *Program, specs []travSpec) []travSpec {
	byFn := map[string]travSpec{}
	for _, sp := range specs {
		byFn[sp.fn] = sp
	}
	var out []travSpec
	drop := map[string]bool{}
	repl := map[string]travSpec{}
	for _, pair := range [][3]string{
		{"(*db.tableInterior).cellIter", "(*db.tableInterior).Iter", "Iter$1"},
		{"(*db.tableInterior).cellIterMin", "(*db.tableInterior).IterMin", "IterMin$1"},
	} {
		if findFn(p, pair[0]) != nil || findFn(p, pair[1]) == nil {
			continue
		}
		h := byFn[pair[0]]
		ns := travSpec{fn: pair[1], merged: true}
		fix := func(s string) string {
			s = strings.Replace(s, "func-value:db.interiorIterCB(", "func-value:db.interiorIterCB→"+pair[2]+"(", -1)
			return s
		}
		for _, w := range h.whole {
			ns.whole = append(ns.whole, fix(w))
		}
		for _, b := range h.body {
			ns.body = append(ns.body, fix(b))
		}
		drop[pair[0]] = true
		repl[pair[1]] = ns
	}
	for _, sp := range specs {
		if drop[sp.fn] {
			continue
		}
		if r, ok := repl[sp.fn]; ok {
			sp = r
		}
		out = append(out, sp)
	}
	return out
}

var reSearchClosure = regexp.MustCompile(`closure:[A-Za-z0-9_]+\$1\)`)
var reSearchCall = regexp.MustCompile(`\[call:\(\*db\.tableInterior\)\.[A-Za-z0-9_]+:\]`)

func runTrav(c *Ctx) {
	p := c.P
	travProg = p
	for _, sp := range mergedTravSpecs(p, travSpecs()) {
		if sp.merged {
			// the two obligations of the helper that is gone are decided on the method that took its work over
			helper := strings.Replace(strings.Replace(sp.fn, ").IterMin", ").cellIterMin", 1), ").Iter", ").cellIter", 1)
			c.Trivial(helper+" order", token.NoPos, "%s does not exist; %s is judged with whatever replaced it walked in place", helper, sp.fn)
			c.Trivial(helper+" every cell", token.NoPos, "%s does not exist; %s is judged with whatever replaced it walked in place", helper, sp.fn)
		}
		fn := findFn(p, sp.fn)
		if fn == nil {
			c.Undecided("anchor "+sp.fn, token.NoPos, "traversal function %s not found", sp.fn)
			continue
		}
		t := &Termer{P: p}
		hs := loopHeaders(fn)
		if len(hs) == 0 && !sp.noLoop {
			if h, _ := loopDelegate(fn); h != nil {
				hs = loopHeaders(h) // the loop lives in a freshly extracted helper; the paths below walk it in place
			}
		}
		if sp.noLoop != (len(hs) == 0) || len(hs) > 1 {
			c.Undecided(sp.fn+" shape", fn.Pos(), "%d loops; the rule knows this method with %s", len(hs), map[bool]string{true: "no loop", false: "one loop over the cells"}[sp.noLoop])
			continue
		}
		paths, ok := EnumLits(fn.Blocks[0], 0, TabOpts{Termer: t, EventOf: callEvents(p)})
		if !ok {
			c.Undecided(sp.fn+" paths", fn.Pos(), "too many paths")
			continue
		}
		allowed := map[string]bool{}
		for _, w := range sp.whole {
			allowed[w] = true
		}
		seenWhole := map[string]bool{}
		bad := ""
		for _, lp := range paths {
			if lp.Exit == nil || !cleanPath(lp) {
				continue
			}
			if len(lp.Unknown) > 0 {
				bad = fmt.Sprintf("the traversal depends on a condition the rule cannot interpret: %v", lp.Unknown)
				continue
			}
			s := normSeq(travSeqT(lp, sp.merged))
			if sp.merged {
				// the binary search may live in a helper of its own: its predicate is SRCH's business
				s = reSearchClosure.ReplaceAllString(s, "closure:cellIterMin$$1)")
			}
			if !allowed[s] {
				bad = "visits [" + s + "]"
			}
			seenWhole[s] = true
			// the clean exit returns the last call's results, or (false, nil) when nothing was called
			last := ""
			for _, e := range lp.Events {
				if e.Kind == "call" {
					last = e.Name
				}
			}
			r0 := t.Term(lp.Exit.Results[0], lp.PS)
			isLastResult := last != "" && strings.HasPrefix(reOrd.ReplaceAllString(r0, ""), "call:"+last+"#0")
			// leaf loops end with (false, nil)
			if !isLastResult && r0 != "const:false" {
				bad = "returns done=" + r0 + " at the end of a clean traversal"
			}
			if last != "" && !isLastResult && (strings.Contains(last, "Btree.Iter") || strings.HasSuffix(last, "interiorIterCB") && strings.Contains(s, "rightmost")) {
				// right-most descent must be returned as-is (DONE-1 checks done; here: it is the final event)
			}
		}
		missing := []string{}
		for _, w := range sp.whole {
			if !seenWhole[w] && !(strings.Contains(sp.fn, "indexInterior).IterMin") && strings.HasSuffix(w, tIterMI) && strings.Contains(w, "payload")) {
				missing = append(missing, "["+w+"]")
			}
		}
		key := sp.fn + " order"
		switch {
		case bad != "":
			c.Fail(key, fn.Pos(), "a complete error-free pass through this page %s; the b-tree order requires one of: %s", bad, strings.Join(bracket2(sp.whole), " | "))
		case len(missing) > 0:
			c.Fail(key, fn.Pos(), "expected traversal %s does not occur (children or entries are never visited)", strings.Join(missing, ", "))
		default:
			c.Pass(key, fn.Pos(), "complete passes visit exactly: %s", strings.Join(bracket2(sortedStrings(seenWhole)), " | "))
		}
		if sp.noLoop {
			continue
		}
		// the generic iteration
		// an iteration reached through the back-edge; the first iteration is part of the complete passes above
		h, bpaths, ok := bodyPathsOpt(p, fn, t, true)
		if !ok {
			c.Undecided(sp.fn+" body", fn.Pos(), "cannot enumerate the loop body")
			continue
		}
		ballowed := map[string]bool{}
		for _, w := range sp.body {
			ballowed[w] = true
		}
		bbad, nCont := "", 0
		for _, lp := range bpaths {
			if lp.Stop == nil || !cleanPath(lp) {
				continue
			}
			nCont++
			s := normSeq(travSeqT(lp, sp.merged))
			if sp.merged {
				// in the generic iteration the start of the cell range is whatever the method handed the helper
				s = reSearchCall.ReplaceAllString(s, "[call:sort.Search:]")
				s = normSeq([]string{s})
			}
			if !ballowed[s] {
				bbad = "[" + s + "]"
			}
		}
		key = sp.fn + " every cell"
		switch {
		case bbad != "":
			c.Fail(key, h.Instrs[0].Pos(), "an iteration of the cell loop goes on to the next cell after %s; every cell must contribute %s (a cell whose child or entry is skipped loses all rows below it)", bbad, strings.Join(bracket2(sp.body), " | "))
		case nCont == 0:
			c.Fail(key, h.Instrs[0].Pos(), "the loop never continues to a second cell")
		default:
			c.Pass(key, h.Instrs[0].Pos(), "each iteration contributes %s before moving on", strings.Join(bracket2(sp.body), " | "))
		}
	}
}

func bracket2(ss []string) []string {
	var out []string
	for _, s := range ss {
		out = append(out, "["+s+"]")
	}
	sort.Strings(out)
	return out
}

func runTravFlag(c *Ctx) {
	p := c.P
	travProg = p
	fn := findFn(p, "(*db.indexInterior).IterMin")
	if fn == nil {
		c.Undecided("anchor", token.NoPos, "indexInterior.IterMin not found")
		return
	}
	hs := loopHeaders(fn)
	var bind map[*ssa.Parameter]ssa.Value
	if len(hs) == 0 {
		if h, b := loopDelegate(fn); h != nil {
			hs, bind = loopHeaders(h), b
		}
	}
	if len(hs) != 1 {
		c.Undecided("loop", fn.Pos(), "expected one loop over the cells, found %d", len(hs))
		return
	}
	h := hs[0]
	// Which child is searched and which is scanned is TRAV's business for the first cell (its complete passes: no cell
	// ⇒ the right-most child is searched; one cell ⇒ that cell's child is searched and the right-most scanned). Here:
	// an iteration that was reached through the back-edge — whatever tells it apart from the first, a flag, the
	// index, a function value that was replaced — scans, and so does the right-most child after it.
	t := &Termer{P: p}
	paths, ok := EnumLits(h, 0, TabOpts{Termer: t, EventOf: callEvents(p), InitBind: bind, StartHavoc: true,
		Stop: func(in ssa.Instruction, ps *pathState) bool { return in == h.Instrs[0] && len(ps.Path) > 1 }})
	if !ok {
		c.Undecided("later iterations", fn.Pos(), "too many paths")
		return
	}
	nBody, nExit := 0, 0
	badBody, badExit := "", ""
	for _, lp := range paths {
		if !cleanPath(lp) || len(lp.Unknown) > 0 {
			if len(lp.Unknown) > 0 && cleanPath(lp) {
				badBody = fmt.Sprintf("depends on a condition the rule cannot interpret: %v", lp.Unknown)
			}
			continue
		}
		seq := normSeq(travSeq(lp))
		searched := strings.Contains(seq, "db.indexBtree.IterMin(")
		scanned := strings.Contains(seq, "db.indexBtree.Iter(")
		switch {
		case lp.Stop != nil:
			nBody++
			if searched || !scanned {
				badBody = "[" + seq + "]"
			}
		case lp.Exit != nil:
			nExit++
			if searched || !scanned {
				badExit = "[" + seq + "]"
			}
		}
	}
	c.Check(nBody > 0 && badBody == "", "later children are scanned", h.Instrs[0].Pos(), "%s", map[bool]string{
		true:  fmt.Sprintf("in an iteration reached through the back-edge the cell's child is entered with Iter, never with IterMin(key) (%d paths)", nBody),
		false: "a cell after the first has its child entered as " + orStr(badBody, "(no path)") + ": with IterMin(key) the entries of that child which sort below the key's position are skipped although the scan is already past the key; without Iter the child is not visited",
	}[nBody > 0 && badBody == ""])
	c.Check(nExit > 0 && badExit == "", "right-most child after a cell is scanned", h.Instrs[0].Pos(), "%s", map[bool]string{
		true:  fmt.Sprintf("when at least one cell was visited the right-most child is entered with Iter (%d paths)", nExit),
		false: "after a cell was visited the right-most child is entered as " + orStr(badExit, "(no path)"),
	}[nExit > 0 && badExit == ""])
}

func runSrch(c *Ctx) {
	p := c.P
	// index pages: closure passed to sort.Search calls indexBinSearch(db, cell[.payload], key), latches err, returns r
	for _, spec := range []struct{ fn, cellSuffix string }{
		{"(*db.indexLeaf).IterMin", ""},
		{"(*db.indexInterior).IterMin", ".payload"},
	} {
		fn := findFn(p, spec.fn)
		if fn == nil {
			c.Undecided("anchor "+spec.fn, token.NoPos, "not found")
			continue
		}
		var pred *ssa.Function
		var search ssa.CallInstruction
		for _, cs := range callsIn(fn) {
			if cal := cs.Common().StaticCallee(); cal != nil && isLibFunc(cal, "sort", "Search") {
				search = cs
				if mc, ok := cs.Common().Args[1].(*ssa.MakeClosure); ok {
					pred = mc.Fn.(*ssa.Function)
				}
			}
		}
		if pred == nil {
			c.Fail(spec.fn+" search", fn.Pos(), "no sort.Search over the page's cells")
			continue
		}
		t := &Termer{P: p}
		c.Check(t.Term(search.Common().Args[0], emptyPS()) == "len(p:l.cells)", spec.fn+" search range", search.Pos(), "the binary search covers all cells of the page")
		paths, _ := EnumLits(pred.Blocks[0], 0, TabOpts{Termer: t, EventOf: callEvents(p)})
		good := len(paths) > 0
		why := ""
		for _, lp := range paths {
			if lp.Exit == nil {
				continue
			}
			seq := normSeq(travSeq(lp))
			want := "db.indexBinSearch(fv:db, fv:l.cells[p:n]" + spec.cellSuffix + ", fv:key)"
			if seq != want {
				good, why = false, "probes ["+seq+"], expected ["+want+"]"
			}
			if r := t.Term(lp.Exit.Results[0], lp.PS); r != "call:db.indexBinSearch#0" {
				good, why = false, "returns "+r
			}
		}
		c.Check(good, spec.fn+" predicate", pred.Pos(), "the predicate is indexBinSearch(db, cell n, key)'s verdict %s", why)
	}
	// indexBinSearch: Search(key, rec) with rec parsed from the cell's full payload
	if fn := c.MustFunc("db", "indexBinSearch"); fn != nil {
		t := &Termer{P: p}
		paths, _ := EnumLits(fn.Blocks[0], 0, TabOpts{Termer: t, EventOf: callEvents(p)})
		good := false
		for _, lp := range paths {
			if lp.Exit == nil || !cleanPath(lp) {
				continue
			}
			seq := normSeq(travSeq(lp))
			want := "db.addOverflow(p:db, p:pl) ; db.parseRecord(call:db.addOverflow#0) ; db.Search(p:key, call:db.parseRecord#0)"
			good = seq == want && t.Term(lp.Exit.Results[0], lp.PS) == "call:db.Search"
			if !good {
				c.Fail("indexBinSearch", fn.Pos(), "probe is [%s] returning %s; expected Search(key, record of the cell) — key first", seq, t.Term(lp.Exit.Results[0], lp.PS))
				return
			}
		}
		c.Check(good, "indexBinSearch", fn.Pos(), "Search(key, record): key first, record of the probed cell")
	}
	// table pages: cell key >= rowid
	for _, spec := range []struct{ fn, field string }{
		{"(*db.tableLeaf).IterMin", "left"},
		{"(*db.tableInterior).cellIterMin", "key"},
	} {
		fn := findFn(p, spec.fn)
		if fn == nil && spec.fn == "(*db.tableInterior).cellIterMin" {
			// the search may have moved: whichever freshly written function under (*tableInterior).IterMin holds it
			if m := findFn(p, "(*db.tableInterior).IterMin"); m != nil {
				var look func(f *ssa.Function, depth int)
				look = func(f *ssa.Function, depth int) {
					for _, cs := range callsIn(f) {
						cal := cs.Common().StaticCallee()
						if cal == nil {
							continue
						}
						if isLibFunc(cal, "sort", "Search") && fn == nil {
							fn = f
						}
						if depth < 2 && inlinable != nil && inlinable(cal) {
							look(cal, depth+1)
						}
					}
				}
				look(m, 0)
			}
		}
		if fn == nil {
			c.Undecided("anchor "+spec.fn, token.NoPos, "not found")
			continue
		}
		var pred *ssa.Function
		for _, cs := range callsIn(fn) {
			if cal := cs.Common().StaticCallee(); cal != nil && isLibFunc(cal, "sort", "Search") {
				if mc, ok := cs.Common().Args[1].(*ssa.MakeClosure); ok {
					pred = mc.Fn.(*ssa.Function)
				}
				c.Check((&Termer{P: p}).Term(cs.Common().Args[0], emptyPS()) == "len(p:"+fn.Params[0].Name()+".cells)", spec.fn+" search range", cs.Pos(), "the binary search covers all cells of the page")
			}
		}
		if pred == nil {
			c.Fail(spec.fn+" search", fn.Pos(), "no sort.Search over the page's cells")
			continue
		}
		// names are the author's: the receiver, the predicate's index parameter, the int64 rowid parameter
		recv, rowidP, idxP := fn.Params[0].Name(), "rowid", "n"
		for _, prm := range fn.Params[1:] {
			if b, ok := prm.Type().Underlying().(*types.Basic); ok && b.Kind() == types.Int64 {
				rowidP = prm.Name()
			}
		}
		if len(pred.Params) == 1 {
			idxP = pred.Params[0].Name()
		}
		tbl, why := boolTable(p, pred, "fv:"+recv+".cells[p:"+idxP+"]."+spec.field, "fv:"+rowidP)
		c.Check(tbl == "FTT", spec.fn+" predicate", pred.Pos(), "predicate over (cell %s <, =, > rowid) is %s, must be F,T,T: the first cell whose key is ≥ the rowid (interior keys are upper bounds of their left child) %s", spec.field, tbl, why)
	}
	// the match test of Table.Rowid
	if fn := findFn(p, "(*db.Table).Rowid$1"); fn != nil {
		t := &Termer{P: p}
		paths, _ := EnumLits(fn.Blocks[0], 0, TabOpts{Termer: t, EventOf: func(in ssa.Instruction, ps *pathState) (Event, bool) {
			if s, ok := in.(*ssa.Store); ok {
				if _, ok := s.Addr.(*ssa.FreeVar); ok {
					return Event{Kind: "capture", Name: "store", Val: t.Term(s.Val, ps)}, true
				}
			}
			return Event{}, false
		}})
		tbl := ""
		alwaysStop := true
		for _, sgn := range []int64{-1, 0, 1} {
			stored := "?"
			for _, lp := range paths {
				ok := true
				for _, l := range lp.Lits {
					if l.Subject == "p:k−fv:rowid" && l.IsInt && evalCmp(sgn, l.Op, l.N) != l.Val {
						ok = false
					}
					if l.Subject == "fv:rowid−p:k" && l.IsInt && evalCmp(-sgn, l.Op, l.N) != l.Val {
						ok = false
					}
				}
				if !ok || lp.Exit == nil {
					continue
				}
				if len(lp.Events) > 0 {
					stored = "T"
				} else if stored == "?" {
					stored = "F"
				}
				if b, isC := constBool(lp.PS.Resolve(lp.Exit.Results[0])); !isC || !b {
					alwaysStop = false
				}
			}
			tbl += stored
		}
		c.Check(tbl == "FTF", "Table.Rowid match", fn.Pos(), "the found row is recorded for (key <, =, > rowid) = %s, must be F,T,F", tbl)
		c.Check(alwaysStop, "Table.Rowid stops", fn.Pos(), "the lookup stops after the first cell ≥ rowid whether or not it matched")
	} else {
		c.Undecided("anchor Table.Rowid callback", token.NoPos, "not found")
	}
	// absence must be encoded by something no stored row can equal: the `not found` return of Table.Rowid is guarded
	// by a captured cell that the match path sets to an address / constant, never to data from the file
	if fn := findFn(p, "(*db.Table).Rowid"); fn != nil {
		t := &Termer{P: p}
		paths, _ := EnumLits(fn.Blocks[0], 0, TabOpts{Termer: t, EventOf: callEvents(p)})
		checked := false
		for _, lp := range paths {
			if lp.Exit == nil || !cleanPath(lp) {
				continue
			}
			if eventIndex(lp, "call", "db.tableBtree.IterMin") < 0 {
				// "no such row" without having searched the tree (say, for rowids "that cannot exist")
				if isNilConst(lp.PS.Resolve(lp.Exit.Results[0])) && isNilConst(lp.PS.Resolve(lp.Exit.Results[1])) {
					c.Fail("Table.Rowid absent", lp.Exit.Pos(), "`row absent` (nil, nil) is returned on path [%s] without searching the table: every int64 is a possible rowid (negative and zero ones included)", pathDesc(lp))
					checked = true
				}
				continue
			}
			r0, r1 := lp.PS.Resolve(lp.Exit.Results[0]), lp.PS.Resolve(lp.Exit.Results[1])
			if !isNilConst(r0) || !isNilConst(r1) {
				continue
			}
			// the literal that sent us here: the last one on a captured cell
			var guard *Lit
			for i := range lp.Lits {
				if strings.HasPrefix(lp.Lits[i].Subject, "local:") {
					guard = &lp.Lits[i]
				}
			}
			if guard == nil {
				c.Fail("Table.Rowid absent", lp.Exit.Pos(), "`row absent` (nil, nil) is returned on path [%s] without consulting what the lookup callback recorded", pathDesc(lp))
				checked = true
				continue
			}
			// the guard is `cell == nil`, `cell != k`, `!cell` or `cell` for a captured local
			var cell ssa.Value
			var ops []ssa.Value
			gc := guard.Cond
			for {
				if u, ok := gc.(*ssa.UnOp); ok && u.Op == token.NOT {
					gc = u.X
				} else {
					break
				}
			}
			if bo, ok := gc.(*ssa.BinOp); ok {
				ops = []ssa.Value{bo.X, bo.Y}
			} else {
				ops = []ssa.Value{gc}
			}
			for _, op := range ops {
				if u, ok := op.(*ssa.UnOp); ok && u.Op == token.MUL {
					if a, ok := u.X.(*ssa.Alloc); ok {
						cell = a
					}
				}
			}
			if cell == nil {
				c.Undecided("Table.Rowid absent", lp.Exit.Pos(), "cannot identify the cell behind %s", guard)
				checked = true
				continue
			}
			good := true
			why := ""
			n := 0
			for _, st := range cellStores(cell) {
				if st.Parent() == fn {
					continue // initialisation
				}
				n++
				v := st.Val
				switch x := v.(type) {
				case *ssa.Alloc:
				case *ssa.Const:
					if x.Value == nil || x.IsNil() {
						good, why = false, "the match path stores nil"
					} else if k, ok := constInt(x); ok && k == 0 {
						good, why = false, "the match path stores 0"
					} else if b, ok := constBool(x); ok && !b {
						good, why = false, "the match path stores false"
					}
				default:
					good, why = false, "the match path stores "+t.Term(v, emptyPS())+", a value taken from the file, which can equal the `absent` marker (e.g. rowid 0)"
				}
			}
			if n == 0 {
				good, why = false, "the callback never sets it"
			}
			c.Check(good, "Table.Rowid absent", lp.Exit.Pos(), "`row absent` is decided by %s, which the callback sets to an address/constant on a match %s", guard.Subject, why)
			checked = true
		}
		if !checked {
			c.Undecided("Table.Rowid absent", fn.Pos(), "no (nil, nil) return after a clean lookup found")
		}
	}
}

// boolTable evaluates a func(...) bool whose result depends on the order of two terms; returns e.g. "FTT".
func boolTable(p *Program, fn *ssa.Function, a, b string) (string, string) {
	t := &Termer{P: p}
	paths, ok := EnumLits(fn.Blocks[0], 0, TabOpts{Termer: t})
	if !ok {
		return "?", "too many paths"
	}
	out := ""
	for _, sgn := range []int64{-1, 0, 1} {
		res := "?"
		for _, lp := range paths {
			if lp.Exit == nil {
				continue
			}
			feasible := true
			for _, l := range lp.Lits {
				if l.Subject == a+"−"+b && l.IsInt && evalCmp(sgn, l.Op, l.N) != l.Val {
					feasible = false
				}
				if l.Subject == b+"−"+a && l.IsInt && evalCmp(-sgn, l.Op, l.N) != l.Val {
					feasible = false
				}
			}
			if !feasible {
				continue
			}
			rv := lp.PS.Resolve(lp.Exit.Results[0])
			if bv, isC := constBool(rv); isC {
				res = map[bool]string{true: "T", false: "F"}[bv]
				continue
			}
			if bo, ok := rv.(*ssa.BinOp); ok {
				if _, isCmp := negOp[bo.Op]; isCmp {
					x, y := t.Term(bo.X, lp.PS), t.Term(bo.Y, lp.PS)
					switch {
					case x == a && y == b:
						res = map[bool]string{true: "T", false: "F"}[evalCmp(sgn, bo.Op, 0)]
					case x == b && y == a:
						res = map[bool]string{true: "T", false: "F"}[evalCmp(-sgn, bo.Op, 0)]
					default:
						return "?", "(compares " + x + " with " + y + ")"
					}
					continue
				}
			}
			return "?", "(returns " + t.Term(rv, lp.PS) + ")"
		}
		out += res
	}
	return out, ""
}

func emptyPS() *pathState { return &pathState{Cells: map[*ssa.Alloc]ssa.Value{}} }

func DebugTrav(p *Program, names []string) {
	for _, fn := range p.ModFuncs() {
		for _, n := range names {
			if p.FnKey(fn) != n {
				continue
			}
			t := &Termer{P: p}
			paths, _ := EnumLits(fn.Blocks[0], 0, TabOpts{Termer: t, EventOf: callEvents(p)})
			for i, lp := range paths {
				ex := "stop"
				if lp.Exit != nil {
					var rs []string
					for _, r := range lp.Exit.Results {
						rs = append(rs, t.Term(r, lp.PS))
					}
					ex = "return " + strings.Join(rs, ", ")
				}
				fmt.Printf(" #%d [%s]\n     %s\n     => %s\n", i, strings.Join(lp.LitStrings(), " ∧ "), strings.Join(travSeq(lp), " ; "), ex)
			}
		}
	}
}

// DebugEvents prints all events (calls and stores) per path.
func DebugEvents(p *Program, names []string, body bool) {
	for _, fn := range p.ModFuncs() {
		for _, n := range names {
			if p.FnKey(fn) != n {
				continue
			}
			t := &Termer{P: p}
			var paths []*LPath
			if body {
				_, paths, _ = bodyPaths(p, fn, t)
			} else {
				paths, _ = EnumLits(fn.Blocks[0], 0, TabOpts{Termer: t, EventOf: callEvents(p), FieldCells: os.Getenv("FIELDS") != "", RunDefers: os.Getenv("DEFERS") != ""})
			}
			for i, lp := range paths {
				ex := "stop"
				if lp.Exit != nil {
					var rs []string
					for _, r := range lp.Exit.Results {
						rs = append(rs, t.Term(r, lp.PS))
					}
					ex = "return " + strings.Join(rs, ", ")
				}
				var evs []string
				for _, e := range lp.Events {
					if e.Kind == "store" {
						evs = append(evs, fmt.Sprintf("%s.%s=%s", e.Base, e.Name, e.Val))
					} else {
						evs = append(evs, e.Name+"("+strings.Join(e.Args, ", ")+")")
					}
				}
				fmt.Printf(" #%d [%s]\n     %s\n     => %s\n", i, strings.Join(lp.LitStrings(), " ∧ "), strings.Join(evs, " ; "), ex)
			}
		}
	}
}

// DebugClean prints the distinct clean (error-free) whole-function sequences incl. stores and the return terms.
func DebugClean(p *Program, names []string) {
	for _, n := range names {
		fn := findFn(p, n)
		if fn == nil {
			fmt.Println("??", n)
			continue
		}
		for _, s := range cleanSeqs(p, fn) {
			fmt.Printf("%q: %q,\n", n, s)
		}
		if os.Getenv("LOOPS") != "" {
			ls := loopSeqs(p, fn)
			for k := 0; k < len(ls); k++ {
				for _, s := range ls[k] {
					fmt.Printf("%q: %q,\n", fmt.Sprintf("%s#loop%d", n, k), s)
				}
			}
		}
	}
}

// cleanSeqs: for every error-free path to a return: "[branch outcomes] events ⇒ return terms", deduplicated, sorted.
func cleanSeqs(p *Program, fn *ssa.Function) []string {
	t := &Termer{P: p}
	paths, ok := EnumLits(fn.Blocks[0], 0, TabOpts{Termer: t, EventOf: callEvents(p), Limit: 200000})
	if !ok {
		return []string{"<too many paths>"}
	}
	set := map[string]bool{}
	for _, lp := range paths {
		if lp.Exit == nil || !cleanPathLoose(lp) {
			continue
		}
		set[renderClean(t, lp, nil)] = true
	}
	return sortedStrings(set)
}

// loopSeqs: the same rendering for one generic iteration of every loop of fn (keyed by the loop's ordinal in block
// order): error-free paths from the header back to the header ("⇒ next") or to a return.
func loopSeqs(p *Program, fn *ssa.Function) map[int][]string {
	out := map[int][]string{}
	for k, h := range loopHeaders(fn) {
		h := h
		t := &Termer{P: p}
		body := naturalLoop(h)
		paths, ok := EnumLits(h, 0, TabOpts{Termer: t, EventOf: callEvents(p), Limit: 200000,
			Stop: func(in ssa.Instruction, ps *pathState) bool {
				b := in.Block()
				if in != b.Instrs[0] {
					return false
				}
				return (b == h && len(ps.Path) > 1) || !body[b]
			}})
		if !ok {
			out[k] = []string{"<too many paths>"}
			continue
		}
		set := map[string]bool{}
		for _, lp := range paths {
			if !cleanPathLoose(lp) || (lp.Exit == nil && lp.Stop == nil) {
				continue
			}
			set[renderClean(t, lp, h)] = true
		}
		out[k] = sortedStrings(set)
	}
	return out
}

// naturalLoop: the blocks dominated by header h that can reach h again.
func naturalLoop(h *ssa.BasicBlock) map[*ssa.BasicBlock]bool {
	body := map[*ssa.BasicBlock]bool{h: true}
	var work []*ssa.BasicBlock
	for _, pr := range h.Preds {
		if h.Dominates(pr) {
			work = append(work, pr)
		}
	}
	for len(work) > 0 {
		b := work[len(work)-1]
		work = work[:len(work)-1]
		if body[b] {
			continue
		}
		body[b] = true
		work = append(work, b.Preds...)
	}
	return body
}

func renderClean(t *Termer, lp *LPath, hdr *ssa.BasicBlock) string {
	var evs []string
	// of several stores into the same field on one path the last one is the value that stays
	last := map[string]int{}
	for i, e := range lp.Events {
		if e.Kind == "store" && e.Name != "[]" {
			last[e.Base+"."+e.Name] = i
		}
	}
	for i, e := range lp.Events {
		switch e.Kind {
		case "call":
			evs = append(evs, e.Name+"("+strings.Join(e.Args, ", ")+")")
		case "store":
			if e.Name == "[]" {
				evs = append(evs, "elem="+e.Val)
			} else if last[e.Base+"."+e.Name] == i {
				evs = append(evs, e.Name+"="+e.Val)
			}
		}
	}
	// the order of independent events is not part of the wiring (data dependencies are in the argument terms)
	for i := range evs {
		evs[i] = normSeq(evs[i : i+1])
	}
	sort.Strings(evs)
	res := "next"
	if lp.Stop != nil && lp.Stop.Block() != hdr {
		res = "exit"
	}
	if lp.Exit != nil {
		var rs []string
		for _, r := range lp.Exit.Results {
			rs = append(rs, t.Term(r, lp.PS))
		}
		res = reOrd.ReplaceAllString(rePhi.ReplaceAllString(strings.Join(rs, ", "), "φ"), "")
	}
	return "[" + cleanConds(lp) + "] " + strings.Join(evs, " ; ") + " ⇒ " + res
}

var reLoopIdx = regexp.MustCompile(`\[(const:\d+|\(φ\+const:1\)|φ)\]`)

// cleanConds: the branch outcomes on the path that are not error tests, in a negation-free form, sorted, deduplicated.
func cleanConds(lp *LPath) string {
	set := map[string]bool{}
	for _, l := range lp.Lits {
		if bo, ok := l.Cond.(*ssa.BinOp); ok && l.C == "nil" {
			v := bo.X
			if isNilConst(v) {
				v = bo.Y
			}
			if isErrorType(v.Type()) {
				continue
			}
		}
		op := l.Op
		if !l.Val {
			switch op {
			case token.EQL:
				op = token.NEQ
			case token.NEQ:
				op = token.EQL
			case token.LSS:
				op = token.GEQ
			case token.GEQ:
				op = token.LSS
			case token.GTR:
				op = token.LEQ
			case token.LEQ:
				op = token.GTR
			}
		}
		subj := reLoopIdx.ReplaceAllString(reOrd.ReplaceAllString(rePhi.ReplaceAllString(l.Subject, "φ"), ""), "[i]")
		if strings.Contains(subj, "φ") {
			continue // loop bookkeeping
		}
		set[subj+" "+op.String()+" "+l.C] = true
	}
	return strings.Join(sortedStrings(set), " ∧ ")
}

// cleanPathLoose: no error-typed value was established non-nil on the path.
func cleanPathLoose(lp *LPath) bool {
	for _, l := range lp.Lits {
		bo, ok := l.Cond.(*ssa.BinOp)
		if !ok || l.C != "nil" {
			continue
		}
		v := bo.X
		if isNilConst(v) {
			v = bo.Y
		}
		if !isErrorType(v.Type()) {
			continue
		}
		if (l.Op == token.NEQ && l.Val) || (l.Op == token.EQL && !l.Val) {
			return false
		}
	}
	return true
}
