package chk

import (
	"fmt"
	"go/ast"
	"go/constant"
	"go/token"
	"go/types"
	"math/bits"
	"regexp"
	"strconv"
	"strings"

	"golang.org/x/tools/go/ssa"
)

func txnRules() []*Rule {
	return []*Rule{
		{ID: "RD-TABLE", Props: []string{"C07", "C08", "C09", "C15", "C19"}, Min: 20,
			Doc: "decision table of Database.resolveDirty extracted by path enumeration: journal gate before the header read (hot journal ⇒ error unless RESERVED is held), header re-read and re-validated before dirty is cleared, header replaced by the fresh one, no nil return that leaves the handle unvalidated",
			Run: runResolveDirty},
		{ID: "TXN-3", Props: []string{"C08", "C19", "C02", "C04", "C07", "C01"}, Min: 4,
			Doc: "page cache cleared unless the change counter is unchanged; schema cache reset unless the schema cookie is unchanged; comparisons use the old header",
			Run: runTxn3},
		{ID: "TXN-1", Props: []string{"C08", "C15", "C01", "C04", "C09", "C07"}, Min: 12,
			Doc: "every exported function of package db that reaches a page read calls resolveDirty (revalidation) before any page read or cache lookup",
			Run: runTxn1},
		{ID: "CACHE", Props: []string{"C08", "C04", "C01", "C02"}, Min: 2,
			Doc: "invalidation is complete: every mutable field a cache lookup reads is reset by the cache's clear(); the schema cache is dropped as a whole",
			Run: runCache},
		{ID: "TXN-5", Props: []string{"C08"}, Min: 1,
			Doc: "the file mapping must follow the file: a mapping created at open is never refreshed by RLock/resolveDirty",
			Run: runTxn5},
		{ID: "JRNL-2", Props: []string{"C09", "C07"}, Min: 3,
			Doc: "the journal consulted is <database file>-journal, as SQLite names it",
			Run: runJrnl2},
		{ID: "JRNL-3", Props: []string{"C09", "C07"}, Min: 12,
			Doc: "hot-journal recognition: magic equal to SQLite's, sector size in [512,65536], header and first sector fully present; anything else (absent, empty, zeroed, truncated) is `no journal`, only a non-ENOENT open failure is an error",
			Run: runJrnl3},
		{ID: "HDR", Props: []string{"C15", "C08"}, Min: 14,
			Doc: "header layout (stream offsets of the decoded struct) equals fileformat2 §1.3 and the accepted value set of every validated field equals the spec; nothing else influences acceptance",
			Run: runHdr},
	}
}

func retErrDefinitelyNonNil(lp *LPath, t *Termer) bool {
	if lp.Exit == nil {
		return true
	}
	n := len(lp.Exit.Results)
	v := lp.PS.Resolve(lp.Exit.Results[n-1])
	if isNilConst(v) {
		return false
	}
	term := t.Term(v, lp.PS)
	if strings.HasPrefix(term, "g:Err") || strings.HasPrefix(term, "g:err") {
		return true
	}
	if lp.Holds(term, token.NEQ, "nil") {
		return true
	}
	if call, ok := v.(*ssa.Call); ok {
		if c := call.Call.StaticCallee(); c != nil && isErrorfLike(c) {
			return true
		}
	}
	return false
}

func eventIndex(lp *LPath, kind, name string) int {
	for i, e := range lp.Events {
		if e.Kind == kind && e.Name == name {
			return i
		}
	}
	return -1
}

func lastEventIndex(lp *LPath, kind, name string) int {
	idx := -1
	for i, e := range lp.Events {
		if e.Kind == kind && e.Name == name {
			idx = i
		}
	}
	return idx
}

func pathDesc(lp *LPath) string {
	s := strings.Join(lp.LitStrings(), " ∧ ")
	if len(lp.Unknown) > 0 {
		s += " ∧ [unrecognised: " + strings.Join(lp.Unknown, ", ") + "]"
	}
	if s == "" {
		s = "(unconditional)"
	}
	return s
}

func runResolveDirty(c *Ctx) {
	p := c.P
	fn := c.MustFunc("db", "(*Database).resolveDirty")
	if fn == nil {
		return
	}
	t := &Termer{P: p}
	paths, ok := EnumLits(fn.Blocks[0], 0, TabOpts{Termer: t, EventOf: callEvents(p)})
	if !ok {
		c.Undecided("resolveDirty paths", fn.Pos(), "too many paths")
		return
	}
	const (
		evPage  = "db.pager.page"
		evParse = "db.parseHeader"
		evVJ    = "db.validJournal"
		evCRL   = "db.pager.CheckReservedLock"
	)
	recv := "p:" + fn.Params[0].Name()
	nAccept := 0
	for i, lp := range paths {
		key := fmt.Sprintf("path#%d", i)
		_ = key
		pageIdx := eventIndex(lp, "call", evPage)
		// R3: journal gate before the header read
		if pageIdx >= 0 {
			okGate := false
			why := ""
			switch {
			case lp.Holds(recv+".journal", token.EQL, `""`):
				okGate = true
			default:
				vj := eventIndex(lp, "call", evVJ)
				if vj < 0 || vj > pageIdx {
					why = "the header page is read without consulting the journal first (and `journal == \"\"` is not established)"
					break
				}
				if len(lp.Events[vj].Args) != 1 || lp.Events[vj].Args[0] != recv+".journal" {
					why = "validJournal is asked about " + strings.Join(lp.Events[vj].Args, ",") + ", not about this handle's journal"
					break
				}
				if !lp.Holds("call:"+evVJ+"#1", token.EQL, "nil") {
					why = "the header page is read although validJournal's error was not established to be nil"
					break
				}
				if lp.Holds("call:"+evVJ+"#0", token.EQL, "false") || lp.Has("call:"+evVJ+"#0", token.EQL, "true", false) {
					okGate = true
					break
				}
				crl := eventIndex(lp, "call", evCRL)
				if crl < 0 || crl > pageIdx {
					why = "a hot journal was found (or not ruled out) and the header is read without probing the RESERVED lock"
					break
				}
				if !lp.Holds("call:"+evCRL+"#1", token.EQL, "nil") {
					why = "the header page is read although the RESERVED probe's error was not established to be nil"
					break
				}
				if !lp.Has("call:"+evCRL+"#0", token.EQL, "true", true) {
					why = "hot journal and no live RESERVED lock established, yet the header is read: a crashed writer's half-written pages would be read as data"
					break
				}
				okGate = true
			}
			if okGate {
				c.Pass("gate:"+pathSig(lp, pageIdx), lp.Events[pageIdx].Instr.Pos(), "journal gate holds on path [%s]", pathDesc(lp))
			} else {
				c.Fail("gate:"+pathSig(lp, pageIdx), lp.Events[pageIdx].Instr.Pos(), "%s; path [%s]", why, pathDesc(lp))
			}
			// the page read is page 1, 100 bytes
			a := lp.Events[pageIdx].Args
			if !(len(a) == 3 && a[1] == "const:1" && a[2] == "const:100") {
				c.Fail("header read geometry", lp.Events[pageIdx].Instr.Pos(), "the header is read as page(%s): expected page 1, 100 bytes", strings.Join(a[1:], ","))
			}
		}
		// R1: dirty cleared only after a successful header re-read and re-validation, with the fresh header installed
		for ei, e := range lp.Events {
			if e.Kind != "store" || e.Name != "dirty" || e.Val != "const:false" {
				continue
			}
			nAccept++
			parseIdx := eventIndex(lp, "call", evParse)
			good := pageIdx >= 0 && pageIdx < ei && parseIdx > pageIdx && parseIdx < ei &&
				lp.Holds("call:"+evPage+"#1", token.EQL, "nil") && lp.Holds("call:"+evParse+"#1", token.EQL, "nil")
			if good {
				// parseHeader parses what was just read
				pa := lp.Events[parseIdx].Args
				good = len(pa) == 1 && pa[0] == "call:"+evPage+"#0"
			}
			if !good {
				c.Fail("revalidate:"+pathSig(lp, ei), e.Instr.Pos(), "dirty is cleared on a path that did not successfully re-read and re-parse the header of this transaction: the transaction runs on a stale or unvalidated header; path [%s]", pathDesc(lp))
				continue
			}
			// fresh header installed
			hi := lastEventIndex(lp, "store", "header")
			fresh := false
			if hi >= 0 && lp.Events[hi].Base == recv {
				if st, ok := lp.Events[hi].Instr.(*ssa.Store); ok {
					if al, ok := st.Val.(*ssa.Alloc); ok {
						if s := singleStore(al); s != nil {
							if call, idx := extractOf(s.Val); call != nil && idx == 0 && calleeName(p, call) == evParse {
								fresh = true
							}
						}
					}
				}
			}
			if !fresh {
				c.Fail("install:"+pathSig(lp, ei), e.Instr.Pos(), "dirty is cleared without installing the freshly parsed header as db.header (page size / counters of an earlier transaction stay in use); path [%s]", pathDesc(lp))
				continue
			}
			c.Pass("revalidate:"+pathSig(lp, ei), e.Instr.Pos(), "dirty cleared after page(1,100) and parseHeader both succeeded; fresh header installed")
		}
		// R2: no nil return that leaves the handle unvalidated
		if lp.Exit != nil && !retErrDefinitelyNonNil(lp, t) {
			clean := lp.Holds(recv+".dirty", token.EQL, "false") || lp.Has(recv+".dirty", token.EQL, "true", false)
			cleared := false
			for _, e := range lp.Events {
				if e.Kind == "store" && e.Name == "dirty" && e.Val == "const:false" {
					cleared = true
				}
			}
			if clean || cleared {
				c.Pass("nilreturn:"+pathSig(lp, len(lp.Events)), lp.Exit.Pos(), "nil return only when already validated or after validation")
			} else {
				c.Fail("nilreturn:"+pathSig(lp, len(lp.Events)), lp.Exit.Pos(), "resolveDirty can return nil without having validated the header (dirty stays set, caller proceeds on stale state); path [%s]", pathDesc(lp))
			}
		}
	}
	if nAccept == 0 {
		c.Fail("revalidate", fn.Pos(), "no path clears dirty: every access re-reads the header (or none is possible)")
	}
}

var reDigits = regexp.MustCompile(`@\d+`)

// pathSig is a short, position-independent signature of a path prefix: the sequence of events up to n.
func pathSig(lp *LPath, n int) string {
	var parts []string
	for i, e := range lp.Events {
		if i >= n {
			break
		}
		if e.Kind == "call" {
			nm := e.Name
			if k := strings.LastIndex(nm, "."); k >= 0 {
				nm = nm[k+1:]
			}
			parts = append(parts, nm)
		}
	}
	var ls []string
	for _, l := range lp.Lits {
		s := l.String()
		ls = append(ls, s)
	}
	h := 0
	for _, ch := range strings.Join(ls, "&") {
		h = h*31 + int(ch)
		h &= 0xffffff
	}
	return fmt.Sprintf("%s/%06x", strings.Join(parts, ">"), h)
}

func runTxn3(c *Ctx) {
	p := c.P
	fn := c.MustFunc("db", "(*Database).resolveDirty")
	if fn == nil {
		return
	}
	t := &Termer{P: p}
	paths, ok := EnumLits(fn.Blocks[0], 0, TabOpts{Termer: t, EventOf: callEvents(p)})
	if !ok {
		c.Undecided("paths", fn.Pos(), "too many paths")
		return
	}
	recv := "p:" + fn.Params[0].Name()
	// find the counter comparisons
	findCmp := func(lp *LPath, field string) (*Lit, bool) {
		for i := range lp.Lits {
			l := &lp.Lits[i]
			parts := strings.Split(l.Subject, "−")
			if len(parts) != 2 {
				continue
			}
			old := recv + ".header." + field
			if (parts[0] == old && strings.HasSuffix(parts[1], "."+field) && parts[1] != old) ||
				(parts[1] == old && strings.HasSuffix(parts[0], "."+field) && parts[0] != old) {
				return l, true
			}
		}
		return nil, false
	}
	var headerStores []ssa.Instruction
	for _, in := range instrs(fn) {
		if s, ok := in.(*ssa.Store); ok && fieldName(s.Addr) == "header" {
			headerStores = append(headerStores, s)
		}
	}
	n := 0
	for _, lp := range paths {
		cleared := false
		for _, e := range lp.Events {
			if e.Kind == "store" && e.Name == "dirty" && e.Val == "const:false" {
				cleared = true
			}
		}
		if !cleared {
			continue
		}
		n++
		noOld := lp.Holds(recv+".header", token.EQL, "nil")
		// page cache
		{
			l, has := findCmp(lp, "ChangeCounter")
			same := has && ((l.Op == token.NEQ && !l.Val) || (l.Op == token.EQL && l.Val))
			did := false
			for _, e := range lp.Events {
				if e.Kind == "call" && e.Name == "(*db.btreeCache).clear" && len(e.Args) > 0 && e.Args[0] == recv+".btreeCache" {
					did = true
				}
			}
			key := "pagecache:" + pathSig(lp, len(lp.Events))
			switch {
			case did, noOld, same:
				c.Pass(key, fn.Pos(), "page cache is cleared, or there was no earlier header, or the change counter was established unchanged")
			default:
				c.Fail(key, fn.Pos(), "a transaction can start with the page cache kept although the path did not establish that the file change counter is unchanged (pages change without the schema cookie changing): stale pages would be served; path [%s]", pathDesc(lp))
			}
			if has {
				for _, hs := range headerStores {
					if ci, ok := l.Cond.(ssa.Instruction); ok && instrDominates(hs, ci) {
						c.Fail("pagecache: compares old header", hs.Pos(), "db.header is replaced before the change counters are compared: old and new are always equal")
					}
				}
			}
		}
		// schema cache
		{
			l, has := findCmp(lp, "SchemaCookie")
			same := has && ((l.Op == token.NEQ && !l.Val) || (l.Op == token.EQL && l.Val))
			did := false
			for _, e := range lp.Events {
				if e.Kind == "store" && e.Name == "objectCache" && e.Val == "const:nil" && e.Base == recv {
					did = true
				}
			}
			key := "schemacache:" + pathSig(lp, len(lp.Events))
			switch {
			case did, noOld, same:
				c.Pass(key, fn.Pos(), "schema cache is reset, or there was no earlier header, or the schema cookie was established unchanged")
			default:
				c.Fail(key, fn.Pos(), "a transaction can start with the cached sqlite_master kept although the schema cookie was not established unchanged; path [%s]", pathDesc(lp))
			}
			if has {
				for _, hs := range headerStores {
					if ci, ok := l.Cond.(ssa.Instruction); ok && instrDominates(hs, ci) {
						c.Fail("schemacache: compares old header", hs.Pos(), "db.header is replaced before the schema cookies are compared")
					}
				}
			}
		}
	}
	if n == 0 {
		c.Undecided("paths", fn.Pos(), "no validating path found in resolveDirty")
	}
}

// mustRevalidate computes the set of functions whose first page-relevant action is revalidation: a call to
// resolveDirty (or to another such function) dominates every other page-reaching call and every cache-field load.
func mustRevalidateSet(p *Program, rd *ssa.Function, reachPage *reachQuery) map[*ssa.Function]bool {
	set := map[*ssa.Function]bool{rd: true}
	for changed := true; changed; {
		changed = false
		for _, fn := range p.ModFuncs() {
			if set[fn] || p.PkgShort(fn) != "db" || fn.Parent() != nil || len(fn.Blocks) == 0 {
				continue
			}
			var first ssa.CallInstruction
			for _, cs := range callsIn(fn) {
				if callee := cs.Common().StaticCallee(); callee != nil && set[callee] {
					if _, isCall := cs.(*ssa.Call); isCall {
						first = cs
						break
					}
				}
			}
			if first == nil {
				continue
			}
			ok := true
			for _, f := range withClosures(fn) {
				for _, cs := range callsIn(f) {
					if cs == first || !reachPage.Site(cs) {
						continue
					}
					if f != fn {
						for _, mc := range makeClosuresOf(f) {
							if !instrDominates(first, mc) {
								ok = false
							}
						}
						continue
					}
					if !instrDominates(first, cs) {
						ok = false
					}
				}
			}
			if ok {
				set[fn] = true
				changed = true
			}
		}
	}
	return set
}

func runTxn1(c *Ctx) {
	p := c.P
	rd := c.MustFunc("db", "(*Database).resolveDirty")
	if rd == nil {
		return
	}
	reachPage := pageReach(p)
	must := mustRevalidateSet(p, rd, reachPage)
	// exported API of package db
	for _, fn := range p.Roots() {
		if p.PkgShort(fn) != "db" || !reachPage.Fn(fn) {
			continue
		}
		key := p.FnKey(fn)
		if must[fn] {
			c.Pass(key, fn.Pos(), "begins with revalidation (resolveDirty) before any page read")
			continue
		}
		// every page-reaching call must be dominated by a must-revalidate call, or itself be one
		var firsts []ssa.Instruction
		for _, cs := range callsIn(fn) {
			if callee := cs.Common().StaticCallee(); callee != nil && must[callee] {
				firsts = append(firsts, cs)
			}
		}
		bad := ""
		for _, f := range withClosures(fn) {
			for _, cs := range callsIn(f) {
				if !reachPage.Site(cs) {
					continue
				}
				if callee := cs.Common().StaticCallee(); callee != nil && must[callee] {
					continue
				}
				var anchors []ssa.Instruction
				if f == fn {
					anchors = []ssa.Instruction{cs}
				} else {
					for _, mc := range makeClosuresOf(f) {
						anchors = append(anchors, mc)
					}
					// closures nested deeper: use the creation of the outermost closure in fn
					g := f
					for g.Parent() != nil && g.Parent() != fn {
						g = g.Parent()
					}
					if g != f {
						anchors = nil
						for _, mc := range makeClosuresOf(g) {
							anchors = append(anchors, mc)
						}
					}
				}
				for _, a := range anchors {
					dom := false
					for _, fi := range firsts {
						if instrDominates(fi, a) {
							dom = true
						}
					}
					// a function literal handed straight to a function that itself revalidates before any page read
					// (`in.scanFrom(key, func(rec) …)`) only ever runs after that revalidation
					if mc, isMC := a.(*ssa.MakeClosure); isMC && !dom {
						only := len(*mc.Referrers()) > 0
						var uses func(v ssa.Value)
						uses = func(v ssa.Value) {
							for _, r := range *v.Referrers() {
								switch x := r.(type) {
								case *ssa.DebugRef:
								case *ssa.ChangeType:
									uses(x) // the literal converted to a named callback type
								case ssa.CallInstruction:
									if x.Common().StaticCallee() == nil || !must[x.Common().StaticCallee()] {
										only = false
									}
								default:
									only = false
								}
							}
						}
						uses(mc)
						dom = only
					}
					if !dom {
						bad = describeInstr(p, cs)
					}
				}
			}
		}
		if bad == "" {
			c.Pass(key, fn.Pos(), "every page-reaching call is preceded by a call that revalidates the header first")
		} else {
			c.Fail(key, fn.Pos(), "page-reaching call %s is not preceded by revalidation of the header: pages can be read with the page size/caches of an earlier transaction", bad)
		}
	}
	// TXN-4: the caches are consulted only after revalidation
	for _, fn := range p.ModFuncs() {
		if p.PkgShort(fn) != "db" || fn == rd || !p.Reachable(fn) {
			continue
		}
		for _, in := range instrs(fn) {
			u, ok := in.(*ssa.UnOp)
			if !ok || u.Op != token.MUL {
				continue
			}
			fa, ok := u.X.(*ssa.FieldAddr)
			if !ok || !typeIs(fa.X.Type(), modPkgPath("db"), "Database") {
				continue
			}
			name := fieldName(fa)
			if name != "btreeCache" && name != "objectCache" {
				continue
			}
			key := p.FnKey(fn) + " loads " + name
			dom := false
			for _, cs := range callsIn(fn) {
				if callee := cs.Common().StaticCallee(); callee != nil && must[callee] && instrDominates(cs, in) {
					dom = true
				}
			}
			if dom {
				c.Pass(key, in.Pos(), "the cache is consulted only after resolveDirty revalidated the header (and dropped stale caches)")
			} else {
				c.Fail(key, in.Pos(), "%s is read at %s before the header is revalidated: a cached page/schema from before the last commit can be served", name, p.Pos(in.Pos()))
			}
		}
	}
}

func runTxn5(c *Ctx) {
	p := c.P
	rlock := p.Func("db", "(*filePager).RLock")
	rd := p.Func("db", "(*Database).resolveDirty")
	for _, pg := range p.pagerImpls("page") {
		for _, cs := range callsIn(pg) {
			callee := cs.Common().StaticCallee()
			if callee == nil || !isLibFunc(callee, "golang.org/x/exp/mmap", "(*ReaderAt).ReadAt") {
				continue
			}
			key := p.FnKey(pg) + "→(*mmap.ReaderAt).ReadAt"
			// which field holds the mapping?
			fld := ""
			if u, ok := cs.Common().Args[0].(*ssa.UnOp); ok {
				fld = fieldName(u.X)
			}
			// is that field ever re-assigned by something reachable from RLock / resolveDirty?
			remapped := false
			for _, fn := range p.ModFuncs() {
				for _, in := range instrs(fn) {
					s, ok := in.(*ssa.Store)
					if !ok || fieldName(s.Addr) != fld || fld == "" {
						continue
					}
					top := fn
					for top.Parent() != nil {
						top = top.Parent()
					}
					for _, root := range []*ssa.Function{rlock, rd} {
						if root != nil && (p.NewReach(top).Fn(root)) {
							remapped = true
						}
					}
				}
			}
			if remapped {
				c.Pass(key, cs.Pos(), "the mapping is refreshed on the transaction path")
			} else {
				c.Fail(key, cs.Pos(), "pages are served from an mmap.ReaderAt created once when the handle was opened (its length is fixed at open): pages appended by later commits are unreadable (EOF) and a file shrunk by VACUUM leaves mapped pages past end-of-file; nothing reachable from RLock/resolveDirty re-maps")
			}
		}
	}
}

func runJrnl2(c *Ctx) {
	p := c.P
	of := c.MustFunc("db", "OpenFile")
	nd := c.MustFunc("db", "newDatabase")
	if of == nil || nd == nil {
		return
	}
	file := of.Params[0]
	var pagerArgOK, journalOK, seenND bool
	for _, cs := range callsIn(of) {
		callee := cs.Common().StaticCallee()
		if callee == nil {
			continue
		}
		if callee == nd {
			seenND = true
			if bo, ok := cs.Common().Args[1].(*ssa.BinOp); ok && bo.Op == token.ADD && bo.X == ssa.Value(file) {
				if s, ok := constString(bo.Y); ok && s == "-journal" {
					journalOK = true
				}
			}
		} else if p.PkgShort(callee) == "db" {
			for _, a := range cs.Common().Args {
				if a == ssa.Value(file) {
					pagerArgOK = true
				}
			}
		}
	}
	if !seenND {
		c.Undecided("OpenFile→newDatabase", of.Pos(), "OpenFile no longer calls newDatabase; rule cannot follow the journal name")
		return
	}
	c.Check(journalOK, "OpenFile: journal name", of.Pos(), "the journal path handed to newDatabase is <file>+\"-journal\" (SQLite's rollback-journal name)")
	c.Check(pagerArgOK, "OpenFile: same file", of.Pos(), "the pager is opened on the same <file>")
	stored := false
	for _, in := range instrs(nd) {
		if s, ok := in.(*ssa.Store); ok && fieldName(s.Addr) == "journal" && s.Val == ssa.Value(nd.Params[1]) {
			stored = true
		}
	}
	c.Check(stored, "newDatabase: journal stored", nd.Pos(), "newDatabase stores the journal path in the handle it validates")
}

// varInitBytes evaluates a package-level array/slice literal of constant bytes.
func (p *Program) varInitBytes(pkg, name string) ([]byte, bool) {
	var pk = p.ByPath[modPkgPath(pkg)]
	if pk == nil {
		return nil, false
	}
	for _, f := range pk.Syntax {
		for _, d := range f.Decls {
			gd, ok := d.(*ast.GenDecl)
			if !ok || gd.Tok != token.VAR {
				continue
			}
			for _, sp := range gd.Specs {
				vs := sp.(*ast.ValueSpec)
				for i, n := range vs.Names {
					if n.Name != name || i >= len(vs.Values) {
						continue
					}
					cl, ok := vs.Values[i].(*ast.CompositeLit)
					if !ok {
						return nil, false
					}
					var out []byte
					for _, e := range cl.Elts {
						tv, ok := pk.TypesInfo.Types[e]
						if !ok || tv.Value == nil {
							return nil, false
						}
						v, ok := constant.Int64Val(tv.Value)
						if !ok {
							return nil, false
						}
						out = append(out, byte(v))
					}
					return out, true
				}
			}
		}
	}
	return nil, false
}

// streamLayout returns the encoding/binary stream offset and size of each field of a struct of fixed-size fields.
type fieldLayout struct {
	Name         string
	Offset, Size int
	Signed       bool // a signed integer field: the bytes are read as two's complement
}

func binarySize(t types.Type) (int, bool) {
	switch u := t.Underlying().(type) {
	case *types.Basic:
		switch u.Kind() {
		case types.Uint8, types.Int8, types.Bool:
			return 1, true
		case types.Uint16, types.Int16:
			return 2, true
		case types.Uint32, types.Int32, types.Float32:
			return 4, true
		case types.Uint64, types.Int64, types.Float64:
			return 8, true
		}
	case *types.Array:
		n, ok := binarySize(u.Elem())
		return n * int(u.Len()), ok
	case *types.Struct:
		tot := 0
		for i := 0; i < u.NumFields(); i++ {
			n, ok := binarySize(u.Field(i).Type())
			if !ok {
				return 0, false
			}
			tot += n
		}
		return tot, true
	}
	return 0, false
}

func streamLayout(st *types.Struct) ([]fieldLayout, int, bool) {
	var out []fieldLayout
	off := 0
	for i := 0; i < st.NumFields(); i++ {
		n, ok := binarySize(st.Field(i).Type())
		if !ok {
			return nil, 0, false
		}
		signed := false
		if b, ok := st.Field(i).Type().Underlying().(*types.Basic); ok && b.Info()&types.IsInteger != 0 && b.Info()&types.IsUnsigned == 0 {
			signed = true
		}
		out = append(out, fieldLayout{st.Field(i).Name(), off, n, signed})
		off += n
	}
	return out, off, true
}

// binaryReadTarget finds the struct decoded by the encoding/binary.Read call in fn.
func binaryReadTarget(fn *ssa.Function) (*ssa.Alloc, *types.Struct, ssa.CallInstruction) {
	return binaryReadTargetD(fn, 0)
}

func binaryReadTargetD(fn *ssa.Function, depth int) (*ssa.Alloc, *types.Struct, ssa.CallInstruction) {
	for _, cs := range callsIn(fn) {
		callee := cs.Common().StaticCallee()
		if callee != nil && depth < maxInlineDepth && inlinable != nil && inlinable(callee) {
			// the decoding may have moved into a freshly extracted helper
			if a, st, rd := binaryReadTargetD(callee, depth+1); a != nil {
				return a, st, rd
			}
		}
		if callee == nil || !isLibFunc(callee, "encoding/binary", "Read") {
			continue
		}
		v := stripConv(cs.Common().Args[2])
		if a, ok := v.(*ssa.Alloc); ok {
			if st, ok := a.Type().(*types.Pointer).Elem().Underlying().(*types.Struct); ok {
				return a, st, cs
			}
		}
	}
	return nil, nil, nil
}

var sqliteJournalMagic = []byte{0xd9, 0xd5, 0x05, 0xf9, 0x20, 0xa1, 0x63, 0xd7} // pager.c aJournalMagic

func runJrnl3(c *Ctx) {
	p := c.P
	fn := c.MustFunc("db", "validJournal")
	if fn == nil {
		return
	}
	alloc, st, rd := binaryReadTarget(fn)
	if alloc == nil {
		// no struct: the fields are read straight out of the header bytes
		runJrnl3Direct(c, fn)
		return
	}
	if be, ok := rd.Common().Args[1].(*ssa.MakeInterface); !ok || !strings.Contains(be.X.Type().String(), "bigEndian") {
		c.Fail("journal header byte order", rd.Pos(), "the journal header is not decoded big-endian")
	} else {
		c.Trivial("journal header byte order", rd.Pos(), "decoded big-endian")
	}
	lay, _, ok := streamLayout(st)
	if !ok {
		c.Undecided("journal header struct", fn.Pos(), "struct with fields of non-fixed size")
		return
	}
	byName := map[string]fieldLayout{}
	for _, f := range lay {
		byName[f.Name] = f
	}
	t := &Termer{P: p}
	paths, okp := EnumLits(fn.Blocks[0], 0, TabOpts{Termer: t, EventOf: callEvents(p)})
	if !okp {
		c.Undecided("paths", fn.Pos(), "too many paths")
		return
	}
	base := t.Term(alloc, nil)
	nAccept := 0
	for _, lp := range paths {
		if lp.Exit == nil {
			continue
		}
		r0 := lp.PS.Resolve(lp.Exit.Results[0])
		hot, isC := constBool(r0)
		if !isC {
			c.Undecided("verdict", lp.Exit.Pos(), "validJournal returns a non-constant verdict %s", r0)
			continue
		}
		errNonNil := retErrDefinitelyNonNil(lp, t)
		if !hot {
			// only a non-ENOENT open failure is an error
			if errNonNil || !isNilConst(lp.PS.Resolve(lp.Exit.Results[1])) {
				good := lp.Holds("call:os.Open#1", token.NEQ, "nil") && lp.Has("call:os.IsNotExist", token.EQL, "true", false)
				c.Check(good, "notjournal-error:"+pathSig(lp, 99), lp.Exit.Pos(), "an error is returned only when the journal exists but cannot be opened; path [%s]", pathDesc(lp))
			} else {
				c.Pass("notjournal:"+pathSig(lp, 99), lp.Exit.Pos(), "not a hot journal, reading proceeds (false, nil); path [%s]", pathDesc(lp))
			}
			continue
		}
		nAccept++
		key := "hot:" + pathSig(lp, 99)
		var missing []string
		// the verdict may depend on the magic and the sector size only (and on how much could be read)
		for _, l := range lp.Lits {
			for _, part := range strings.Split(l.Subject, "−") {
				if !strings.HasPrefix(part, base+".") {
					continue
				}
				name := strings.TrimPrefix(part, base+".")
				if i := strings.IndexAny(name, "[."); i >= 0 {
					name = name[:i]
				}
				f, ok := byName[name]
				if !ok || !((f.Offset == 0 && f.Size == 8) || (f.Offset == 20 && f.Size == 4)) {
					missing = append(missing, fmt.Sprintf("independence from the journal header field at offset %d (%s): SQLite treats a journal with a valid header and a complete first sector as hot whatever its page count, nonce or initial size say — a first transaction on an empty database has page count 0 and still must be rolled back", f.Offset, l))
				}
			}
		}
		if len(lp.Unknown) > 0 {
			missing = append(missing, fmt.Sprintf("independence from unrecognised conditions %v", lp.Unknown))
		}
		if !lp.Holds("call:os.Open#1", token.EQL, "nil") {
			missing = append(missing, "journal opened")
		}
		// magic
		magicOK := false
		for _, l := range lp.Lits {
			parts := strings.Split(l.Subject, "−")
			if len(parts) != 2 {
				continue
			}
			for k := 0; k < 2; k++ {
				if strings.HasPrefix(parts[k], base+".") && strings.HasPrefix(parts[1-k], "g:") {
					f := byName[strings.TrimPrefix(parts[k], base+".")]
					if f.Offset == 0 && f.Size == 8 && ((l.Op == token.NEQ && !l.Val) || (l.Op == token.EQL && l.Val)) {
						g := strings.TrimPrefix(parts[1-k], "g:")
						if b, ok := p.varInitBytes("db", g); ok && string(b) == string(sqliteJournalMagic) {
							magicOK = true
						}
					}
				}
			}
		}
		if !magicOK {
			missing = append(missing, "bytes 0..7 equal to SQLite's journal magic d9d505f920a163d7")
		}
		// sector size: field at offset 20, 4 bytes, accepted exactly [512, 65536]
		var sector string
		for _, f := range lay {
			if f.Offset == 20 && f.Size == 4 {
				sector = base + "." + f.Name
			}
		}
		if sector == "" {
			missing = append(missing, "a 4-byte field at offset 20 (sector size)")
		} else {
			var ls []Lit
			for _, l := range lp.Lits {
				if l.Subject == sector && l.IsInt {
					ls = append(ls, l)
				}
			}
			for _, v := range []int64{-1, 0, 1, 511, 512, 513, 4096, 65535, 65536, 65537, 1 << 20} {
				acc := true
				for _, l := range ls {
					if evalCmp(v, l.Op, l.N) != l.Val {
						acc = false
					}
				}
				if acc != (v >= 512 && v <= 65536) {
					missing = append(missing, fmt.Sprintf("sector size accepted set is [512,65536] (value %d is %s)", v, map[bool]string{true: "accepted", false: "rejected"}[acc]))
					break
				}
			}
		}
		// two reads, both complete
		reads := 0
		for _, l := range lp.Lits {
			if strings.HasPrefix(l.Subject, "call:(*os.File).Read") && strings.Contains(l.Subject, "#0") {
				eq := (l.Op == token.NEQ && !l.Val) || (l.Op == token.EQL && l.Val)
				if !eq {
					continue
				}
				errTerm := strings.Replace(strings.Split(l.Subject, "−")[0], "#0", "#1", 1)
				if !lp.Holds(errTerm, token.EQL, "nil") {
					continue
				}
				if strings.Contains(l.Subject, "−") {
					// length compared with len(make[sector-K])
					if sector != "" && strings.Contains(l.Subject, "len(make[("+sector+"-const:") {
						reads++
					}
				} else if l.IsInt && l.N >= 24 {
					reads++
				}
			}
		}
		if reads < 2 {
			missing = append(missing, "header read in full and the rest of the first sector read in full")
		}
		if len(missing) == 0 {
			c.Pass(key, lp.Exit.Pos(), "hot verdict requires: opened, magic, sane sector size, full header, full first sector")
		} else {
			c.Fail(key, lp.Exit.Pos(), "a journal is declared hot without establishing: %s (a PERSIST/TRUNCATE leftover or torn header would block reading, or a zeroed journal be taken for hot); path [%s]", strings.Join(missing, "; "), pathDesc(lp))
		}
	}
	if nAccept == 0 {
		c.Fail("hot", fn.Pos(), "validJournal never reports a hot journal: an interrupted transaction is read through")
	}
	// layout facts
	for _, f := range lay {
		if f.Offset == 0 {
			c.Check(f.Size == 8, "journal header: magic field", fn.Pos(), "8-byte magic at offset 0")
		}
	}
}

// runJrnl3Direct: the same obligations as runJrnl3 for a validJournal that decodes the header without a struct: the
// magic is `bytes.Equal(b[:8], journalMagic[:])` (or HasPrefix) and the sector size a big-endian Uint32 of `b[20:]`,
// b being the buffer the first Read filled. A "field" is then a (what reads the buffer, at which offset) event.
func runJrnl3Direct(c *Ctx, fn *ssa.Function) {
	p := c.P
	t := &Termer{P: p}
	paths, okp := EnumLits(fn.Blocks[0], 0, TabOpts{Termer: t, EventOf: callEvents(p)})
	if !okp {
		c.Undecided("paths", fn.Pos(), "too many paths")
		return
	}
	sliceOf := func(arg string) (base string, lo, hi int64, ok bool) {
		// base[:], base[:const:H], base[const:L:], base[const:L:const:H]
		i := strings.LastIndex(arg, "[")
		if i < 0 || !strings.HasSuffix(arg, "]") {
			return "", 0, 0, false
		}
		base = arg[:i]
		in := arg[i+1 : len(arg)-1]
		parts := strings.SplitN(strings.Replace(in, "const:", "", -1), ":", 2)
		if len(parts) != 2 {
			return "", 0, 0, false
		}
		lo, hi = 0, -1
		if parts[0] != "" {
			v, err := strconv.ParseInt(parts[0], 10, 64)
			if err != nil {
				return "", 0, 0, false
			}
			lo = v
		}
		if parts[1] != "" {
			v, err := strconv.ParseInt(parts[1], 10, 64)
			if err != nil {
				return "", 0, 0, false
			}
			hi = v
		}
		return base, lo, hi, true
	}
	nAccept := 0
	orderSeen, orderBad := false, false
	magicLen := int64(-1)
	var orderPos token.Pos
	for _, lp := range paths {
		if lp.Exit == nil {
			continue
		}
		r0 := lp.PS.Resolve(lp.Exit.Results[0])
		hot, isC := constBool(r0)
		if !isC {
			c.Undecided("verdict", lp.Exit.Pos(), "validJournal returns a non-constant verdict %s", r0)
			continue
		}
		errNonNil := retErrDefinitelyNonNil(lp, t)
		if !hot {
			if errNonNil || !isNilConst(lp.PS.Resolve(lp.Exit.Results[1])) {
				good := lp.Holds("call:os.Open#1", token.NEQ, "nil") && lp.Has("call:os.IsNotExist", token.EQL, "true", false)
				c.Check(good, "notjournal-error:"+pathSig(lp, 99), lp.Exit.Pos(), "an error is returned only when the journal exists but cannot be opened; path [%s]", pathDesc(lp))
			} else {
				c.Pass("notjournal:"+pathSig(lp, 99), lp.Exit.Pos(), "not a hot journal, reading proceeds (false, nil); path [%s]", pathDesc(lp))
			}
			continue
		}
		nAccept++
		key := "hot:" + pathSig(lp, 99)
		var missing []string
		// the header buffer: what the first Read on the journal filled
		buf := ""
		for _, e := range lp.Events {
			if e.Kind == "call" && e.Name == "(*os.File).Read" && len(e.Args) == 2 {
				if b, lo, _, ok := sliceOf(e.Args[1]); ok && lo == 0 {
					buf = b
				}
				break
			}
		}
		if buf == "" {
			c.Undecided(key, lp.Exit.Pos(), "cannot find the buffer the journal header is read into")
			continue
		}
		magicOK := false
		sector := ""
		for _, e := range lp.Events {
			if e.Kind != "call" || e.Name == "(*os.File).Read" {
				continue
			}
			reads := -1
			for i, a := range e.Args {
				if strings.HasPrefix(a, buf+"[") || a == buf {
					reads = i
				}
			}
			if reads < 0 {
				continue
			}
			_, lo, hi, okS := sliceOf(e.Args[reads])
			res := ""
			if v, isV := e.Instr.(ssa.Value); isV {
				res = t.Term(v, lp.PS)
			}
			switch {
			case (e.Name == "bytes.Equal" || e.Name == "bytes.HasPrefix") && len(e.Args) == 2 && okS && lo == 0 && (hi == 8 || (hi == -1 && e.Name == "bytes.HasPrefix" && reads == 0)):
				other := e.Args[1-reads]
				if g, _, _, okG := sliceOf(other); okG && strings.HasPrefix(g, "g:") {
					if b, ok := p.varInitBytes("db", strings.TrimPrefix(g, "g:")); ok && string(b) == string(sqliteJournalMagic) && lp.Holds(res, token.EQL, "true") {
						magicOK = true
						magicLen = int64(len(b))
					}
				}
			case strings.HasSuffix(e.Name, ".Uint32") && strings.Contains(e.Name, "encoding/binary") && okS && lo == 20 && (hi == -1 || hi == 24):
				orderSeen = true
				orderPos = e.Instr.Pos()
				if !strings.Contains(e.Name, "bigEndian") {
					orderBad = true
				}
				sector = res
			default:
				// anything else that looks into the header must not bear on the verdict
				used := false
				for _, l := range lp.Lits {
					if res != "" && strings.Contains(l.Subject, res) {
						used = true
					}
				}
				if used || res == "" {
					missing = append(missing, fmt.Sprintf("independence from the other journal header fields (%s reads %s): SQLite treats a journal with a valid header and a complete first sector as hot whatever its page count, nonce or initial size say — a first transaction on an empty database has page count 0 and still must be rolled back", e.Name, e.Args[reads]))
				}
			}
		}
		for _, l := range lp.Lits {
			if strings.Contains(l.Subject, buf+"[") {
				missing = append(missing, fmt.Sprintf("independence from header bytes tested directly (%s)", l))
			}
		}
		if len(lp.Unknown) > 0 {
			missing = append(missing, fmt.Sprintf("independence from unrecognised conditions %v", lp.Unknown))
		}
		if !lp.Holds("call:os.Open#1", token.EQL, "nil") {
			missing = append(missing, "journal opened")
		}
		if !magicOK {
			missing = append(missing, "bytes 0..7 equal to SQLite's journal magic d9d505f920a163d7")
		}
		sectorSubj := ""
		if sector == "" {
			missing = append(missing, "a 4-byte field at offset 20 (sector size)")
		} else {
			var ls []Lit
			signed := false
			for _, l := range lp.Lits {
				if unconvTerm(l.Subject) == sector && l.IsInt {
					ls = append(ls, l)
					sectorSubj = l.Subject
					if strings.HasPrefix(l.Subject, "conv:int") {
						signed = true
					}
				}
			}
			for _, v := range []int64{-1, 0, 1, 511, 512, 513, 4096, 65535, 65536, 65537, 1 << 20} {
				if v < 0 && !signed {
					continue
				}
				acc := true
				for _, l := range ls {
					if evalCmp(v, l.Op, l.N) != l.Val {
						acc = false
					}
				}
				if acc != (v >= 512 && v <= 65536) {
					missing = append(missing, fmt.Sprintf("sector size accepted set is [512,65536] (value %d is %s)", v, map[bool]string{true: "accepted", false: "rejected"}[acc]))
					break
				}
			}
		}
		reads := 0
		for _, l := range lp.Lits {
			if strings.HasPrefix(l.Subject, "call:(*os.File).Read") && strings.Contains(l.Subject, "#0") {
				eq := (l.Op == token.NEQ && !l.Val) || (l.Op == token.EQL && l.Val)
				if !eq {
					continue
				}
				errTerm := strings.Replace(strings.Split(l.Subject, "−")[0], "#0", "#1", 1)
				if !lp.Holds(errTerm, token.EQL, "nil") {
					continue
				}
				if strings.Contains(l.Subject, "−") {
					if sector != "" && (strings.Contains(l.Subject, "len(make[("+sector+"-const:") || (sectorSubj != "" && strings.Contains(l.Subject, "len(make[("+sectorSubj+"-const:"))) {
						reads++
					}
				} else if l.IsInt && l.N >= 24 {
					reads++
				}
			}
		}
		if reads < 2 {
			missing = append(missing, "header read in full and the rest of the first sector read in full")
		}
		if len(missing) == 0 {
			c.Pass(key, lp.Exit.Pos(), "hot verdict requires: opened, magic, sane sector size, full header, full first sector")
		} else {
			c.Fail(key, lp.Exit.Pos(), "a journal is declared hot without establishing: %s (a PERSIST/TRUNCATE leftover or torn header would block reading, or a zeroed journal be taken for hot); path [%s]", strings.Join(missing, "; "), pathDesc(lp))
		}
	}
	if nAccept == 0 {
		c.Fail("hot", fn.Pos(), "validJournal never reports a hot journal: an interrupted transaction is read through")
	}
	switch {
	case orderBad:
		c.Fail("journal header byte order", orderPos, "the journal header is not decoded big-endian")
	case orderSeen:
		c.Trivial("journal header byte order", orderPos, "decoded big-endian")
	}
	if magicLen >= 0 {
		c.Check(magicLen == 8, "journal header: magic field", fn.Pos(), "8-byte magic at offset 0")
	}
}

// ---- header ----------------------------------------------------------------------------------

type hdrField struct {
	Off, Size int
	Name      string
	// accept: predicate over the raw field value (nil = unconstrained field, must not influence acceptance)
	Accept func(v uint64) bool
	Desc   string
}

// fileformat2.html §1.3
var hdrSpec = []hdrField{
	{0, 16, "magic", nil, "SQLite format 3\\x00"},
	{16, 2, "page size", func(v uint64) bool { return v == 1 || (v >= 512 && v <= 32768 && bits.OnesCount64(v) == 1) }, "power of two 512..32768, or 1 for 65536"},
	{18, 1, "write version", nil, ""},
	{19, 1, "read version", func(v uint64) bool { return v == 1 }, "1 (2 = WAL, refused)"},
	{20, 1, "reserved space", func(v uint64) bool { return v == 0 }, "0"},
	{21, 1, "max payload fraction", func(v uint64) bool { return v == 64 }, "64"},
	{22, 1, "min payload fraction", func(v uint64) bool { return v == 32 }, "32"},
	{23, 1, "leaf payload fraction", func(v uint64) bool { return v == 32 }, "32"},
	{24, 4, "change counter", nil, ""},
	{28, 4, "database size", nil, ""},
	{32, 4, "freelist trunk", nil, ""},
	{36, 4, "freelist count", nil, ""},
	{40, 4, "schema cookie", nil, ""},
	{44, 4, "schema format", func(v uint64) bool { return v >= 2 && v <= 4 }, "⊆{2,3,4} ∋ 4"},
	{48, 4, "default cache size", nil, ""},
	{52, 4, "largest root page", nil, ""},
	{56, 4, "text encoding", func(v uint64) bool { return v == 1 }, "1 (UTF-8)"},
	{60, 4, "user version", nil, ""},
	{64, 4, "incremental vacuum", nil, ""},
	{68, 4, "application id", nil, ""},
	{72, 20, "reserved for expansion", func(v uint64) bool { return v == 0 }, "zero"},
	{92, 4, "version-valid-for", nil, ""},
	{96, 4, "sqlite version", nil, ""},
}

// isPow2Func recognises func(n) bool { return bits.OnesCount(n) == 1 } and n&(n-1) == 0.
func isPow2Func(fn *ssa.Function) bool {
	if fn == nil || len(fn.Blocks) != 1 || len(fn.Params) != 1 {
		return false
	}
	rets := returnsOf(fn)
	if len(rets) != 1 || len(rets[0].Results) != 1 {
		return false
	}
	bo, ok := rets[0].Results[0].(*ssa.BinOp)
	if !ok || bo.Op != token.EQL {
		return false
	}
	if n, ok := constInt(bo.Y); ok && n == 1 {
		if call, ok := stripConv(bo.X).(*ssa.Call); ok {
			if cal := call.Call.StaticCallee(); cal != nil && (isLibFunc(cal, "math/bits", "OnesCount") || isLibFunc(cal, "math/bits", "OnesCount64") || isLibFunc(cal, "math/bits", "OnesCount32") || isLibFunc(cal, "math/bits", "OnesCount16")) {
				return stripConv(call.Call.Args[0]) == ssa.Value(fn.Params[0])
			}
		}
	}
	if n, ok := constInt(bo.Y); ok && n == 0 {
		if and, ok := bo.X.(*ssa.BinOp); ok && and.Op == token.AND {
			isP := func(v ssa.Value) bool { return v == ssa.Value(fn.Params[0]) }
			isPm1 := func(v ssa.Value) bool {
				s, ok := v.(*ssa.BinOp)
				if !ok || s.Op != token.SUB || !isP(s.X) {
					return false
				}
				k, ok := constInt(s.Y)
				return ok && k == 1
			}
			return (isP(and.X) && isPm1(and.Y)) || (isP(and.Y) && isPm1(and.X))
		}
	}
	return false
}

func runHdr(c *Ctx) {
	p := c.P
	fn := c.MustFunc("db", "parseHeader")
	if fn == nil {
		return
	}
	alloc, st, rd := binaryReadTarget(fn)
	if alloc == nil {
		c.Undecided("header struct", fn.Pos(), "no encoding/binary.Read into a local struct found in parseHeader")
		return
	}
	if be, ok := rd.Common().Args[1].(*ssa.MakeInterface); !ok || !strings.Contains(be.X.Type().String(), "bigEndian") {
		c.Fail("header byte order", rd.Pos(), "the header is not decoded big-endian")
	} else {
		c.Trivial("header byte order", rd.Pos(), "decoded big-endian")
	}
	lay, total, ok := streamLayout(st)
	if !ok {
		c.Undecided("header struct", fn.Pos(), "header struct has a field of non-fixed size")
		return
	}
	c.Check(total == 100, "header size", fn.Pos(), "decoded struct covers %d bytes; the database header is 100 bytes", total)
	specAt := map[int]hdrField{}
	for _, f := range hdrSpec {
		specAt[f.Off] = f
	}
	byName := map[string]fieldLayout{}
	for _, f := range lay {
		byName[f.Name] = f
	}
	base := ""
	t := &Termer{P: p}
	t.Custom = func(v ssa.Value, ps *pathState) (string, bool) {
		if call, ok := v.(*ssa.Call); ok {
			var callee *ssa.Function
			if mc, ok := call.Call.Value.(*ssa.MakeClosure); ok {
				callee, _ = mc.Fn.(*ssa.Function)
			} else {
				callee = call.Call.StaticCallee()
			}
			if callee != nil && isPow2Func(callee) && len(call.Call.Args) == 1 {
				return "pow2(" + t.Term(call.Call.Args[0], ps) + ")", true
			}
			if callee != nil && len(call.Call.Args) == 1 && (isLibFunc(callee, "math/bits", "OnesCount") || isLibFunc(callee, "math/bits", "OnesCount64") || isLibFunc(callee, "math/bits", "OnesCount32") || isLibFunc(callee, "math/bits", "OnesCount16")) {
				return "ones(" + t.Term(call.Call.Args[0], ps) + ")", true
			}
		}
		return "", false
	}
	base = t.Term(alloc, nil)
	paths, okp := EnumLits(fn.Blocks[0], 0, TabOpts{Termer: t, EventOf: callEvents(p)})
	if !okp {
		c.Undecided("paths", fn.Pos(), "too many paths through parseHeader")
		return
	}
	// field of a literal subject
	fieldOfSubject := func(sub string) (fieldLayout, string, bool) {
		s := sub
		kind := "value"
		if strings.HasPrefix(s, "pow2(") && strings.HasSuffix(s, ")") {
			s = s[5 : len(s)-1]
			kind = "pow2"
		}
		if strings.HasPrefix(s, "ones(") && strings.HasSuffix(s, ")") {
			s = s[5 : len(s)-1]
			kind = "ones"
		}
		if !strings.HasPrefix(s, base+".") {
			return fieldLayout{}, "", false
		}
		s = strings.TrimPrefix(s, base+".")
		name := s
		if i := strings.IndexAny(s, "[."); i >= 0 {
			name = s[:i]
			if kind == "value" {
				kind = "element"
			}
		}
		f, ok := byName[name]
		return f, kind, ok
	}
	type acc struct {
		lits [][]Lit // per accept path, literals on this field
	}
	accepted := map[int]*acc{}
	var acceptPaths []*LPath
	for _, lp := range paths {
		if lp.Exit == nil || retErrDefinitelyNonNil(lp, t) {
			continue
		}
		if !isNilConst(lp.PS.Resolve(lp.Exit.Results[1])) {
			c.Undecided("verdict:"+pathSig(lp, 99), lp.Exit.Pos(), "parseHeader returns an error value this rule cannot classify")
			continue
		}
		acceptPaths = append(acceptPaths, lp)
	}
	if len(acceptPaths) == 0 {
		c.Fail("accept", fn.Pos(), "parseHeader accepts no header at all")
		return
	}
	usedOffsets := map[int]bool{}
	for _, lp := range acceptPaths {
		if len(lp.Unknown) > 0 {
			c.Fail("accept-unrecognised:"+pathSig(lp, 99), lp.Exit.Pos(), "acceptance of a header depends on a condition this rule cannot interpret: %v", lp.Unknown)
		}
		per := map[int][]Lit{}
		for _, l := range lp.Lits {
			f, kind, ok := fieldOfSubject(l.Subject)
			if !ok {
				if strings.Contains(l.Subject, base+".") {
					c.Undecided("accept-literal", lp.Exit.Pos(), "literal %s mixes header fields in a way this rule cannot interpret", l)
				}
				continue
			}
			sp, aligned := specAt[f.Offset]
			if !aligned || sp.Size != f.Size {
				c.Fail(fmt.Sprintf("layout@%d", f.Offset), fn.Pos(), "validated struct field at stream offset %d (%d bytes) does not coincide with a header field of the file format (nearest: %s)", f.Offset, f.Size, nearestSpec(f.Offset))
				continue
			}
			usedOffsets[f.Offset] = true
			l2 := l
			l2.Subject = kind
			per[f.Offset] = append(per[f.Offset], l2)
		}
		for off, ls := range per {
			if accepted[off] == nil {
				accepted[off] = &acc{}
			}
			accepted[off].lits = append(accepted[off].lits, ls)
		}
		// paths with no literal on a field accept every value of it
		for _, sp := range hdrSpec {
			if _, has := per[sp.Off]; !has {
				if accepted[sp.Off] == nil {
					accepted[sp.Off] = &acc{}
				}
				accepted[sp.Off].lits = append(accepted[sp.Off].lits, nil)
			}
		}
	}
	for _, sp := range hdrSpec {
		key := fmt.Sprintf("field@%d %s", sp.Off, sp.Name)
		a := accepted[sp.Off]
		if sp.Off == 0 {
			// magic: string equality with the format's magic
			okMagic := true
			for _, ls := range a.lits {
				found := false
				for _, l := range ls {
					if l.C == `"SQLite format 3\x00"` && ((l.Op == token.NEQ && !l.Val) || (l.Op == token.EQL && l.Val)) {
						found = true
					}
				}
				if !found {
					okMagic = false
				}
			}
			c.Check(okMagic, key, fn.Pos(), "every accepting path established bytes 0..15 == \"SQLite format 3\\x00\"")
			continue
		}
		if sp.Off == 72 {
			okZ := true
			for _, ls := range a.lits {
				for _, l := range ls {
					if !(l.IsInt && l.N == 0 && ((l.Op == token.NEQ && !l.Val) || (l.Op == token.EQL && l.Val))) {
						okZ = false
					}
				}
			}
			c.Check(okZ, key, fn.Pos(), "reserved-for-expansion bytes are only required to be zero")
			continue
		}
		// candidate values: whole domain for 1- and 2-byte fields, constants±1 otherwise
		var cands []uint64
		switch sp.Size {
		case 1:
			for v := uint64(0); v < 256; v++ {
				cands = append(cands, v)
			}
		case 2:
			for v := uint64(0); v < 65536; v++ {
				cands = append(cands, v)
			}
		default:
			set := map[uint64]bool{0: true, 1: true, 1<<32 - 1: true}
			for _, ls := range a.lits {
				for _, l := range ls {
					if l.IsInt {
						for _, d := range []int64{-1, 0, 1} {
							if v := l.N + d; v >= 0 {
								set[uint64(v)] = true
							}
						}
					}
				}
			}
			for v := range set {
				cands = append(cands, v)
			}
		}
		// the value the code sees for the bytes v: a field declared with a signed type reads them as two's complement
		seen := func(v uint64) int64 {
			for _, f := range lay {
				if f.Offset == sp.Off && f.Size == sp.Size && f.Signed {
					switch f.Size {
					case 1:
						return int64(int8(v))
					case 2:
						return int64(int16(v))
					case 4:
						return int64(int32(v))
					}
				}
			}
			return int64(v)
		}
		evalPath := func(ls []Lit, v uint64) (bool, bool) {
			for _, l := range ls {
				switch l.Subject {
				case "value":
					if !l.IsInt {
						return false, false
					}
					if evalCmp(seen(v), l.Op, l.N) != l.Val {
						return false, true
					}
				case "ones":
					if !l.IsInt {
						return false, false
					}
					if evalCmp(int64(bits.OnesCount64(v)), l.Op, l.N) != l.Val {
						return false, true
					}
				case "pow2":
					isP := bits.OnesCount64(v) == 1
					want := (l.Op == token.EQL) == (l.C == "true")
					if (isP == want) != l.Val {
						return false, true
					}
				default:
					return false, false
				}
			}
			return true, true
		}
		bad := ""
		undec := false
		for _, v := range cands {
			got := false
			for _, ls := range a.lits {
				r, ok := evalPath(ls, v)
				if !ok {
					undec = true
				}
				if r {
					got = true
				}
			}
			want := true
			if sp.Accept != nil {
				want = sp.Accept(v)
			}
			if sp.Off == 44 {
				// schema format: accepted ⊆ {2,3,4} and 4 accepted
				if got && !want {
					bad = fmt.Sprintf("value %d is accepted", v)
				}
				if v == 4 && !got {
					bad = "schema format 4 (the current format) is rejected"
				}
				continue
			}
			if got != want && bad == "" {
				bad = fmt.Sprintf("value %d is %s, the format says it must be %s", v, accWord(got), accWord(want))
			}
		}
		if undec {
			c.Undecided(key, fn.Pos(), "a literal on this field is not a comparison with a constant")
			continue
		}
		desc := sp.Desc
		if sp.Accept == nil {
			desc = "any value (does not affect reading)"
		}
		if bad == "" {
			if sp.Accept == nil && !usedOffsets[sp.Off] {
				c.Trivial(key, fn.Pos(), "not consulted when accepting a header")
			} else {
				c.Pass(key, fn.Pos(), "accepted set over %d candidate values equals the spec: %s", len(cands), desc)
			}
		} else {
			c.Fail(key, fn.Pos(), "accepted value set of header field `%s` (offset %d) differs from the file format (%s): %s", sp.Name, sp.Off, desc, bad)
		}
	}
	// the stored header values come from the right fields
	want := map[string]int{"ChangeCounter": 24, "SchemaCookie": 40, "PageSize": 16}
	for _, lp := range acceptPaths {
		seen := map[string]bool{}
		for _, e := range lp.Events {
			if e.Kind != "store" {
				continue
			}
			off, ok := want[e.Name]
			if !ok {
				continue
			}
			seen[e.Name] = true
			key := "result." + e.Name
			if e.Name == "PageSize" && unconvTerm(e.Val) == "const:65536" {
				// only on the path where raw == 1
				var f fieldLayout
				for _, fl := range lay {
					if fl.Offset == 16 {
						f = fl
					}
				}
				c.Check(lp.Holds(base+"."+f.Name, token.EQL, "1"), key+"=65536", e.Instr.Pos(), "page size 65536 is reported exactly when the raw field is 1")
				continue
			}
			f, _, okf := fieldOfSubject(unconvTerm(e.Val))
			c.Check(okf && f.Offset == off, key, e.Instr.Pos(), "header.%s is taken from the struct field at stream offset %d (got %s)", e.Name, off, e.Val)
		}
		for name := range want {
			if !seen[name] {
				c.Fail("result."+name, lp.Exit.Pos(), "an accepting path returns a header without setting %s", name)
			}
		}
	}
}

func accWord(b bool) string {
	if b {
		return "accepted"
	}
	return "rejected"
}

func nearestSpec(off int) string {
	best := hdrSpec[0]
	for _, f := range hdrSpec {
		if f.Off <= off {
			best = f
		}
	}
	return fmt.Sprintf("%s at %d..%d", best.Name, best.Off, best.Off+best.Size-1)
}

// fieldsAccessed collects the fields of the named struct type that fn (and methods of the same type it calls)
// loads from / stores to.
func fieldsAccessed(p *Program, fn *ssa.Function, typ string, seen map[*ssa.Function]bool, reads, writes map[string]bool) {
	if seen[fn] {
		return
	}
	seen[fn] = true
	for _, in := range instrs(fn) {
		switch x := in.(type) {
		case *ssa.UnOp:
			if fa, ok := x.X.(*ssa.FieldAddr); ok && x.Op == token.MUL {
				if n := namedOf(fa.X.Type()); n != nil && n.Obj().Name() == typ {
					reads[fieldName(fa)] = true
				}
			}
		case *ssa.Store:
			if fa, ok := x.Addr.(*ssa.FieldAddr); ok {
				if n := namedOf(fa.X.Type()); n != nil && n.Obj().Name() == typ {
					writes[fieldName(fa)] = true
				}
			}
		case ssa.CallInstruction:
			if callee := x.Common().StaticCallee(); callee != nil && callee.Signature.Recv() != nil {
				if n := namedOf(callee.Signature.Recv().Type()); n != nil && n.Obj().Name() == typ && p.InModule(callee) {
					fieldsAccessed(p, callee, typ, seen, reads, writes)
				}
			}
		}
	}
}

func runCache(c *Ctx) {
	p := c.P
	get := c.MustFunc("db", "(*btreeCache).get")
	clr := c.MustFunc("db", "(*btreeCache).clear")
	if get == nil || clr == nil {
		return
	}
	reads, _w := map[string]bool{}, map[string]bool{}
	fieldsAccessed(p, get, "btreeCache", map[*ssa.Function]bool{}, reads, _w)
	_r, cleared := map[string]bool{}, map[string]bool{}
	fieldsAccessed(p, clr, "btreeCache", map[*ssa.Function]bool{}, _r, cleared)
	// fields written anywhere outside the constructor
	mutable := map[string]bool{}
	for _, fn := range p.ModFuncs() {
		if p.PkgShort(fn) != "db" {
			continue
		}
		for _, in := range instrs(fn) {
			s, ok := in.(*ssa.Store)
			if !ok {
				continue
			}
			fa, ok := s.Addr.(*ssa.FieldAddr)
			if !ok {
				continue
			}
			n := namedOf(fa.X.Type())
			if n == nil || n.Obj().Name() != "btreeCache" {
				continue
			}
			if _, isNew := fa.X.(*ssa.Alloc); isNew {
				continue // composite literal in the constructor
			}
			mutable[fieldName(fa)] = true
		}
		// a map or slice held in a field changes without the field being assigned: element updates through a load of it
		for _, in := range instrs(fn) {
			var container ssa.Value
			switch x := in.(type) {
			case *ssa.MapUpdate:
				container = x.Map
			case *ssa.Store:
				if ia, ok := x.Addr.(*ssa.IndexAddr); ok {
					container = ia.X
				}
			}
			if ld, ok := container.(*ssa.UnOp); ok && ld.Op == token.MUL {
				if fa, ok := ld.X.(*ssa.FieldAddr); ok {
					if n := namedOf(fa.X.Type()); n != nil && n.Obj().Name() == "btreeCache" {
						mutable[fieldName(fa)] = true
					}
				}
			}
		}
	}
	for f := range reads {
		key := "btreeCache." + f
		// synchronisation fields are not cached state
		var ft types.Type
		if st, ok := get.Params[0].Type().Underlying().(*types.Pointer).Elem().Underlying().(*types.Struct); ok {
			for i := 0; i < st.NumFields(); i++ {
				if fieldVarName(st.Field(i)) == f {
					ft = st.Field(i).Type()
				}
			}
		}
		if ft != nil && strings.HasPrefix(ft.String(), "sync.") {
			continue
		}
		switch {
		case !mutable[f]:
			c.Trivial(key, get.Pos(), "read by get, never written after construction")
		case cleared[f]:
			c.Pass(key, clr.Pos(), "read by get, written by set, reset by clear")
		default:
			c.Fail(key, clr.Pos(), "get() consults btreeCache.%s, which changes over time but is not reset by clear(): pages parsed before another connection's commit survive the invalidation and are served in later transactions", f)
		}
	}
	// the schema cache is dropped as a whole: the store in resolveDirty is of nil to Database.objectCache (TXN-3 checks when)
	if rd := p.Func("db", "(*Database).resolveDirty"); rd != nil {
		ok := false
		for _, in := range instrs(rd) {
			if s, isS := in.(*ssa.Store); isS && fieldName(s.Addr) == "objectCache" && isNilConst(s.Val) {
				ok = true
			}
		}
		c.Check(ok, "objectCache dropped", rd.Pos(), "the cached sqlite_master is dropped as a whole")
	}
}
