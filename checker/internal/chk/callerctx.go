package chk

import (
	"go/types"
	"strings"
	"sync"

	"golang.org/x/tools/go/ssa"
)

// Parameters that the confirmed signature of a function does not have (a refactor hoisted a computation into the callers
// and hands the result down: `parseIndexLeaf(c, pageSize, maxLocal)`). A rule that reads the function's body in terms
// of its confirmed parameters sees such a parameter as what every caller passes for it, written over the callee's own
// parameters where the caller passes the same value for them (so `indexMaxLocal(pageSize)` at the call site
// `parseIndexLeaf(content[start:], pageSize, indexMaxLocal(pageSize))` reads ((p:pageSize−12)·64/255)−23 inside the
// callee). All call sites have to agree; otherwise the parameter stays a parameter.

// splitTopLevel splits "a, func(b, c), d" at top-level commas.
func splitTopLevel(s string) []string {
	var out []string
	depth, start := 0, 0
	for i, r := range s {
		switch r {
		case '(', '[', '{':
			depth++
		case ')', ']', '}':
			depth--
		case ',':
			if depth == 0 {
				out = append(out, strings.TrimSpace(s[start:i]))
				start = i + 1
			}
		}
	}
	if strings.TrimSpace(s[start:]) != "" {
		out = append(out, strings.TrimSpace(s[start:]))
	}
	return out
}

func knownParamTypes(sig string) []string {
	if !strings.HasPrefix(sig, "(") {
		return nil
	}
	depth := 0
	for i, r := range sig {
		switch r {
		case '(':
			depth++
		case ')':
			depth--
			if depth == 0 {
				return splitTopLevel(strings.TrimSuffix(sig[1:i], "..."))
			}
		}
	}
	return nil
}

// ExtraParams: the parameters of fn that its confirmed signature does not have (greedy in-order matching of the types).
var extraParamCache sync.Map // *ssa.Function → map[*ssa.Parameter]bool

func (p *Program) ExtraParams(fn *ssa.Function) map[*ssa.Parameter]bool {
	if fn == nil || fn.Parent() != nil || fn.Signature == nil {
		return nil
	}
	if m, ok := extraParamCache.Load(fn); ok {
		return m.(map[*ssa.Parameter]bool)
	}
	m := p.extraParams(fn)
	extraParamCache.Store(fn, m)
	return m
}

func (p *Program) extraParams(fn *ssa.Function) map[*ssa.Parameter]bool {
	known, ok := knownFuncs[p.FnKey(fn)]
	if !ok || known == SigString(fn) {
		return nil
	}
	kt := knownParamTypes(known)
	prms := fn.Params
	if fn.Signature.Recv() != nil && len(prms) > 0 {
		prms = prms[1:]
	}
	if len(prms) <= len(kt) {
		return nil
	}
	out := map[*ssa.Parameter]bool{}
	j := 0
	for _, prm := range prms {
		if j < len(kt) && types.TypeString(prm.Type(), nil) == kt[j] {
			j++
			continue
		}
		out[prm] = true
	}
	if j != len(kt) {
		return nil // not an extension of the confirmed signature
	}
	return out
}

type extraSite struct {
	call  ssa.CallInstruction
	arg   ssa.Value
	subst map[ssa.Value]*ssa.Parameter
}

// extraParamSites: the static call sites of prm's function with the argument passed for prm and the map from the other
// arguments to the callee's parameters. ok is false when some use of the function is not a plain static call.
func (p *Program) extraParamSites(prm *ssa.Parameter) ([]extraSite, bool) {
	fn := prm.Parent()
	if !p.ExtraParams(fn)[prm] {
		return nil, false
	}
	idx := -1
	for i, q := range fn.Params {
		if q == prm {
			idx = i
		}
	}
	var out []extraSite
	for _, caller := range p.ModFuncs() {
		for _, b := range caller.Blocks {
			for _, in := range b.Instrs {
				// any other use of the function value (stored, passed on) defeats the argument
				if cs, ok := in.(ssa.CallInstruction); ok && cs.Common().StaticCallee() == fn {
					if _, isCall := in.(*ssa.Call); !isCall || len(cs.Common().Args) != len(fn.Params) {
						return nil, false
					}
					s := extraSite{call: cs, arg: cs.Common().Args[idx], subst: map[ssa.Value]*ssa.Parameter{}}
					for k, a := range cs.Common().Args {
						if k != idx && !p.ExtraParams(fn)[fn.Params[k]] {
							s.subst[a] = fn.Params[k]
						}
					}
					out = append(out, s)
					continue
				}
				for _, op := range in.Operands(nil) {
					if op != nil && *op == ssa.Value(fn) {
						return nil, false
					}
				}
			}
		}
	}
	return out, len(out) > 0
}

// pureHelperResult: a call to a freshly extracted one-block arithmetic helper — its returned value and the binding of
// its parameters.
func pureHelperResult(call *ssa.Call) (ssa.Value, map[*ssa.Parameter]ssa.Value, bool) {
	f := call.Call.StaticCallee()
	if f == nil || inlinable == nil || !inlinable(f) || len(f.Blocks) != 1 || len(f.FreeVars) != 0 || len(call.Call.Args) != len(f.Params) {
		return nil, nil, false
	}
	var ret *ssa.Return
	for _, in := range f.Blocks[0].Instrs {
		switch x := in.(type) {
		case *ssa.BinOp, *ssa.Convert, *ssa.ChangeType, *ssa.DebugRef:
		case *ssa.UnOp:
			if x.Op.String() == "*" || x.Op.String() == "<-" {
				return nil, nil, false
			}
		case *ssa.Return:
			ret = x
		default:
			return nil, nil, false
		}
	}
	if ret == nil || len(ret.Results) != 1 {
		return nil, nil, false
	}
	bind := map[*ssa.Parameter]ssa.Value{}
	for i, prm := range f.Params {
		bind[prm] = call.Call.Args[i]
	}
	return ret.Results[0], bind, true
}

// extraParamTerm names an extra parameter after what every call site passes for it (see the head of this file).
func (t *Termer) extraParamTerm(prm *ssa.Parameter) (string, bool) {
	if t.P == nil {
		return "", false
	}
	sites, ok := t.P.extraParamSites(prm)
	if !ok {
		return "", false
	}
	res := ""
	for i, s := range sites {
		t2 := &Termer{P: t.P}
		t2.Custom = func(v ssa.Value, ps *pathState) (string, bool) {
			if q, ok := s.subst[v]; ok {
				return "p:" + q.Name(), true
			}
			return "", false
		}
		got := t2.Term(s.arg, emptyPS())
		if i > 0 && got != res {
			return "", false
		}
		res = got
	}
	return res, true
}

// extraParamExpr is extraParamTerm for the expression form: the callee's parameters keep the names cx gives them.
func (c *exprCtx) extraParamExpr(prm *ssa.Parameter) (*sx, bool) {
	if c.p == nil {
		return nil, false
	}
	sites, ok := c.p.extraParamSites(prm)
	if !ok {
		return nil, false
	}
	var res *sx
	for i, s := range sites {
		c2 := &exprCtx{p: c.p, keepConv: c.keepConv, inline: c.inline}
		c2.name = func(v ssa.Value) (string, bool) {
			if q, ok := s.subst[v]; ok {
				if c.name != nil {
					if nm, ok := c.name(q); ok {
						return nm, true
					}
				}
				return "p:" + q.Name(), true
			}
			return "", false
		}
		got := c2.of(s.arg)
		if i > 0 && got.String() != res.String() {
			return nil, false
		}
		res = got
	}
	return res, true
}

// ---- package-level constant tables ---------------------------------------------------------------------------------

// constTable: a package-level array of integers that is filled with constants by the package initialiser and never
// written afterwards (`var serialWidth = [...]int{1: 1, 2: 2, …}`), as index → value (absent = 0) with its length.
type constTab struct {
	vals map[int64]int64
	n    int64
}

var constTabCache sync.Map // *ssa.Global → *constTab (nil when not a constant table)

func (p *Program) constTable(g *ssa.Global) *constTab {
	if v, ok := constTabCache.Load(g); ok {
		ct, _ := v.(*constTab)
		return ct
	}
	ct := p.constTable1(g)
	if ct == nil {
		constTabCache.Store(g, (*constTab)(nil))
	} else {
		constTabCache.Store(g, ct)
	}
	return ct
}

func (p *Program) constTable1(g *ssa.Global) *constTab {
	pt, ok := g.Type().Underlying().(*types.Pointer)
	if !ok || g.Pkg == nil {
		return nil
	}
	arr, ok := pt.Elem().Underlying().(*types.Array)
	if !ok {
		return nil
	}
	if b, ok := arr.Elem().Underlying().(*types.Basic); !ok || b.Info()&types.IsInteger == 0 {
		return nil
	}
	ct := &constTab{vals: map[int64]int64{}, n: arr.Len()}
	var fns []*ssa.Function
	for _, m := range g.Pkg.Members {
		if f, ok := m.(*ssa.Function); ok {
			fns = append(fns, f)
		}
	}
	for _, f := range p.ModFuncs() {
		if f.Pkg == g.Pkg {
			fns = append(fns, f)
		}
	}
	seenFn := map[*ssa.Function]bool{}
	var visit func(f *ssa.Function) bool
	visit = func(f *ssa.Function) bool {
		if seenFn[f] {
			return true
		}
		seenFn[f] = true
		isInit := f.Name() == "init" && f.Parent() == nil
		for _, b := range f.Blocks {
			for _, in := range b.Instrs {
				uses := false
				for _, op := range in.Operands(nil) {
					if op != nil && *op == ssa.Value(g) {
						uses = true
					}
				}
				if !uses {
					continue
				}
				switch x := in.(type) {
				case *ssa.IndexAddr:
					for _, r := range *x.Referrers() {
						switch y := r.(type) {
						case *ssa.UnOp: // load
						case *ssa.DebugRef:
						case *ssa.Store:
							k, ok1 := constInt(x.Index)
							v, ok2 := constInt(y.Val)
							if !isInit || y.Addr != ssa.Value(x) || !ok1 || !ok2 {
								return false
							}
							if _, dup := ct.vals[k]; dup {
								return false
							}
							ct.vals[k] = v
						default:
							return false
						}
					}
				case *ssa.UnOp, *ssa.DebugRef: // load of the whole array
				default:
					return false
				}
			}
		}
		for _, af := range f.AnonFuncs {
			if !visit(af) {
				return false
			}
		}
		return true
	}
	for _, f := range fns {
		if !visit(f) {
			return nil
		}
	}
	return ct
}

// constTableLoad: v is `g[idx]` on a constant table.
func (p *Program) constTableLoad(v ssa.Value) (*constTab, ssa.Value, bool) {
	u, ok := v.(*ssa.UnOp)
	if !ok || u.Op.String() != "*" {
		return nil, nil, false
	}
	ia, ok := u.X.(*ssa.IndexAddr)
	if !ok {
		return nil, nil, false
	}
	if al, isLocal := ia.X.(*ssa.Alloc); isLocal {
		// a local table of integer constants written once where it is declared (`w := [8]int{0, 1, 2, 3, 4, 6, 8, 8}`)
		if ct := localConstTable(al); ct != nil {
			return ct, ia.Index, true
		}
		return nil, nil, false
	}
	g, ok := ia.X.(*ssa.Global)
	if !ok || p == nil {
		return nil, nil, false
	}
	ct := p.constTable(g)
	if ct == nil {
		return nil, nil, false
	}
	return ct, ia.Index, true
}

// ParamMap: position in fn.Params under the confirmed signature → position now, when the signature changed and
// the k-th parameter of each type can be told apart (nil when the signature is the confirmed one or cannot be matched).
func (p *Program) ParamMap(fn *ssa.Function) map[int]int {
	if fn == nil || fn.Parent() != nil || fn.Signature == nil {
		return nil
	}
	known, ok := knownFuncs[p.FnKey(fn)]
	if !ok || known == SigString(fn) {
		return nil
	}
	kt := knownParamTypes(known)
	off := 0
	if fn.Signature.Recv() != nil {
		off = 1
	}
	cur := map[string][]int{}
	for i := off; i < len(fn.Params); i++ {
		ts := types.TypeString(fn.Params[i].Type(), nil)
		cur[ts] = append(cur[ts], i)
	}
	out := map[int]int{}
	cnt := map[string]int{}
	for i, ts := range kt {
		k := cnt[ts]
		cnt[ts]++
		if k >= len(cur[ts]) {
			return nil
		}
		out[i+off] = cur[ts][k]
	}
	if off == 1 {
		out[0] = 0
	}
	return out
}

// KnownParam: the parameter of fn that is at position i (in fn.Params terms) of its confirmed signature.
func (p *Program) KnownParam(fn *ssa.Function, i int) *ssa.Parameter {
	if m := p.ParamMap(fn); m != nil {
		if j, ok := m[i]; ok {
			i = j
		}
	}
	if i < 0 || i >= len(fn.Params) {
		return nil
	}
	return fn.Params[i]
}

// strTab: the lengths of the elements of a package-level list of string constants (`var longOperators = []string{"||",
// ">=", …}`) that the package initialiser fills and nothing writes afterwards.
type strTab struct {
	minLen, maxLen int64
	n              int64
	vals           map[int64]string // element values by index (arrays and slices alike)
}

var strTabCache sync.Map

func (p *Program) strTable(g *ssa.Global) *strTab {
	if v, ok := strTabCache.Load(g); ok {
		st, _ := v.(*strTab)
		return st
	}
	st := p.strTable1(g)
	strTabCache.Store(g, st)
	return st
}

func (p *Program) strTable1(g *ssa.Global) *strTab {
	pt, ok := g.Type().Underlying().(*types.Pointer)
	if !ok || g.Pkg == nil {
		return nil
	}
	var elem types.Type
	isSlice := false
	switch u := pt.Elem().Underlying().(type) {
	case *types.Array:
		elem = u.Elem()
	case *types.Slice:
		elem, isSlice = u.Elem(), true
	default:
		return nil
	}
	if b, ok := elem.Underlying().(*types.Basic); !ok || b.Kind() != types.String {
		return nil
	}
	st := &strTab{minLen: -1, vals: map[int64]string{}}
	var noteIdx ssa.Value
	note := func(v ssa.Value) bool {
		s, ok := constString(v)
		if !ok {
			return false
		}
		if k, ok := constInt(noteIdx); ok {
			st.vals[k] = s
		}
		n := int64(len(s))
		if st.minLen < 0 || n < st.minLen {
			st.minLen = n
		}
		if n > st.maxLen {
			st.maxLen = n
		}
		st.n++
		return true
	}
	// element stores of the initialiser: into the global array itself, or into the backing array of the one slice stored
	readOnlyUses := func(v ssa.Value) bool { // v: a loaded slice or an array address; only element reads
		for _, r := range *v.Referrers() {
			switch y := r.(type) {
			case *ssa.IndexAddr:
				for _, r2 := range *y.Referrers() {
					switch r2.(type) {
					case *ssa.UnOp, *ssa.DebugRef:
					default:
						return false
					}
				}
			case *ssa.Index, *ssa.Range, *ssa.DebugRef:
			case *ssa.Call:
				if bi, ok := y.Call.Value.(*ssa.Builtin); !ok || (bi.Name() != "len" && bi.Name() != "cap") {
					return false
				}
			default:
				return false
			}
		}
		return true
	}
	var fns []*ssa.Function
	for _, m := range g.Pkg.Members {
		if f, ok := m.(*ssa.Function); ok {
			fns = append(fns, f)
		}
	}
	stores := 0
	seenFn := map[*ssa.Function]bool{}
	var visit func(f *ssa.Function) bool
	visit = func(f *ssa.Function) bool {
		if seenFn[f] {
			return true
		}
		seenFn[f] = true
		isInit := f.Name() == "init" && f.Parent() == nil
		for _, b := range f.Blocks {
			for _, in := range b.Instrs {
				uses := false
				for _, op := range in.Operands(nil) {
					if op != nil && *op == ssa.Value(g) {
						uses = true
					}
				}
				if !uses {
					continue
				}
				switch x := in.(type) {
				case *ssa.Store:
					// the one initialising store of a slice: `*g = slice(new [n]string)[:]` with constant elements
					if !isInit || !isSlice || x.Addr != ssa.Value(g) {
						return false
					}
					sl, ok := x.Val.(*ssa.Slice)
					if !ok || sl.Low != nil || sl.High != nil {
						return false
					}
					al, ok := sl.X.(*ssa.Alloc)
					if !ok {
						return false
					}
					for _, r := range *al.Referrers() {
						switch y := r.(type) {
						case *ssa.Slice:
							if y != sl {
								return false
							}
						case *ssa.IndexAddr:
							for _, r2 := range *y.Referrers() {
								s2, ok := r2.(*ssa.Store)
								noteIdx = y.Index
								if !ok || s2.Addr != ssa.Value(y) || !note(s2.Val) {
									return false
								}
							}
						case *ssa.DebugRef:
						default:
							return false
						}
					}
					if arr, ok := al.Type().Underlying().(*types.Pointer).Elem().Underlying().(*types.Array); !ok || arr.Len() != st.n {
						return false // an element left at ""
					}
					stores++
				case *ssa.UnOp:
					// a load of the slice (or the whole array): element reads only
					if isSlice && !readOnlyUses(x) {
						return false
					}
				case *ssa.IndexAddr:
					if isSlice {
						return false
					}
					for _, r := range *x.Referrers() {
						switch y := r.(type) {
						case *ssa.UnOp, *ssa.DebugRef:
						case *ssa.Store:
							noteIdx = x.Index
							if !isInit || y.Addr != ssa.Value(x) || !note(y.Val) {
								return false
							}
						default:
							return false
						}
					}
				case *ssa.DebugRef:
				default:
					return false
				}
			}
		}
		for _, af := range f.AnonFuncs {
			if !visit(af) {
				return false
			}
		}
		return true
	}
	for _, f := range fns {
		if !visit(f) {
			return nil
		}
	}
	if isSlice && stores != 1 {
		return nil
	}
	if !isSlice {
		if arr := pt.Elem().Underlying().(*types.Array); arr.Len() != st.n {
			return nil
		}
	}
	if st.n == 0 {
		return nil
	}
	return st
}

// strTableElem: v is an element read of a constant string list.
func (p *Program) strTableElem(v ssa.Value) *strTab {
	u, ok := v.(*ssa.UnOp)
	if !ok || u.Op.String() != "*" || p == nil {
		return nil
	}
	ia, ok := u.X.(*ssa.IndexAddr)
	if !ok {
		return nil
	}
	switch b := ia.X.(type) {
	case *ssa.Global:
		return p.strTable(b)
	case *ssa.UnOp:
		if g, ok := b.X.(*ssa.Global); ok && b.Op.String() == "*" {
			return p.strTable(g)
		}
	}
	return nil
}

// localConstTable: al is a local array of integers whose elements are all constants stored once, with constant indices,
// in the block that declares it (see literalElem); elements never stored are zero.
func localConstTable(al *ssa.Alloc) *constTab {
	pt, ok := al.Type().Underlying().(*types.Pointer)
	if !ok {
		return nil
	}
	arr, ok := pt.Elem().Underlying().(*types.Array)
	if !ok || arr.Len() > 64 {
		return nil
	}
	if b, ok := arr.Elem().Underlying().(*types.Basic); !ok || b.Info()&types.IsInteger == 0 {
		return nil
	}
	ct := &constTab{vals: map[int64]int64{}, n: arr.Len()}
	stored := 0
	for _, r := range *al.Referrers() {
		ia, ok := r.(*ssa.IndexAddr)
		if !ok {
			switch r.(type) {
			case *ssa.DebugRef:
				continue
			}
			return nil
		}
		for _, r2 := range *ia.Referrers() {
			st, isSt := r2.(*ssa.Store)
			if !isSt {
				if _, isLd := r2.(*ssa.UnOp); isLd {
					continue
				}
				if _, isDbg := r2.(*ssa.DebugRef); isDbg {
					continue
				}
				return nil
			}
			k, isK := constInt(ia.Index)
			v, isV := constInt(st.Val)
			if !isK || !isV || st.Addr != ssa.Value(ia) || st.Block() != al.Block() {
				return nil
			}
			if _, dup := ct.vals[k]; dup {
				return nil
			}
			ct.vals[k] = v
			stored++
		}
	}
	if stored == 0 {
		return nil
	}
	for k := int64(0); k < ct.n; k++ {
		if _, ok := ct.vals[k]; !ok {
			ct.vals[k] = 0
		}
	}
	return ct
}
