package chk

import (
	"fmt"
	"go/ast"
	"go/constant"
	"go/token"
	"os"
	"path/filepath"
	"sort"
	"strings"
	"unicode"

	"golang.org/x/tools/go/ssa"
)

func gramRules() []*Rule {
	return []*Rule{
		{ID: "GRAM-0", Props: []string{"C16", "C10", "C05"}, Min: 100,
			Doc: "the grammar file and the compiled parser agree: number of productions, every right-hand-side length (yyR2), left-hand sides (yyR1); every yyDollar[k] has 1 ≤ k ≤ yyR2[n] and the yyDollar window has exactly yyR2[n]+1 slots",
			Run: runGram0},
		{ID: "GRAM-1", Props: []string{"C16", "C10"}, Min: 90,
			Doc: "every semantic value read in an action is defined by the production it belongs to: tokens carry lexer-set fields, non-terminals assign the field in every production (or inherit it from their first symbol); an empty production without an assignment yields whatever the stack slot last held",
			Run: runGram1},
		{ID: "GRAM-3", Props: []string{"C16", "C20"}, Min: 3,
			Doc: "sql.Parse builds a fresh lexer and a fresh parser (stack included) for every call",
			Run: runGram3},
	}
}

type yProd struct {
	N    int
	LHS  string
	RHS  []string
	Line int
}

type yGrammar struct {
	Prods  []yProd           // index = production number (0 = $accept)
	Types  map[string]string // non-terminal / token → union field
	Tokens map[string]bool
	Start  string
}

// parseYacc reads the shape of a goyacc grammar: declarations, rules, alternatives (actions are skipped by brace
// matching; their content is taken from the compiled parser.go instead).
func parseYacc(src string) (*yGrammar, error) {
	parts := strings.SplitN(src, "\n%%", 3)
	if len(parts) < 2 {
		return nil, fmt.Errorf("no %%%% separator")
	}
	g := &yGrammar{Types: map[string]string{}, Tokens: map[string]bool{}}
	decl := parts[0]
	// strip %{ ... %} and %union { ... }
	if i := strings.Index(decl, "%{"); i >= 0 {
		if j := strings.Index(decl, "%}"); j > i {
			decl = decl[:i] + decl[j+2:]
		}
	}
	if i := strings.Index(decl, "%union"); i >= 0 {
		depth, j := 0, i
		for ; j < len(decl); j++ {
			if decl[j] == '{' {
				depth++
			}
			if decl[j] == '}' {
				depth--
				if depth == 0 {
					break
				}
			}
		}
		decl = decl[:i] + decl[j+1:]
	}
	for _, line := range strings.Split(decl, "\n") {
		line = strings.TrimSpace(line)
		for _, kw := range []string{"%type", "%token", "%left", "%right", "%nonassoc"} {
			if !strings.HasPrefix(line, kw) {
				continue
			}
			rest := strings.TrimSpace(line[len(kw):])
			field := ""
			if strings.HasPrefix(rest, "<") {
				k := strings.Index(rest, ">")
				field = rest[1:k]
				rest = rest[k+1:]
			}
			for _, name := range strings.Fields(rest) {
				if kw != "%type" {
					g.Tokens[name] = true
				}
				if field != "" {
					g.Types[name] = field
				}
			}
		}
		if strings.HasPrefix(line, "%start") {
			g.Start = strings.TrimSpace(line[6:])
		}
	}
	rules := parts[1]
	// tokenise the rules section
	type tok struct {
		s    string
		line int
	}
	var toks []tok
	line := strings.Count(parts[0], "\n") + 2
	i := 0
	for i < len(rules) {
		ch := rules[i]
		switch {
		case ch == '\n':
			line++
			i++
		case ch == ' ' || ch == '\t' || ch == '\r':
			i++
		case ch == '/' && i+1 < len(rules) && rules[i+1] == '/':
			for i < len(rules) && rules[i] != '\n' {
				i++
			}
		case ch == '/' && i+1 < len(rules) && rules[i+1] == '*':
			j := strings.Index(rules[i+2:], "*/")
			if j < 0 {
				return nil, fmt.Errorf("unterminated comment")
			}
			line += strings.Count(rules[i:i+2+j+2], "\n")
			i += 2 + j + 2
		case ch == '{':
			depth, j := 0, i
			for ; j < len(rules); j++ {
				c := rules[j]
				if c == '\n' {
					line++
				}
				if c == '\'' && j+2 < len(rules) && rules[j+2] == '\'' {
					j += 2
					continue
				}
				if c == '"' {
					for j++; j < len(rules) && rules[j] != '"'; j++ {
						if rules[j] == '\\' {
							j++
						}
					}
					continue
				}
				if c == '{' {
					depth++
				}
				if c == '}' {
					depth--
					if depth == 0 {
						break
					}
				}
			}
			toks = append(toks, tok{"{}", line})
			i = j + 1
		case ch == '\'':
			j := i + 1
			for j < len(rules) && rules[j] != '\'' {
				if rules[j] == '\\' {
					j++
				}
				j++
			}
			toks = append(toks, tok{rules[i : j+1], line})
			i = j + 1
		case ch == ':' || ch == '|' || ch == ';':
			toks = append(toks, tok{string(ch), line})
			i++
		case unicode.IsLetter(rune(ch)) || ch == '_' || ch == '$':
			j := i
			for j < len(rules) && (unicode.IsLetter(rune(rules[j])) || unicode.IsDigit(rune(rules[j])) || rules[j] == '_' || rules[j] == '$') {
				j++
			}
			toks = append(toks, tok{rules[i:j], line})
			i = j
		case ch == '%':
			// %prec NAME
			j := i + 1
			for j < len(rules) && unicode.IsLetter(rune(rules[j])) {
				j++
			}
			toks = append(toks, tok{rules[i:j], line})
			i = j
		default:
			return nil, fmt.Errorf("unexpected character %q in the rules section (line %d)", ch, line)
		}
	}
	g.Prods = append(g.Prods, yProd{N: 0, LHS: "$accept"})
	cur := ""
	var rhs []string
	open := false
	flush := func(ln int) {
		if open {
			g.Prods = append(g.Prods, yProd{N: len(g.Prods), LHS: cur, RHS: rhs, Line: ln})
		}
		rhs = nil
	}
	lastLine := 0
	for k := 0; k < len(toks); k++ {
		tk := toks[k]
		// a rule head: IDENT ':'
		if k+1 < len(toks) && toks[k+1].s == ":" && tk.s != "{}" && tk.s != "|" {
			flush(lastLine)
			cur = tk.s
			open = true
			if g.Start == "" {
				g.Start = cur
			}
			k++
			lastLine = tk.line
			continue
		}
		switch tk.s {
		case "|":
			flush(lastLine)
			open = true
			lastLine = tk.line
		case ";":
			flush(lastLine)
			open = false
		case "{}":
			// trailing action; mid-rule actions are not used in this grammar
			if k+1 < len(toks) && toks[k+1].s != "|" && toks[k+1].s != ";" && !(k+2 < len(toks) && toks[k+2].s == ":") {
				return nil, fmt.Errorf("mid-rule action near line %d is not supported", tk.line)
			}
		case "%prec":
			k++
		default:
			rhs = append(rhs, tk.s)
			lastLine = tk.line
		}
	}
	flush(lastLine)
	g.Prods[0].RHS = []string{g.Start, "$end"}
	return g, nil
}

// compiledParser holds what the compiled parser.go says.
type compiledParser struct {
	R1, R2    []int64
	Assigns   map[int]map[string]bool // production → yyVAL fields assigned
	Reads     map[int][]dollarRead
	Windows   map[int][2]string // production → (low expr, high expr) of the yyDollar slice
	CasePos   map[int]token.Pos
	FuncCalls map[int][]string // production → functions (not type conversions, not builtins) called by its action
}

type dollarRead struct {
	K     int64
	Field string
	Pos   token.Pos
}

func intArrayLit(pk *ast.File, info func(ast.Expr) (constant.Value, bool), name string) ([]int64, bool) {
	for _, d := range pk.Decls {
		gd, ok := d.(*ast.GenDecl)
		if !ok || gd.Tok != token.VAR {
			continue
		}
		for _, sp := range gd.Specs {
			vs := sp.(*ast.ValueSpec)
			for i, n := range vs.Names {
				if n.Name != name || i >= len(vs.Values) {
					continue
				}
				cl, ok := vs.Values[i].(*ast.CompositeLit)
				if !ok {
					return nil, false
				}
				var out []int64
				for _, e := range cl.Elts {
					v, ok := info(e)
					if !ok {
						return nil, false
					}
					n, ok := constant.Int64Val(v)
					if !ok {
						return nil, false
					}
					out = append(out, n)
				}
				return out, true
			}
		}
	}
	return nil, false
}

func loadCompiledParser(p *Program) (*compiledParser, string) {
	pk := p.ByPath[modPkgPath("sql")]
	if pk == nil {
		return nil, "package sql not loaded"
	}
	info := func(e ast.Expr) (constant.Value, bool) {
		tv, ok := pk.TypesInfo.Types[e]
		if !ok || tv.Value == nil {
			return nil, false
		}
		return tv.Value, true
	}
	cp := &compiledParser{Assigns: map[int]map[string]bool{}, Reads: map[int][]dollarRead{}, Windows: map[int][2]string{}, CasePos: map[int]token.Pos{}, FuncCalls: map[int][]string{}}
	var parseFn *ast.FuncDecl
	for _, f := range pk.Syntax {
		if r1, ok := intArrayLit(f, info, "yyR1"); ok {
			cp.R1 = r1
		}
		if r2, ok := intArrayLit(f, info, "yyR2"); ok {
			cp.R2 = r2
		}
		for _, d := range f.Decls {
			if fd, ok := d.(*ast.FuncDecl); ok && fd.Name.Name == "Parse" && fd.Recv != nil {
				parseFn = fd
			}
		}
	}
	if cp.R1 == nil || cp.R2 == nil || parseFn == nil {
		return nil, "yyR1/yyR2 tables or (*yyParserImpl).Parse not found in package sql"
	}
	var sw *ast.SwitchStmt
	ast.Inspect(parseFn.Body, func(n ast.Node) bool {
		if s, ok := n.(*ast.SwitchStmt); ok {
			if id, ok := s.Tag.(*ast.Ident); ok && id.Name == "yynt" {
				sw = s
			}
		}
		return true
	})
	if sw == nil {
		return nil, "semantic-action switch (switch yynt) not found"
	}
	for _, st := range sw.Body.List {
		cc := st.(*ast.CaseClause)
		for _, e := range cc.List {
			v, ok := info(e)
			if !ok {
				return nil, "non-constant case label in the action switch"
			}
			n64, _ := constant.Int64Val(v)
			n := int(n64)
			cp.CasePos[n] = cc.Pos()
			if cp.Assigns[n] == nil {
				cp.Assigns[n] = map[string]bool{}
			}
			for _, s := range cc.Body {
				ast.Inspect(s, func(nd ast.Node) bool {
					switch x := nd.(type) {
					case *ast.AssignStmt:
						for _, l := range x.Lhs {
							if se, ok := l.(*ast.SelectorExpr); ok {
								if id, ok := se.X.(*ast.Ident); ok && id.Name == "yyVAL" {
									cp.Assigns[n][se.Sel.Name] = true
								}
							}
							if id, ok := l.(*ast.Ident); ok && id.Name == "yyVAL" {
								cp.Assigns[n]["*"] = true
							}
							if id, ok := l.(*ast.Ident); ok && id.Name == "yyDollar" && len(x.Rhs) == 1 {
								if sl, ok := x.Rhs[0].(*ast.SliceExpr); ok {
									cp.Windows[n] = [2]string{exprStr(sl.Low), exprStr(sl.High)}
								}
							}
						}
					case *ast.CallExpr:
						if tv, ok := pk.TypesInfo.Types[x.Fun]; ok && !tv.IsType() && !tv.IsBuiltin() {
							cp.FuncCalls[n] = append(cp.FuncCalls[n], exprStr(x.Fun))
						}
					case *ast.SelectorExpr:
						if ie, ok := x.X.(*ast.IndexExpr); ok {
							if id, ok := ie.X.(*ast.Ident); ok && id.Name == "yyDollar" {
								if v, ok := info(ie.Index); ok {
									k, _ := constant.Int64Val(v)
									cp.Reads[n] = append(cp.Reads[n], dollarRead{k, x.Sel.Name, x.Pos()})
								} else {
									cp.Reads[n] = append(cp.Reads[n], dollarRead{-1, x.Sel.Name, x.Pos()})
								}
							}
						}
					}
					return true
				})
			}
		}
	}
	return cp, ""
}

func exprStr(e ast.Expr) string {
	switch x := e.(type) {
	case nil:
		return ""
	case *ast.Ident:
		return x.Name
	case *ast.BasicLit:
		return x.Value
	case *ast.BinaryExpr:
		return exprStr(x.X) + x.Op.String() + exprStr(x.Y)
	case *ast.ParenExpr:
		return exprStr(x.X)
	}
	return "?"
}

func loadGrammar(p *Program) (*yGrammar, string) {
	b, err := os.ReadFile(filepath.Join(p.Repo, "sql", "parser.go.y"))
	if err != nil {
		return nil, "cannot read sql/parser.go.y: " + err.Error()
	}
	g, err := parseYacc(string(b))
	if err != nil {
		return nil, "sql/parser.go.y: " + err.Error()
	}
	return g, ""
}

func runGram0(c *Ctx) {
	p := c.P
	g, why := loadGrammar(p)
	if g == nil {
		c.Undecided("grammar", token.NoPos, "%s", why)
		return
	}
	cp, why := loadCompiledParser(p)
	if cp == nil {
		c.Undecided("compiled parser", token.NoPos, "%s", why)
		return
	}
	if len(cp.R2) != len(g.Prods) || len(cp.R1) != len(g.Prods) {
		c.Undecided("production count", token.NoPos, "sql/parser.go.y has %d productions, the compiled tables have %d: parser.go was not regenerated from this grammar (or edited by hand)", len(g.Prods)-1, len(cp.R2)-1)
		return
	}
	lhsCode := map[string]int64{}
	for n := 1; n < len(g.Prods); n++ {
		pr := g.Prods[n]
		key := fmt.Sprintf("production %d (%s)", n, pr.LHS)
		ok := cp.R2[n] == int64(len(pr.RHS))
		if code, seen := lhsCode[pr.LHS]; seen {
			ok = ok && code == cp.R1[n]
		} else {
			for other, code := range lhsCode {
				if code == cp.R1[n] && other != pr.LHS {
					ok = false
				}
			}
			lhsCode[pr.LHS] = cp.R1[n]
		}
		if !ok {
			c.Undecided(key, cp.CasePos[n], "grammar says %s → %s (%d symbols); the compiled tables say length %d, lhs code %d: the two files are out of step", pr.LHS, strings.Join(pr.RHS, " "), len(pr.RHS), cp.R2[n], cp.R1[n])
			continue
		}
		// window and indices
		good := true
		if w, has := cp.Windows[n]; has {
			if w[0] != fmt.Sprintf("yypt-%d", len(pr.RHS)) || w[1] != "yypt+1" {
				good = false
				c.Fail(key+" window", cp.CasePos[n], "yyDollar is yyS[%s:%s]; a production with %d symbols needs yyS[yypt-%d:yypt+1]", w[0], w[1], len(pr.RHS), len(pr.RHS))
			}
		} else if len(cp.Reads[n]) > 0 {
			good = false
			c.Fail(key+" window", cp.CasePos[n], "the action reads yyDollar without setting it for this production")
		}
		for _, r := range cp.Reads[n] {
			if r.K < 1 || r.K > int64(len(pr.RHS)) {
				good = false
				c.Fail(key+" index", r.Pos, "action reads yyDollar[%d] but the production has %d symbols (index out of range at run time)", r.K, len(pr.RHS))
			}
		}
		if good {
			if len(cp.Reads[n]) > 0 {
				c.Pass(key, cp.CasePos[n], "length %d = yyR2, %d value reads all within 1..%d", len(pr.RHS), len(cp.Reads[n]), len(pr.RHS))
			} else {
				c.Trivial(key, cp.CasePos[n], "length %d = yyR2", len(pr.RHS))
			}
		}
	}
}

func runGram1(c *Ctx) {
	p := c.P
	g, why := loadGrammar(p)
	if g == nil {
		c.Undecided("grammar", token.NoPos, "%s", why)
		return
	}
	cp, why := loadCompiledParser(p)
	if cp == nil {
		c.Undecided("compiled parser", token.NoPos, "%s", why)
		return
	}
	if len(cp.R2) != len(g.Prods) {
		c.Undecided("production count", token.NoPos, "grammar and compiled parser are out of step (GRAM-0)")
		return
	}
	// lexer-set fields
	lexSet := map[string]bool{}
	if lex := p.Func("sql", "(*lexer).Lex"); lex != nil && len(lex.Params) == 2 {
		for _, in := range instrs(lex) {
			if s, ok := in.(*ssa.Store); ok {
				if fa, ok := s.Addr.(*ssa.FieldAddr); ok && fa.X == ssa.Value(lex.Params[1]) {
					lexSet[fieldName(fa)] = true
				}
			}
		}
	}
	if len(lexSet) == 0 {
		c.Undecided("lexer", token.NoPos, "cannot determine which yySymType fields (*lexer).Lex sets")
		return
	}
	prodsOf := map[string][]int{}
	for n := 1; n < len(g.Prods); n++ {
		prodsOf[g.Prods[n].LHS] = append(prodsOf[g.Prods[n].LHS], n)
	}
	isNT := func(s string) bool { return len(prodsOf[s]) > 0 }
	// provides(n, f): production n defines field f of its value
	memo := map[string]int{}
	var provides func(n int, f string) bool
	provides = func(n int, f string) bool {
		key := fmt.Sprintf("%d/%s", n, f)
		if v, ok := memo[key]; ok {
			return v == 1
		}
		memo[key] = 0 // cycle guard: assume no
		res := false
		pr := g.Prods[n]
		switch {
		case cp.Assigns[n][f] || cp.Assigns[n]["*"]:
			res = true
		case len(pr.RHS) == 0:
			res = false
		case len(cp.Assigns[n]) > 0 && false:
		default:
			// default action: $$ = $1
			first := pr.RHS[0]
			if isNT(first) {
				res = true
				for _, m := range prodsOf[first] {
					if !provides(m, f) {
						res = false
					}
				}
			} else {
				res = lexSet[f]
			}
			// a production with an explicit action that does not assign f still has yyVAL = yyS[yyp+1] copied first
		}
		if res {
			memo[key] = 1
		}
		return res
	}
	// reachability and left-of relation for harm classification
	derives := map[string]map[int]bool{} // symbol → productions derivable
	var closure func(sym string, acc map[int]bool)
	closure = func(sym string, acc map[int]bool) {
		for _, n := range prodsOf[sym] {
			if acc[n] {
				continue
			}
			acc[n] = true
			for _, s := range g.Prods[n].RHS {
				closure(s, acc)
			}
		}
	}
	for sym := range prodsOf {
		acc := map[int]bool{}
		closure(sym, acc)
		derives[sym] = acc
	}
	reach := map[int]bool{}
	closure(g.Start, reach)
	assigners := map[string][]int{} // field → productions assigning it
	for n, fs := range cp.Assigns {
		for f := range fs {
			assigners[f] = append(assigners[f], n)
		}
	}
	harmful := func(e int, f string) (string, bool) {
		for _, q := range assigners[f] {
			for n := range reach {
				rhs := g.Prods[n].RHS
				for i := 0; i < len(rhs); i++ {
					if !derives[rhs[i]][q] {
						continue
					}
					for jx := i + 1; jx < len(rhs); jx++ {
						if derives[rhs[jx]][e] {
							return fmt.Sprintf("production %d (%s → %s) assigns .%s and can be reduced before it within one statement (through %s → %s)", q, g.Prods[q].LHS, strings.Join(g.Prods[q].RHS, " "), f, g.Prods[n].LHS, strings.Join(rhs, " ")), true
						}
					}
				}
			}
		}
		return "", false
	}
	type failure struct {
		e int
		f string
	}
	reported := map[failure]bool{}
	var prods []int
	for n := range cp.Reads {
		prods = append(prods, n)
	}
	sort.Ints(prods)
	for _, n := range prods {
		pr := g.Prods[n]
		for _, r := range cp.Reads[n] {
			if r.K < 1 || int(r.K) > len(pr.RHS) {
				continue // GRAM-0
			}
			sym := pr.RHS[r.K-1]
			key := fmt.Sprintf("production %d (%s) $%d.%s", n, pr.LHS, r.K, r.Field)
			if !isNT(sym) {
				if g.Tokens[sym] || strings.HasPrefix(sym, "'") {
					c.Check(lexSet[r.Field], key, r.Pos, "token %s: field .%s is %s by the lexer for every token", sym, r.Field, map[bool]string{true: "set", false: "NOT set"}[lexSet[r.Field]])
				} else {
					c.Undecided(key, r.Pos, "symbol %s is neither a token nor a non-terminal of the grammar", sym)
				}
				continue
			}
			var bad []int
			for _, m := range prodsOf[sym] {
				if !provides(m, r.Field) {
					bad = append(bad, m)
				}
			}
			if len(bad) == 0 {
				c.Pass(key, r.Pos, "every production of %s defines .%s", sym, r.Field)
				continue
			}
			for _, m := range bad {
				// find the ε-production (or first-symbol chain) at fault
				culprit := m
				what := fmt.Sprintf("production %d (%s → %s) does not define .%s", culprit, g.Prods[culprit].LHS, orStr(strings.Join(g.Prods[culprit].RHS, " "), "ε"), r.Field)
				if witness, isHarm := harmful(culprit, r.Field); isHarm {
					c.Fail(key, r.Pos, "%s: goyacc's default action copies whatever the value-stack slot last held, and %s — the value reported for this element can come from a neighbouring element", what, witness)
				} else if !reported[failure{culprit, r.Field}] {
					c.Info(key, r.Pos, "latent: %s, but no production assigning .%s can be reduced before it in one statement; with a fresh parser per Parse (GRAM-3) the slot is zero", what, r.Field)
					c.Pass(key, r.Pos, "stale read is latent only (see information)")
				}
				reported[failure{culprit, r.Field}] = true
			}
		}
	}
}

func runGram3(c *Ctx) {
	p := c.P
	parse := c.MustFunc("sql", "Parse")
	if parse == nil {
		return
	}
	// fresh lexer: the value passed to yyParse is an Alloc of *lexer made in Parse
	var yyparse *ssa.Function
	okLexer := false
	for _, cs := range callsIn(parse) {
		callee := cs.Common().StaticCallee()
		if callee == nil || p.PkgShort(callee) != "sql" {
			continue
		}
		for _, a := range cs.Common().Args {
			if mi, ok := a.(*ssa.MakeInterface); ok {
				if al, ok := mi.X.(*ssa.Alloc); ok && al.Parent() == parse {
					okLexer = true
					yyparse = callee
				}
				// … or the result of a constructor that allocates on every call
				if call, ok := mi.X.(*ssa.Call); ok && call.Call.StaticCallee() != nil && p.InModule(call.Call.StaticCallee()) {
					ctor := call.Call.StaticCallee()
					rets := returnsOf(ctor)
					all := len(rets) > 0
					for _, r := range rets {
						al, isAl := stripConv(r.Results[0]).(*ssa.Alloc)
						if len(r.Results) != 1 || !isAl || !al.Heap {
							all = false
						}
					}
					if all {
						okLexer = true
						yyparse = callee
					}
				}
			}
		}
	}
	c.Check(okLexer, "Parse: fresh lexer", parse.Pos(), "Parse hands a lexer allocated in this call to the parser")
	if yyparse == nil {
		return
	}
	newp := p.Func("sql", "yyNewParser")
	if newp == nil {
		c.Undecided("anchor sql.yyNewParser", token.NoPos, "not found")
		return
	}
	// the parser object: result of yyNewParser called within the call tree of Parse, and yyNewParser allocates
	reach := p.NewReach(newp)
	c.Check(reach.Fn(yyparse), "Parse: fresh parser", yyparse.Pos(), "the parser entry point called by Parse creates its parser with yyNewParser on every call")
	fresh := false
	for _, r := range returnsOf(newp) {
		v := stripConv(r.Results[0])
		if al, ok := v.(*ssa.Alloc); ok && al.Heap {
			fresh = true
		}
	}
	c.Check(fresh, "yyNewParser allocates", newp.Pos(), "yyNewParser returns a newly allocated parser (value stack included)")
	// the receiver of the Parse method called inside yyParse is that fresh object
	okRecv := false
	for _, cs := range callsIn(yyparse) {
		if cs.Common().IsInvoke() && cs.Common().Method.Name() == "Parse" {
			if call, ok := cs.Common().Value.(*ssa.Call); ok && call.Call.StaticCallee() == newp {
				okRecv = true
			}
		}
		if callee := cs.Common().StaticCallee(); callee != nil && callee.Name() == "Parse" && len(cs.Common().Args) > 0 {
			if call, ok := stripConv(cs.Common().Args[0]).(*ssa.Call); ok && call.Call.StaticCallee() == newp {
				okRecv = true
			}
		}
	}
	c.Check(okRecv, "yyParse: receiver", yyparse.Pos(), "the Parse method runs on the parser yyNewParser just returned")
}
