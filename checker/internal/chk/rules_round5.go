package chk

import (
	"fmt"
	"go/token"
	"go/types"
	"sort"
	"strings"

	"golang.org/x/tools/go/ssa"
)

func round5Rules() []*Rule {
	return []*Rule{
		{ID: "NARROW", Props: []string{"C14", "C01", "C15", "C08", "C05", "C04", "C13", "C11", "C18", "C02", "C03"}, Min: 2,
			Doc: "every integer conversion that can change the value (narrowing, or a change of signedness at the same width) either is one of the format's own reinterpretations (two's-complement decoding of record integers and varints, listed per function with the reason) or is proven to keep the value on every path reaching it (operand within the target type's range)",
			Run: runNarrow},
		{ID: "TYPENAME", Props: []string{"C10", "C01"}, Min: 3,
			Doc: "the declared type of a column reaches the schema whole: SQLite makes `x INTEGER PRIMARY KEY` an alias of the rowid only when the declared type is exactly INTEGER, so a production of the grammar's type name that has more symbols than a name (the `(n)` and `(n, m)` forms) must not yield the bare name",
			Run: runTypeName},
	}
}

func runTypeName(c *Ctx) {
	p := c.P
	g, why := loadGrammar(p)
	if g == nil {
		c.Undecided("grammar", token.NoPos, "%s", why)
		return
	}
	cp, why := loadCompiledParser(p)
	if cp == nil {
		c.Undecided("compiled parser", token.NoPos, "%s", why)
		return
	}
	if len(cp.R2) != len(g.Prods) {
		c.Undecided("production count", token.NoPos, "grammar and compiled parser are out of step (GRAM-0)")
		return
	}
	n := 0
	for k := 1; k < len(g.Prods); k++ {
		pr := g.Prods[k]
		if pr.LHS != "typeName" {
			continue
		}
		n++
		key := fmt.Sprintf("typeName → %s", orStr(strings.Join(pr.RHS, " "), "ε"))
		if len(pr.RHS) <= 1 {
			c.Trivial(key, cp.CasePos[k], "a bare name (or nothing)")
			continue
		}
		// every value-carrying symbol of the right-hand side must flow into the value
		read := map[int64]bool{}
		for _, r := range cp.Reads[k] {
			read[r.K] = true
		}
		var dropped []string
		for i, sym := range pr.RHS {
			if strings.HasPrefix(sym, "'") {
				continue
			}
			if !read[int64(i+1)] {
				dropped = append(dropped, fmt.Sprintf("$%d (%s)", i+1, sym))
			}
		}
		c.Check(len(dropped) == 0, key, cp.CasePos[k], "%s", map[bool]string{
			true:  "every part of the declared type reaches the value",
			false: "the value is built without " + strings.Join(dropped, ", ") + ": `a INTEGER(10) PRIMARY KEY` is reported with type INTEGER and therefore as an alias of the rowid, which it is not in SQLite (the column has its own values and its own sqlite_autoindex)",
		}[len(dropped) == 0])
	}
	if n == 0 {
		c.Undecided("typeName", token.NoPos, "the grammar has no typeName productions any more")
	}
}

// narrowIntended: value-changing integer conversions that ARE the semantics, keyed by function and "from→to".
// (the number says how many conversions of that kind the function has; one more than that has to be proven like any other)
var narrowIntended = map[string]struct {
	n   int
	why string
}{
	"sql.yylex1 int→uint":                 {1, "goyacc skeleton (token number used as a table index after its own range test)"},
	"(sqlittle.Row).Scan int64→int32":     {1, "documented Scan destination *int32 (CONV checks the conversion table)"},
}

// narrowDelegated: the decoders of the file format's integers. Reinterpreting bytes as two's complement is what they do;
// which bytes, which widths and which sign extension is checked value by value by the rules named, so a conversion there
// (also in a helper extracted from them) is theirs to judge, however the decoding is spelled.
var narrowDelegated = map[string]string{
	"db.parseRecord": "REC-table (bytes and kinds per serial type) and SIGN (widths of the signed conversions)",
	"db.readTwos24":  "SIGN (24-bit sign extension)",
	"db.readTwos48":  "SIGN (48-bit sign extension)",
	"db.readVarint":  "VARINT (assembly of the 64-bit value)",
}

// readsTwosComplement: an unsigned value converted to the signed type of the same width — reading a bit pattern as two's
// complement, the idiom of every decoder (`int32(binary.BigEndian.Uint32(b))`). No bits are lost; which width is read is
// the business of the rules that know the format (SIGN, REC-table, VARINT, JRNL-3, KEY). What this rule is after is a
// value that loses bits (a narrower target) or a negative number that becomes a huge one (signed to unsigned).
func readsTwosComplement(c *ssa.Convert) bool {
	from, ok1 := c.X.Type().Underlying().(*types.Basic)
	to, ok2 := c.Type().Underlying().(*types.Basic)
	if !ok1 || !ok2 {
		return false
	}
	size := func(b *types.Basic) int {
		switch b.Kind() {
		case types.Int8, types.Uint8:
			return 8
		case types.Int16, types.Uint16:
			return 16
		case types.Int32, types.Uint32:
			return 32
		}
		return 64
	}
	return from.Info()&types.IsUnsigned != 0 && to.Info()&types.IsUnsigned == 0 && size(from) == size(to)
}

func runNarrow(c *Ctx) {
	p := c.P
	t := &Termer{P: p}
	for _, fn := range p.ModFuncs() {
		if !p.Reachable(fn) {
			continue
		}
		n := map[string]int{}
		var convs []*ssa.Convert
		for _, in := range instrs(fn) {
			if cv, ok := in.(*ssa.Convert); ok && lossyIntConv(cv) && !readsTwosComplement(cv) {
				convs = append(convs, cv)
			}
		}
		sort.Slice(convs, func(i, j int) bool { return convs[i].Pos() < convs[j].Pos() })
		for _, cv := range convs {
			kind := types.TypeString(cv.X.Type(), shortQual) + "→" + types.TypeString(cv.Type(), shortQual)
			n[kind]++
			key := fmt.Sprintf("%s %s#%d", p.FnKey(fn), kind, n[kind])
			deleg := ""
			for _, r := range contextRoots(p, fn, 0) {
				w, ok := narrowDelegated[p.FnKey(r)]
				if !ok {
					deleg = ""
					break
				}
				deleg = w
			}
			if deleg != "" {
				c.Pass(key, cv.Pos(), "left to %s", deleg)
				continue
			}
			if in, ok := narrowIntended[p.FnKey(fn)+" "+kind]; ok && n[kind] <= in.n {
				c.Pass(key, cv.Pos(), "intended: %s", in.why)
				continue
			}
			lo, hi, _ := intRange(cv.Type())
			ok, why := proveAt(p, t, cv, cv.X, lo, hi, true)
			c.Check(ok, key, cv.Pos(), "the conversion keeps the value: %s", orStr(why, "operand proven within the target type's range on every path"))
		}
	}
}
