package chk

import (
	"fmt"
	"go/token"
	"go/types"
	"sort"
	"strings"

	"golang.org/x/tools/go/ssa"
)

func round5Rules() []*Rule {
	return []*Rule{
		{ID: "NARROW", Props: []string{"C14", "C01", "C15", "C08", "C05", "C04", "C13", "C11", "C18", "C02", "C03"}, Min: 2,
			Doc: "every integer conversion that can change the value (narrowing, or a change of signedness at the same width) either is one of the format's own reinterpretations (two's-complement decoding of record integers and varints, listed per function with the reason) or is proven to keep the value on every path reaching it (operand within the target type's range)",
			Run: runNarrow},
		{ID: "TYPENAME", Props: []string{"C10", "C01"}, Min: 3,
			Doc: "the declared type of a column reaches the schema whole: SQLite makes `x INTEGER PRIMARY KEY` an alias of the rowid only when the declared type is exactly INTEGER, so a production of the grammar's type name that has more symbols than a name (the `(n)` and `(n, m)` forms) must not yield the bare name",
			Run: runTypeName},
		{ID: "COLLATE-VERBATIM", Props: []string{"C10", "C11", "C03", "C02"}, Min: 2,
			Doc: "a COLLATE clause reaches the statement structs with the name as written: `COLLATE BINARY` on an indexed column overrides the column's own collation, so it must not be turned into `no collation` (which the schema builder reads as `inherit the column's`)",
			Run: runCollateVerbatim},
		{ID: "PAYLOAD-RAW", Props: []string{"C14", "C01", "C02", "C03", "C04", "C13"}, Min: 1,
			Doc: "the in-page part of a cell's payload (cellPayload.Payload) is looked at by addOverflow only: whoever wants the bytes of a record or index entry gets them from addOverflow, which completes a spilled payload from its overflow pages — reading the field directly works for every payload that fits its page and returns a truncated record for the others",
			Run: runPayloadRaw},
		{ID: "TOK-START", Props: []string{"C16", "C05", "C10"}, Min: 2,
			Doc: "readBareword consumes at least one byte whenever the tokenizer calls it: every way in which it can answer a count of 0 (its first rune is not one a bare word may start with) contradicts every condition under which tokenize dispatches to it — the two definitions of `can start a bare word` agree, so the tokenizer always advances",
			Run: runTokStart},
		{ID: "WR-KEY-DEDUP", Props: []string{"C10", "C01", "C02"}, Min: 1,
			Doc: "the key of a WITHOUT ROWID table names every column once: a table-level PRIMARY KEY (a, b, a) is stored as (a, b) — SQLite drops a column it has in the key already (same column, same collation) — so the column list of the constraint goes through a de-duplication before it becomes Schema.PK, and the record positions of all other columns follow from that",
			Run: runWRKeyDedup},
		{ID: "CONSTRAINT-ORDER", Props: []string{"C10", "C02", "C03"}, Min: 3,
			Doc: "a column's UNIQUE and PRIMARY KEY constraints are applied in the order they are written (SQLite makes their indexes in that order, and an index the two share has the direction of the first): the parser records which came first, and the schema builder adds the UNIQUE index before or after the key accordingly",
			Run: runConstraintOrder},
		{ID: "SCHEMA-IDX", Props: []string{"C10", "C02", "C03"}, Min: 1,
			Doc: "newSchema attaches a sqlite_master row to the table's schema as an index only when the row is an index (type), belongs to this table (tbl_name equals the lower-cased table name) and has SQL text — an automatic index has none and comes from the table's own definition",
			Run: runSchemaIdx},
	}
}

func runSchemaIdx(c *Ctx) {
	p := c.P
	fn := c.MustFunc("db", "newSchema")
	if fn == nil {
		return
	}
	var site *ssa.Call
	for _, cs := range callsIn(fn) {
		if cal := cs.Common().StaticCallee(); cal != nil && p.FnKey(cal) == "(*db.Schema).addCreateIndex" {
			if site != nil {
				c.Undecided("newSchema index rows", fn.Pos(), "more than one place attaches CREATE INDEX rows")
				return
			}
			site, _ = cs.(*ssa.Call)
		}
	}
	if site == nil {
		c.Undecided("newSchema index rows", fn.Pos(), "newSchema no longer attaches CREATE INDEX rows through addCreateIndex")
		return
	}
	// … and through nothing else: an index put on the list by name alone (its definition not understood) has no
	// columns, and everything that reads an index entry — where the key columns of a WITHOUT ROWID table sit in it,
	// which collation orders it — takes the missing definition for an empty one
	direct := ""
	for _, in := range instrs(fn) {
		if st, ok := in.(*ssa.Store); ok && fieldName(st.Addr) == "Indexes" {
			direct = p.Pos(st.Pos())
		}
	}
	c.Check(direct == "", "newSchema: indexes only with their definition", fn.Pos(), "%s", map[bool]string{true: "newSchema puts an index on the schema's list only through addCreateIndex, i.e. with the columns of its parsed definition", false: "newSchema stores into Schema.Indexes itself at " + direct + ": an index is listed without the columns of its definition (C10 allows leaving out an index that cannot be interpreted, not listing it with an empty definition)"}[direct == ""])
	t := &Termer{P: p}
	paths, ok := EnumLits(fn.Blocks[0], 0, TabOpts{Termer: t, EventOf: callEvents(p), Limit: 300000, StopGoesOn: inCycle(site.Block()),
		Stop: func(in ssa.Instruction, ps *pathState) bool { return in == ssa.Instruction(site) }})
	if !ok {
		c.Undecided("newSchema index rows", fn.Pos(), "too many paths")
		return
	}
	tab := "p:" + fn.Params[0].Name()
	n, bad := 0, ""
	for _, lp := range paths {
		if lp.Stop == nil || bad != "" {
			continue
		}
		n++
		// the row: the element whose sql text was parsed last
		row := ""
		for _, e := range lp.Events {
			if e.Kind == "call" && e.Name == "sql.Parse" && len(e.Args) == 1 && strings.HasSuffix(e.Args[0], ".sql") {
				row = strings.TrimSuffix(e.Args[0], ".sql")
			}
		}
		if row == "" {
			bad = "the statement attached is not parsed from a row's sql text; path [" + pathDesc(lp) + "]"
			continue
		}
		lowered := false
		for _, e := range lp.Events {
			if e.Kind == "call" && e.Name == "strings.ToLower" && len(e.Args) == 1 && e.Args[0] == tab {
				lowered = true
			}
		}
		isIndex := lp.Holds(row+".typ", token.EQL, `"index"`)
		hasSQL := lp.Holds(row+".sql", token.NEQ, `""`)
		ofTable := false
		for _, l := range lp.Lits {
			eq := (l.Op == token.EQL && l.Val) || (l.Op == token.NEQ && !l.Val)
			if eq && l.C == "0" && (strings.HasPrefix(l.Subject, row+".tblName−call:strings.ToLower") || (strings.HasPrefix(l.Subject, "call:strings.ToLower") && strings.HasSuffix(l.Subject, "−"+row+".tblName"))) {
				ofTable = true
			}
		}
		var missing []string
		if !isIndex {
			missing = append(missing, "type = \"index\"")
		}
		if !ofTable || !lowered {
			missing = append(missing, "tbl_name = the lower-cased table name")
		}
		if !hasSQL {
			missing = append(missing, "sql text present")
		}
		if len(missing) > 0 {
			bad = fmt.Sprintf("row %s is attached without having established %s: indexes of other tables (or the table's own automatic indexes, a second time) would be reported for this table; path [%s]", row, strings.Join(missing, ", "), pathDesc(lp))
		}
	}
	if n == 0 {
		c.Fail("newSchema index rows", site.Pos(), "no path attaches a CREATE INDEX row")
		return
	}
	c.Check(bad == "", "newSchema index rows", site.Pos(), "%s", orStr(bad, "a row is attached as an index of the table only when it is an index row of this table with SQL text"))
}

func runTypeName(c *Ctx) {
	p := c.P
	g, why := loadGrammar(p)
	if g == nil {
		c.Undecided("grammar", token.NoPos, "%s", why)
		return
	}
	cp, why := loadCompiledParser(p)
	if cp == nil {
		c.Undecided("compiled parser", token.NoPos, "%s", why)
		return
	}
	if len(cp.R2) != len(g.Prods) {
		c.Undecided("production count", token.NoPos, "grammar and compiled parser are out of step (GRAM-0)")
		return
	}
	n := 0
	for k := 1; k < len(g.Prods); k++ {
		pr := g.Prods[k]
		if pr.LHS != "typeName" {
			continue
		}
		n++
		key := fmt.Sprintf("typeName → %s", orStr(strings.Join(pr.RHS, " "), "ε"))
		if len(pr.RHS) <= 1 {
			c.Trivial(key, cp.CasePos[k], "a bare name (or nothing)")
			continue
		}
		// every value-carrying symbol of the right-hand side must flow into the value
		read := map[int64]bool{}
		for _, r := range cp.Reads[k] {
			read[r.K] = true
		}
		var dropped []string
		for i, sym := range pr.RHS {
			if strings.HasPrefix(sym, "'") {
				continue
			}
			if !read[int64(i+1)] {
				dropped = append(dropped, fmt.Sprintf("$%d (%s)", i+1, sym))
			}
		}
		c.Check(len(dropped) == 0, key, cp.CasePos[k], "%s", map[bool]string{
			true:  "every part of the declared type reaches the value",
			false: "the value is built without " + strings.Join(dropped, ", ") + ": `a INTEGER(10) PRIMARY KEY` is reported with type INTEGER and therefore as an alias of the rowid, which it is not in SQLite (the column has its own values and its own sqlite_autoindex)",
		}[len(dropped) == 0])
	}
	if n == 0 {
		c.Undecided("typeName", token.NoPos, "the grammar has no typeName productions any more")
	}
}

// narrowIntended: value-changing integer conversions that ARE the semantics, keyed by function and "from→to".
// (the number says how many conversions of that kind the function has; one more than that has to be proven like any other)
var narrowIntended = map[string]struct {
	n   int
	why string
}{
	"sql.yylex1 int→uint":             {1, "goyacc skeleton (token number used as a table index after its own range test)"},
	"(sqlittle.Row).Scan int64→int32": {1, "documented Scan destination *int32 (CONV checks the conversion table)"},
}

// narrowDelegated: the decoders of the file format's integers. Reinterpreting bytes as two's complement is what they do;
// which bytes, which widths and which sign extension is checked value by value by the rules named, so a conversion there
// (also in a helper extracted from them) is theirs to judge, however the decoding is spelled.
var narrowDelegated = map[string]string{
	"db.parseRecord": "REC-table (bytes and kinds per serial type) and SIGN (widths of the signed conversions)",
	"db.readTwos24":  "SIGN (24-bit sign extension)",
	"db.readTwos48":  "SIGN (48-bit sign extension)",
	"db.readVarint":  "VARINT (assembly of the 64-bit value)",
}

// readsTwosComplement: an unsigned value converted to the signed type of the same width — reading a bit pattern as two's
// complement, the idiom of every decoder (`int32(binary.BigEndian.Uint32(b))`). No bits are lost; which width is read is
// the business of the rules that know the format (SIGN, REC-table, VARINT, JRNL-3, KEY). What this rule is after is a
// value that loses bits (a narrower target) or a negative number that becomes a huge one (signed to unsigned).
func readsTwosComplement(c *ssa.Convert) bool {
	from, ok1 := c.X.Type().Underlying().(*types.Basic)
	to, ok2 := c.Type().Underlying().(*types.Basic)
	if !ok1 || !ok2 {
		return false
	}
	size := func(b *types.Basic) int {
		switch b.Kind() {
		case types.Int8, types.Uint8:
			return 8
		case types.Int16, types.Uint16:
			return 16
		case types.Int32, types.Uint32:
			return 32
		}
		return 64
	}
	return from.Info()&types.IsUnsigned != 0 && to.Info()&types.IsUnsigned == 0 && size(from) == size(to)
}

func runNarrow(c *Ctx) {
	p := c.P
	t := &Termer{P: p}
	for _, fn := range p.ModFuncs() {
		if !p.Reachable(fn) {
			continue
		}
		n := map[string]int{}
		var convs []*ssa.Convert
		for _, in := range instrs(fn) {
			if cv, ok := in.(*ssa.Convert); ok && lossyIntConv(cv) && !readsTwosComplement(cv) {
				convs = append(convs, cv)
			}
		}
		sort.Slice(convs, func(i, j int) bool { return convs[i].Pos() < convs[j].Pos() })
		for _, cv := range convs {
			kind := types.TypeString(cv.X.Type(), shortQual) + "→" + types.TypeString(cv.Type(), shortQual)
			n[kind]++
			key := fmt.Sprintf("%s %s#%d", p.FnKey(fn), kind, n[kind])
			deleg := ""
			for _, r := range contextRoots(p, fn, 0) {
				w, ok := narrowDelegated[p.FnKey(r)]
				if !ok {
					deleg = ""
					break
				}
				deleg = w
			}
			if deleg != "" {
				c.Pass(key, cv.Pos(), "left to %s", deleg)
				continue
			}
			if in, ok := narrowIntended[p.FnKey(fn)+" "+kind]; ok && n[kind] <= in.n {
				c.Pass(key, cv.Pos(), "intended: %s", in.why)
				continue
			}
			lo, hi, _ := intRange(cv.Type())
			ok, why := proveAt(p, t, cv, cv.X, lo, hi, true)
			c.Check(ok, key, cv.Pos(), "the conversion keeps the value: %s", orStr(why, "operand proven within the target type's range on every path"))
		}
	}
}

func runCollateVerbatim(c *Ctx) {
	p := c.P
	g, why := loadGrammar(p)
	if g == nil {
		c.Undecided("grammar", token.NoPos, "%s", why)
		return
	}
	cp, why := loadCompiledParser(p)
	if cp == nil {
		c.Undecided("compiled parser", token.NoPos, "%s", why)
		return
	}
	if len(cp.R2) != len(g.Prods) {
		c.Undecided("production count", token.NoPos, "grammar and compiled parser are out of step (GRAM-0)")
		return
	}
	n := 0
	for k := 1; k < len(g.Prods); k++ {
		pr := g.Prods[k]
		if len(pr.RHS) != 2 || pr.RHS[0] != "COLLATE" {
			continue
		}
		n++
		key := fmt.Sprintf("%s → COLLATE %s", pr.LHS, pr.RHS[1])
		reads2 := false
		for _, r := range cp.Reads[k] {
			if r.K == 2 {
				reads2 = true
			}
		}
		c.Check(reads2 && len(cp.FuncCalls[k]) == 0, key, cp.CasePos[k], "%s", map[bool]string{
			true:  "the value is the name as written ($2, converted to the value's type at most)",
			false: fmt.Sprintf("the action passes the name through %v (or does not use $2): a name rewritten here — `BINARY` to the empty name, say — changes which collation an index column gets, because an empty name means `inherit the table column's`", cp.FuncCalls[k]),
		}[reads2 && len(cp.FuncCalls[k]) == 0])
	}
	if n == 0 {
		c.Undecided("COLLATE productions", token.NoPos, "the grammar has no `… → COLLATE name` production any more")
	}
}

func runPayloadRaw(c *Ctx) {
	p := c.P
	n := 0
	for _, fn := range p.ModFuncs() {
		if p.PkgShort(fn) != "db" {
			continue
		}
		for _, in := range instrs(fn) {
			var fa ssa.Value
			switch x := in.(type) {
			case *ssa.UnOp:
				if f, ok := x.X.(*ssa.FieldAddr); ok && x.Op == token.MUL {
					fa = f
				}
			case *ssa.Field:
				fa = x
			}
			if fa == nil {
				continue
			}
			var base ssa.Value
			name := ""
			switch f := fa.(type) {
			case *ssa.FieldAddr:
				base, name = f.X, fieldName(f)
			case *ssa.Field:
				base, name = f.X, fieldName(f)
			}
			if name != "Payload" || !typeIs(base.Type(), modPkgPath("db"), "cellPayload") {
				continue
			}
			n++
			ok := true
			for _, r := range contextRoots(p, fn, 0) {
				if p.FnKey(r) != "db.addOverflow" {
					ok = false
				}
			}
			top := fn
			for top.Parent() != nil {
				top = top.Parent()
			}
			if p.FnKey(top) == "db.addOverflow" {
				ok = true
			}
			c.Check(ok, "reader of cellPayload.Payload: "+p.FnKey(fn), in.Pos(), "%s", map[bool]string{true: "addOverflow (which completes it)", false: "the in-page part of a payload is read outside addOverflow: a payload that spilled to overflow pages is seen truncated here"}[ok])
		}
	}
	if n == 0 {
		c.Undecided("reader of cellPayload.Payload", token.NoPos, "nothing reads cellPayload.Payload any more: the anchor of this rule is gone")
	}
}

// runeFacts: what a path established about the rune `r`: unicode predicates with their polarity and comparisons with
// constants.
type runeFacts struct {
	preds map[string]bool
	cmps  []Lit
	clash bool // the path itself holds P and ¬P
}

func runeFactsOf(lp *LPath, r ssa.Value) runeFacts {
	rf := runeFacts{preds: map[string]bool{}}
	same := func(v ssa.Value, ps *pathState) bool {
		if ps != nil {
			v = ps.Resolve(v)
		}
		return stripConv(v) == stripConv(r)
	}
	for _, l := range lp.Lits {
		ps := l.PS
		if ps == nil {
			ps = lp.PS
		}
		switch x := l.Cond.(type) {
		case *ssa.Call:
			cal := x.Call.StaticCallee()
			if cal == nil || cal.Pkg == nil || cal.Pkg.Pkg.Path() != "unicode" || len(x.Call.Args) != 1 || !same(x.Call.Args[0], ps) {
				continue
			}
			pol := (l.C == "true") == l.Val
			if l.Op == token.NEQ {
				pol = !pol
			}
			if old, ok := rf.preds[cal.Name()]; ok && old != pol {
				rf.clash = true
			}
			rf.preds[cal.Name()] = pol
		case *ssa.BinOp:
			if !l.IsInt {
				continue
			}
			if same(x.X, ps) || same(x.Y, ps) {
				l2 := l
				l2.Subject = "rune"
				rf.cmps = append(rf.cmps, l2)
			}
		}
	}
	return rf
}

// compatible: some rune satisfies both fact sets (unicode predicates are independent atoms; comparisons are checked
// on the constants involved and their neighbours).
func (a runeFacts) compatible(b runeFacts) bool {
	if a.clash || b.clash {
		return false
	}
	for k, v := range a.preds {
		if w, ok := b.preds[k]; ok && w != v {
			return false
		}
	}
	return satisfiable(append(append([]Lit(nil), a.cmps...), b.cmps...))
}

func runTokStart(c *Ctx) {
	p := c.P
	tok := c.MustFunc("sql", "tokenize")
	rb := c.MustFunc("sql", "readBareword")
	if tok == nil || rb == nil {
		return
	}
	t := &Termer{P: p}
	// 1. how readBareword can answer 0: paths through its first iteration whose count is the constant 0
	var first ssa.Value // the rune of the first iteration
	for _, in := range instrs(rb) {
		if e, ok := in.(*ssa.Extract); ok && e.Index == 2 {
			if nx, ok := e.Tuple.(*ssa.Next); ok && nx.IsString {
				first = e
			}
		}
	}
	if first == nil {
		c.Undecided("readBareword first rune", rb.Pos(), "readBareword does not range over its argument any more")
		return
	}
	rpaths, ok := EnumLits(rb.Blocks[0], 0, TabOpts{Termer: t, Limit: 100000})
	if !ok {
		c.Undecided("readBareword paths", rb.Pos(), "too many paths")
		return
	}
	var zero []runeFacts
	var zeroDesc []string
	for _, lp := range rpaths {
		if lp.Exit == nil || len(lp.Exit.Results) != 2 || lp.PS.Gen > 0 {
			continue // only the first iteration can answer 0 (later ones answer the offset of a later rune)
		}
		pr := newProver(p, t, lp)
		if pr.g.inconsistent() {
			continue
		}
		l := pr.linOf(lp.Exit.Results[1])
		pr.applyDisj()
		if pr.g.entailsLE(zero_, l.base, l.off-1) {
			continue // ≥ 1
		}
		// an empty argument answers ("", 0) as well (the range ends before its first rune); that the tokenizer never
		// passes one is shown per dispatch below
		emptyArg := false
		for _, l := range lp.Lits {
			if e, ok := l.Cond.(*ssa.Extract); ok && e.Index == 0 {
				if _, isNext := e.Tuple.(*ssa.Next); isNext && ((l.C == "true") != l.Val) {
					emptyArg = true
				}
			}
		}
		if emptyArg {
			continue
		}
		rf := runeFactsOf(lp, first)
		zero = append(zero, rf)
		zeroDesc = append(zeroDesc, pathDesc(lp))
	}
	c.Check(true, "readBareword zero answers", rb.Pos(), "%d way(s) to answer a count of 0 on a non-empty argument", len(zero))
	// 2. every dispatch to readBareword in tokenize
	n := 0
	for _, cs := range callsIn(tok) {
		call, isCall := cs.(*ssa.Call)
		if !isCall || cs.Common().StaticCallee() != rb {
			continue
		}
		n++
		key := fmt.Sprintf("tokenize→readBareword#%d", n)
		// the rune the dispatch looked at: result 0 of DecodeRuneInString on the very slice handed to readBareword
		var c0 ssa.Value
		argT := t.Term(call.Call.Args[0], emptyPS())
		for _, in := range instrs(tok) {
			if e, ok := in.(*ssa.Extract); ok && e.Index == 0 {
				if dc, ok := e.Tuple.(*ssa.Call); ok && dc.Call.StaticCallee() != nil && isLibFunc(dc.Call.StaticCallee(), "unicode/utf8", "DecodeRuneInString") && t.Term(dc.Call.Args[0], emptyPS()) == argT {
					c0 = e
				}
			}
		}
		if c0 == nil {
			c.Fail(key, call.Pos(), "the bare word is read from %s, but the dispatch did not decode the first rune of that very text", argT)
			continue
		}
		hs := loopHeaders(tok)
		if len(hs) != 1 {
			c.Undecided(key, call.Pos(), "tokenize is not a single loop")
			continue
		}
		gpaths, ok := EnumLits(hs[0], 0, TabOpts{Termer: t, Limit: 200000,
			Stop: func(in ssa.Instruction, ps *pathState) bool { return in == ssa.Instruction(call) }})
		if !ok {
			c.Undecided(key, call.Pos(), "too many paths")
			continue
		}
		bad := ""
		for _, gp := range gpaths {
			if gp.Stop == nil {
				continue
			}
			gpr := newProver(p, t, gp)
			if gpr.g.inconsistent() {
				continue
			}
			alen, _, _ := gpr.lenTermOf(call.Call.Args[0])
			gpr.applyDisj()
			if !gpr.g.entailsLE(zero_, alen, -1) {
				bad = fmt.Sprintf("readBareword may be handed an empty text on [%s]", pathDesc(gp))
			}
			g := runeFactsOf(gp, c0)
			for zi, z := range zero {
				if g.compatible(z) {
					bad = fmt.Sprintf("dispatch on [%s] is compatible with readBareword answering 0 on [%s]", pathDesc(gp), zeroDesc[zi])
				}
			}
		}
		c.Check(bad == "", key, call.Pos(), "%s", orStr(bad, "whenever tokenize dispatches to readBareword its first rune is one readBareword accepts as the start of a bare word: the count is ≥ 1 and the tokenizer advances"))
	}
	if n == 0 {
		c.Undecided("tokenize→readBareword", tok.Pos(), "tokenize no longer calls readBareword")
	}
}

const zero_ = zero

func runWRKeyDedup(c *Ctx) {
	p := c.P
	fn := findFn(p, "db.newCreateTable")
	if fn == nil {
		c.Undecided("anchor newCreateTable", token.NoPos, "not found")
		return
	}
	// the table-level setPK call: its argument is computed (from the constraint's column list), not a literal. It may sit
	// in a helper extracted from newCreateTable (the constraint loop as a function of its own).
	var sites []ssa.CallInstruction
	for _, g := range p.ModFuncs() {
		if g != fn {
			roots := contextRoots(p, g, 0)
			if len(roots) != 1 || roots[0] != fn || g == roots[0] {
				continue
			}
		}
		sites = append(sites, callsIn(g)...)
	}
	n := 0
	for _, cs := range sites {
		call, ok := cs.(*ssa.Call)
		if !ok || call.Call.StaticCallee() == nil || p.FnKey(call.Call.StaticCallee()) != "(*db.Schema).setPK" || len(call.Call.Args) != 2 {
			continue
		}
		arg, isCall := call.Call.Args[1].(*ssa.Call)
		if !isCall {
			continue // the column-level key: one column
		}
		n++
		key := fmt.Sprintf("table-level WITHOUT ROWID key#%d", n)
		f := arg.Call.StaticCallee()
		if f == nil || !p.InModule(f) {
			c.Undecided(key, call.Pos(), "the key is computed by something this rule cannot read")
			continue
		}
		if p.FnKey(f) != "(*db.Schema).toIndexColumns" {
			// SQLite compares a UNIQUE constraint with the key while the key still has every term that was written
			// (sqlite3CreateIndex runs before convertToWithoutRowidTable removes the repeats)
			c.Fail(key, call.Pos(), "the key handed to setPK has been through %s first: other constraints must be compared with the key as written — for `PRIMARY KEY(a,a), UNIQUE(a), UNIQUE(b)` WITHOUT ROWID SQLite keeps an index for UNIQUE(a) (it is not the two-term key) and numbers UNIQUE(b) 3; with the key shortened first, UNIQUE(a) is taken for the key and sqlite_autoindex_t_2 names the index on b", p.FnKey(f))
			continue
		}
		c.Pass(key, call.Pos(), "setPK gets the constraint's columns as written")
	}
	// … and what is stored as Schema.PK when newCreateTable is done is the key without its repeated columns
	var final *ssa.Store
	var dedup *ssa.Function
	for _, in := range instrs(fn) {
		st, ok := in.(*ssa.Store)
		if !ok || fieldName(st.Addr) != "PK" {
			continue
		}
		call, ok := st.Val.(*ssa.Call)
		if !ok || call.Call.StaticCallee() == nil || !p.InModule(call.Call.StaticCallee()) || len(call.Call.Args) != 1 {
			continue
		}
		ld, ok := call.Call.Args[0].(*ssa.UnOp)
		if !ok || ld.Op != token.MUL || fieldName(ld.X) != "PK" {
			continue
		}
		final, dedup = st, call.Call.StaticCallee()
	}
	if final == nil {
		c.Fail("stored WITHOUT ROWID key", fn.Pos(), "newCreateTable never replaces Schema.PK by its de-duplicated form: for PRIMARY KEY (a, b, a) SQLite stores (a, b) and then the other columns, so with the repeated column kept every column after the key is read from the wrong record position (confirmed: `c` comes back NULL)")
	} else {
		why := dedupFunction(p, dedup)
		// nothing compares against the key after it was shortened, and every successful return comes after it
		late := ""
		seen := map[*ssa.BasicBlock]bool{}
		var walk func(b *ssa.BasicBlock, from int)
		walk = func(b *ssa.BasicBlock, from int) {
			for _, in := range b.Instrs[from:] {
				if cs, ok := in.(ssa.CallInstruction); ok && cs.Common().StaticCallee() != nil {
					switch p.FnKey(cs.Common().StaticCallee()) {
					case "(*db.Schema).setPK", "(*db.Schema).addIndex":
						late = p.Pos(cs.Pos())
					}
				}
			}
			for _, sc := range b.Succs {
				if !seen[sc] {
					seen[sc] = true
					walk(sc, 0)
				}
			}
		}
		walk(final.Block(), instrIndex(final)+1)
		skipped := ""
		for _, r := range returnsOf(fn) {
			if len(r.Results) == 2 && isNilConst(r.Results[1]) && !(final.Block() == r.Block() || final.Block().Dominates(r.Block())) {
				skipped = p.Pos(r.Pos())
			}
		}
		switch {
		case why != "":
			c.Fail("stored WITHOUT ROWID key", final.Pos(), "Schema.PK is replaced by %s of itself, which is expected to keep the first occurrence of every key column %s", p.FnKey(dedup), why)
		case late != "":
			c.Fail("stored WITHOUT ROWID key", final.Pos(), "a constraint is still compared with the key at %s after its repeated columns were dropped", late)
		case skipped != "":
			c.Fail("stored WITHOUT ROWID key", final.Pos(), "the successful return at %s does not pass the de-duplication of Schema.PK", skipped)
		default:
			c.Pass("stored WITHOUT ROWID key", final.Pos(), "after all constraints are processed Schema.PK becomes %s(Schema.PK): the first occurrence of every key column", p.FnKey(dedup))
		}
	}
	if n == 0 {
		c.Undecided("table-level WITHOUT ROWID key", fn.Pos(), "newCreateTable has no setPK call with a computed key any more")
	}
}

// dedupFunction: "" when f copies its []IndexColumn parameter element by element into its result, appending an element
// exactly when no element already in the result is the same key column (as judged by the verified comparator).
func dedupFunction(p *Program, f *ssa.Function) string {
	hs := loopHeaders(f)
	if len(hs) == 0 {
		return "— it has no loop over the columns"
	}
	// the outer loop: not inside another
	var h *ssa.BasicBlock
	for _, cand := range hs {
		inside := false
		for _, o := range hs {
			if o != cand && loopBody(o)[cand] {
				inside = true
			}
		}
		if !inside {
			h = cand
		}
	}
	also := map[*ssa.Function]bool{}
	keep := map[*ssa.Function]bool{}
	var mark func(g *ssa.Function, depth int)
	mark = func(g *ssa.Function, depth int) {
		for _, cs := range callsIn(g) {
			cal := cs.Common().StaticCallee()
			if cal == nil || !p.InModule(cal) {
				continue
			}
			if sameKeyComparator(p, cal) != "" && sameColumnComparator(p, cal) != "" {
				also[cal] = true // a search helper (walked in place); the comparator itself stays a call
				if depth < 2 {
					mark(cal, depth+1)
				}
			} else {
				keep[cal] = true
			}
		}
	}
	mark(f, 0)
	t := &Termer{P: p}
	paths, ok := EnumLits(h, 0, TabOpts{Termer: t, EventOf: callEvents(p), InlineAlso: also, KeepCall: keep, Limit: 100000,
		Stop: func(in ssa.Instruction, ps *pathState) bool { return in == h.Instrs[0] && len(ps.Path) > 1 }})
	if !ok {
		return "— too many paths"
	}
	nApp, nSkip := 0, 0
	for _, lp := range paths {
		if lp.Stop == nil {
			continue
		}
		appended := false
		for _, b := range lp.PS.Path {
			if b.Parent() != f {
				continue
			}
			for _, in := range b.Instrs {
				if call, ok := in.(*ssa.Call); ok {
					if bi, ok := call.Call.Value.(*ssa.Builtin); ok && bi.Name() == "append" {
						appended = true
					}
				}
			}
		}
		// comparator answers on this path
		lastTrue, anyTrue, nCmp := false, false, 0
		for _, e := range lp.Events {
			if e.Kind != "call" {
				continue
			}
			v, isVal := e.Instr.(ssa.Value)
			call, isCall := e.Instr.(*ssa.Call)
			if !isVal || !isCall || call.Call.StaticCallee() == nil || !p.InModule(call.Call.StaticCallee()) || (sameKeyComparator(p, call.Call.StaticCallee()) != "" && sameColumnComparator(p, call.Call.StaticCallee()) != "") {
				continue
			}
			nCmp++
			lastTrue = lp.Has(t.Term(v, lp.PS), token.EQL, "true", true)
			if lastTrue {
				anyTrue = true
			}
		}
		if appended {
			nApp++
			if anyTrue {
				return "— an element is appended although the comparison found it in the result already"
			}
		} else {
			nSkip++
			if nCmp == 0 || !lastTrue {
				return "— an element is dropped without the comparison having found it in the result"
			}
		}
	}
	if nApp == 0 || nSkip == 0 {
		return fmt.Sprintf("— expected iterations that append and iterations that drop (found %d, %d)", nApp, nSkip)
	}
	return ""
}

func runConstraintOrder(c *Ctx) {
	p := c.P
	t := &Termer{P: p}
	// (a) the parser: in makeColumnDef's UNIQUE case something is stored that depends on whether PRIMARY KEY was seen
	mk := c.MustFunc("sql", "makeColumnDef")
	orderField, repeated := "", ""
	if mk != nil {
		_, paths, ok := bodyPaths(p, mk, t)
		if !ok {
			c.Undecided("makeColumnDef records the order", mk.Pos(), "makeColumnDef is not a single loop over the constraints")
		} else {
			for _, lp := range paths {
				isUnique := false
				for _, l := range lp.Lits {
					if strings.HasPrefix(l.Subject, "type(") && l.Op == token.EQL && l.Val && strings.HasSuffix(l.C, "ccUnique") {
						isUnique = true
					}
				}
				if !isUnique {
					continue
				}
				for _, e := range lp.Events {
					if e.Kind == "store" && e.Name != "Unique" && strings.Contains(e.Val, ".PrimaryKey") && strings.HasPrefix(e.Val, "!") {
						orderField = e.Name
						// only the first UNIQUE of a column says which came first
						fresh := false
						for _, l := range lp.Lits {
							if strings.HasSuffix(reOrd.ReplaceAllString(reGen.ReplaceAllString(l.Subject, ""), ""), ".Unique") && (l.Op == token.EQL || l.Op == token.NEQ) {
								isTrue := ((l.C == "true") == l.Val) == (l.Op == token.EQL)
								if !isTrue {
									fresh = true
								}
							}
						}
						if !fresh {
							repeated = "[" + pathDesc(lp) + "]"
						}
					}
				}
			}
			if orderField != "" {
				c.Check(repeated == "", "makeColumnDef: a repeated UNIQUE", mk.Pos(), "%s", orStr(map[bool]string{true: "", false: "the record of which constraint came first is written again by every UNIQUE of the column, on path " + repeated + ": `a TEXT UNIQUE PRIMARY KEY DESC UNIQUE` is taken for PRIMARY KEY first and its index reported DESC, where SQLite made it (ASC) for the first UNIQUE"}[repeated == ""], "the order is recorded by the column's first UNIQUE only"))
			}
			c.Check(orderField != "", "makeColumnDef records the order", mk.Pos(), "%s", map[bool]string{
				true:  "when UNIQUE is met, whether PRIMARY KEY has been met already is recorded (field " + orderField + ")",
				false: "the column definition keeps UNIQUE and PRIMARY KEY as two flags and forgets which was written first: `a TEXT UNIQUE PRIMARY KEY DESC` and `a TEXT PRIMARY KEY DESC UNIQUE` cannot be told apart, but SQLite gives their shared index the direction of the first (ASC in the one, DESC in the other)",
			}[orderField != ""])
		}
	}
	// (b) the schema builder: within one column, the UNIQUE index is added before the key exactly when the record says so
	fn := findFn(p, "db.newCreateTable")
	if fn == nil {
		c.Undecided("anchor newCreateTable", token.NoPos, "not found")
		return
	}
	var h *ssa.BasicBlock
	for _, cand := range loopHeaders(fn) {
		for b := range loopBody(cand) {
			for _, in := range b.Instrs {
				if st, ok := in.(*ssa.Store); ok && fieldName(st.Addr) == "Columns" && h == nil {
					h = cand
				}
			}
		}
	}
	if h == nil {
		c.Undecided("newCreateTable column loop", fn.Pos(), "no loop appending to Schema.Columns")
		return
	}
	body := loopBody(h)
	paths, ok := EnumLits(h, 0, TabOpts{Termer: t, EventOf: callEvents(p), Limit: 300000,
		Stop: func(in ssa.Instruction, ps *pathState) bool {
			b := in.Block()
			if b.Parent() != fn || in != b.Instrs[0] {
				return false
			}
			return (b == h && len(ps.Path) > 1) || !body[b]
		}})
	if !ok {
		c.Undecided("newCreateTable column loop", fn.Pos(), "too many paths")
		return
	}
	nUK, nKU, bad := 0, 0, ""
	for _, lp := range paths {
		iu, ik := -1, -1
		for i, e := range lp.Events {
			if e.Kind != "call" {
				continue
			}
			switch {
			case e.Name == "(*db.Schema).addIndex" && len(e.Args) >= 2 && e.Args[1] == "const:false":
				iu = i
			case e.Name == "(*db.Schema).addIndex" && len(e.Args) >= 2 && e.Args[1] == "const:true", e.Name == "(*db.Schema).setPK":
				ik = i
			}
		}
		if iu < 0 || ik < 0 {
			continue
		}
		first := false
		decided := false
		for _, l := range lp.Lits {
			if orderField != "" && strings.HasSuffix(l.Subject, "."+orderField) && (l.Op == token.EQL || l.Op == token.NEQ) {
				decided = true
				first = ((l.C == "true") == l.Val) == (l.Op == token.EQL)
			}
		}
		if iu < ik {
			nUK++
			if !decided || !first {
				bad = "the UNIQUE index is added before the key on a path that did not establish `UNIQUE was written first`: [" + pathDesc(lp) + "]"
			}
		} else {
			nKU++
			if orderField != "" && (!decided || first) {
				bad = "the key is added before the UNIQUE index on a path that did not establish `PRIMARY KEY was written first`: [" + pathDesc(lp) + "]"
			}
		}
	}
	c.Check(nKU > 0, "key before UNIQUE", fn.Pos(), "a column with PRIMARY KEY … UNIQUE gets its key first (%d paths)", nKU)
	c.Check(nUK > 0 && bad == "", "UNIQUE before key", fn.Pos(), "%s", orStr(bad, map[bool]string{
		true:  "a column with UNIQUE … PRIMARY KEY gets its UNIQUE index first",
		false: "a column's UNIQUE index is always added after its key, whatever order the constraints were written in: for `a TEXT UNIQUE PRIMARY KEY DESC` the shared index is reported DESC where the file has it ASC",
	}[nUK > 0]))
}
