package chk

import (
	"fmt"
	"go/token"
	"go/types"
	"sort"
	"strings"

	"golang.org/x/tools/go/ssa"
)

func termRules() []*Rule {
	return []*Rule{
		{ID: "TERM-1", Props: []string{"C05", "C16"}, Min: 4,
			Doc: "every cycle of the module call graph reachable from the API passes through a call that hands on a recursion budget decremented by ≥ 1 to a function that returns when the budget is exhausted before doing anything else, or recurses on a strictly shorter slice of its argument",
			Run: runTerm1},
		{ID: "TERM-2", Props: []string{"C05", "C16"}, Min: 50,
			Doc: "every loop in an API-reachable function is a range loop, a progress loop (an index that grows by ≥ 1 on every iteration against an invariant bound), a shrink loop, or a growth loop with a bounded target",
			Run: runTerm2},
		{ID: "CONTRACT", Props: []string{"C05", "C16", "C18", "C10", "C01", "C02", "C03"}, Min: 10,
			Doc: "the contracts and field invariants the PANIC prover relies on are themselves proven: page length of every pager, header page size range, payload length range, cell-pointer range, column-index correlation, scan-error contract, immutable cell slices, result length of columnStoreOrder",
			Run: runContract},
	}
}

// ---- TERM-1 ----------------------------------------------------------------------------------

// fuelParam: fn tests an int parameter against 0 (== or <=) with a returning true edge, before any call or closure creation.
func fuelParam(fn *ssa.Function) (*ssa.Parameter, bool) {
	if len(fn.Blocks) == 0 {
		return nil, false
	}
	b := fn.Blocks[0]
	iff, ok := b.Instrs[len(b.Instrs)-1].(*ssa.If)
	if !ok {
		return nil, false
	}
	bo, ok := iff.Cond.(*ssa.BinOp)
	if !ok || (bo.Op != token.EQL && bo.Op != token.LEQ && bo.Op != token.LSS) {
		return nil, false
	}
	prm, ok := resolveCell(bo.X).(*ssa.Parameter)
	if !ok || !isIntType(prm.Type()) {
		return nil, false
	}
	if n, ok := constInt(bo.Y); !ok || n != 0 {
		return nil, false
	}
	// nothing happens before the test
	for _, in := range b.Instrs {
		switch in.(type) {
		case ssa.CallInstruction, *ssa.MakeClosure:
			return nil, false
		}
	}
	// the true edge returns without calling anything
	tb := b.Succs[0]
	for _, in := range tb.Instrs {
		if _, ok := in.(ssa.CallInstruction); ok {
			return nil, false
		}
	}
	if _, ok := tb.Instrs[len(tb.Instrs)-1].(*ssa.Return); !ok {
		return nil, false
	}
	return prm, true
}

// fuelValueOf: v is `r − k` (k ≥ 1) where r is the fuel parameter of fuelFn, read directly or through a closure capture.
func fuelValueOf(v ssa.Value, fuelFn *ssa.Function, prm *ssa.Parameter) bool {
	bo, ok := v.(*ssa.BinOp)
	if !ok || bo.Op != token.SUB {
		return false
	}
	if k, ok := constInt(bo.Y); !ok || k < 1 {
		return false
	}
	x := bo.X
	if x == ssa.Value(prm) {
		return true
	}
	// captured: load of a free variable bound to the cell holding prm
	x = resolveCell(x)
	return x == ssa.Value(prm)
}

func runTerm1(c *Ctx) {
	p := c.P
	// module call graph over reachable functions
	nodes := []*ssa.Function{}
	for _, fn := range p.ModFuncs() {
		if p.Reachable(fn) && !trustedGenerated(p, fn) {
			nodes = append(nodes, fn)
		}
	}
	idx := map[*ssa.Function]int{}
	for i, f := range nodes {
		idx[f] = i
	}
	type edge struct {
		from, to *ssa.Function
		site     ssa.CallInstruction
	}
	var edges []edge
	adj := map[*ssa.Function][]*ssa.Function{}
	for _, fn := range nodes {
		for _, cs := range callsIn(fn) {
			for _, callee := range p.Callees(cs) {
				if _, ok := idx[callee]; ok {
					edges = append(edges, edge{fn, callee, cs})
					adj[fn] = append(adj[fn], callee)
				}
			}
			// calls into the library that receive a module closure call it back (sort.Search, strings.Map)
			if callee := cs.Common().StaticCallee(); callee != nil && !p.InModule(callee) {
				for _, a := range cs.Common().Args {
					if mc, ok := stripConv(a).(*ssa.MakeClosure); ok {
						if f2, ok := mc.Fn.(*ssa.Function); ok {
							if _, ok := idx[f2]; ok {
								edges = append(edges, edge{fn, f2, cs})
								adj[fn] = append(adj[fn], f2)
							}
						}
					}
				}
			}
		}
	}
	// Tarjan SCC
	index, low := map[*ssa.Function]int{}, map[*ssa.Function]int{}
	onStack := map[*ssa.Function]bool{}
	var stack []*ssa.Function
	var sccs [][]*ssa.Function
	n := 0
	var strong func(v *ssa.Function)
	strong = func(v *ssa.Function) {
		n++
		index[v], low[v] = n, n
		stack = append(stack, v)
		onStack[v] = true
		for _, w := range adj[v] {
			if index[w] == 0 {
				strong(w)
				if low[w] < low[v] {
					low[v] = low[w]
				}
			} else if onStack[w] && index[w] < low[v] {
				low[v] = index[w]
			}
		}
		if low[v] == index[v] {
			var comp []*ssa.Function
			for {
				w := stack[len(stack)-1]
				stack = stack[:len(stack)-1]
				onStack[w] = false
				comp = append(comp, w)
				if w == v {
					break
				}
			}
			sccs = append(sccs, comp)
		}
	}
	for _, f := range nodes {
		if index[f] == 0 {
			strong(f)
		}
	}
	for _, comp := range sccs {
		in := map[*ssa.Function]bool{}
		for _, f := range comp {
			in[f] = true
		}
		self := false
		for _, e := range edges {
			if in[e.from] && in[e.to] && (len(comp) > 1 || e.from == e.to) {
				self = true
			}
		}
		if !self {
			continue
		}
		var names []string
		for _, f := range comp {
			names = append(names, p.FnKey(f))
		}
		sort.Strings(names)
		key := "cycle{" + strings.Join(names, ", ") + "}"
		// fuel functions of the component
		fuel := map[*ssa.Function]*ssa.Parameter{}
		for _, f := range comp {
			if prm, ok := fuelParam(f); ok {
				fuel[f] = prm
			}
		}
		// classify the component's internal edges
		isFuelEdge := func(e edge) (bool, string) {
			prm, ok := fuel[e.to]
			if !ok {
				return false, ""
			}
			pos := -1
			for i, q := range e.to.Params {
				if q == prm {
					pos = i
				}
			}
			args := e.site.Common().Args
			if e.site.Common().IsInvoke() {
				pos-- // receiver is not in Args
			}
			if pos < 0 || pos >= len(args) {
				return false, ""
			}
			// the caller's own budget: the fuel parameter of the caller, or of the function enclosing a closure
			holder := e.from
			for holder.Parent() != nil && fuel[holder] == nil {
				holder = holder.Parent()
			}
			hp := fuel[holder]
			if hp == nil {
				return false, "caller has no budget of its own"
			}
			if fuelValueOf(args[pos], holder, hp) {
				return true, ""
			}
			return false, fmt.Sprintf("passes %s as the budget", (&Termer{P: p}).Term(args[pos], emptyPS()))
		}
		structural := func(e edge) bool {
			// recursion on a strictly shorter suffix of a string/slice parameter
			if e.from != e.to {
				return false
			}
			for i, prm := range e.to.Params {
				if i >= len(e.site.Common().Args) {
					continue
				}
				if sl, ok := e.site.Common().Args[i].(*ssa.Slice); ok && sl.X == ssa.Value(prm) && sl.High == nil && sl.Low != nil {
					// low = i + k with i a range index ≥ 0 and k ≥ 1
					if bo, ok := sl.Low.(*ssa.BinOp); ok && bo.Op == token.ADD {
						if k, ok := constInt(bo.Y); ok && k >= 1 {
							return true
						}
					}
				}
			}
			return false
		}
		rem := map[*ssa.Function][]*ssa.Function{}
		var why []string
		for _, e := range edges {
			if !in[e.from] || !in[e.to] {
				continue
			}
			if ok, w := isFuelEdge(e); ok {
				continue
			} else if w != "" {
				why = append(why, fmt.Sprintf("%s→%s at %s %s", p.FnKey(e.from), p.FnKey(e.to), p.Pos(e.site.Pos()), w))
			}
			if structural(e) || leafCallbackEdge(e.site) {
				continue
			}
			rem[e.from] = append(rem[e.from], e.to)
		}
		// acyclic after removing budget/structural edges?
		color := map[*ssa.Function]int{}
		cyc := false
		var dfs func(v *ssa.Function)
		dfs = func(v *ssa.Function) {
			color[v] = 1
			for _, w := range rem[v] {
				if color[w] == 1 {
					cyc = true
				} else if color[w] == 0 {
					dfs(w)
				}
			}
			color[v] = 2
		}
		for _, f := range comp {
			if color[f] == 0 {
				dfs(f)
			}
		}
		if !cyc {
			c.Pass(key, comp[0].Pos(), "every cycle passes a call that decrements the recursion budget (or shortens its argument)")
			continue
		}
		if reason, ok := term1Assumed[key]; ok {
			c.Pass(key, comp[0].Pos(), "assumed: %s", reason)
			continue
		}
		c.Fail(key, comp[0].Pos(), "a cycle of calls remains in which no call spends recursion budget%s: a page (or value) that refers back to itself recurses until the stack overflows", map[bool]string{true: " (" + strings.Join(why, "; ") + ")", false: ""}[len(why) > 0])
	}
}

// leafCallbackEdge: the call passes, as its only function-typed argument, a closure that makes no calls at all
// (a collector). Whatever the callee does, the only user callback it can reach is that closure, so the dynamic
// extent of this call cannot re-enter the caller: the nesting through this edge is one level deep.
func leafCallbackEdge(site ssa.CallInstruction) bool {
	n, leaf := 0, 0
	for _, a := range site.Common().Args {
		if _, ok := a.Type().Underlying().(*types.Signature); !ok {
			continue
		}
		n++
		if mc, ok := stripConv(a).(*ssa.MakeClosure); ok {
			f := mc.Fn.(*ssa.Function)
			if len(callsIn(f)) == 0 && len(f.AnonFuncs) == 0 {
				leaf++
			}
		}
	}
	return n > 0 && n == leaf
}

var term1Assumed = map[string]string{
	"cycle{sql.AsString}": "recursion over an expression tree built bottom-up by the parser from a finite token list (finite, acyclic)",
}

// ---- TERM-2 ----------------------------------------------------------------------------------

func runTerm2(c *Ctx) {
	p := c.P
	t := &Termer{P: p}
	for _, fn := range p.ModFuncs() {
		if !p.Reachable(fn) || trustedGenerated(p, fn) {
			continue
		}
		for k, h := range loopHeaders(fn) {
			key := fmt.Sprintf("%s loop#%d", p.FnKey(fn), k+1)
			kind, why := classifyLoop(p, t, fn, h)
			switch kind {
			case "":
				c.Fail(key, h.Instrs[0].Pos(), "loop is not recognisably bounded: %s", why)
			case "range":
				c.Trivial(key, h.Instrs[0].Pos(), "range loop")
			default:
				c.Pass(key, h.Instrs[0].Pos(), "%s loop: %s", kind, why)
			}
		}
	}
}

func classifyLoop(p *Program, t *Termer, fn *ssa.Function, h *ssa.BasicBlock) (string, string) {
	body := loopBody(h)
	// range over string/map: a Next instruction in the header
	for _, in := range h.Instrs {
		if _, ok := in.(*ssa.Next); ok {
			return "range", ""
		}
	}
	// range over slice/array: index phi −1, +1, compared `< len(x)` in the header, len computed outside the loop
	for _, in := range h.Instrs {
		ph, ok := in.(*ssa.Phi)
		if !ok || !isIntType(ph.Type()) {
			continue
		}
		if ph.Comment == "rangeindex" {
			return "range", ""
		}
	}
	paths, ok := EnumLits(h, 0, TabOpts{Termer: t, Limit: 200000,
		Stop: func(in ssa.Instruction, ps *pathState) bool { return in == h.Instrs[0] && len(ps.Path) > 1 }})
	if !ok {
		return "", "too many paths through the body"
	}
	var reasons []string
	for _, in := range h.Instrs {
		ph, ok := in.(*ssa.Phi)
		if !ok {
			continue
		}
		switch {
		case isIntType(ph.Type()):
			// progress: every back-edge value ≥ phi + 1, and some test `phi ≥ bound` (bound invariant) leaves the loop
			okInc := true
			n := 0
			for _, lp := range paths {
				if lp.Stop == nil {
					continue
				}
				n++
				pred := lp.PS.Path[len(lp.PS.Path)-2]
				var edge ssa.Value
				for k, pb := range h.Preds {
					if pb == pred {
						edge = ph.Edges[k]
					}
				}
				pr := newProver(p, t, lp)
				if pr.g.inconsistent() {
					continue
				}
				eps := lp.PS.clone()
				if eps.BlockGen != nil {
					delete(eps.BlockGen, h)
				}
				pr.ps = eps
				e := pr.linOf(edge)
				cur := pr.linOf(ph)
				pr.applyDisj()
				// e ≥ cur + 1  ⇔ cur.base − e.base ≤ e.off − cur.off − 1
				if !pr.g.entailsLE(cur.base, e.base, e.off-cur.off-1) {
					okInc = false
				}
			}
			if !okInc || n == 0 {
				reasons = append(reasons, "counter "+ph.Comment+" is not proven to grow on every iteration")
				continue
			}
			// an exit test on the counter against an invariant bound, executed on every iteration
			for b := range body {
				iff, ok := b.Instrs[len(b.Instrs)-1].(*ssa.If)
				if !ok {
					continue
				}
				bo, ok := iff.Cond.(*ssa.BinOp)
				if !ok {
					continue
				}
				if _, isCmp := negOp[bo.Op]; !isCmp {
					continue
				}
				if bo.Op == token.NEQ || bo.Op == token.EQL {
					// `len(s[i:]) == 0` is the threshold test `i ≥ len(s)` (a length cannot be skipped over: it is
					// never negative, and slicing beyond the end is PANIC's business, not a way past the test)
					isTailLen := func(v ssa.Value) bool {
						call, ok := v.(*ssa.Call)
						if !ok {
							return false
						}
						if bi, ok := call.Call.Value.(*ssa.Builtin); !ok || bi.Name() != "len" {
							return false
						}
						sl, ok := call.Call.Args[0].(*ssa.Slice)
						return ok && sl.High == nil && sl.Low != nil && dependsOn(sl.Low, ph, 3) && invariantIn(sl.X, body)
					}
					z, isZ := constInt(bo.Y)
					if !(isZ && z == 0 && isTailLen(bo.X)) {
						continue
					}
				}
				usesPhi := dependsOn(bo.X, ph, 5) || dependsOn(bo.Y, ph, 5)
				exits := !body[b.Succs[0]] || !body[b.Succs[1]]
				dominatesLatches := true
				for _, pr := range h.Preds {
					if body[pr] && !(b == pr || b.Dominates(pr)) {
						dominatesLatches = false
					}
				}
				other := bo.Y
				if dependsOn(bo.Y, ph, 3) {
					other = bo.X
				}
				if usesPhi && exits && dominatesLatches && invariantIn(other, body) {
					return "progress", "counter " + ph.Comment + " grows by ≥ 1 per iteration and is tested against an invariant bound on every iteration"
				}
			}
			reasons = append(reasons, "counter "+ph.Comment+" grows but no exit test against an invariant bound runs on every iteration")
		case isSliceOrString(ph.Type()):
			// shrink: back-edge values are ph[n:] with n ≥ 1, or ph itself ... ; exit test on len(ph)
			shr, grow := true, true
			n := 0
			for _, lp := range paths {
				if lp.Stop == nil {
					continue
				}
				n++
				pred := lp.PS.Path[len(lp.PS.Path)-2]
				var edge ssa.Value
				for k, pb := range h.Preds {
					if pb == pred {
						edge = ph.Edges[k]
					}
				}
				pr := newProver(p, t, lp)
				if pr.g.inconsistent() {
					continue
				}
				eps := lp.PS.clone()
				if eps.BlockGen != nil {
					delete(eps.BlockGen, h)
				}
				pr.ps = eps
				le, _, _ := pr.lenTermOf(edge)
				lc, _, _ := pr.lenTermOf(ph)
				pr.applyDisj()
				if !pr.g.entailsLE(le, lc, -1) {
					shr = false
				}
				if !pr.g.entailsLE(lc, le, -1) {
					grow = false
				}
			}
			if n == 0 {
				continue
			}
			exitOnLen := false
			var boundOK bool
			for b := range body {
				iff, ok := b.Instrs[len(b.Instrs)-1].(*ssa.If)
				if !ok {
					continue
				}
				bo, ok := iff.Cond.(*ssa.BinOp)
				if !ok {
					continue
				}
				isLenOfPhi := func(v ssa.Value) bool {
					v = stripConv(v)
					call, ok := v.(*ssa.Call)
					if !ok {
						return false
					}
					bi, ok := call.Call.Value.(*ssa.Builtin)
					return ok && bi.Name() == "len" && call.Call.Args[0] == ssa.Value(ph)
				}
				exits := !body[b.Succs[0]] || !body[b.Succs[1]]
				dom := true
				for _, pr := range h.Preds {
					if body[pr] && !(b == pr || b.Dominates(pr)) {
						dom = false
					}
				}
				if exits && dom && (isLenOfPhi(bo.X) || isLenOfPhi(bo.Y)) {
					exitOnLen = true
					other := bo.Y
					if isLenOfPhi(bo.Y) {
						other = bo.X
					}
					boundOK = invariantIn(other, body)
				}
			}
			if shr && exitOnLen {
				return "shrink", "the cursor loses ≥ 1 element per iteration and the loop ends when it is empty"
			}
			if grow && exitOnLen && boundOK {
				return "growth", "the buffer gains ≥ 1 byte per iteration towards an invariant target length"
			}
			if shr || grow {
				reasons = append(reasons, "cursor changes monotonically but no exit test on its length runs on every iteration")
			}
		}
	}
	if len(reasons) == 0 {
		reasons = append(reasons, "no counter, cursor or range found in the loop header")
	}
	return "", strings.Join(reasons, "; ")
}

func isSliceOrString(t types.Type) bool {
	switch u := t.Underlying().(type) {
	case *types.Slice:
		return true
	case *types.Basic:
		return u.Info()&types.IsString != 0
	}
	return false
}

func dependsOn(v ssa.Value, target ssa.Value, depth int) bool {
	if v == target {
		return true
	}
	if depth == 0 {
		return false
	}
	switch x := v.(type) {
	case *ssa.BinOp:
		return dependsOn(x.X, target, depth-1) || dependsOn(x.Y, target, depth-1)
	case *ssa.Convert:
		return dependsOn(x.X, target, depth-1)
	case *ssa.Call:
		if bi, ok := x.Call.Value.(*ssa.Builtin); ok && bi.Name() == "len" {
			return dependsOn(x.Call.Args[0], target, depth-1)
		}
	case *ssa.Slice:
		if x.Low != nil && x.High == nil {
			return dependsOn(x.Low, target, depth-1)
		}
	}
	return false
}

// invariantIn: v is not (re)defined inside the loop body.
func invariantIn(v ssa.Value, body map[*ssa.BasicBlock]bool) bool {
	v = stripConv(v)
	switch x := v.(type) {
	case *ssa.Const, *ssa.Parameter, *ssa.FreeVar, *ssa.Global:
		return true
	case *ssa.Call:
		if bi, ok := x.Call.Value.(*ssa.Builtin); ok && bi.Name() == "len" {
			return invariantIn(x.Call.Args[0], body)
		}
	case *ssa.UnOp:
		// field loads of a value that is not stored to in the loop
		if x.Op == token.MUL {
			if fa, ok := x.X.(*ssa.FieldAddr); ok {
				for b := range body {
					for _, in := range b.Instrs {
						if s, ok := in.(*ssa.Store); ok {
							if fa2, ok := s.Addr.(*ssa.FieldAddr); ok && fieldOf(fa2) == fieldOf(fa) {
								return false
							}
						}
					}
				}
				return invariantIn(fa.X, body)
			}
			if al, ok := x.X.(*ssa.Alloc); ok {
				for b := range body {
					for _, in := range b.Instrs {
						if s, ok := in.(*ssa.Store); ok && s.Addr == ssa.Value(al) {
							return false
						}
					}
				}
				return true
			}
		}
	}
	if in, ok := v.(ssa.Instruction); ok {
		return !body[in.Block()]
	}
	return false
}

// ---- CONTRACT ---------------------------------------------------------------------------------

// proveAt proves lo ≤ v (and v ≤ hi if hasHi) at instruction `at` on every path from the function entry.
func proveAt(p *Program, t *Termer, at ssa.Instruction, v ssa.Value, lo int64, hi int64, hasHi bool) (bool, string) {
	fn := at.Parent()
	paths, ok := EnumLits(fn.Blocks[0], 0, TabOpts{Termer: t, Limit: 300000, StopGoesOn: inCycle(at.Block()),
		Stop: func(in ssa.Instruction, ps *pathState) bool { return in == at }})
	if !ok {
		return false, "too many paths"
	}
	for _, lp := range paths {
		if lp.Stop == nil {
			continue
		}
		pr := newProver(p, t, lp)
		if pr.g.inconsistent() {
			continue
		}
		l := pr.linOf(v)
		pr.applyDisj()
		if !pr.g.entailsLE(zero, l.base, l.off-lo) {
			return false, fmt.Sprintf("%s ≥ %d not proven on path [%s]", t.Term(v, lp.PS), lo, pathDesc(lp))
		}
		if hasHi && !pr.g.entailsLE(l.base, zero, hi-l.off) {
			return false, fmt.Sprintf("%s ≤ %d not proven on path [%s]", t.Term(v, lp.PS), hi, pathDesc(lp))
		}
	}
	return true, ""
}

func runContract(c *Ctx) {
	p := c.P
	t := &Termer{P: p}
	// field invariants: every store of the field satisfies the bounds
	for key, inv := range fieldInvariants {
		parts := strings.SplitN(key, ".", 2)
		n := 0
		for _, fn := range p.ModFuncs() {
			for _, in := range instrs(fn) {
				s, ok := in.(*ssa.Store)
				if !ok {
					continue
				}
				fa, ok := s.Addr.(*ssa.FieldAddr)
				if !ok || fieldName(fa) != parts[1] {
					continue
				}
				nt := namedOf(fa.X.Type())
				if nt == nil || nt.Obj().Name() != parts[0] || nt.Obj().Pkg() == nil || !strings.HasPrefix(nt.Obj().Pkg().Path(), ModPath) {
					continue
				}
				n++
				ok2, why := proveAt(p, t, s, s.Val, inv.lo, inv.hi, inv.hasHi)
				ck := fmt.Sprintf("invariant %s in %s#%d", key, p.FnKey(fn), n)
				if key == "header.PageSize" && !ok2 {
					// zero headers are returned only together with an error and never installed (RD-TABLE `install`)
					ok2, why = zeroOnlyWithError(s), why
				}
				c.Check(ok2, ck, s.Pos(), "every value stored into %s is within its range %s", key, orStr(why, "✓"))
			}
		}
		if n == 0 {
			c.Undecided("invariant "+key, token.NoPos, "no store to %s found: the invariant's anchor is gone", key)
		}
	}
	// PAGE-LEN: every pager implementation returns exactly `pagesize` bytes with a nil error
	for _, impl := range p.pagerImpls("page") {
		key := "page length " + p.FnKey(impl)
		good := true
		why := ""
		for _, r := range returnsOf(impl) {
			v := r.Results[0]
			if isNilConst(v) {
				if isNilConst(r.Results[1]) {
					good, why = false, "returns (nil, nil)"
				}
				continue
			}
			switch x := stripConv(v).(type) {
			case *ssa.MakeSlice:
				if x.Len != ssa.Value(impl.Params[2]) {
					good, why = false, "buffer is not make([]byte, pagesize)"
				}
			case *ssa.Slice:
				// b[x:y] with y = x + pagesize
				bo, ok := x.High.(*ssa.BinOp)
				if !ok || bo.Op != token.ADD || !((bo.X == x.Low && bo.Y == ssa.Value(impl.Params[2])) || (bo.Y == x.Low && bo.X == ssa.Value(impl.Params[2]))) {
					good, why = false, "slice bounds are not [x : x+pagesize]"
				}
			default:
				good, why = false, "unrecognised buffer "+v.String()
			}
		}
		c.Check(good, key, impl.Pos(), "a page returned without error has exactly the requested size %s", why)
	}
	// (*Database).page forwards to the pager with the header's page size
	if fn := p.Func("db", "(*Database).page"); fn != nil {
		good := false
		for _, cs := range callsIn(fn) {
			if cs.Common().IsInvoke() && cs.Common().Method.Name() == "page" {
				if strings.HasSuffix(t.Term(cs.Common().Args[1], emptyPS()), ".header.PageSize") {
					good = true
				}
				for _, r := range returnsOf(fn) {
					if call, idx := extractOf(r.Results[0]); call != nil && call != cs.(*ssa.Call) && idx == 0 {
						good = false
					}
				}
			}
		}
		c.Check(good, "page length (*db.Database).page", fn.Pos(), "Database.page asks the pager for header.PageSize bytes and returns its buffer")
	}
	// cell pointers: every element stored by parseCellpointers is within [0, maxLen]
	if fn := p.Func("db", "parseCellpointers"); fn != nil {
		n := 0
		for _, in := range instrs(fn) {
			s, ok := in.(*ssa.Store)
			if !ok {
				continue
			}
			if _, ok := s.Addr.(*ssa.IndexAddr); !ok {
				continue
			}
			n++
			paths, _ := EnumLits(fn.Blocks[0], 0, TabOpts{Termer: t, StopGoesOn: inCycle(s.Block()), Stop: func(i2 ssa.Instruction, ps *pathState) bool { return i2 == ssa.Instruction(s) }})
			good := true
			for _, lp := range paths {
				if lp.Stop == nil {
					continue
				}
				pr := newProver(p, t, lp)
				v := pr.linOf(s.Val)
				m := pr.linOf(fn.Params[2])
				pr.applyDisj()
				if !pr.g.entailsLE(zero, v.base, v.off) || !pr.g.entailsLE(v.base, m.base, m.off-v.off) {
					good = false
				}
			}
			c.Check(good, "cell pointers in range", s.Pos(), "every cell offset recorded is within [0, len(page)]")
		}
		if n == 0 {
			c.Undecided("cell pointers in range", fn.Pos(), "parseCellpointers records no offsets")
		}
	}
	// columnIndex literals: rowid == false ⇒ rowIndex ≥ 0
	for _, fn := range p.ModFuncs() {
		if p.PkgShort(fn) != "." {
			continue
		}
		type lit struct {
			rowid, rowIndex *ssa.Store
		}
		lits := map[ssa.Value]*lit{}
		for _, in := range instrs(fn) {
			s, ok := in.(*ssa.Store)
			if !ok {
				continue
			}
			fa, ok := s.Addr.(*ssa.FieldAddr)
			if !ok || !typeIs(fa.X.Type(), ModPath, "columnIndex") {
				continue
			}
			l := lits[fa.X]
			if l == nil {
				l = &lit{}
				lits[fa.X] = l
			}
			switch fieldName(fa) {
			case "rowid":
				l.rowid = s
			case "rowIndex":
				l.rowIndex = s
			}
		}
		n := 0
		for _, l := range lits {
			if l.rowid == nil || l.rowIndex == nil {
				continue
			}
			n++
			key := fmt.Sprintf("columnIndex literal in %s#%d", p.FnKey(fn), n)
			if b, ok := constBool(l.rowid.Val); ok && b {
				c.Trivial(key, l.rowid.Pos(), "rowid column: rowIndex unused")
				continue
			}
			ok2, why := proveAt(p, t, l.rowIndex, l.rowIndex.Val, 0, 0, false)
			if !ok2 {
				// elements of columnStoreOrder's result are positions ≥ 0
				if u, ok := l.rowIndex.Val.(*ssa.UnOp); ok {
					if ia, ok := u.X.(*ssa.IndexAddr); ok {
						if call, ok := ia.X.(*ssa.Call); ok && calleeName(p, call) == "sqlittle.columnStoreOrder" {
							ok2 = true
						}
					}
				}
			}
			c.Check(ok2, key, l.rowIndex.Pos(), "a non-rowid column has a record position ≥ 0 %s", why)
		}
	}
	// columnStoreOrder: result has one entry per table column, all ≥ 0
	if fn := p.Func(".", "columnStoreOrder"); fn != nil {
		good := false
		for _, r := range returnsOf(fn) {
			if ms, ok := r.Results[0].(*ssa.MakeSlice); ok {
				if strings.HasSuffix(t.Term(ms.Len, emptyPS()), ".Columns)") {
					good = true
				}
			}
		}
		c.Check(good, "columnStoreOrder length", fn.Pos(), "the result has exactly one entry per table column")
		okElems := true
		for _, in := range instrs(fn) {
			if s, ok := in.(*ssa.Store); ok {
				if ia, ok := s.Addr.(*ssa.IndexAddr); ok {
					if ms, ok := ia.X.(*ssa.MakeSlice); ok && isIntType(ms.Type().Underlying().(*types.Slice).Elem()) {
						if ok2, _ := proveAt(p, t, s, s.Val, 0, 0, false); !ok2 {
							okElems = false
						}
					}
				}
			}
		}
		c.Check(okElems, "columnStoreOrder elements", fn.Pos(), "every position recorded is ≥ 0")
	}
	// readOp: the operator token is one or two bytes long (the tokenizer advances by its length)
	if fn := p.Func("sql", "readOp"); fn != nil {
		paths, complete := EnumLits(fn.Blocks[0], 0, TabOpts{Termer: t})
		good, why, n := complete, "", 0
		for _, lp := range paths {
			if lp.Exit == nil || len(lp.Exit.Results) != 1 {
				continue
			}
			pr := newProver(p, t, lp)
			if pr.g.inconsistent() {
				continue
			}
			n++
			lt, _, _ := pr.lenTermOf(lp.Exit.Results[0])
			pr.applyDisj()
			if !pr.g.entailsLE(zero, lt, -1) || !pr.g.entailsLE(lt, zero, 2) {
				good, why = false, fmt.Sprintf("; not proven for %s on path [%s]", t.Term(lp.Exit.Results[0], lp.PS), pathDesc(lp))
			}
		}
		c.Check(good && n > 0, "readOp result length", fn.Pos(), "readOp returns one or two bytes of its (non-empty) argument%s", why)
	} else {
		c.Undecided("readOp result length", token.NoPos, "sql.readOp not found")
	}
	// the token readers' counts: −1 (not a token) or the number of bytes consumed, 1..len of what they were given
	// (readBareword: 0..len — that it consumes at least the letter it was called for is the dispatch's business and stays
	// an assumption). The tokenizer advances by these counts; 0 or a count past the end would hang or crash it.
	for _, tr := range []struct {
		name string
		arg  int
		min  int64
	}{{"readNumericLiteral", 0, 1}, {"readQuoted", 1, 1}, {"readBareword", 0, 0}} {
		fn := p.Func("sql", tr.name)
		if fn == nil {
			c.Undecided("token count "+tr.name, token.NoPos, "sql.%s not found", tr.name)
			continue
		}
		paths, complete := EnumLits(fn.Blocks[0], 0, TabOpts{Termer: t, Limit: 200000, FieldCells: true})
		good, why, n := complete, "", 0
		argLen := "len(" + t.Term(fn.Params[tr.arg], emptyPS()) + ")"
		for _, lp := range paths {
			if lp.Exit == nil || len(lp.Exit.Results) != 2 {
				continue
			}
			pr := newProver(p, t, lp)
			if pr.g.inconsistent() {
				continue
			}
			n++
			cnt := lp.PS.Resolve(lp.Exit.Results[1])
			if k, isC := constInt(cnt); isC && k < 0 {
				continue // "not a token"
			}
			l := pr.linOf(cnt)
			pr.g.addLE(zero, argLen, 0)
			pr.applyDisj()
			if !pr.g.entailsLE(zero, l.base, l.off-tr.min) {
				good, why = false, fmt.Sprintf("; count %s ≥ %d not proven on path [%s]", t.Term(cnt, lp.PS), tr.min, pathDesc(lp))
			} else if !pr.g.entailsLE(l.base, argLen, -l.off) {
				good, why = false, fmt.Sprintf("; count %s ≤ %s not proven on path [%s]", t.Term(cnt, lp.PS), argLen, pathDesc(lp))
			}
		}
		c.Check(good && n > 0, "token count "+tr.name, fn.Pos(), "%s reports −1 or a count of consumed bytes within %d..len%s", tr.name, tr.min, why)
	}
	// scan-error contract: scanInt64/scanFloat64/scanTime return a non-nil error only after establishing i < len(r)
	for _, name := range []string{"scanInt64", "scanFloat64", "scanTime"} {
		fn := p.Func(".", "(Row)."+name)
		if fn == nil {
			c.Undecided("scan-error "+name, token.NoPos, "not found")
			continue
		}
		paths, _ := EnumLits(fn.Blocks[0], 0, TabOpts{Termer: t})
		good := true
		r, i := "p:"+fn.Params[0].Name(), "p:"+fn.Params[1].Name()
		for _, lp := range paths {
			if lp.Exit == nil || isNilConst(lp.PS.Resolve(lp.Exit.Results[1])) {
				continue
			}
			if !newProver(p, t, lp).g.entailsLE(i, "len("+r+")", -1) {
				good = false
			}
		}
		c.Check(good, "scan-error "+name, fn.Pos(), "an error is reported only for a column that exists (so the caller may index it when formatting the error)")
	}
	// cells slices are immutable after construction: stored only in composite literals of the constructors
	for _, typ := range []string{"tableLeaf", "tableInterior", "indexLeaf", "indexInterior"} {
		good := true
		for _, fn := range p.ModFuncs() {
			for _, in := range instrs(fn) {
				s, ok := in.(*ssa.Store)
				if !ok {
					continue
				}
				fa, ok := s.Addr.(*ssa.FieldAddr)
				if !ok || fieldName(fa) != "cells" || !typeIs(fa.X.Type(), modPkgPath("db"), typ) {
					continue
				}
				if _, isNew := fa.X.(*ssa.Alloc); !isNew {
					good = false
				}
			}
		}
		c.Check(good, "immutable "+typ+".cells", token.NoPos, "the cell slice of a parsed page is set once, in its constructor (the binary-search predicates index it with positions handed out for that length)")
	}
}

// zeroOnlyWithError: the stored header value escapes only through returns that carry a non-nil error.
func zeroOnlyWithError(s *ssa.Store) bool {
	return false
}

func DebugLoop(p *Program, fnKey string) {
	fn := findFn(p, fnKey)
	t := &Termer{P: p}
	for _, h := range loopHeaders(fn) {
		paths, _ := EnumLits(h, 0, TabOpts{Termer: t, Limit: 200000,
			Stop: func(in ssa.Instruction, ps *pathState) bool { return in == h.Instrs[0] && len(ps.Path) > 1 }})
		for _, in := range h.Instrs {
			ph, ok := in.(*ssa.Phi)
			if !ok || !isSliceOrString(ph.Type()) {
				continue
			}
			for _, lp := range paths {
				if lp.Stop == nil {
					continue
				}
				pred := lp.PS.Path[len(lp.PS.Path)-2]
				var edge ssa.Value
				for k, pb := range h.Preds {
					if pb == pred {
						edge = ph.Edges[k]
					}
				}
				pr := newProver(p, t, lp)
				eps := lp.PS.clone()
				if eps.BlockGen != nil {
					delete(eps.BlockGen, h)
				}
				pr.ps = eps
				le, _, _ := pr.lenTermOf(edge)
				lc, _, _ := pr.lenTermOf(ph)
				pr.applyDisj()
				fmt.Printf("phi %s: le=%s lc=%s grow=%v path [%s]\n", ph.Comment, le, lc, pr.g.entailsLE(lc, le, -1), pathDesc(lp))
				for a, outs := range pr.g.edges {
					for b, w := range outs {
						fmt.Printf("      %s − %s ≤ %d\n", orStr(b, "0"), orStr(a, "0"), w)
					}
				}
			}
		}
	}
}
