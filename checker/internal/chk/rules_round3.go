package chk

import (
	"fmt"
	"go/token"
	"go/types"
	"sort"
	"strings"

	"golang.org/x/tools/go/ssa"
)

var _ = fmt.Sprintf
var _ = strings.Join
var _ = sort.Strings

func round3Rules() []*Rule {
	return []*Rule{
		{ID: "PAGE-RO", Props: []string{"C08", "C20", "C01", "C02"}, Min: 1,
			Doc: "pages are read-only: package db never writes bytes into memory it did not allocate itself — every element store, copy destination and append base of a byte slice is a buffer made in the same function (page buffers are shared through the page cache and, for the file pager, map the file)",
			Run: runPageRO},
		{ID: "LOCK-9", Props: []string{"C06", "C08"}, Min: 1,
			Doc: "opening a handle happens outside any lock, so it may look at the header and nothing else: the only page read reachable from Open/OpenFile/newDatabase is resolveDirty's read of page 1 (the header is re-read under the lock by every transaction; anything else read here would be cached from an unlocked read)",
			Run: runLock9},
		{ID: "CACHE-2", Props: []string{"C05", "C12", "C08"}, Min: 2,
			Doc: "only what was built without error is cached: openPage stores into the page cache exactly the page newBtree returned together with a nil error (newBtree's failures return a typed nil pointer in an interface, which is != nil), and what it finds in the cache it returns as it is",
			Run: runCache2},
		{ID: "CACHE-3", Props: []string{"C08", "C12", "C10"}, Min: 2,
			Doc: "the cached sqlite_master answers like the computed one: what master() stores in the object cache holds every result it returns (the error included, unless only error-free results are cached), and the cached path returns exactly those fields",
			Run: runCache3},
		{ID: "ERR-5", Props: []string{"C12", "C19", "C05", "C18", "C04"}, Min: 120,
			Doc: "an error that may be non-nil does not vanish: on every path from an error-producing call to a return, that error is established nil, returned, handed to a call (wrapped), stored, or — once established non-nil — replaced by another error that is definitely non-nil; an error that is merely compared (`err == io.EOF`) and then replaced by nil is lost",
			Run: runErr5},
		{ID: "HDR-raw", Props: []string{"C15", "C08", "C01", "C04", "C14"}, Min: 1,
			Doc: "the header bytes re-read at the start of a transaction are interpreted by parseHeader and by nothing else (no second, unvalidated reading of header fields such as the in-header database size)",
			Run: runHdrRaw},
		{ID: "TOK-LOCAL", Props: []string{"C16"}, Min: 2,
			Doc: "the tokenizer carries nothing from one token to the next except its position and the tokens produced so far (how one name is quoted cannot change how a later one is read); the lexer hands the parser all three value fields of every token (nothing left over from the previous token)",
			Run: runTokLocal},
		{ID: "TOK-ADV", Props: []string{"C10", "C16", "C01"}, Min: 5,
			Doc: "the tokenizer advances by exactly the token it read: on every path of one loop iteration the new position is the old one plus the bytes the reader consumed (offset of the slice handed to the reader + the length it returns), or plus the size of the rune for one-rune tokens and white space (assumed: a numeric literal accepted by strconv is ASCII) — a byte more swallows the character after the token, a byte less reads part of it twice",
			Run: runTokAdv},
		{ID: "IDENT-VERBATIM", Props: []string{"C10", "C16", "C01"}, Min: 1,
			Doc: "package sql reports identifiers as written: its only case-changing call is the keyword lookup of the tokenizer (names are compared case-insensitively by package db, never rewritten by the parser)",
			Run: runIdentVerbatim},
		{ID: "CONV-exact", Props: []string{"C18"}, Min: 2,
			Doc: "text → integer: the exact strconv.ParseInt(s, 10, 64) is tried first and its value returned when it succeeds; ParseFloat (53-bit mantissa) is only the fallback",
			Run: runConvExact},
		{ID: "NEWCT", Props: []string{"C10", "C02", "C03", "C01", "C11"}, Min: 4,
			Doc: "column constraints become the right keys: a column-level PRIMARY KEY is indexed (or, WITHOUT ROWID, made the key) on that column with the column's collation and the direction written on it; a column-level UNIQUE on that column, the column's collation, ascending",
			Run: runNewCT},
		{ID: "ROOT", Props: []string{"C01", "C02", "C03", "C04", "C13"}, Min: 6,
			Doc: "every scan and lookup walks its own tree from its own root: in Table.Scan/Rowid and Index.Scan/ScanMin/ScanEq/ScanRange the page whose Iter/IterMin is called is the one just opened with openTable/openIndex(handle's db, handle's root) — not a page remembered from an earlier call or another table",
			Run: runRoot},
		{ID: "LIST-APPEND", Props: []string{"C16", "C10"}, Min: 3,
			Doc: "the grammar's list productions add exactly the element they parsed: a list value of the parser is built only by append(list, element), a one-element literal, or handed on unchanged — never by a helper that may drop, merge or reorder elements",
			Run: runListAppend},
		{ID: "STATELESS", Props: []string{"C17", "C01", "C02", "C08"}, Min: 10,
			Doc: "walking a b-tree leaves nothing behind: the iteration methods of the four page types (and their function literals) store into no field of the page, of the handle or of any other shared struct and update no map — so a scan that is stopped early, fails, or runs twice finds and leaves the same state",
			Run: runStateless},
		{ID: "DRV-10", Props: []string{"C08", "C19"}, Min: 2,
			Doc: "a prepared statement remembers nothing between executions: its fields are written only when it is prepared, so every execution re-reads the schema under its own lock",
			Run: runDrv10},
	}
}

func isByteSlice(t types.Type) bool {
	switch u := t.Underlying().(type) {
	case *types.Slice:
		b, ok := u.Elem().Underlying().(*types.Basic)
		return ok && (b.Kind() == types.Byte || b.Kind() == types.Uint8)
	case *types.Pointer:
		if a, ok := u.Elem().Underlying().(*types.Array); ok {
			b, ok := a.Elem().Underlying().(*types.Basic)
			return ok && (b.Kind() == types.Byte || b.Kind() == types.Uint8)
		}
	}
	return false
}

// ownBuffer: every value v can be is memory allocated by this very function (make, a local array, nil, or appends
// onto such).
func ownBuffer(v ssa.Value, seen map[ssa.Value]bool) bool {
	if seen[v] {
		return true
	}
	seen[v] = true
	switch x := v.(type) {
	case *ssa.MakeSlice:
		return true
	case *ssa.Alloc:
		_, isArr := x.Type().Underlying().(*types.Pointer).Elem().Underlying().(*types.Array)
		if isArr {
			return true
		}
		// a local variable holding a slice: all values stored into it
		for _, st := range cellStores(x) {
			if !ownBuffer(st.Val, seen) {
				return false
			}
		}
		return true
	case *ssa.Const:
		return x.IsNil()
	case *ssa.Slice:
		return ownBuffer(x.X, seen)
	case *ssa.Phi:
		for _, e := range x.Edges {
			if !ownBuffer(e, seen) {
				return false
			}
		}
		return true
	case *ssa.UnOp:
		if x.Op == token.MUL {
			if a, ok := x.X.(*ssa.Alloc); ok {
				return ownBuffer(a, seen)
			}
		}
		return false
	case *ssa.Call:
		if b, ok := x.Call.Value.(*ssa.Builtin); ok && b.Name() == "append" {
			return ownBuffer(x.Call.Args[0], seen)
		}
		return false
	case *ssa.ChangeType:
		return ownBuffer(x.X, seen)
	case *ssa.Convert:
		// []byte(string): a fresh copy
		if b, ok := x.X.Type().Underlying().(*types.Basic); ok && b.Info()&types.IsString != 0 {
			return true
		}
		return false
	}
	return false
}

func runPageRO(c *Ctx) {
	p := c.P
	for _, fn := range p.ModFuncs() {
		if p.PkgShort(fn) != "db" {
			continue
		}
		top := fn
		for top.Parent() != nil {
			top = top.Parent()
		}
		if top.Name() == "Fuzz" || (top.Name() == "init" && top.Synthetic != "") {
			continue // the fuzz entry point; package initialisation of the package's own variables
		}
		n := map[string]int{}
		for _, in := range instrs(fn) {
			var dst ssa.Value
			what := ""
			switch x := in.(type) {
			case *ssa.Store:
				ia, ok := x.Addr.(*ssa.IndexAddr)
				if !ok || !isByteSlice(ia.X.Type()) {
					continue
				}
				dst, what = ia.X, "element store"
			case *ssa.Call:
				b, ok := x.Call.Value.(*ssa.Builtin)
				if !ok {
					continue
				}
				switch b.Name() {
				case "copy":
					if !isByteSlice(x.Call.Args[0].Type()) {
						continue
					}
					dst, what = x.Call.Args[0], "copy destination"
				case "append":
					if !isByteSlice(x.Type()) {
						continue
					}
					dst, what = x.Call.Args[0], "append base"
				default:
					continue
				}
			default:
				continue
			}
			n[what]++
			key := fmt.Sprintf("%s %s#%d", p.FnKey(fn), what, n[what])
			if ownBuffer(dst, map[ssa.Value]bool{}) {
				c.Pass(key, in.Pos(), "%s into a buffer this function allocated", what)
				continue
			}
			if what == "append base" && p.FnKey(fn) == "db.addOverflow" {
				c.Pass(key, in.Pos(), "the one append onto a page-backed slice; FMT-overflow `overflow append whole page` decides that it always reallocates")
				continue
			}
			c.Fail(key, in.Pos(), "%s into memory this function did not allocate (%s): page buffers are shared through the page cache (and map the file); writing into one changes what later reads on this handle see", what, dst.String())
		}
	}
}

func runDrv10(c *Ctx) {
	p := c.P
	n := 0
	for _, fn := range p.ModFuncs() {
		if p.PkgShort(fn) != "driver" {
			continue
		}
		for _, in := range instrs(fn) {
			st, ok := in.(*ssa.Store)
			if !ok {
				continue
			}
			fa, ok := st.Addr.(*ssa.FieldAddr)
			if !ok || namedTypeName(fa.X.Type()) != "Statement" {
				continue
			}
			n++
			top := fn
			for top.Parent() != nil {
				top = top.Parent()
			}
			key := fmt.Sprintf("Statement.%s written in %s", fieldName(fa), p.FnKey(fn))
			// allowed: initialisation of a Statement being created (a composite literal not yet shared)
			_, isLit := fa.X.(*ssa.Alloc)
			c.Check(isLit && p.FnKey(top) == "(*driver.Connection).Prepare", key, st.Pos(), "%s", map[bool]string{true: "set while the statement is being prepared", false: "a statement field is written after Prepare: what one execution learnt (e.g. the expanded column list) is reused by the next one although the schema may have changed in between"}[isLit && p.FnKey(top) == "(*driver.Connection).Prepare"])
		}
	}
	if n == 0 {
		c.Undecided("Statement fields", token.NoPos, "no store into a Statement field found")
	}
}

func runLock9(c *Ctx) {
	p := c.P
	var roots []*ssa.Function
	for _, k := range []string{"sqlittle.Open", "db.OpenFile", "db.newDatabase"} {
		if fn := findFn(p, k); fn != nil {
			roots = append(roots, fn)
		} else {
			c.Undecided("anchor "+k, token.NoPos, "%s not found", k)
		}
	}
	seen := map[*ssa.Function]bool{}
	work := append([]*ssa.Function(nil), roots...)
	n := 0
	for len(work) > 0 {
		fn := work[len(work)-1]
		work = work[:len(work)-1]
		if seen[fn] || fn.Blocks == nil {
			continue
		}
		seen[fn] = true
		for _, an := range fn.AnonFuncs {
			work = append(work, an)
		}
		for _, cs := range callsIn(fn) {
			cc := cs.Common()
			isPage := false
			if cc.IsInvoke() && cc.Method.Name() == "page" && typeIs(cc.Value.Type(), modPkgPath("db"), "pager") {
				isPage = true
			}
			for _, callee := range p.Callees(cs) {
				for _, impl := range p.pagerImpls("page") {
					if callee == impl && !cc.IsInvoke() {
						isPage = true
					}
				}
				if p.InModule(callee) && !isPage {
					work = append(work, callee)
				}
			}
			if !isPage {
				continue
			}
			n++
			key := "page read in " + p.FnKey(fn)
			args := cc.Args
			pageArg := args[0]
			if !cc.IsInvoke() && len(args) > 1 {
				pageArg = args[1]
			}
			k, isC := constInt(pageArg)
			c.Check(isC && k == 1 && p.FnKey(fn) == "(*db.Database).resolveDirty", key, cs.Pos(), "%s", map[bool]string{true: "the header read (page 1) of resolveDirty", false: "opening a handle reads a page other than the header's, without holding the lock: whatever is parsed from it stays in the handle's caches as long as the change counter does not move"}[isC && k == 1 && p.FnKey(fn) == "(*db.Database).resolveDirty"])
		}
	}
	if n == 0 {
		c.Undecided("page reads while opening", token.NoPos, "no page read reachable from Open/OpenFile found")
	}
}

func runCache2(c *Ctx) {
	p := c.P
	fn := findFn(p, "(*db.Database).openPage")
	if fn == nil {
		c.Undecided("anchor openPage", token.NoPos, "(*db.Database).openPage not found")
		return
	}
	t := &Termer{P: p}
	paths, ok := EnumLits(fn.Blocks[0], 0, TabOpts{Termer: t, EventOf: callEvents(p)})
	if !ok {
		c.Undecided("openPage paths", fn.Pos(), "too many paths")
		return
	}
	pageP := "p:" + fn.Params[1].Name()
	nSet := 0
	for _, lp := range paths {
		if lp.Exit == nil {
			continue
		}
		sets := eventsOf(lp, "call", "(*db.btreeCache).set")
		builds := eventsOf(lp, "call", "db.newBtree")
		key := "openPage:" + pathSig(lp, 99)
		if len(sets) == 0 {
			// a page built with an error must not have been cached earlier either: nothing to check; a successfully
			// built page that is not cached is only slower
			if len(builds) > 0 && lp.Holds("call:db.newBtree#1", token.EQL, "nil") {
				c.Info(key, lp.Exit.Pos(), "a successfully built page is not cached on this path")
			}
			continue
		}
		nSet++
		good := len(sets) == 1 && len(builds) == 1 && lp.Holds("call:db.newBtree#1", token.EQL, "nil") &&
			len(sets[0].Args) == 3 && sets[0].Args[1] == pageP && reOrd.ReplaceAllString(sets[0].Args[2], "") == "call:db.newBtree#0"
		why := "the page cached is newBtree's result, under its own page number, and only after newBtree's error was established nil"
		if !good {
			why = fmt.Sprintf("a page is put into the cache (%s) on path [%s] without newBtree's error having been established nil: a page that failed to parse is a typed nil pointer, later visits take it from the cache and dereference it", strings.Join(sets[0].Args, ", "), pathDesc(lp))
		}
		c.Check(good, key, sets[0].Instr.Pos(), "%s", why)
	}
	if nSet == 0 {
		c.Info("openPage caches", fn.Pos(), "openPage does not cache pages")
	}
	// a cache hit is returned as it is, with a nil error, and only when it is not nil
	for _, lp := range paths {
		if lp.Exit == nil || len(eventsOf(lp, "call", "db.newBtree")) > 0 || len(eventsOf(lp, "call", "(*db.btreeCache).get")) == 0 {
			continue
		}
		r0 := reOrd.ReplaceAllString(t.Term(lp.Exit.Results[0], lp.PS), "")
		if r0 == "call:(*db.btreeCache).get#0" {
			// (value, present): returned when the cache says it is there — and what is there was stored by the
			// obligation above, a page built without error
			c.Check(lp.Holds("call:(*db.btreeCache).get#1", token.EQL, "true") && t.Term(lp.Exit.Results[1], lp.PS) == "const:nil", "openPage hit:"+pathSig(lp, 99), lp.Exit.Pos(), "a cache hit is returned only when the cache reports the page present, with a nil error")
			continue
		}
		if r0 != "call:(*db.btreeCache).get" {
			continue
		}
		c.Check(lp.Holds("type(call:(*db.btreeCache).get)", token.NEQ, "nil") && t.Term(lp.Exit.Results[1], lp.PS) == "const:nil", "openPage hit:"+pathSig(lp, 99), lp.Exit.Pos(), "a cache hit is returned only when it is non-nil, with a nil error")
	}
}

func runErr5(c *Ctx) {
	p := c.P
	for _, src := range errSources(p, false) {
		call, isVal := src.Call.(*ssa.Call)
		if !isVal {
			continue
		}
		ev, _ := errResultOf(call)
		if ev == nil || errException(p, src.Fn, src.Call) != "" {
			continue
		}
		if cal := call.Call.StaticCallee(); cal != nil && isErrorfLike(cal) {
			continue // constructing an error value is not a failure to be handled
		}
		top := src.Fn
		for top.Parent() != nil {
			top = top.Parent()
		}
		if p.FnKey(top) == "(*db.Database).Info" {
			continue // a diagnostic dump whose callbacks are the user callbacks (ERR-1 checks its errors)
		}
		t := &Termer{P: p}
		paths, ok := EnumLits(call.Block(), instrIndex(call)+1, TabOpts{Termer: t, EventOf: callEvents(p), Limit: 50000})
		if !ok {
			c.Undecided(src.Key, call.Pos(), "too many paths after the call")
			continue
		}
		eterm := t.Term(ev, emptyPS())
		has := func(s string) bool { return s == eterm || strings.Contains(s, eterm) }
		bad := ""
		var badPos token.Pos
		for _, lp := range paths {
			if lp.Exit == nil || bad != "" {
				continue
			}
			if lp.Holds(eterm, token.EQL, "nil") {
				continue
			}
			handled := false
			for _, e := range lp.Events {
				switch e.Kind {
				case "call", "defer":
					for _, a := range e.Args {
						if has(a) {
							handled = true
						}
					}
				case "store":
					if has(e.Val) {
						handled = true
					}
				}
			}
			for _, r := range lp.Exit.Results {
				if has(t.Term(r, lp.PS)) {
					handled = true
				}
			}
			if handled {
				continue
			}
			if lp.Holds(eterm, token.NEQ, "nil") && len(lp.Exit.Results) > 0 && isErrorType(lp.Exit.Results[len(lp.Exit.Results)-1].Type()) && retErrDefinitelyNonNil(lp, t) {
				continue // replaced by another error
			}
			// a callback that reports failure through a captured variable and its bool result is handled by the store above;
			// reaching here means the value is simply gone
			bad = fmt.Sprintf("on path [%s] the function returns (%s) and %s, which may be non-nil there, is neither returned, wrapped, stored nor replaced by another error", pathDesc(lp), strings.Join(retTerms(t, lp), ", "), eterm)
			badPos = lp.Exit.Pos()
		}
		if bad != "" {
			c.Fail(src.Key, badPos, "%s", bad)
		} else {
			c.Pass(src.Key, call.Pos(), "the error of %s reaches a return, a wrapper or a store on every path where it may be non-nil", src.Name)
		}
	}
}

func runHdrRaw(c *Ctx) {
	p := c.P
	fn := findFn(p, "(*db.Database).resolveDirty")
	if fn == nil {
		c.Undecided("anchor resolveDirty", token.NoPos, "not found")
		return
	}
	n := 0
	for _, cs := range callsIn(fn) {
		cc := cs.Common()
		if !(cc.IsInvoke() && cc.Method.Name() == "page") {
			continue
		}
		call, ok := cs.(*ssa.Call)
		if !ok {
			continue
		}
		for _, r := range *call.Referrers() {
			ex, ok := r.(*ssa.Extract)
			if !ok || ex.Index != 0 {
				continue
			}
			n++
			var other []string
			for _, u := range *ex.Referrers() {
				if uc, ok := u.(ssa.CallInstruction); ok {
					if cal := uc.Common().StaticCallee(); cal != nil && p.FnKey(cal) == "db.parseHeader" {
						continue
					}
				}
				if _, isDbg := u.(*ssa.DebugRef); isDbg {
					continue
				}
				if uc, ok := u.(*ssa.Call); ok {
					if b, ok := uc.Call.Value.(*ssa.Builtin); ok && (b.Name() == "len" || b.Name() == "cap") {
						continue // its size, not its content
					}
				}
				other = append(other, u.String()+" ("+p.Pos(u.Pos())+")")
			}
			sort.Strings(other)
			c.Check(len(other) == 0, "header bytes", call.Pos(), "%s", map[bool]string{true: "the header page goes to parseHeader only", false: "the raw header page is also used by " + strings.Join(other, "; ") + ": a header field is read outside parseHeader's validation (e.g. the in-header size, which is only valid when version-valid-for matches the change counter)"}[len(other) == 0])
		}
	}
	if n == 0 {
		c.Undecided("header bytes", fn.Pos(), "resolveDirty does not read the header page through the pager")
	}
}

func runTokLocal(c *Ctx) {
	p := c.P
	if fn := findFn(p, "sql.tokenize"); fn == nil {
		c.Undecided("anchor tokenize", token.NoPos, "sql.tokenize not found")
	} else {
		hs := loopHeaders(fn)
		// the token loop: the outermost loop (a header not inside another loop's body)
		var outer []*ssa.BasicBlock
		for _, h := range hs {
			inside := false
			for _, h2 := range hs {
				if h2 != h && loopBody(h2)[h] {
					inside = true
				}
			}
			if !inside {
				outer = append(outer, h)
			}
		}
		if len(outer) != 1 {
			c.Undecided("tokenize loop", fn.Pos(), "expected one token loop, found %d", len(outer))
		} else {
			var extra []string
			for _, in := range outer[0].Instrs {
				ph, ok := in.(*ssa.Phi)
				if !ok {
					continue
				}
				switch tt := ph.Type().Underlying().(type) {
				case *types.Basic:
					if tt.Kind() == types.Int {
						continue // the position
					}
				case *types.Slice:
					if namedTypeName(tt.Elem()) == "token" {
						continue // the result
					}
				}
				extra = append(extra, ph.Comment+" "+ph.Type().String())
			}
			// a variable hoisted out of the loop and assigned inside lives in a cell when it is captured; look for those too
			for _, b := range fn.Blocks {
				if loopBody(outer[0])[b] {
					continue
				}
				for _, in := range b.Instrs {
					if a, ok := in.(*ssa.Alloc); ok && !a.Heap {
						_ = a
					}
				}
			}
			c.Check(len(extra) == 0, "tokenize carries only position and result", outer[0].Instrs[0].Pos(), "%s", map[bool]string{true: "loop-carried values of the token loop: the position and the tokens so far", false: "the token loop carries state from one token to the next: " + strings.Join(extra, ", ")}[len(extra) == 0])
		}
	}
	fn := findFn(p, "(*sql.lexer).Lex")
	if fn == nil {
		c.Undecided("anchor Lex", token.NoPos, "(*sql.lexer).Lex not found")
		return
	}
	t := &Termer{P: p}
	paths, _ := EnumLits(fn.Blocks[0], 0, TabOpts{Termer: t, EventOf: callEvents(p)})
	lval := "p:" + fn.Params[1].Name()
	n := 0
	for _, lp := range paths {
		if lp.Exit == nil || len(lp.Exit.Results) != 1 {
			continue
		}
		if k, isC := constInt(lp.PS.Resolve(lp.Exit.Results[0])); isC && k == 0 {
			continue // end of input
		}
		n++
		got := map[string]string{}
		for _, e := range lp.Events {
			if e.Kind == "store" && e.Base == lval {
				got[e.Name] = e.Val
			}
		}
		var missing []string
		for f, src := range map[string]string{"identifier": ".s", "signedNumber": ".n", "float": ".f"} {
			if v, ok := got[f]; !ok || !strings.HasSuffix(v, src) {
				missing = append(missing, f)
			}
		}
		sort.Strings(missing)
		c.Check(len(missing) == 0, "Lex:"+pathSig(lp, 99), lp.Exit.Pos(), "%s", map[bool]string{true: "every token overwrites identifier, signedNumber and float of the parser's value", false: "a token is returned without setting " + strings.Join(missing, ", ") + ": the parser's value keeps what the previous token left there"}[len(missing) == 0])
	}
	if n == 0 {
		c.Undecided("Lex", fn.Pos(), "no path of Lex returns a token")
	}
}

func runIdentVerbatim(c *Ctx) {
	p := c.P
	n := 0
	for _, fn := range p.ModFuncs() {
		if p.PkgShort(fn) != "sql" {
			continue
		}
		for _, cs := range callsIn(fn) {
			cal := cs.Common().StaticCallee()
			if cal == nil || cal.Pkg == nil || (cal.Pkg.Pkg.Path() != "strings" && cal.Pkg.Pkg.Path() != "unicode" && cal.Pkg.Pkg.Path() != "bytes") {
				continue
			}
			switch cal.Name() {
			case "ToLower", "ToUpper", "ToTitle", "Title", "Map", "ToLowerSpecial", "ToUpperSpecial":
			default:
				continue
			}
			n++
			key := fmt.Sprintf("%s→%s.%s#%d", p.FnKey(fn), cal.Pkg.Pkg.Name(), cal.Name(), n)
			// allowed: the result is used only as the key of a lookup in the keywords table
			good := p.FnKey(fn) == "sql.tokenize"
			if call, ok := cs.(*ssa.Call); ok && good {
				for _, r := range *call.Referrers() {
					switch x := r.(type) {
					case *ssa.Lookup:
						g, isG := x.X.(*ssa.UnOp)
						if !isG {
							good = false
						} else if gl, ok := g.X.(*ssa.Global); !ok || gl.Name() != "keywords" {
							good = false
						}
					case *ssa.DebugRef:
					default:
						good = false
					}
				}
			}
			c.Check(good, key, cs.Pos(), "%s", map[bool]string{true: "case is folded only to look a bare word up in the keyword table", false: "package sql changes the case of text it hands on: identifiers must be reported as written (SQLite compares names case-insensitively but keeps their spelling; package db compares with folding on both sides)"}[good])
		}
	}
	if n == 0 {
		c.Undecided("keyword lookup", token.NoPos, "no case folding found in package sql at all: the keyword lookup this rule anchors on is gone")
	}
}

func runConvExact(c *Ctx) {
	p := c.P
	fn := findFn(p, "sqlittle.stringToInt64")
	if fn == nil {
		c.Undecided("anchor stringToInt64", token.NoPos, "not found")
		return
	}
	t := &Termer{P: p}
	paths, _ := EnumLits(fn.Blocks[0], 0, TabOpts{Termer: t, EventOf: callEvents(p)})
	sP := "p:" + fn.Params[0].Name()
	nExact, nFallback := 0, 0
	for _, lp := range paths {
		if lp.Exit == nil || len(lp.Exit.Results) != 2 {
			continue
		}
		key := "stringToInt64:" + pathSig(lp, 99)
		pi := eventsOf(lp, "call", "strconv.ParseInt")
		pf := eventsOf(lp, "call", "strconv.ParseFloat")
		first := len(pi) == 1 && len(pi[0].Args) == 3 && pi[0].Args[0] == sP && pi[0].Args[1] == "const:10" && pi[0].Args[2] == "const:64"
		if !first {
			c.Fail(key, lp.Exit.Pos(), "the text is not first read with strconv.ParseInt(s, 10, 64): integers above 2^53 are rounded through float64")
			continue
		}
		r0 := reOrd.ReplaceAllString(t.Term(lp.Exit.Results[0], lp.PS), "")
		if lp.Holds("call:strconv.ParseInt#1", token.EQL, "nil") {
			nExact++
			c.Check(len(pf) == 0 && r0 == "call:strconv.ParseInt#0" && isNilConst(lp.PS.Resolve(lp.Exit.Results[1])), key, lp.Exit.Pos(), "exact integer text ⇒ ParseInt's value, nil (returns %s)", r0)
		} else {
			nFallback++
			c.Check(len(pf) == 1 && pf[0].Args[0] == sP, key, lp.Exit.Pos(), "otherwise ParseFloat(s) is the fallback")
		}
	}
	if nExact == 0 || nFallback == 0 {
		c.Fail("stringToInt64 shape", fn.Pos(), "expected an exact path and a fallback path (found %d, %d)", nExact, nFallback)
	}
}

// sliceLitElem: arg is a slice of a local array literal with one element; returns field → term of that element.
func sliceLitElem(t *Termer, arg ssa.Value, ps *pathState) (map[string]string, bool) {
	sl, ok := ps.Resolve(arg).(*ssa.Slice)
	if !ok {
		return nil, false
	}
	al, ok := sl.X.(*ssa.Alloc)
	if !ok {
		return nil, false
	}
	arr, ok := al.Type().Underlying().(*types.Pointer).Elem().Underlying().(*types.Array)
	if !ok || arr.Len() != 1 {
		return nil, false
	}
	out := map[string]string{}
	for _, r := range *al.Referrers() {
		ia, ok := r.(*ssa.IndexAddr)
		if !ok {
			continue
		}
		for _, r2 := range *ia.Referrers() {
			fa, ok := r2.(*ssa.FieldAddr)
			if !ok {
				continue
			}
			for _, r3 := range *fa.Referrers() {
				if st, ok := r3.(*ssa.Store); ok && st.Addr == ssa.Value(fa) {
					out[fieldName(fa)] = t.Term(st.Val, ps)
				}
			}
		}
	}
	return out, true
}

func runNewCT(c *Ctx) {
	p := c.P
	fn := findFn(p, "db.newCreateTable")
	if fn == nil {
		c.Undecided("anchor newCreateTable", token.NoPos, "not found")
		return
	}
	hs := loopHeaders(fn)
	// the column loop: the loop in which TableColumn values are appended to Columns
	var h *ssa.BasicBlock
	for _, cand := range hs {
		for b := range loopBody(cand) {
			for _, in := range b.Instrs {
				if st, ok := in.(*ssa.Store); ok && fieldName(st.Addr) == "Columns" && h == nil {
					h = cand
				}
			}
		}
	}
	if h == nil {
		c.Undecided("newCreateTable column loop", fn.Pos(), "no loop appending to Schema.Columns")
		return
	}
	body := loopBody(h)
	t := &Termer{P: p}
	paths, ok := EnumLits(h, 0, TabOpts{Termer: t, EventOf: callEvents(p), Limit: 200000,
		Stop: func(in ssa.Instruction, ps *pathState) bool {
			b := in.Block()
			if b.Parent() != fn || in != b.Instrs[0] {
				return false
			}
			return (b == h && len(ps.Path) > 1) || !body[b]
		}})
	if !ok {
		c.Undecided("newCreateTable column loop", fn.Pos(), "too many paths")
		return
	}
	seen := map[string]bool{}
	for _, lp := range paths {
		for _, e := range lp.Events {
			if e.Kind != "call" || (e.Name != "(*db.Schema).addIndex" && e.Name != "(*db.Schema).setPK") {
				continue
			}
			call := e.Instr.(*ssa.Call)
			colsArg := call.Call.Args[len(call.Call.Args)-1]
			el, ok := sliceLitElem(t, colsArg, lp.PS)
			kind := "PRIMARY KEY"
			wantDir := "PrimaryKeyDir"
			if e.Name == "(*db.Schema).addIndex" && e.Args[1] == "const:false" {
				kind, wantDir = "UNIQUE", ""
			}
			if e.Name == "(*db.Schema).setPK" {
				kind = "WITHOUT ROWID PRIMARY KEY"
			}
			key := "column-level " + kind
			seen[kind] = true
			if !ok {
				c.Fail(key, call.Pos(), "the key handed to %s is not a one-column literal built for this column", e.Name)
				continue
			}
			col := gen(el["Column"])
			dir := gen(el["SortOrder"])
			goodCol := strings.HasSuffix(col, ".Columns[i].Name")
			goodDir := false
			if wantDir == "" {
				goodDir = dir == "const:0" || dir == ""
			} else {
				goodDir = strings.HasSuffix(dir, ".Columns[i]."+wantDir)
			}
			coll := gen(el["Collate"])
			goodColl := strings.HasSuffix(coll, ".Columns[i].Collate")
			c.Check(goodCol && goodDir && goodColl, key, call.Pos(), "a column-level %s becomes a key on (%s, collation %s, direction %s); it must be the column itself with the column's own collation (SQLite orders the automatic index by it), %s", kind, col, orStr(coll, "none"), orStr(dir, "none"), map[bool]string{true: "ascending", false: "in the direction written on the constraint"}[wantDir == ""])
		}
	}
	// a column-level UNIQUE is indexed whatever else the column is (an INTEGER PRIMARY KEY UNIQUE gets its automatic
	// index too, and the numbering of the later ones depends on it)
	for _, lp := range paths {
		if lp.Stop == nil {
			continue
		}
		uniq := false
		for _, l := range lp.Lits {
			if strings.HasSuffix(gen(l.Subject), ".Columns[i].Unique") && ((l.Op == token.EQL && l.C == "true") == l.Val) {
				uniq = true
			}
		}
		if !uniq {
			continue
		}
		has := false
		for _, e := range lp.Events {
			if e.Kind == "call" && e.Name == "(*db.Schema).addIndex" && len(e.Args) > 1 && e.Args[1] == "const:false" {
				has = true
			}
		}
		c.Check(has, "column-level UNIQUE always indexed:"+pathSig(lp, 99), fn.Pos(), "%s", map[bool]string{true: "a UNIQUE column is offered to addIndex on this path", false: "a column declared UNIQUE gets no index on path [" + pathDesc(lp) + "]"}[has])
	}
	for _, k := range []string{"PRIMARY KEY", "UNIQUE", "WITHOUT ROWID PRIMARY KEY"} {
		if !seen[k] {
			c.Fail("column-level "+k, fn.Pos(), "a column-level %s no longer produces a key", k)
		}
	}
}

// linComb: v as an integer linear combination of atomic terms plus a constant (additions and subtractions only).
func linComb(t *Termer, v ssa.Value, ps *pathState, sign int64, out map[string]int64, depth int) {
	v = ps.Resolve(v)
	if n, ok := evalInt(v, ps); ok {
		out[""] += sign * n
		return
	}
	if depth < 16 {
		switch x := v.(type) {
		case *ssa.BinOp:
			switch x.Op {
			case token.ADD:
				linComb(t, x.X, ps, sign, out, depth+1)
				linComb(t, x.Y, ps, sign, out, depth+1)
				return
			case token.SUB:
				linComb(t, x.X, ps, sign, out, depth+1)
				linComb(t, x.Y, ps, -sign, out, depth+1)
				return
			}
		case *ssa.Convert:
			if safeIntConv(x) {
				linComb(t, x.X, ps, sign, out, depth+1)
				return
			}
		case *ssa.ChangeType:
			linComb(t, x.X, ps, sign, out, depth+1)
			return
		}
	}
	out[t.Term(v, ps)] += sign
}

func runTokAdv(c *Ctx) {
	p := c.P
	fn := findFn(p, "sql.tokenize")
	if fn == nil {
		c.Undecided("anchor tokenize", token.NoPos, "sql.tokenize not found")
		return
	}
	var h *ssa.BasicBlock
	hs := loopHeaders(fn)
	for _, cand := range hs {
		inside := false
		for _, h2 := range hs {
			if h2 != cand && loopBody(h2)[cand] {
				inside = true
			}
		}
		if !inside {
			if h != nil {
				c.Undecided("tokenize loop", fn.Pos(), "more than one outer loop")
				return
			}
			h = cand
		}
	}
	if h == nil {
		c.Undecided("tokenize loop", fn.Pos(), "no loop")
		return
	}
	var iPhi *ssa.Phi
	for _, in := range h.Instrs {
		if ph, ok := in.(*ssa.Phi); ok {
			if b, ok := ph.Type().Underlying().(*types.Basic); ok && b.Kind() == types.Int {
				if iPhi != nil {
					c.Undecided("tokenize position", fn.Pos(), "more than one integer carried by the token loop")
					return
				}
				iPhi = ph
			}
		}
	}
	if iPhi == nil {
		c.Undecided("tokenize position", fn.Pos(), "no position variable")
		return
	}
	sP := fn.Params[0]
	t := &Termer{P: p}
	paths, ok := EnumLits(h, 0, TabOpts{Termer: t, EventOf: callEvents(p), Limit: 200000,
		Stop: func(in ssa.Instruction, ps *pathState) bool { return in == h.Instrs[0] && len(ps.Path) > 1 }})
	if !ok {
		c.Undecided("tokenize paths", fn.Pos(), "too many paths")
		return
	}
	done := map[string]bool{}
	for _, lp := range paths {
		if lp.Stop == nil {
			continue
		}
		// the predecessor through which the path re-enters the header
		if len(lp.PS.Path) < 2 {
			continue
		}
		pred := lp.PS.Path[len(lp.PS.Path)-2]
		var next ssa.Value
		for k, pb := range h.Preds {
			if pb == pred {
				next = iPhi.Edges[k]
			}
		}
		if next == nil {
			continue
		}
		diff := map[string]int64{}
		linComb(t, next, lp.PS, 1, diff, 0)
		linComb(t, iPhi, lp.PS, -1, diff, 0)
		// what was consumed
		what := "one rune"
		var runeSize string
		consumedSet := false
		for _, e := range lp.Events {
			if e.Kind != "call" {
				continue
			}
			call, isCall := e.Instr.(*ssa.Call)
			if !isCall {
				continue
			}
			cal := call.Call.StaticCallee()
			if cal != nil && isLibFunc(cal, "unicode/utf8", "DecodeRuneInString") {
				runeSize = t.Term(call, lp.PS) + "#1"
				continue
			}
			if cal == nil || !p.InModule(cal) || !strings.HasPrefix(cal.Name(), "read") {
				continue
			}
			// the string handed to the reader: s[i+k:]
			// … possibly a tail of a tail (`rest := s[i:]; readQuoted(rest[1:])`): the offsets add up
			var lows []ssa.Value
			found := false
			for _, a := range call.Call.Args {
				var ls []ssa.Value
				v := lp.PS.Resolve(a)
				for {
					x, ok := v.(*ssa.Slice)
					if !ok || x.High != nil {
						break
					}
					if x.Low != nil {
						ls = append(ls, x.Low)
					}
					v = lp.PS.Resolve(x.X)
				}
				if v == ssa.Value(sP) && len(ls) > 0 {
					lows, found = ls, true
				}
			}
			if !found {
				c.Undecided("tokenize reader "+cal.Name(), call.Pos(), "%s is not handed a tail s[k:] of the input", cal.Name())
				consumedSet = true
				continue
			}
			what = cal.Name()
			consumedSet = true
			// expected = (low − i) + n  ⇒ subtract low, add i back, subtract n
			for _, lo := range lows {
				linComb(t, lo, lp.PS, -1, diff, 0)
			}
			linComb(t, iPhi, lp.PS, 1, diff, 0)
			res := cal.Signature.Results()
			if res.Len() == 2 {
				for _, r := range *call.Referrers() {
					if ex, ok := r.(*ssa.Extract); ok && ex.Index == 1 {
						linComb(t, ex, lp.PS, -1, diff, 0)
					}
				}
			} else {
				diff["len("+t.Term(call, lp.PS)+")"] -= 1
			}
		}
		if !consumedSet {
			if runeSize == "" {
				continue
			}
			diff[runeSize] -= 1
		}
		// ASCII rune ⇒ its size is 1
		ascii := false
		if runeSize != "" {
			rt := strings.TrimSuffix(runeSize, "#1") + "#0"
			for _, l := range lp.Lits {
				if l.Subject == rt && l.IsInt && l.N < 128 && ((l.Op == token.EQL && l.Val) || (l.Op == token.NEQ && !l.Val)) {
					ascii = true
				}
			}
			if what == "readNumericLiteral" {
				// assumption (strconv): a literal that strconv.ParseInt/ParseUint/ParseFloat accepts consists of ASCII
				// bytes, so on the paths where readNumericLiteral succeeded the first rune has size 1
				ascii = true
			}
			if ascii {
				diff[""] += diff[runeSize]
				delete(diff, runeSize)
			}
		}
		var rest []string
		for k, v := range diff {
			if v != 0 {
				if k == "" {
					rest = append(rest, fmt.Sprintf("%+d", v))
				} else {
					rest = append(rest, fmt.Sprintf("%+d·%s", v, gen(k)))
				}
			}
		}
		sort.Strings(rest)
		key := "advance after " + what
		if len(rest) > 0 {
			key += " [" + strings.Join(rest, " ") + "]"
		}
		if done[key] {
			continue
		}
		done[key] = true
		c.Check(len(rest) == 0, key, fn.Pos(), "%s", map[bool]string{true: "the position advances by exactly what was consumed", false: "after " + what + " the position is off by " + strings.Join(rest, " ") + " from the end of the token (with a multi-byte first rune the rune's size is not 1): the character after the token is swallowed or part of the token read again; path [" + pathDesc(lp) + "]"}[len(rest) == 0])
	}
}

func runRoot(c *Ctx) {
	p := c.P
	for _, spec := range []struct{ fn, open, iface string }{
		{"(*db.Table).Scan", "(*db.Database).openTable", "db.tableBtree."},
		{"(*db.Table).Rowid", "(*db.Database).openTable", "db.tableBtree."},
		{"(*db.Index).Scan", "(*db.Database).openIndex", "db.indexBtree."},
		{"(*db.Index).ScanMin", "(*db.Database).openIndex", "db.indexBtree."},
		{"(*db.Index).ScanEq", "(*db.Database).openIndex", "db.indexBtree."},
		{"(*db.Index).ScanRange", "(*db.Database).openIndex", "db.indexBtree."},
	} {
		fn := findFn(p, spec.fn)
		if fn == nil {
			c.Undecided("anchor "+spec.fn, token.NoPos, "not found")
			continue
		}
		t := &Termer{P: p}
		paths, ok := EnumLits(fn.Blocks[0], 0, TabOpts{Termer: t, EventOf: callEvents(p)})
		if !ok {
			c.Undecided(spec.fn, fn.Pos(), "too many paths")
			continue
		}
		recv := "p:" + fn.Params[0].Name()
		n, bad := 0, ""
		for _, lp := range paths {
			for _, e := range lp.Events {
				if e.Kind != "call" || !strings.HasPrefix(e.Name, spec.iface) || !(strings.HasSuffix(e.Name, ".Iter") || strings.HasSuffix(e.Name, ".IterMin")) {
					continue
				}
				n++
				if len(e.Args) == 0 || reOrd.ReplaceAllString(e.Args[0], "") != "call:"+spec.open+"#0" {
					bad = fmt.Sprintf("%s is called on %s, not on the page opened from the handle's root", e.Name, e.Args[0])
					continue
				}
				op := eventsOf(lp, "call", spec.open)
				if len(op) != 1 || len(op[0].Args) != 2 || op[0].Args[0] != recv+".db" || op[0].Args[1] != recv+".root" {
					bad = fmt.Sprintf("the tree is not opened with (%s.db, %s.root)", recv, recv)
				}
			}
		}
		if n == 0 {
			// a scan written in terms of a sibling scan of the same handle (`ScanRange` as a `ScanMin` that stops
			// early) starts where that one starts, and that one is in this table
			deleg := ""
			for _, lp := range paths {
				for _, e := range lp.Events {
					if e.Kind != "call" || len(e.Args) == 0 || e.Args[0] != recv {
						continue
					}
					for _, sib := range []string{"(*db.Table).Scan", "(*db.Index).Scan", "(*db.Index).ScanMin", "(*db.Index).ScanEq", "(*db.Index).ScanRange"} {
						if e.Name == sib && sib != spec.fn {
							deleg = sib
						}
					}
				}
			}
			if deleg != "" {
				c.Pass(spec.fn, fn.Pos(), "delegates to %s on the same handle, which starts at the handle's own root", deleg)
				continue
			}
			c.Fail(spec.fn, fn.Pos(), "no b-tree iteration is started")
			continue
		}
		c.Check(bad == "", spec.fn, fn.Pos(), "%s", orStr(bad, "the iteration starts at the page opened from the handle's own root"))
	}
}

func runListAppend(c *Ctx) {
	p := c.P
	var parse *ssa.Function
	for _, fn := range p.ModFuncs() {
		if p.PkgShort(fn) == "sql" && fn.Name() == "Parse" && fn.Signature.Recv() != nil {
			parse = fn
		}
	}
	if parse == nil {
		c.Undecided("anchor Parse", token.NoPos, "the generated parser's Parse method not found")
		return
	}
	n := 0
	for _, in := range instrs(parse) {
		st, ok := in.(*ssa.Store)
		if !ok {
			continue
		}
		fa, ok := st.Addr.(*ssa.FieldAddr)
		if !ok || namedTypeName(fa.X.Type()) != "yySymType" {
			continue
		}
		if _, isSlice := st.Val.Type().Underlying().(*types.Slice); !isSlice {
			continue
		}
		n++
		key := fmt.Sprintf("list %s#%d", fieldName(fa), n)
		v := st.Val
		good, how := false, ""
		switch x := v.(type) {
		case *ssa.Call:
			if b, ok := x.Call.Value.(*ssa.Builtin); ok && b.Name() == "append" {
				good, how = true, "append"
			} else {
				how = "a call to " + calleeName(p, x)
			}
		case *ssa.Slice:
			if _, ok := x.X.(*ssa.Alloc); ok {
				good, how = true, "literal"
			}
		case *ssa.UnOp, *ssa.Const, *ssa.Phi:
			good, how = true, "handed on"
		default:
			how = v.String()
		}
		c.Check(good, key, st.Pos(), "%s", map[bool]string{true: "built by " + how, false: "a list value of the grammar is produced by " + how + ": the list reported for a statement must contain exactly the elements that were parsed, in order"}[good])
	}
	if n == 0 {
		c.Undecided("lists", parse.Pos(), "no list-valued grammar action found")
	}
}

func runStateless(c *Ctx) {
	p := c.P
	pageTypes := map[string]bool{"tableLeaf": true, "tableInterior": true, "indexLeaf": true, "indexInterior": true}
	n := 0
	for _, fn := range p.ModFuncs() {
		if p.PkgShort(fn) != "db" {
			continue
		}
		top := fn
		for top.Parent() != nil {
			top = top.Parent()
		}
		if top.Signature.Recv() == nil || !pageTypes[namedTypeName(top.Signature.Recv().Type())] {
			continue
		}
		n++
		var bad []string
		for _, in := range instrs(fn) {
			switch x := in.(type) {
			case *ssa.Store:
				if fa, ok := x.Addr.(*ssa.FieldAddr); ok {
					// fields of a struct this very function allocated are its own business
					if a, isLocal := resolveCell(fa.X).(*ssa.Alloc); isLocal && a.Parent() == fn {
						continue
					}
					bad = append(bad, fmt.Sprintf("stores into field %s (%s)", fieldName(fa), p.Pos(x.Pos())))
				}
				if ia, ok := x.Addr.(*ssa.IndexAddr); ok {
					if fa, ok := stripLoad(ia.X).(*ssa.FieldAddr); ok {
						bad = append(bad, fmt.Sprintf("stores into an element of field %s (%s)", fieldName(fa), p.Pos(x.Pos())))
					}
				}
			case *ssa.MapUpdate:
				bad = append(bad, fmt.Sprintf("updates a map (%s)", p.Pos(x.Pos())))
			case *ssa.Call:
				if b, ok := x.Call.Value.(*ssa.Builtin); ok && b.Name() == "delete" {
					bad = append(bad, fmt.Sprintf("deletes from a map (%s)", p.Pos(x.Pos())))
				}
			}
		}
		sort.Strings(bad)
		c.Check(len(bad) == 0, p.FnKey(fn), fn.Pos(), "%s", orStr(strings.Join(bad, "; ")+map[bool]string{true: ": state kept on the page or the handle survives a stopped or failed scan and changes what the next scan on this handle does", false: ""}[len(bad) > 0], "stores into no shared state"))
	}
	if n == 0 {
		c.Undecided("page types", token.NoPos, "no methods of the b-tree page types found")
	}
}

// runCache3: master() memoises (objects, err). A second call must answer what the first answered.
func runCache3(c *Ctx) {
	p := c.P
	fn := c.MustFunc("db", "(*Database).master")
	if fn == nil {
		return
	}
	// the store into the cache field: db.objectCache = &objectCache{…}
	var st *ssa.Store
	for _, in := range instrs(fn) {
		if s, ok := in.(*ssa.Store); ok && fieldName(s.Addr) == "objectCache" && !isNilConst(s.Val) {
			st = s
		}
	}
	if st == nil {
		c.Trivial("master is not memoised", fn.Pos(), "master() stores nothing into objectCache: every call reads the file")
		c.Trivial("master cached path", fn.Pos(), "no cached path")
		return
	}
	al, ok := st.Val.(*ssa.Alloc)
	if !ok {
		c.Undecided("master cache entry", st.Pos(), "the cached value is not a struct built in master()")
		return
	}
	fields := map[string]ssa.Value{}
	for _, r := range *al.Referrers() {
		if fa, ok := r.(*ssa.FieldAddr); ok {
			for _, rr := range *fa.Referrers() {
				if s2, ok := rr.(*ssa.Store); ok && s2.Addr == ssa.Value(fa) {
					fields[fieldName(fa)] = s2.Val
				}
			}
		}
	}
	// the return that follows the store
	var ret *ssa.Return
	for _, r := range returnsOf(fn) {
		if r.Block() == st.Block() || st.Block().Dominates(r.Block()) {
			ret = r
		}
	}
	if ret == nil {
		c.Undecided("master cache entry", st.Pos(), "no return after the cache is filled")
		return
	}
	pos := map[int]string{} // result position → cache field
	bad := ""
	for i, rv := range ret.Results {
		found := ""
		tm := &Termer{P: p}
		for f, v := range fields {
			// (the same variable read twice is two loads)
			if v == rv || (tm.Term(v, emptyPS()) == tm.Term(rv, emptyPS()) && !strings.HasPrefix(tm.Term(rv, emptyPS()), "?")) {
				found = f
			}
		}
		if found != "" {
			pos[i] = found
			continue
		}
		// not kept: fine only if the cache is filled only when this result is nil
		if isErrorType(rv.Type()) && establishedAt(fn, st.Block(), rv, nil) {
			pos[i] = "nil"
			continue
		}
		bad = fmt.Sprintf("result %d (%s) of the computing call is not kept in the cache entry (fields %v), and the entry is made whether or not it is nil", i, rv.Type(), sortedKeys(fields))
	}
	c.Check(bad == "", "master cache entry", st.Pos(), "the cache entry holds every result of the call that filled it %s", map[bool]string{true: "", false: "— " + bad + ": after a failed or partial read of sqlite_master the next call answers from the cache with the partial list and no error"}[bad == ""])
	// the cached path
	n := 0
	for _, r := range returnsOf(fn) {
		if r == ret || len(r.Results) != len(ret.Results) {
			continue
		}
		fromCache := false
		var probs []string
		for i, rv := range r.Results {
			f := ""
			if ld, ok := rv.(*ssa.UnOp); ok && ld.Op == token.MUL {
				if fa, ok := ld.X.(*ssa.FieldAddr); ok {
					if ld2, ok := fa.X.(*ssa.UnOp); ok && fieldName(ld2.X) == "objectCache" {
						f = fieldName(fa)
						fromCache = true
					}
				}
			}
			want := pos[i]
			switch {
			case f != "" && f == want:
			case f == "" && want == "nil" && isNilConst(rv):
			default:
				probs = append(probs, fmt.Sprintf("result %d is %s, the entry keeps it in %q", i, (&Termer{P: p}).Term(rv, emptyPS()), want))
			}
		}
		if !fromCache {
			continue
		}
		n++
		c.Check(len(probs) == 0, fmt.Sprintf("master cached path#%d", n), r.Pos(), "the cached answer is the stored one %s", strings.Join(probs, "; "))
	}
	if n == 0 {
		c.Fail("master cached path", fn.Pos(), "objectCache is filled but never answered from")
	}
}
