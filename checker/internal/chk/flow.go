package chk

import (
	"go/types"

	"golang.org/x/tools/go/ssa"
)

// Flow is a field-based, flow-insensitive forward value-flow over the module (local cells, captured cells,
// struct fields, phis, interface conversions, variadic argument arrays).
type Flow struct {
	p          *Program
	fieldLoads map[*types.Var][]ssa.Value
}

func NewFlow(p *Program) *Flow {
	f := &Flow{p: p, fieldLoads: map[*types.Var][]ssa.Value{}}
	for _, fn := range p.ModFuncs() {
		for _, in := range instrs(fn) {
			switch x := in.(type) {
			case *ssa.UnOp:
				if x.Op.String() == "*" {
					if fa, ok := x.X.(*ssa.FieldAddr); ok {
						fv := fieldOf(fa)
						f.fieldLoads[fv] = append(f.fieldLoads[fv], x)
					}
				}
			case *ssa.Field:
				fv := fieldOf(x)
				f.fieldLoads[fv] = append(f.fieldLoads[fv], x)
			}
		}
	}
	return f
}

// cellLoads returns every load of the cell (an Alloc, or a FreeVar bound to one), in the allocating function and
// in every closure that captures it.
func cellLoads(cell ssa.Value) []ssa.Value {
	root := cellRoot(cell)
	if root == nil {
		return nil
	}
	var out []ssa.Value
	seen := map[ssa.Value]bool{}
	var visit func(c ssa.Value)
	visit = func(c ssa.Value) {
		if seen[c] {
			return
		}
		seen[c] = true
		refs := c.Referrers()
		if refs == nil {
			return
		}
		for _, r := range *refs {
			switch x := r.(type) {
			case *ssa.UnOp:
				if x.Op.String() == "*" && x.X == c {
					out = append(out, x)
				}
			case *ssa.MakeClosure:
				for i, b := range x.Bindings {
					if b == c {
						visit(x.Fn.(*ssa.Function).FreeVars[i])
					}
				}
			}
		}
	}
	visit(root)
	return out
}

// cellStores returns every store into the cell, across the closures capturing it.
func cellStores(cell ssa.Value) []*ssa.Store {
	root := cellRoot(cell)
	if root == nil {
		return nil
	}
	var out []*ssa.Store
	seen := map[ssa.Value]bool{}
	var visit func(c ssa.Value)
	visit = func(c ssa.Value) {
		if seen[c] {
			return
		}
		seen[c] = true
		refs := c.Referrers()
		if refs == nil {
			return
		}
		for _, r := range *refs {
			switch x := r.(type) {
			case *ssa.Store:
				if x.Addr == c {
					out = append(out, x)
				}
			case *ssa.MakeClosure:
				for i, b := range x.Bindings {
					if b == c {
						visit(x.Fn.(*ssa.Function).FreeVars[i])
					}
				}
			}
		}
	}
	visit(root)
	return out
}

// cellRoot maps a FreeVar (transitively) to the Alloc it is bound to.
func cellRoot(cell ssa.Value) ssa.Value {
	for i := 0; i < 10; i++ {
		switch c := cell.(type) {
		case *ssa.Alloc:
			return c
		case *ssa.FreeVar:
			b := bindingOf(c)
			if b == nil {
				return nil
			}
			cell = b
		default:
			return nil
		}
	}
	return nil
}

// isCapturedCell: the cell is a FreeVar, or an Alloc bound into some closure.
func isCapturedCell(cell ssa.Value) bool {
	switch c := cell.(type) {
	case *ssa.FreeVar:
		return true
	case *ssa.Alloc:
		for _, r := range *c.Referrers() {
			if _, ok := r.(*ssa.MakeClosure); ok {
				return true
			}
		}
	}
	return false
}

// Forward explores everything v flows to. onUse is called for every instruction that uses a tainted value and is
// not a pure propagation step; it may return extra values to follow (e.g. the result of fmt.Errorf).
func (f *Flow) Forward(start ssa.Value, onUse func(user ssa.Instruction, v ssa.Value) []ssa.Value) {
	seen := map[ssa.Value]bool{}
	work := []ssa.Value{start}
	push := func(v ssa.Value) {
		if v != nil && !seen[v] {
			seen[v] = true
			work = append(work, v)
		}
	}
	seen[start] = true
	for len(work) > 0 {
		v := work[len(work)-1]
		work = work[:len(work)-1]
		refs := v.Referrers()
		if refs == nil {
			continue
		}
		for _, r := range *refs {
			switch x := r.(type) {
			case *ssa.Phi:
				push(x)
			case *ssa.MakeInterface:
				push(x)
			case *ssa.ChangeInterface:
				push(x)
			case *ssa.ChangeType:
				push(x)
			case *ssa.Slice:
				push(x)
			case *ssa.Store:
				if x.Val != v {
					continue
				}
				switch a := x.Addr.(type) {
				case *ssa.Alloc, *ssa.FreeVar:
					for _, l := range cellLoads(a) {
						push(l)
					}
				case *ssa.FieldAddr:
					for _, l := range f.fieldLoads[fieldOf(a)] {
						push(l)
					}
					for _, more := range onUse(r, v) {
						push(more)
					}
				case *ssa.IndexAddr:
					push(a.X) // element of a (variadic) array: taint the array
				default:
					for _, more := range onUse(r, v) {
						push(more)
					}
				}
			default:
				for _, more := range onUse(r, v) {
					push(more)
				}
			}
		}
	}
}
