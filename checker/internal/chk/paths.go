package chk

import (
	"fmt"
	"go/types"
	"strings"

	"golang.org/x/tools/go/ssa"
)

// accessPath renders a value as a path over parameters, free variables, fields and loads, so that two SSA values
// denoting "the same place" compare equal ("*(&p:db.db)"). Unknown shapes render with their SSA name (unique).
func accessPath(v ssa.Value) string {
	switch x := v.(type) {
	case *ssa.Parameter:
		return "p:" + x.Name()
	case *ssa.FreeVar:
		return "fv:" + x.Name()
	case *ssa.FieldAddr:
		return "&" + accessPath(x.X) + "." + fieldName(x)
	case *ssa.Field:
		return accessPath(x.X) + "." + fieldName(x)
	case *ssa.UnOp:
		if x.Op.String() == "*" {
			// load from a single-store cell holding a parameter copy (go/ssa spills receivers captured by closures)
			if a, ok := x.X.(*ssa.Alloc); ok {
				if s := singleStore(a); s != nil {
					return accessPath(s.Val)
				}
			}
			return "*" + accessPath(x.X)
		}
	case *ssa.Alloc:
		if s := singleStore(x); s != nil {
			return "cell(" + accessPath(s.Val) + ")"
		}
	case *ssa.Global:
		return "g:" + x.Name()
	case *ssa.Const:
		return "const:" + x.String()
	case *ssa.ChangeType:
		return accessPath(x.X)
	}
	return fmt.Sprintf("%s@%p", v.Name(), v)
}

// singleStore returns the only Store into cell a (nil if there are several or none).
func singleStore(a *ssa.Alloc) *ssa.Store {
	var st *ssa.Store
	for _, r := range *a.Referrers() {
		if s, ok := r.(*ssa.Store); ok && s.Addr == a {
			if st != nil {
				return nil
			}
			st = s
		}
	}
	return st
}

// resolveCell follows loads from single-store cells and closure captures of such cells, giving the stored value.
func resolveCell(v ssa.Value) ssa.Value {
	for i := 0; i < 10; i++ {
		u, ok := v.(*ssa.UnOp)
		if !ok || u.Op.String() != "*" {
			return v
		}
		switch a := u.X.(type) {
		case *ssa.Alloc:
			s := singleStore(a)
			if s == nil {
				return v
			}
			v = s.Val
		case *ssa.FreeVar:
			b := bindingOf(a)
			al, ok := b.(*ssa.Alloc)
			if !ok {
				return v
			}
			s := singleStore(al)
			if s == nil {
				return v
			}
			v = s.Val
		default:
			return v
		}
	}
	return v
}

// bindingOf returns the value bound to free variable fv at the (unique) MakeClosure creating its function.
func bindingOf(fv *ssa.FreeVar) ssa.Value {
	fn := fv.Parent()
	idx := -1
	for i, f := range fn.FreeVars {
		if f == fv {
			idx = i
		}
	}
	if idx < 0 || fn.Parent() == nil {
		return nil
	}
	var found ssa.Value
	n := 0
	for _, in := range instrs(fn.Parent()) {
		if mc, ok := in.(*ssa.MakeClosure); ok && mc.Fn == fn {
			found = mc.Bindings[idx]
			n++
		}
	}
	if n != 1 {
		return nil
	}
	return found
}

// makeClosuresOf lists the MakeClosure instructions creating fn in its parent.
func makeClosuresOf(fn *ssa.Function) []*ssa.MakeClosure {
	var out []*ssa.MakeClosure
	if fn.Parent() == nil {
		return nil
	}
	for _, in := range instrs(fn.Parent()) {
		if mc, ok := in.(*ssa.MakeClosure); ok && mc.Fn == fn {
			out = append(out, mc)
		}
	}
	return out
}

// fieldStore is one store of a value into a named field of a struct reached through base.
type fieldStore struct {
	Store *ssa.Store
	Field string
	Val   ssa.Value
}

// fieldStoresOn lists every store through FieldAddr(base, f) for any f, where base is the given pointer value.
func fieldStoresOn(base ssa.Value) []fieldStore {
	var out []fieldStore
	refs := base.Referrers()
	if refs == nil {
		return nil
	}
	for _, r := range *refs {
		fa, ok := r.(*ssa.FieldAddr)
		if !ok || fa.X != base {
			continue
		}
		for _, rr := range *fa.Referrers() {
			if s, ok := rr.(*ssa.Store); ok && s.Addr == fa {
				out = append(out, fieldStore{s, fieldName(fa), s.Val})
			}
		}
	}
	return out
}

// structType returns the struct type behind a pointer-typed value, or nil.
func structBehind(t types.Type) *types.Struct {
	if p, ok := t.Underlying().(*types.Pointer); ok {
		if s, ok := p.Elem().Underlying().(*types.Struct); ok {
			return s
		}
	}
	return nil
}

func describeInstr(p *Program, in ssa.Instruction) string {
	s := in.String()
	s = strings.ReplaceAll(s, ModPath+"/", "")
	return fmt.Sprintf("%s (%s)", s, p.Pos(in.Pos()))
}
