package main

import (
	"flag"
	"fmt"
	"os"
	"path/filepath"
	"sort"
	"strconv"
	"time"

	"verifchk/internal/chk"
)

func main() {
	repo := flag.String("repo", "/repo", "repository working tree to analyse")
	prop := flag.String("prop", "", "property id (C01..C20)")
	tier := flag.String("tier", "quick", "quick|thorough")
	verif := flag.String("verif", "/verif", "verif directory (known findings, evidence, out)")
	evidence := flag.String("evidence", "", "evidence file to write (default <verif>/evidence/<prop>.json)")
	explain := flag.String("explain", "", "print a violation report")
	dump := flag.Bool("dump", false, "print every obligation")
	noEvidence := flag.Bool("no-evidence", false, "do not write the evidence file (self-test runs)")
	goarch := flag.String("goarch", "amd64", "GOARCH of the analysed build variant")
	outFlag := flag.String("out", "", "directory for violation reports (default <verif>/out)")
	selftest := flag.String("selftest", "", "JSON file with self-test results to merge into the evidence (thorough tier)")
	flag.Parse()
	if *explain != "" {
		if err := chk.Explain(*explain); err != nil {
			fmt.Println(err)
			os.Exit(2)
		}
		return
	}
	if *prop == "" {
		fmt.Println("usage: sqlcheck -prop Cnn [-tier quick|thorough]")
		os.Exit(2)
	}
	seed := 0
	if s := os.Getenv("VERIF_SEED"); s != "" {
		seed, _ = strconv.Atoi(s)
	}
	outDir := filepath.Join(*verif, "out")
	if *outFlag != "" {
		outDir = *outFlag
	}
	os.MkdirAll(outDir, 0o755)
	os.MkdirAll(filepath.Join(*verif, "evidence"), 0o755)
	report := filepath.Join(outDir, *prop+"."+*tier+".json")
	fail := func(msg string) {
		// fail closed: a load failure is a violation of every property
		os.WriteFile(report, []byte(fmt.Sprintf("{\"property\":%q,\"tier\":%q,\"violations\":[{\"rule\":\"LOAD\",\"construct\":\"load\",\"status\":\"undecided\",\"why\":%q}]}\n", *prop, *tier, msg)), 0o644)
		fmt.Println(msg)
		fmt.Printf("VIOLATION property=%s replay=%s\n", *prop, report)
		os.Exit(1)
	}
	t0 := time.Now()
	abs, _ := filepath.Abs(*repo)
	p, err := chk.Load(abs, "linux", *goarch)
	if err != nil {
		fail("load error: " + err.Error())
	}
	loadWall := time.Since(t0).Seconds()
	known, err := chk.LoadKnown(filepath.Join(*verif, "known_findings.json"))
	if err != nil {
		fail("known_findings.json: " + err.Error())
	}
	if *prop == "ALL" {
		// measurement mode: every rule once; prints the rules that report something and the properties they serve
		res := chk.RunProperty(p, "ALL", *tier, chk.AllRules(), known)
		rules := map[string]bool{}
		for _, o := range res.Violations {
			rules[o.Rule] = true
		}
		props := map[string]bool{}
		var rs []string
		for _, r := range chk.AllRules() {
			if rules[r.ID] {
				rs = append(rs, r.ID)
				for _, pr := range r.Props {
					props[pr] = true
				}
			}
		}
		var ps []string
		for pr := range props {
			ps = append(ps, pr)
		}
		sort.Strings(ps)
		fmt.Printf("ALL rules=%v props=%v\n", rs, ps)
		for _, o := range res.Violations {
			fmt.Printf("  %s %s %s @%s: %s\n", o.Status, o.Rule, o.Construct, o.Pos, firstLine(o.Why))
		}
		if len(res.Violations) > 0 {
			os.Exit(1)
		}
		return
	}
	info, ok := chk.Props[*prop]
	if !ok {
		fail("property " + *prop + " has no registered check")
	}
	res := chk.RunProperty(p, *prop, *tier, chk.AllRules(), known)
	if len(res.Stats) == 0 {
		fail("no rules registered for " + *prop)
	}
	if *selftest != "" {
		if err := res.MergeSelftest(*selftest); err != nil {
			fail("selftest results: " + err.Error())
		}
	}
	if *dump {
		for _, o := range res.Obs {
			fmt.Printf("%-10s %-12s %-60s %s\n    %s\n", o.Status, o.Rule, o.Construct, o.Pos, o.Why)
		}
	}
	if !*noEvidence {
		ev := *evidence
		if ev == "" {
			ev = filepath.Join(*verif, "evidence", *prop+".json")
		}
		if err := res.WriteEvidence(ev, p, info.Explanation, info.NotDecided, loadWall, seed); err != nil {
			fail("cannot write evidence: " + err.Error())
		}
	}
	for _, o := range res.Known {
		fmt.Printf("KNOWN-FINDING: property=%s %s %s\n", *prop, o.Key(), firstLine(o.Why))
	}
	n := 0
	for _, st := range res.Stats {
		n += st.Instances
	}
	fmt.Printf("%s %s: %d rules, %d obligations, %d violations/undecided, %d known findings (load %.1fs, rules %.2fs)\n",
		*prop, *tier, len(res.Stats), n, len(res.Violations), len(res.Known), loadWall, res.Wall)
	if len(res.Violations) > 0 {
		res.WriteReport(report)
		for _, o := range res.Violations {
			fmt.Printf("  %s %s %s @%s: %s\n", o.Status, o.Rule, o.Construct, o.Pos, firstLine(o.Why))
		}
		fmt.Printf("VIOLATION property=%s replay=%s\n", *prop, report)
		os.Exit(1)
	}
}

func firstLine(s string) string {
	for i, c := range s {
		if c == '\n' {
			return s[:i]
		}
	}
	if len(s) > 300 {
		return s[:300] + "…"
	}
	return s
}
