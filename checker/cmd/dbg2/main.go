package main

import (
	"os"

	"verifchk/internal/chk"
)

func main() {
	repo := "/repo"
	if r := os.Getenv("REPO"); r != "" {
		repo = r
	}
	p, err := chk.Load(repo, "linux", "amd64")
	if err != nil {
		panic(err)
	}
	if os.Getenv("CLEAN") != "" {
		chk.DebugClean(p, os.Args[1:])
		return
	}
	body := os.Getenv("BODY") != ""
	chk.DebugEvents(p, os.Args[1:], body)
}
