package main

import (
	"os"

	"verifchk/internal/chk"
)

func main() {
	repo := "/repo"
	if r := os.Getenv("REPO"); r != "" {
		repo = r
	}
	p, err := chk.Load(repo, "linux", "amd64")
	if err != nil {
		panic(err)
	}
	body := os.Getenv("BODY") != ""
	chk.DebugEvents(p, os.Args[1:], body)
}
