package main

import (
	"fmt"
	"os"

	"verifchk/internal/chk"
)

func main() {
	p, err := chk.Load("/repo", "linux", "amd64")
	if err != nil {
		panic(err)
	}
	for _, fn := range p.ModFuncs() {
		if p.FnKey(fn) == os.Args[1] {
			n := p.CG.Nodes[fn]
			for _, e := range n.In {
				fmt.Println("caller:", p.FnKey(e.Caller.Func), "reachable:", p.Reachable(e.Caller.Func))
			}
		}
	}
}
