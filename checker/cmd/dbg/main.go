package main

import (
	"fmt"
	"os"
	"strings"

	"verifchk/internal/chk"
)

func main() {
	repo := "/repo"
	if r := os.Getenv("REPO"); r != "" {
		repo = r
	}
	p, err := chk.Load(repo, "linux", "amd64")
	if err != nil {
		panic(err)
	}
	fn := p.Func(os.Args[1], os.Args[2])
	if fn == nil {
		for _, f := range p.ModFuncs() {
			if p.FnKey(f) == os.Args[2] {
				fn = f
			}
		}
	}
	if fn == nil {
		fmt.Println("no such function")
		return
	}
	paths, ok := chk.EnumLits(fn.Blocks[0], 0, chk.TabOpts{Termer: &chk.Termer{P: p}, EventOf: chk.CallEvents(p)})
	fmt.Println("complete:", ok, "paths:", len(paths))
	for i, lp := range paths {
		var ev []string
		for _, e := range lp.Events {
			ev = append(ev, e.Kind+":"+e.Name)
		}
		ex := "panic/stop"
		if lp.Exit != nil {
			var rs []string
			t := &chk.Termer{P: p}
			for _, r := range lp.Exit.Results {
				rs = append(rs, t.Term(r, lp.PS))
			}
			ex = "return " + strings.Join(rs, ", ")
		}
		fmt.Printf("#%d lits: %s\n   unknown: %v\n   events: %s\n   exit: %s\n", i, strings.Join(lp.LitStrings(), " ∧ "), lp.Unknown, strings.Join(ev, " "), ex)
	}
}
