package main

import (
	"os"

	"verifchk/internal/chk"
)

func main() {
	repo := "/repo"
	if r := os.Getenv("REPO"); r != "" {
		repo = r
	}
	p, err := chk.Load(repo, "linux", "amd64")
	if err != nil {
		panic(err)
	}
	if os.Args[1] == "loop" {
		chk.DebugLoop(p, os.Args[2])
		return
	}
	if os.Args[1] == "phi" {
		chk.DebugPhi(p, os.Args[2])
		return
	}
	chk.DebugSite(p, "", os.Args[1])
}
