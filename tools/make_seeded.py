#!/usr/bin/env python3
"""Builds /verif/seeded/<prop>-<mK>/ from a mutation agent's output directory: patch.diff regenerated against /repo
HEAD, the demonstration files, the agent's notes and meta.json."""
import json, os, re, shutil, subprocess, sys, tempfile

SRCROOT = sys.argv[1] if len(sys.argv) > 1 else '/tmp/wt/out'
TAG = sys.argv[2] if len(sys.argv) > 2 else ''
DESCR = json.load(open(sys.argv[3] if len(sys.argv) > 3 else '/verif/tools/seed_descr.json'))
RESULTS = sys.argv[4] if len(sys.argv) > 4 else '/tmp/seed_results.txt'
results = {}
for line in open(RESULTS):
    parts = line.split()
    if len(parts) >= 6 and parts[1] in ('m1', 'm2', 'm3'):
        results[(parts[0], parts[1])] = line.strip()

def run(cmd, cwd=None):
    return subprocess.run(cmd, shell=True, cwd=cwd, capture_output=True, text=True)

for prop in sorted(DESCR):
    for m in ('m1', 'm2', 'm3'):
        src = '%s/%s' % (SRCROOT, prop)
        if not os.path.exists('%s/%s.diff' % (src, m)):
            continue
        out = '/verif/seeded/%s-%s%s' % (prop, TAG, m)
        shutil.rmtree(out, ignore_errors=True)
        os.makedirs(out)
        wt = tempfile.mkdtemp(prefix='mkseed.'); os.rmdir(wt)
        run('git -C /repo worktree add -q --detach %s HEAD' % wt)
        r = run('git apply %s/%s.diff' % (src, m), cwd=wt)
        if r.returncode != 0:
            run('git apply --3way %s/%s.diff' % (src, m), cwd=wt); run('git reset -q', cwd=wt)
        diff = run('git diff', cwd=wt).stdout
        assert '<<<<<<<' not in diff and '>>>>>>>' not in diff, ('conflict markers: regenerate by hand', prop, m)
        open(out + '/patch.diff', 'w').write(diff)
        run('git -C /repo worktree remove --force %s' % wt)
        assert diff.strip(), (prop, m)
        # demo files: this mutation's files and shared data files
        others = [x for x in ('m1', 'm2', 'm3') if x != m]
        os.makedirs(out + '/demo')
        for f in sorted(os.listdir(src)):
            p = os.path.join(src, f)
            if f.endswith('.diff') or f in ('notes.md', 'verify.log', 'verify.sh') or any(f.startswith(o + '_') or f.startswith(o + '.') for o in others):
                continue
            if os.path.isdir(p):
                shutil.copytree(p, out + '/demo/' + f)
            else:
                shutil.copy(p, out + '/demo/' + f)
        shutil.copy(src + '/notes.md', out + '/agent_notes.md')
        if m not in DESCR[prop]:
            continue
        d = DESCR[prop][m]
        pkgdir = '.'
        for f in os.listdir(out + '/demo'):
            if f.startswith(m) and f.endswith('_test.go'):
                pk = re.search(r'^package (\w+)', open(out + '/demo/' + f).read(), re.M).group(1)
                pkgdir = {'db': 'db', 'sql': 'sql', 'driver': 'driver'}.get(pk.replace('_test', ''), '.')
        meta = {
            'property': prop,
            'breaks': d['what'],
            'needs_to_manifest': d['needs'],
            'files_changed': sorted(set(re.findall(r'^diff --git a/(\S+)', diff, re.M))),
            'demonstration': 'copy demo/%s_*_test.go and the data files in demo/ into %s of a checkout (data files also into testdata/ where the test looks there) and run: go test -vet=off -count=1 -run TestM%s ./%s' % (m, './' + pkgdir if pkgdir != '.' else 'the repository root', m[1:], pkgdir),
            'confirmed': {
                'how': 'tools/verify_seed.sh in a scratch worktree of /repo HEAD (removed afterwards): patch applies; go build ./... and the whole suite stay green (TestIOZero fails on the unmodified tree too); demo fails with the patch and passes without it',
                'result_line': results.get((prop, m), ''),
            },
            'detected_by': d['detected_by'],
            'origin': 'independent sub-agent given only the property text and a scratch worktree',
        }
        json.dump(meta, open(out + '/meta.json', 'w'), indent=1, ensure_ascii=False)
        print(out, len(diff))
