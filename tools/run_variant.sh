#!/bin/bash
# usage: run_variant.sh <patch> <prop>...   → applies the patch to a scratch copy of the repository, prints "prop verdict" lines
set -u
PATCH="$(readlink -f "$1")"; shift
REPO="${VERIF_REPO:-/repo}"
NAME=$(basename "$PATCH"); [ "$NAME" = patch.diff ] && NAME=$(basename "$(dirname "$PATCH")")
S=$(mktemp -d "${TMPDIR:-/tmp}/sqlvar.XXXXXX")
trap 'rm -rf "$S"' EXIT
rsync -a --exclude .git "$REPO"/ "$S"/
if ! (cd "$S" && patch -p1 -s --no-backup-if-mismatch < "$PATCH" >/dev/null 2>&1); then echo "$NAME NOAPPLY"; exit 0; fi
for prop in "$@"; do
  out=$(timeout 900 /verif/bin/sqlcheck -repo "$S" -prop "$prop" -no-evidence -out "$S/.out" 2>&1)
  if echo "$out" | grep -q "^VIOLATION"; then echo "$NAME $prop DETECTED $(echo "$out" | grep -E '^  (violation|undecided)' | head -1 | cut -c1-200)"; else echo "$NAME $prop silent"; fi
done
