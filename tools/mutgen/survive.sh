#!/bin/bash
# usage: survive.sh <mutdir>/<id>   → prints "<id> SURVIVED|KILLED|NOBUILD" (suite run through a build overlay on /repo)
set -u
D="$1"; ID=$(basename "$D")
export GOFLAGS=-mod=mod GOPROXY=off GOSUMDB=off GOTOOLCHAIN=local CGO_ENABLED=1
unset GOWORK
F=$(python3 -c "import json;print(json.load(open('$D/meta.json'))['file'])")
printf '{"Replace":{"/repo/%s":"%s/file"}}' "$F" "$D" > "$D/overlay.json"
cd /repo
if ! go build -overlay "$D/overlay.json" ./... >/dev/null 2>"$D/build.err"; then echo "$ID NOBUILD"; exit 0; fi
if ! go vet -overlay "$D/overlay.json" ./... >/dev/null 2>&1; then :; fi
out=$(timeout 120 go test -overlay "$D/overlay.json" -vet=off -count=1 ./... 2>&1)
rc=$?
fails=$(echo "$out" | grep -E "^--- FAIL|^panic:|^FAIL.*\[build failed\]|timed out|^fatal error" | grep -v "TestIOZero" | head -3 | tr '\n' ' ')
if [ $rc -eq 124 ]; then echo "$ID KILLED timeout"; exit 0; fi
if [ -n "$fails" ]; then echo "$ID KILLED $fails" | cut -c1-200; else echo "$ID SURVIVED"; fi
