// mutgen enumerates first-order mutants of the non-test Go files of a repository (operator swaps, off-by-one literals,
// negated conditions, flipped booleans, removed statements) and writes each as <out>/<id>/{file,meta.json}: the mutated
// content of one file. A tool for measuring the checker, not part of any registered check.
package main

import (
	"bytes"
	"encoding/json"
	"fmt"
	"go/ast"
	"go/parser"
	"go/printer"
	"go/token"
	"os"
	"path/filepath"
	"strconv"
	"strings"
)

type meta struct {
	ID   string `json:"id"`
	File string `json:"file"`
	Line int    `json:"line"`
	Kind string `json:"kind"`
	Desc string `json:"desc"`
	Func string `json:"func"`
}

var swaps = map[token.Token][]token.Token{
	token.LSS: {token.LEQ}, token.LEQ: {token.LSS}, token.GTR: {token.GEQ}, token.GEQ: {token.GTR},
	token.EQL: {token.NEQ}, token.NEQ: {token.EQL},
	token.ADD: {token.SUB}, token.SUB: {token.ADD},
	token.LAND: {token.LOR}, token.LOR: {token.LAND},
	token.SHL: {token.SHR}, token.SHR: {token.SHL},
	token.AND: {token.OR}, token.OR: {token.AND},
	token.MUL: {token.QUO}, token.QUO: {token.MUL},
}

func main() {
	repo, out := os.Args[1], os.Args[2]
	skip := map[string]bool{"sql/parser.go": true, "db/fuzz.go": true, "db/pager_windows.go": true}
	n := 0
	for _, dir := range []string{".", "db", "sql", "driver"} {
		ents, _ := os.ReadDir(filepath.Join(repo, dir))
		for _, e := range ents {
			name := e.Name()
			rel := filepath.Join(dir, name)
			if !strings.HasSuffix(name, ".go") || strings.HasSuffix(name, "_test.go") || skip[rel] {
				continue
			}
			src, err := os.ReadFile(filepath.Join(repo, rel))
			if err != nil {
				panic(err)
			}
			// count mutation points, then produce one mutant per point by re-parsing and mutating the k-th point
			k := 0
			for {
				fset := token.NewFileSet()
				f, err := parser.ParseFile(fset, rel, src, parser.ParseComments)
				if err != nil {
					panic(err)
				}
				m, ok := mutate(fset, f, k)
				if !ok {
					break
				}
				k++
				var buf bytes.Buffer
				if err := printer.Fprint(&buf, fset, f); err != nil {
					continue
				}
				n++
				m.ID = fmt.Sprintf("m%04d", n)
				m.File = rel
				d := filepath.Join(out, m.ID)
				os.MkdirAll(d, 0o755)
				os.WriteFile(filepath.Join(d, "file"), buf.Bytes(), 0o644)
				b, _ := json.Marshal(m)
				os.WriteFile(filepath.Join(d, "meta.json"), b, 0o644)
			}
		}
	}
	fmt.Println(n, "mutants")
}

// mutate applies the k-th mutation of the file in place; false when there are fewer.
func mutate(fset *token.FileSet, f *ast.File, k int) (meta, bool) {
	idx := 0
	var done *meta
	curFn := ""
	hit := func(pos token.Pos, kind, desc string) bool {
		if done != nil {
			return false
		}
		if idx == k {
			done = &meta{Line: fset.Position(pos).Line, Kind: kind, Desc: desc, Func: curFn}
			idx++
			return true
		}
		idx++
		return false
	}
	var visitStmts func(list *[]ast.Stmt)
	visitStmts = func(list *[]ast.Stmt) {
		for i := 0; i < len(*list); i++ {
			if done != nil {
				return
			}
			switch s := (*list)[i].(type) {
			case *ast.AssignStmt:
				if s.Tok == token.ASSIGN || s.Tok == token.ADD_ASSIGN || s.Tok == token.SUB_ASSIGN {
					if hit(s.Pos(), "del-assign", "assignment removed") {
						// keep the right-hand side evaluated when it is a call (to avoid unused results), else drop
						*list = append((*list)[:i:i], (*list)[i+1:]...)
						return
					}
				}
			case *ast.ExprStmt:
				if _, isCall := s.X.(*ast.CallExpr); isCall {
					if hit(s.Pos(), "del-call", "call statement removed") {
						*list = append((*list)[:i:i], (*list)[i+1:]...)
						return
					}
				}
			case *ast.IncDecStmt:
				if hit(s.Pos(), "incdec", "++ and -- swapped") {
					if s.Tok == token.INC {
						s.Tok = token.DEC
					} else {
						s.Tok = token.INC
					}
					return
				}
			case *ast.BranchStmt:
				if s.Label == nil && (s.Tok == token.CONTINUE || s.Tok == token.BREAK) {
					if hit(s.Pos(), "branch", "continue and break swapped") {
						if s.Tok == token.CONTINUE {
							s.Tok = token.BREAK
						} else {
							s.Tok = token.CONTINUE
						}
						return
					}
				}
			case *ast.DeferStmt:
				if hit(s.Pos(), "del-defer", "defer removed (call made at once)") {
					(*list)[i] = &ast.ExprStmt{X: s.Call}
					return
				}
			}
		}
	}
	ast.Inspect(f, func(n ast.Node) bool {
		if done != nil {
			return false
		}
		switch x := n.(type) {
		case *ast.FuncDecl:
			curFn = x.Name.Name
			if x.Recv != nil && len(x.Recv.List) > 0 {
				var b bytes.Buffer
				printer.Fprint(&b, fset, x.Recv.List[0].Type)
				curFn = "(" + b.String() + ")." + x.Name.Name
			}
		case *ast.GenDecl:
			if x.Tok == token.IMPORT {
				return false
			}
		case *ast.BinaryExpr:
			if os.Getenv("MUT2") != "" {
				break
			}
			for _, to := range swaps[x.Op] {
				if hit(x.OpPos, "binop", x.Op.String()+" → "+to.String()) {
					x.Op = to
					return false
				}
			}
		case *ast.BasicLit:
			if x.Kind == token.INT && os.Getenv("MUT2") == "" {
				if v, err := strconv.ParseInt(x.Value, 0, 64); err == nil {
					if hit(x.Pos(), "int+1", x.Value+" → "+strconv.FormatInt(v+1, 10)) {
						x.Value = strconv.FormatInt(v+1, 10)
						return false
					}
					if v > 0 {
						if hit(x.Pos(), "int-1", x.Value+" → "+strconv.FormatInt(v-1, 10)) {
							x.Value = strconv.FormatInt(v-1, 10)
							return false
						}
					}
				}
			}
		case *ast.Ident:
			if (x.Name == "true" || x.Name == "false") && os.Getenv("MUT2") == "" {
				if hit(x.Pos(), "bool", x.Name+" flipped") {
					if x.Name == "true" {
						x.Name = "false"
					} else {
						x.Name = "true"
					}
					return false
				}
			}
		case *ast.CallExpr:
			if os.Getenv("MUT2") != "" {
				for i := 0; i+1 < len(x.Args); i++ {
					if hit(x.Args[i].Pos(), "swap-args", fmt.Sprintf("arguments %d and %d swapped", i+1, i+2)) {
						x.Args[i], x.Args[i+1] = x.Args[i+1], x.Args[i]
						return false
					}
				}
			}
		case *ast.SliceExpr:
			if os.Getenv("MUT2") != "" {
				for k, b := range []*ast.Expr{&x.Low, &x.High} {
					if *b == nil {
						continue
					}
					if hit((*b).Pos(), "slice+1", fmt.Sprintf("slice bound %d plus one", k)) {
						*b = &ast.BinaryExpr{X: &ast.ParenExpr{X: *b}, Op: token.ADD, Y: &ast.BasicLit{Kind: token.INT, Value: "1"}}
						return false
					}
				}
			}
		case *ast.IndexExpr:
			if os.Getenv("MUT2") != "" {
				if hit(x.Index.Pos(), "index+1", "index plus one") {
					x.Index = &ast.BinaryExpr{X: &ast.ParenExpr{X: x.Index}, Op: token.ADD, Y: &ast.BasicLit{Kind: token.INT, Value: "1"}}
					return false
				}
			}
		case *ast.IfStmt:
			if os.Getenv("MUT2") != "" && x.Else != nil {
				if hit(x.Else.Pos(), "drop-else", "else branch removed") {
					x.Else = nil
					return false
				}
			}
			if os.Getenv("MUT2") != "" {
				if len(x.Body.List) == 1 {
					if _, isRet := x.Body.List[0].(*ast.ReturnStmt); isRet {
						if hit(x.Body.Pos(), "drop-early-return", "early return removed") {
							x.Body.List = nil
							return false
						}
					}
				}
				break
			}
			if hit(x.Cond.Pos(), "negate-if", "if condition negated") {
				x.Cond = &ast.UnaryExpr{Op: token.NOT, X: &ast.ParenExpr{X: x.Cond}}
				return false
			}
		case *ast.UnaryExpr:
			if x.Op == token.NOT && os.Getenv("MUT2") == "" {
				if hit(x.Pos(), "drop-not", "! removed") {
					x.Op = token.ADD // +x is not valid for bool; use a paren instead
					*x = ast.UnaryExpr{Op: token.NOT, X: &ast.UnaryExpr{Op: token.NOT, X: x.X}}
					return false
				}
			}
		case *ast.BlockStmt:
			if os.Getenv("MUT2") == "" {
				visitStmts(&x.List)
			}
		case *ast.CaseClause:
			if os.Getenv("MUT2") == "" {
				visitStmts(&x.Body)
			}
		case *ast.CommClause:
			if os.Getenv("MUT2") == "" {
				visitStmts(&x.Body)
			}
		case *ast.ReturnStmt:
			if os.Getenv("MUT2") != "" && len(x.Results) == 2 {
				if hit(x.Pos(), "swap-results", "results swapped") {
					x.Results[0], x.Results[1] = x.Results[1], x.Results[0]
					return false
				}
			}
			for i, r := range x.Results {
				if id, ok := r.(*ast.Ident); ok && id.Name == "nil" && i == len(x.Results)-1 {
					_ = id
				}
			}
		}
		return true
	})
	if done == nil {
		return meta{}, false
	}
	return *done, true
}
