#!/bin/bash
# usage: check.sh <mutdir>/<id>  → runs every rule once on a scratch copy with the mutated file; prints "<id> <verdict line>"
set -u
D="$1"; ID=$(basename "$D")
F=$(python3 -c "import json;print(json.load(open('$D/meta.json'))['file'])")
S=$(mktemp -d /tmp/mutchk.XXXXXX)
trap 'rm -rf "$S"' EXIT
rsync -a --exclude .git /repo/ "$S"/
cp "$D/file" "$S/$F"
o=$(timeout 1200 /verif/bin/sqlcheck -repo "$S" -prop ALL -no-evidence -out "$S/.out" 2>&1)
line=$(echo "$o" | grep "^ALL " | head -1)
[ -z "$line" ] && line="ALL ERROR $(echo "$o" | tail -1 | cut -c1-150)"
echo "$ID $line"
