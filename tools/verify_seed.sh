#!/bin/bash
# usage: verify_seed.sh <src-dir> <prop> <mK>   e.g. verify_seed.sh /tmp/wt/out/C04 C04 m1
# Confirms a seeded change in a scratch worktree of /repo HEAD: applies, suite still green, demo fails with it and
# passes without it, and records whether the property's quick check reports it. Prints one summary line.
set -u
SRC="$1"; PROP="$2"; M="$3"
export GOFLAGS=-mod=mod GOPROXY=off GOSUMDB=off GOTOOLCHAIN=local CGO_ENABLED=1
unset GOWORK
WT=$(mktemp -d /tmp/seedwt.XXXXXX); rmdir "$WT"
git -C /repo worktree add -q --detach "$WT" HEAD || { echo "$PROP $M worktree-failed"; exit 1; }
cleanup() { git -C /repo worktree remove --force "$WT" >/dev/null 2>&1; rm -rf "$WT"; }
trap cleanup EXIT
cd "$WT"
if ! git apply "$SRC/$M.diff" 2>/dev/null; then
  if ! git apply --3way "$SRC/$M.diff" >/dev/null 2>&1; then echo "$PROP $M APPLY-FAILED"; exit 0; fi
  git reset -q
fi
git diff > "$WT/.applied.diff"
if ! go build ./... >/dev/null 2>"$WT/.build.err"; then echo "$PROP $M BUILD-FAILED"; exit 0; fi
suite=$(go test -vet=off -count=1 ./... 2>&1 | grep -E "^--- FAIL" | grep -v TestIOZero | tr '\n' ' ')
[ -n "$suite" ] && { echo "$PROP $M SUITE-BROKEN: $suite"; exit 0; }
# checker verdict on the patched tree
det=$(cd /verif && ./bin/sqlcheck -repo "$WT" -prop "$PROP" -no-evidence 2>&1)
if echo "$det" | grep -q "^VIOLATION"; then verdict="DETECTED($(echo "$det" | grep -E '^  (violation|undecided)' | head -1 | awk '{print $2}'))"; else verdict="MISSED"; fi
# demo
K=${M#m}
for f in "$SRC"/${M}_*_test.go "$SRC"/${M}_demo_test.go; do
  [ -f "$f" ] || continue
  pkg=$(grep -m1 '^package ' "$f" | awk '{print $2}')
  case "$pkg" in db|db_test) dir=db;; sql|sql_test) dir=sql;; driver|driver_test) dir=driver;; *) dir=.;; esac
  cp "$f" "$dir/"
  mkdir -p testdata
  for d in "$SRC"/*; do
    case "$d" in *.go|*.md|*.py|*.diff|*.log) continue;; esac
    [ -f "$d" ] && { cp "$d" "$dir/"; cp "$d" testdata/; [ "$dir" != "." ] && cp "$d" . ; }
    [ -d "$d" ] && cp -r "$d" "$dir/" 2>/dev/null
  done
done
dirs=$(for f in "$SRC"/${M}_*_test.go; do [ -f "$f" ] && { p=$(grep -m1 '^package ' "$f" | awk '{print $2}'); case "$p" in db|db_test) echo ./db;; sql|sql_test) echo ./sql;; driver|driver_test) echo ./driver;; *) echo .;; esac; }; done | sort -u | tr '\n' ' ')
[ -z "$dirs" ] && { echo "$PROP $M NO-DEMO $verdict"; exit 0; }
with=$(go test -vet=off -count=1 -run "TestM${K}" $dirs 2>&1 | tail -40)
wfail=0; echo "$with" | grep -qE "^(--- FAIL|FAIL|panic:|fatal error)" && wfail=1
git apply -R "$WT/.applied.diff"
without=$(go test -vet=off -count=1 -run "TestM${K}" $dirs 2>&1 | tail -40)
wofail=0; echo "$without" | grep -qE "^(--- FAIL|FAIL|panic:|fatal error)" && wofail=1
ran=0; echo "$without" | grep -qE "^ok" && ran=1
echo "$PROP $M demo-fails-with=$wfail demo-fails-without=$wofail ran=$ran $verdict"
if [ "$wofail" = 1 ]; then echo "$without" | tail -8 | sed 's/^/    /'; fi
