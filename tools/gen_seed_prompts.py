#!/usr/bin/env python3
"""Writes one bug-seeder prompt per property to <outroot>/<id>.prompt.txt (the sub-agent gets only the property text
and its own scratch worktree; nothing from /verif). usage: gen_seed_prompts.py <wtroot> [ids...]"""
import json, sys
root = sys.argv[1]
ids = set(sys.argv[2:])
import os
T = open(os.environ.get('SEED_TMPL', '/verif/tools/seed_prompt.tmpl')).read()
for l in open('/verif/properties.jsonl'):
    d = json.loads(l)
    if ids and d['id'] not in ids:
        continue
    a = d.get('anchors', {})
    mech = '; '.join('%s @ %s' % (m['name'], m['where']) for m in a.get('mechanism', []))
    state = '; '.join('%s (%s) @ %s' % (m['name'], m.get('meaning', ''), m['where']) for m in a.get('state', []))
    prop = 'Property %s: %s\n\nStatement: %s\n\nQuantified over (%s): %s\n\nWhy the existing tests cannot settle it: %s\n\nAnchors: files %s; mechanisms: %s%s\n' % (
        d['id'], d['title'], d['statement'], ', '.join(d['quantifier']['over']), d['quantifier']['text'], d['why_tests_cant'],
        a.get('files'), mech, ('; state: ' + state) if state else '')
    wt, out = '%s/%s' % (root, d['id']), '%s/out/%s' % (root, d['id'])
    open(out + '.prompt.txt', 'w').write(T.replace('@WT@', wt).replace('@OUT@', out).replace('@PROP@', prop).replace('@ID@', d['id']))
