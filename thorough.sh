#!/bin/bash
# thorough tier: the quick rules on linux/amd64 plus the 386 variant; (self-test variants are added per property)
set -u
cd "$(dirname "$0")"
PROP="$1"; REPO="$2"
./bin/sqlcheck -repo "$REPO" -prop "$PROP" -tier thorough
