#!/bin/bash
# thorough tier for one property:
#   1. the quick rules on /repo's working tree for linux/amd64 (this is the verdict and the evidence),
#   2. the same rules on the 32-bit build variant (GOARCH=386),
#   3. the self-test: every seeded change and fix-revert recorded for this property, applied to a scratch copy of the
#      working tree (outside /repo and /verif, removed at once), must be reported; every behaviour-preserving
#      variant must leave the check silent.
set -u
cd "$(dirname "$0")"
PROP="$1"; REPO="${2:-/repo}"
export VERIF_REPO="$REPO"
mkdir -p out
ST="out/$PROP.selftest.json"
TMP=$(mktemp -d "${TMPDIR:-/tmp}/sqlthorough.XXXXXX")
trap 'rm -rf "$TMP"' EXIT
# 2. 386
a386=ok
o=$(./bin/sqlcheck -repo "$REPO" -prop "$PROP" -goarch 386 -no-evidence -out "$TMP/out386" 2>&1)
if echo "$o" | grep -q "^VIOLATION"; then a386=$(echo "$o" | grep -E "^  (violation|undecided)|error" | head -3 | tr '\n' ' ' | cut -c1-400); fi
# 3. self-test
ls seeded/$PROP-*/patch.diff selftest/revert/*${PROP}*.diff 2>/dev/null > "$TMP/variants"
ls selftest/benign/*.diff 2>/dev/null > "$TMP/benign"
cat "$TMP/variants" | xargs -r -P 8 -I{} ./tools/run_variant.sh {} "$PROP" > "$TMP/v.out" 2>/dev/null
cat "$TMP/benign"   | xargs -r -P 8 -I{} ./tools/run_variant.sh {} "$PROP" > "$TMP/b.out" 2>/dev/null
python3 - "$TMP" "$PROP" "$a386" > "$ST" <<'PY'
import json, sys, os
tmp, prop, a386 = sys.argv[1], sys.argv[2], sys.argv[3]
def lines(f):
    return [l.rstrip('\n') for l in open(os.path.join(tmp, f), errors='replace') if l.strip()]
variants = [l.strip() for l in open(os.path.join(tmp, 'variants')) if l.strip()]
det, undet, noapply, samples = [], [], [], []
seen = set()
for l in lines('v.out'):
    p = l.split(' ', 3)
    name = p[0]
    if len(p) >= 2 and p[1] == 'NOAPPLY':
        noapply.append(name); seen.add(name); continue
    if len(p) >= 3 and p[2] == 'DETECTED':
        det.append(name); seen.add(name)
        if len(samples) < 4: samples.append({'variant': name, 'report': p[3].strip() if len(p) > 3 else ''})
    elif len(p) >= 3:
        undet.append(name); seen.add(name)
for v in variants:
    lab = v.split('/')[-2] if v.startswith('seeded/') else v.split('/')[-1]
    if lab not in seen:
        undet.append(lab + ' (the variant run produced no verdict)')
silent, noisy = [], []
for l in lines('b.out'):
    p = l.split(' ', 3)
    if len(p) >= 2 and p[1] == 'NOAPPLY':
        continue
    if len(p) >= 3 and p[2] == 'silent': silent.append(p[0])
    elif len(p) >= 3: noisy.append(p[0] + ': ' + (p[3] if len(p) > 3 else ''))
# name seeded variants by their directory
def label(path):
    return path.split('/')[-2] if path.startswith('seeded/') else path.split('/')[-1]
nb = len([l for l in open(os.path.join(tmp, 'benign')) if l.strip()])
if nb and len(silent) + len(noisy) == 0:
    noisy.append('no benign variant produced a verdict')
json.dump({
 'variants': len(variants), 'variant_names': [label(v) for v in variants],
 'detected': len(det), 'undetected': undet, 'not_applicable_to_current_tree': noapply,
 'benign_variants': len(silent) + len(noisy), 'benign_silent': len(silent), 'noisy': noisy,
 'arch386': a386, 'samples': samples,
 'note': 'variants are applied to a scratch copy of the current working tree; a variant whose patch no longer applies is skipped, not counted as detected',
}, sys.stdout, indent=1)
PY
exec ./bin/sqlcheck -repo "$REPO" -prop "$PROP" -tier thorough -selftest "$ST"
