#!/usr/bin/env python3
"""Regenerates MANIFEST.json from the table below (kept next to the checks so the two stay in step)."""
import json, sys

LEVEL_NOTE = ("Trusted: Go type checker, go/ssa and the VTA call graph of x/tools v0.29.0; documented behaviour of the "
              "standard library, x/exp/mmap, x/sys/unix; POSIX fcntl semantics; SQLite constants copied from the file-format "
              "and os.h documents; the goyacc driver skeleton. Assumed: API arguments have their documented types and callers "
              "check Open's error. Decides structural necessary conditions on linux/amd64 (thorough: also 386), not run-time behaviour.")

# id -> (technique, text, design_ref)
CLAIMED = {
 "C06": ("SSA dominance/bracket and must-pass-through rules over the VTA call graph; constants of the fcntl requests vs SQLite's os.h; who-may-call rules",
         "Decides, on every run from /repo's source, that each locking API method brackets all page-reaching calls between a tested RLock and a deferred RUnlock, that nothing else unlocks or re-locks, that the unix pager requests/releases SQLite's byte ranges non-blockingly on the right paths, and reports descriptor-close sites that drop other handles' locks (known finding). A structural necessary condition: the lock *interval as observed by other processes* is not decidable statically.",
         "DESIGN.md §4 C06, §3.1"),
}

CLAIMED["C12"] = ("SSA value-flow of every error value (locals, captured cells, fields) and path enumeration of the failing edge of every error test; adapter path rule",
 "Decides that no error value produced on the read path is dropped or tested-and-swallowed in any API-reachable function of db, the root package and the driver, and that no scan adapter can skip a row without delivering it or recording an error. Necessary condition for the property; it cannot show that every fault produces an error value.",
 "DESIGN.md §4 C12, §3.2")
CLAIMED["C17"] = ("SSA path enumeration of the done flag through every b-tree iteration level and adapter; bracket rule for the deferred unlock",
 "Decides that every iteration level returns an inner done=true at once without another callback, that adapters forward the user's answer, that an early stop yields a nil error, and that the unlock is deferred. Together with the traversal order this is the structural content of the property.",
 "DESIGN.md §4 C17, §3.2")

CLAIMED["C07"] = ("fcntl request constants/order/error edges of the unix pager on SSA; decision table of resolveDirty by path enumeration with literal extraction",
 "Decides that lock acquisition is non-blocking pending-then-shared with both errors returned before any read, that a failed RLock returns before any page-reaching call, and that resolveDirty maps (hot journal, RESERVED held) to error/proceed exactly as required. Structural necessary conditions; writer behaviour itself is an assumption about SQLite.",
 "DESIGN.md §4 C07")
CLAIMED["C08"] = ("must-precede (revalidation before page reads and cache lookups) over the call graph; decision table of resolveDirty (cache keys, header replacement); re-map rule",
 "Decides that RLock invalidates, every db entry point revalidates before any page read or cache lookup, dirty is cleared only after the header was re-read/re-parsed and installed, the page cache is keyed on the change counter and the schema cache on the cookie; reports the open-time mapping as a known finding. Histories themselves are not decidable statically.",
 "DESIGN.md §4 C08")
CLAIMED["C09"] = ("decision tables of resolveDirty and validJournal by path enumeration; journal magic/offset constants vs SQLite; journal name flow",
 "Decides that the journal gate precedes the header read in every revalidation, hot ⇒ error unless RESERVED is held, that `hot` requires magic ∧ sane sector ∧ full header ∧ full sector, that all other journal states do not block reading, and that name and magic agree with SQLite. Crash-point semantics of a real writer are out of reach.",
 "DESIGN.md §4 C09")
CLAIMED["C15"] = ("accepted-value sets computed from the accepting paths of parseHeader (path literals; whole domain for 1-2 byte fields); binary stream offsets of the decoded struct vs fileformat2; revalidation must-precede",
 "Decides the header layout, the exact accepted value set of every validated header field, that no other field influences acceptance, and that the header is re-validated before any page read of every transaction.",
 "DESIGN.md §4 C15")

CLAIMED["C19"] = ("protocol-shape rules on the SSA of the driver (select/send/close/WaitGroup ordering by dominance, path tables of Next, lost-cancel path rule), layering over the call graph",
 "Decides the structural producer/consumer protocol: guarded sends, single deferred close after the error is published, Close = cancel;wait;read, Next's closed-channel table, no lost cancel, and that rows/columns come only from the locking native API with arguments unchanged. Schedules themselves are not decidable statically.",
 "DESIGN.md §4 C19")
CLAIMED["C20"] = ("whole-module write/escape analysis of every package-level variable; type reachability; go-statement census; receiver-only writes of per-handle state",
 "Decides that no operation writes package-level state (the necessary condition for independent handles to be race-free and result-independent), that no handle is reachable from a global, and that the only goroutine shares state under the ordering DRV-3/4/5 establish.",
 "DESIGN.md §4 C20")

CLAIMED["C11"] = ("decision tables by path enumeration under assumed abstract classes (25 storage-class pairs; sign of three-way results; direction flag); operand-use analysis (comparisons only); collation idiom constants",
 "Decides the complete storage-class matrix of compare(), the sign tables of the three-way helpers and that operands are touched only through comparisons (no wrapping arithmetic), the exact int/real scheme, the outcome table of Search/Equals per column incl. per-column collation, and the three collations' definitions. Concrete value pairs are not enumerated.",
 "DESIGN.md §4 C11, §3.5")
CLAIMED["C14"] = ("per-serial-type evaluation of parseRecord's loop body (guard = decoded bytes = advance = spec, sign-extension width); loop-body table of readVarint; canonical expression trees of the spill formulas vs the file format; overflow page layout",
 "Decides the serial-type table, the 24/48-bit sign constants, the varint byte rules incl. the 9th-byte precedence, the X/M/K formulas and three-way choice, the overflow pointer/page layout and that overflow content is appended in whole pages. Not the concrete decoded values on real files.",
 "DESIGN.md §4 C14")

CLAIMED["C01"] = ("traversal event-sequence tables from path enumeration of every table b-tree iteration method; canonical spill formulas and record tables vs the file format; row-mapping decision tables; error-flow rules",
 "Decides the structural necessary conditions of a full table scan: every child incl. the right-most visited in order with no cell skipped, payload split/overflow layout/serial types per the file format, the three-way record→row mapping and rowid-alias resolution, and that definition/read errors surface. Equality with SQLite's rows on real files is not decidable statically.",
 "DESIGN.md §4 C01")
CLAIMED["C02"] = ("traversal event-sequence tables for the index b-tree methods (child before entry, first-child flag), adapter path rules (no silent/stale row), index-entry→row flow, collation tables",
 "Decides that index traversals emit left child, interior entry, …, right-most child for every cell, that each index entry yields the user callback on the looked-up table row or an error, that the rowid is the last index field, and that WITHOUT ROWID lookups are typed by the table's primary key.",
 "DESIGN.md §4 C02")
CLAIMED["C03"] = ("decision tables by path enumeration: key conversion per Go type with column-i identity, equality cut-off, primary-key dispatch; comparison tables shared with C11; binary-search predicate orientation",
 "Decides that key column i carries index column i's direction and validated collation, the equality scan searches and filters with the same key and stops at the first unequal record, the PK dispatch, and (through C11's rules) the comparison tables.",
 "DESIGN.md §4 C03")
CLAIMED["C04"] = ("ordering predicates evaluated over Order(cell key, rowid) from the SSA of the sort.Search closures; traversal tables of the rowid descent; absence-marker flow rule; varint table",
 "Decides the three ordering predicates of the rowid search (>=, >=, ==) on the right fields, the descent through following and right-most children, first-hit-only in the leaf, that `absent` cannot be confused with a stored rowid, and the rowid varint decoding incl. 9-byte negatives.",
 "DESIGN.md §4 C04")
CLAIMED["C13"] = ("traversal tables of the IterMin methods incl. the first-child flag; predicate orientation of the binary searches; cut-off tables of ScanEq/ScanRange/ScanMin; comparison tables shared with C11",
 "Decides the shape of from-key scans (search, tail iteration, child before entry, first child searched and later ones scanned), that the binary search compares (key, record) in that order with errors latched, and the range/equality cut-off tables.",
 "DESIGN.md §4 C13")

CLAIMED["C05"] = ("obligation enumeration over SSA (every panic-capable instruction) discharged per path by a difference-constraint prover with checked contracts, call-site preconditions and field invariants; nil-result rule; call-graph SCC fuel rule; loop classification",
 "Decides that no index/slice/division/allocation/assertion/explicit panic is reachable with a violating value on any path of any API-reachable function, that nil-able lookup results are guarded, that every recursion cycle spends budget and every loop is bounded. Sound up to the stated assumptions (documented API argument types, stdlib contracts); it does not bound the size of work.",
 "DESIGN.md §4 C05, §3.4")
CLAIMED["C10"] = ("yacc grammar def-use analysis against the compiled action switch; decision tables of the schema builder (rowid alias, collation inheritance, auto-index counter); nil-result rule; error-flow exceptions",
 "Decides that every grammar value reported comes from the element's own production, the rowid-alias table and its call-site guards, case-insensitive collation inheritance with the index's own COLLATE taking precedence, that the automatic-index counter advances only when an index was added, and that an unparseable table is an error while an unparseable index is omitted.",
 "DESIGN.md §4 C10, §3.3")
CLAIMED["C16"] = ("grammar def-use (locality), package-state write analysis + fresh-parser rule (determinism), panic/termination obligations over tokenizer, lexer and action switch (totality)",
 "Decides locality (no stale value-stack slot can leak between elements), determinism (no package state written, fresh lexer and parser per call) and totality (all panic sites of the hand-written SQL code discharged, loops and recursion bounded, value-stack indices within the production length). The goyacc driver skeleton is trusted.",
 "DESIGN.md §4 C16")
CLAIMED["C18"] = ("origin analysis of every []byte handed out; no-store-through-the-row rule; conversion-constant table; panic obligations of row.go",
 "Decides that scanned byte slices are fresh copies, that scanning never modifies the row, that every row index is guarded, and that the conversion calls use the documented bases/bit sizes/layouts with zero values for NULL and missing columns.",
 "DESIGN.md §4 C18")

NA_REASON_NOT_BUILT = "check not built yet in this round; DESIGN.md §4 describes the structural clauses that will be claimed"
ALL = ["C%02d" % i for i in range(1, 21)]

def main():
    checks = []
    for pid in ALL:
        if pid not in CLAIMED:
            continue
        tech, text, ref = CLAIMED[pid]
        checks.append({
            "property_id": pid,
            "quick_cmd": "./run.sh %s quick" % pid,
            "thorough_cmd": "./run.sh %s thorough" % pid,
            "evidence_file": "/verif/evidence/%s.json" % pid,
            "replay_cmd_template": "./bin/sqlcheck -explain {path}",
            "engine": "sqlcheck",
            "level_claimed": {"category": "other", "text": text, "design_ref": ref},
            "level_note": LEVEL_NOTE,
            "technique": "static analysis: " + tech,
        })
    na = [{"property_id": pid, "reason": NA.get(pid, NA_REASON_NOT_BUILT)} for pid in ALL if pid not in CLAIMED]
    m = {
        "version": 1,
        "setup_cmd": "./build.sh",
        "hooks": {
            "guard": "verif",
            "enable": "none needed: static analysis reads /repo's source; no instrumentation is compiled in",
            "baseline_off_cmd": "cd /repo && GOFLAGS=-mod=mod GOPROXY=off go test -vet=off -count=1 ./...",
            "source_commits": [],
            "add_only": True,
        },
        "engines": [{
            "name": "sqlcheck",
            "path": "checker/",
            "serves_properties": sorted(CLAIMED),
            "kind_free_text": "repository-specific static analyser (Go; go/packages + go/ssa + VTA call graph from x/tools v0.29.0): bracket/must-pass-through, error/done value-flow, grammar def-use, decision tables by abstract evaluation, format constants, panic/termination obligations",
        }],
        "checks": checks,
        "notes": "All checks are static: they load and type-check /repo's working tree on every run and never execute sqlittle or its tests. Known findings are listed in known_findings.json (never written at run time).",
        "not_applicable": na,
    }
    json.dump(m, open("MANIFEST.json", "w"), indent=1)
    open("MANIFEST.json", "a").write("\n")

NA = {}
if __name__ == "__main__":
    main()
