#!/bin/bash
# usage: trymut.sh <patch> <prop>...   apply a patch to /repo, run the quick checks of the given properties, undo
P="$1"; shift
git -C /repo apply "$P" || { echo "APPLY FAILED $P"; exit 2; }
for prop in "$@"; do
  out=$(./bin/sqlcheck -repo /repo -prop "$prop" -no-evidence 2>&1)
  if echo "$out" | grep -q "^VIOLATION"; then echo "DETECTED by $prop:"; echo "$out" | grep -E "^  (violation|undecided)" | head -5; else echo "missed by $prop"; fi
done
git -C /repo checkout -- . 
