#!/bin/bash
# usage: revfix.sh <fix-commit> <prop>...  : undo one fix commit in /repo's working tree, run the checks, restore
C="$1"; shift
git -C /repo show "$C" | git -C /repo apply -R || { echo "REVERT FAILED"; exit 2; }
for prop in "$@"; do
  out=$(./bin/sqlcheck -repo /repo -prop "$prop" -no-evidence 2>&1)
  if echo "$out" | grep -q "^VIOLATION"; then echo "DETECTED by $prop:"; echo "$out" | grep -E "^  (violation|undecided)" | head -6; else echo "missed by $prop"; fi
done
git -C /repo checkout -- .
